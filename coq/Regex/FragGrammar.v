(* The recogniser of FragParser.v is sound and complete for the inductive grammar of Grammar.v:
     sp_pattern_sound    : sp_pattern u l = SOk tt r -> Pattern u l            (any l, both modes)
     sp_pattern_complete : Pattern u l -> sp_pattern u l = SOk tt [] *)
From Coq Require Import List NArith Bool Lia PeanoNat.
From V Require Import Regex.Grammar Regex.FragParser.
Import ListNotations.
Open Scope N_scope.

Lemma nonsyntax_pattern_char u c : syntax_character c = false -> pattern_char u c = true.
Proof.
  intros H. destruct u; cbn [pattern_char]; [rewrite H; reflexivity|].
  unfold syntax_character, extended_pattern_character in *. cbn [existsb] in *.
  repeat (apply orb_false_iff in H; destruct H as [?E H]).
  repeat match goal with Hc : (_ =? _) = false |- _ => rewrite Hc; clear Hc end. reflexivity.
Qed.
Lemma pattern_char_not_quant u c : pattern_char u c = true -> is_quant_char c = false.
Proof.
  intros H. unfold is_quant_char.
  destruct (N.eqb_spec c g_star) as [->|_]; [destruct u; discriminate|].
  destruct (N.eqb_spec c g_plus) as [->|_]; [destruct u; discriminate|].
  destruct (N.eqb_spec c g_question) as [->|_]; [destruct u; discriminate|]. reflexivity.
Qed.
(* the units that are an ExtendedPatternCharacter but not a PatternCharacter *)
Lemma ext_syntax_cases c : extended_pattern_character c = true -> syntax_character c = true ->
  c = g_lbrace \/ c = g_rbrace \/ c = g_rbracket.
Proof.
  unfold extended_pattern_character, syntax_character. cbn [existsb]. intros He Hs. apply negb_true_iff in He.
  repeat match goal with H : (_ || _)%bool = false |- _ => apply orb_false_iff in H; destruct H end.
  repeat match goal with Hc : (_ =? _) = false |- _ => rewrite Hc in Hs; clear Hc end.
  cbn [orb] in Hs. repeat (apply orb_true_iff in Hs; destruct Hs as [Hs|Hs]); try discriminate Hs;
    apply N.eqb_eq in Hs; auto.
Qed.

(* ---- decimal digits and the braced quantifier ---- *)
Definition digit (d : N) : Prop := decimal_digit d = true.
Definition nodigit (r : list N) : Prop := match r with c :: _ => decimal_digit c = false | [] => True end.
Lemma span_digits_spec l : l = fst (span_digits l) ++ snd (span_digits l) /\ Forall digit (fst (span_digits l)) /\
  nodigit (snd (span_digits l)).
Proof.
  induction l as [|c l IH]; cbn [span_digits]; [repeat split; constructor|].
  destruct (decimal_digit c) eqn:Ec.
  - destruct (span_digits l) as [ds r']. cbn [fst snd] in *. destruct IH as [IH1 [IH2 IH3]]. repeat split.
    + cbn [app]. f_equal. exact IH1.
    + constructor; assumption.
    + exact IH3.
  - cbn [fst snd]. repeat split; [constructor|exact Ec].
Qed.
Lemma span_digits_app ds r : Forall digit ds -> nodigit r -> span_digits (ds ++ r) = (ds, r).
Proof.
  intros Hd Hr. induction Hd as [|d ds Hd _ IH]; cbn [app].
  - destruct r as [|c r]; [reflexivity|]. cbn [span_digits]. cbn in Hr. rewrite Hr. reflexivity.
  - cbn [span_digits]. rewrite Hd. rewrite IH. reflexivity.
Qed.
Lemma dec_value_snoc ds d : dec_value (ds ++ [d]) = 10 * dec_value ds + (d - 48).
Proof. unfold dec_value. rewrite fold_left_app. reflexivity. Qed.
Lemma DecimalDigits_spec ds v : DecimalDigits ds v -> ds <> [] /\ Forall digit ds /\ dec_value ds = v.
Proof.
  induction 1 as [d Hd|ds v d _ [IH1 [IH2 IH3]] Hd].
  - repeat split; [discriminate|constructor; [exact Hd|constructor]].
  - repeat split.
    + destruct ds; discriminate.
    + apply Forall_app. split; [exact IH2|constructor; [exact Hd|constructor]].
    + rewrite dec_value_snoc, IH3. reflexivity.
Qed.
Lemma DecimalDigits_intro ds : ds <> [] -> Forall digit ds -> DecimalDigits ds (dec_value ds).
Proof.
  induction ds as [|d ds IH] using rev_ind; [intros H; contradiction|]. intros _ Hf.
  apply Forall_app in Hf. destruct Hf as [Hf Hd]. inversion Hd as [|d' l' Hd' _]; subst.
  rewrite dec_value_snoc. destruct ds as [|d0 ds'].
  - cbn [app]. change (dec_value []) with 0. rewrite N.mul_0_r, N.add_0_l. apply DD_digit. exact Hd'.
  - apply DD_more; [apply IH; [discriminate|exact Hf]|exact Hd'].
Qed.
Lemma is_nil_false {A} (l : list A) : l <> [] -> is_nil l = false.
Proof. destruct l; [contradiction|reflexivity]. Qed.

Lemma sp_braced_complete q n om : Braced q n om -> forall r, sp_braced (q ++ r) = Some (n, om, r).
Proof.
  intros HB r. destruct HB as [ds n Hd|ds n Hd|ds n es m Hd He].
  - apply DecimalDigits_spec in Hd. destruct Hd as [Hne [Hf <-]].
    cbn [app sp_braced]. rewrite N.eqb_refl. rewrite <- app_assoc. rewrite (span_digits_app ds _ Hf) by reflexivity.
    rewrite (is_nil_false ds Hne). cbn [app]. rewrite N.eqb_refl. reflexivity.
  - apply DecimalDigits_spec in Hd. destruct Hd as [Hne [Hf <-]].
    cbn [app sp_braced]. rewrite N.eqb_refl. rewrite <- app_assoc. rewrite (span_digits_app ds _ Hf) by reflexivity.
    rewrite (is_nil_false ds Hne). cbn [app]. cbn [N.eqb Pos.eqb g_comma g_rbrace].
    change (span_digits (125 :: r)) with (@nil N, 125 :: r). cbn [N.eqb Pos.eqb is_nil]. reflexivity.
  - apply DecimalDigits_spec in Hd. destruct Hd as [Hne [Hf <-]].
    apply DecimalDigits_spec in He. destruct He as [Hne' [Hf' <-]].
    cbn [app sp_braced]. rewrite N.eqb_refl. rewrite <- app_assoc. rewrite (span_digits_app ds _ Hf) by reflexivity.
    rewrite (is_nil_false ds Hne). cbn [app]. cbn [N.eqb Pos.eqb g_comma g_rbrace].
    rewrite <- app_assoc. rewrite (span_digits_app es _ Hf') by reflexivity. cbn [app].
    cbn [N.eqb Pos.eqb]. rewrite (is_nil_false es Hne'). reflexivity.
Qed.
Lemma sp_braced_sound l n om r : sp_braced l = Some (n, om, r) -> exists q, Braced q n om /\ l = q ++ r.
Proof.
  destruct l as [|c l']; cbn [sp_braced]; [discriminate|].
  destruct (N.eqb_spec c g_lbrace) as [->|_]; [|discriminate].
  destruct (span_digits_spec l') as [E1 [F1 _]]. destruct (span_digits l') as [ds r1]. cbn [fst snd] in *.
  destruct ds as [|d0 ds0] eqn:Eds; cbn [is_nil]; [discriminate|]. rewrite <- Eds in *.
  assert (Hd : DecimalDigits ds (dec_value ds)) by (apply DecimalDigits_intro; [subst ds; discriminate|exact F1]).
  destruct r1 as [|c1 r2]; [discriminate|].
  destruct (N.eqb_spec c1 g_rbrace) as [->|_].
  { intros [= <- <- <-]. exists (g_lbrace :: ds ++ [g_rbrace]). split; [apply Br_exact; exact Hd|].
    cbn [app]. rewrite <- app_assoc. rewrite E1. reflexivity. }
  destruct (N.eqb_spec c1 g_comma) as [->|_]; [|discriminate].
  destruct (span_digits_spec r2) as [E2 [F2 _]]. destruct (span_digits r2) as [es r3]. cbn [fst snd] in *.
  destruct r3 as [|c3 r4]; [discriminate|].
  destruct (N.eqb_spec c3 g_rbrace) as [->|_]; [|discriminate].
  destruct es as [|e0 es0] eqn:Ees; cbn [is_nil].
  - intros [= <- <- <-]. exists (g_lbrace :: ds ++ [g_comma; g_rbrace]). split; [apply Br_at_least; exact Hd|].
    cbn [app]. rewrite <- app_assoc. rewrite E1, E2. reflexivity.
  - rewrite <- Ees in *. intros [= <- <- <-].
    assert (He : DecimalDigits es (dec_value es)) by (apply DecimalDigits_intro; [subst es; discriminate|exact F2]).
    exists (g_lbrace :: ds ++ g_comma :: es ++ [g_rbrace]). split; [apply Br_range; assumption|].
    cbn [app]. rewrite <- app_assoc. cbn [app]. rewrite <- app_assoc. rewrite E1, E2. reflexivity.
Qed.
Lemma Braced_head q n om : Braced q n om -> exists q', q = g_lbrace :: q'.
Proof. intros [ds ? _|ds ? _|ds ? es ? _ _]; eexists; reflexivity. Qed.
Lemma not_ibq_head c r : c <> g_lbrace -> forall q r', InvalidBracedQuantifier q -> c :: r <> q ++ r'.
Proof. intros Hc q r' [n [om HB]] E. apply Braced_head in HB. destruct HB as [q' ->]. cbn [app] in E. congruence. Qed.
Lemma not_ibq_none l : sp_braced l = None -> forall q r', InvalidBracedQuantifier q -> l <> q ++ r'.
Proof. intros Hn q r' [n [om HB]] ->. rewrite (sp_braced_complete q n om HB r') in Hn. discriminate. Qed.

(* no quantifier starts here (as consume_quantifier(false) sees it) *)
Definition noq (u : bool) (r : list N) : Prop := sp_quant u false r = SOk false r.
Definition stop (r : list N) : Prop := r = [] \/ exists r', r = g_rparen :: r'.

Lemma stop_noq u r : stop r -> noq u r.
Proof. intros [->|[r' ->]]; destruct u; reflexivity. Qed.
Lemma noq_head u c r : noq u (c :: r) -> is_quant_char c = false.
Proof. unfold noq. cbn [sp_quant]. destruct (is_quant_char c); [discriminate|reflexivity]. Qed.
Lemma noq_skip_lazy u r : noq u r -> skip_lazy r = r.
Proof.
  destruct r as [|c r]; [reflexivity|]. intros H. apply noq_head in H. cbn [skip_lazy].
  unfold is_quant_char in H. apply orb_false_iff in H. destruct H as [_ H]. rewrite H. reflexivity.
Qed.
Lemma sp_brq_not_brace u ne c r : (c =? g_lbrace) = false -> sp_brq u ne (c :: r) = SOk false (c :: r).
Proof. intros H. unfold sp_brq. cbn [sp_braced starts_with]. rewrite H. rewrite andb_false_r. reflexivity. Qed.

(* ---- hexadecimal digits and the escapes ---- *)
Definition hexd (d : N) : Prop := hex_digit d = true.
Definition nohex (r : list N) : Prop := match r with c :: _ => hex_digit c = false | [] => True end.
Lemma span_hex_spec l : l = fst (span_hex l) ++ snd (span_hex l) /\ Forall hexd (fst (span_hex l)) /\ nohex (snd (span_hex l)).
Proof.
  induction l as [|c l IH]; cbn [span_hex]; [repeat split; constructor|].
  destruct (hex_digit c) eqn:Ec.
  - destruct (span_hex l) as [ds r']. cbn [fst snd] in *. destruct IH as [IH1 [IH2 IH3]]. repeat split.
    + cbn [app]. f_equal. exact IH1.
    + constructor; assumption.
    + exact IH3.
  - cbn [fst snd]. repeat split; [constructor|exact Ec].
Qed.
Lemma span_hex_app ds r : Forall hexd ds -> nohex r -> span_hex (ds ++ r) = (ds, r).
Proof.
  intros Hd Hr. induction Hd as [|d ds Hd _ IH]; cbn [app].
  - destruct r as [|c r]; [reflexivity|]. cbn [span_hex]. cbn in Hr. rewrite Hr. reflexivity.
  - cbn [span_hex]. rewrite Hd. rewrite IH. reflexivity.
Qed.
Lemma hex_value_snoc ds d : hex_value (ds ++ [d]) = 16 * hex_value ds + hex_digit_value d.
Proof. unfold hex_value. rewrite fold_left_app. reflexivity. Qed.
Lemma HexDigits_spec ds v : HexDigits ds v -> ds <> [] /\ Forall hexd ds /\ hex_value ds = v.
Proof.
  induction 1 as [d Hd|ds v d _ [IH1 [IH2 IH3]] Hd].
  - repeat split; [discriminate|constructor; [exact Hd|constructor]].
  - repeat split.
    + destruct ds; discriminate.
    + apply Forall_app. split; [exact IH2|constructor; [exact Hd|constructor]].
    + rewrite hex_value_snoc, IH3. reflexivity.
Qed.
Lemma HexDigits_intro ds : ds <> [] -> Forall hexd ds -> HexDigits ds (hex_value ds).
Proof.
  induction ds as [|d ds IH] using rev_ind; [intros H; contradiction|]. intros _ Hf.
  apply Forall_app in Hf. destruct Hf as [Hf Hd]. inversion Hd as [|d' l' Hd' _]; subst.
  rewrite hex_value_snoc. destruct ds as [|d0 ds'].
  - cbn [app]. change (hex_value []) with 0. rewrite N.mul_0_r, N.add_0_l. apply HD_digit. exact Hd'.
  - apply HD_more; [apply IH; [discriminate|exact Hf]|exact Hd'].
Qed.
Lemma hex_run_spec n : forall l acc v r, hex_run n l acc = Some (v, r) ->
  exists hs, l = hs ++ r /\ length hs = n /\ Forall hexd hs /\ v = fold_left hex_step hs acc.
Proof.
  induction n as [|n IH]; intros l acc v r; cbn [hex_run].
  - intros [= <- <-]. exists []. repeat split. constructor.
  - destruct l as [|c l']; [discriminate|]. destruct (hex_digit c) eqn:Ec; [|discriminate]. intros H.
    apply IH in H. destruct H as [hs [-> [Hl [Hf ->]]]]. exists (c :: hs). repeat split.
    + cbn [length]. rewrite Hl. reflexivity.
    + constructor; assumption.
Qed.
Lemma hex_run_app hs : Forall hexd hs -> forall r acc, hex_run (length hs) (hs ++ r) acc = Some (fold_left hex_step hs acc, r).
Proof.
  induction 1 as [|h hs Hh _ IH]; intros r acc; [reflexivity|]. cbn [length app hex_run fold_left]. rewrite Hh. apply IH.
Qed.
Lemma hex_run_none n : forall l acc, hex_run n l acc = None ->
  forall hs r, length hs = n -> Forall hexd hs -> l <> hs ++ r.
Proof.
  intros l acc Hn hs r Hl Hf ->. subst n. rewrite (hex_run_app hs Hf) in Hn. discriminate.
Qed.
Lemma Hex4Digits_run hs v r : Hex4Digits hs v -> hex_run 4 (hs ++ r) 0 = Some (v, r).
Proof.
  intros [Hd Hl]. apply HexDigits_spec in Hd. destruct Hd as [_ [Hf <-]]. rewrite <- Hl. apply (hex_run_app hs Hf).
Qed.
Lemma run_Hex4Digits l v r : hex_run 4 l 0 = Some (v, r) -> exists hs, l = hs ++ r /\ Hex4Digits hs v.
Proof.
  intros H. apply hex_run_spec in H. destruct H as [hs [-> [Hl [Hf ->]]]]. exists hs. split; [reflexivity|].
  split; [|exact Hl]. apply HexDigits_intro; [destruct hs; [discriminate|discriminate]|exact Hf].
Qed.
Lemma hexd_not_special hs : Forall hexd hs -> Forall (fun c => c <> g_backslash /\ c <> g_lbrace /\ c <> g_rbrace) hs.
Proof.
  apply Forall_impl. intros c Hc. unfold hexd in Hc. repeat split; intros ->; discriminate Hc.
Qed.

Lemma sp_codepoint_complete ds v r : HexDigits ds v -> v <= 1114111 -> sp_codepoint (g_lbrace :: ds ++ g_rbrace :: r) = SOk true r.
Proof.
  intros Hd Hv. apply HexDigits_spec in Hd. destruct Hd as [Hne [Hf <-]]. cbn [sp_codepoint]. rewrite N.eqb_refl.
  rewrite (span_hex_app ds _ Hf) by reflexivity. rewrite (is_nil_false ds Hne). rewrite N.eqb_refl. cbn [andb].
  apply N.leb_le in Hv. rewrite Hv. reflexivity.
Qed.
Lemma sp_codepoint_sound l b r : sp_codepoint l = SOk b r ->
  (b = true /\ exists ds v, HexDigits ds v /\ v <= 1114111 /\ l = g_lbrace :: ds ++ g_rbrace :: r) \/ (b = false /\ r = l).
Proof.
  destruct l as [|c l']; cbn [sp_codepoint]; [intros [= <- <-]; right; split; reflexivity|].
  destruct (N.eqb_spec c g_lbrace) as [->|_]; [|intros [= <- <-]; right; split; reflexivity].
  destruct (span_hex_spec l') as [E1 [F1 _]]. destruct (span_hex l') as [ds r1]. cbn [fst snd] in *.
  destruct (is_nil ds) eqn:En; [intros [= <- <-]; right; split; reflexivity|].
  destruct r1 as [|c1 r2]; [intros [= <- <-]; right; split; reflexivity|].
  destruct ((c1 =? g_rbrace) && (hex_value ds <=? 1114111))%bool eqn:Et; [|intros [= <- <-]; right; split; reflexivity].
  apply andb_true_iff in Et. destruct Et as [Ec Ev]. apply N.eqb_eq in Ec. subst c1. apply N.leb_le in Ev.
  intros [= <- <-]. left. split; [reflexivity|]. exists ds, (hex_value ds). split; [|split; [exact Ev|rewrite E1; reflexivity]].
  apply HexDigits_intro; [intros ->; discriminate En|exact F1].
Qed.

Lemma sp_fixed_hex_false n l b r : sp_fixed_hex n l = (b, r) -> b = false -> r = l /\ hex_run n l 0 = None.
Proof. unfold sp_fixed_hex. destruct (hex_run n l 0) as [[v r0]|]; intros [= <- <-]; [discriminate|]. intros _. split; reflexivity. Qed.
Lemma sp_surrogate_pair_true l r : sp_surrogate_pair l = (true, r) ->
  exists hs v ts w, Hex4Digits hs v /\ lead_surrogate v = true /\ Hex4Digits ts w /\ trail_surrogate w = true /\
                    l = hs ++ g_backslash :: 117 :: ts ++ r.
Proof.
  unfold sp_surrogate_pair. destruct (hex_run 4 l 0) as [[v r1]|] eqn:E1; [|discriminate].
  destruct (lead_surrogate v) eqn:El; [|discriminate].
  destruct r1 as [|b [|x r2]]; try discriminate.
  destruct ((b =? g_backslash) && (x =? 117))%bool eqn:Eb; [|discriminate].
  apply andb_true_iff in Eb. destruct Eb as [Eb Ex]. apply N.eqb_eq in Eb, Ex. subst b x.
  destruct (hex_run 4 r2 0) as [[w r3]|] eqn:E2; [|discriminate].
  destruct (trail_surrogate w) eqn:Et; [|discriminate]. intros [= <-].
  apply run_Hex4Digits in E1, E2. destruct E1 as [hs [-> Hh]]. destruct E2 as [ts [-> Ht]].
  exists hs, v, ts, w. repeat split; try assumption; apply Hh || apply Ht.
Qed.
Lemma sp_surrogate_pair_complete hs v ts w r : Hex4Digits hs v -> lead_surrogate v = true -> Hex4Digits ts w ->
  trail_surrogate w = true -> sp_surrogate_pair (hs ++ g_backslash :: 117 :: ts ++ r) = (true, r).
Proof.
  intros Hh Hl Ht Hw. unfold sp_surrogate_pair. rewrite (Hex4Digits_run hs v _ Hh). rewrite Hl.
  rewrite N.eqb_refl. cbn [N.eqb Pos.eqb andb]. rewrite (Hex4Digits_run ts w _ Ht). rewrite Hw. reflexivity.
Qed.
Lemma sp_surrogate_pair_lone hs v r : Hex4Digits hs v -> (lead_surrogate v = true -> ~ trail_escape_follows r) ->
  sp_surrogate_pair (hs ++ r) = (false, hs ++ r).
Proof.
  intros Hh Hn. unfold sp_surrogate_pair. rewrite (Hex4Digits_run hs v _ Hh).
  destruct (lead_surrogate v) eqn:El; [|reflexivity]. specialize (Hn eq_refl).
  destruct r as [|b [|x r2]]; try reflexivity.
  destruct ((b =? g_backslash) && (x =? 117))%bool eqn:Eb; [|reflexivity].
  apply andb_true_iff in Eb. destruct Eb as [Eb Ex]. apply N.eqb_eq in Eb, Ex. subst b x.
  destruct (hex_run 4 r2 0) as [[w r3]|] eqn:E2; [|reflexivity].
  destruct (trail_surrogate w) eqn:Et; [|reflexivity]. exfalso. apply Hn.
  apply run_Hex4Digits in E2. destruct E2 as [ts [-> Ht]]. exists ts, w, r3. repeat split; assumption || apply Ht.
Qed.
Lemma sp_surrogate_pair_false l b r : sp_surrogate_pair l = (b, r) -> b = false -> r = l.
Proof.
  unfold sp_surrogate_pair. intros H Hb. subst b.
  repeat match type of H with
         | (match ?x with _ => _ end) = _ => destruct x
         | (if ?x then _ else _) = _ => destruct x
         | (let '(_, _) := ?x in _) = _ => destruct x
         end; inversion H; reflexivity.
Qed.

(* ================= soundness ================= *)
Lemma skip_lazy_cases r : skip_lazy r = r \/ r = g_question :: skip_lazy r.
Proof. destruct r as [|q r']; [left; reflexivity|]. cbn [skip_lazy]. destruct (N.eqb_spec q g_question) as [->|_]; [right|left]; reflexivity. Qed.
Lemma Quantifier_of_prefix p r : QuantifierPrefix p -> exists q, p ++ r = q ++ skip_lazy r /\ Quantifier q.
Proof.
  intros Hp. destruct (skip_lazy_cases r) as [E|E].
  - exists p. rewrite E. split; [reflexivity|apply Q_greedy; exact Hp].
  - exists (p ++ [g_question]). split; [rewrite <- app_assoc; cbn [app]; rewrite <- E; reflexivity|apply Q_lazy; exact Hp].
Qed.
Lemma sp_quant_sound u l r : sp_quant u false l = SOk true r -> exists q, l = q ++ r /\ Quantifier q.
Proof.
  destruct l as [|c l']; cbn [sp_quant]; [discriminate|].
  destruct (is_quant_char c) eqn:Eq.
  - intros [= <-].
    assert (Hp : QuantifierPrefix [c]).
    { unfold is_quant_char in Eq. apply orb_true_iff in Eq. destruct Eq as [Eq|Eq]; [apply orb_true_iff in Eq; destruct Eq as [Eq|Eq]|];
        apply N.eqb_eq in Eq; subst c; constructor. }
    exact (Quantifier_of_prefix [c] l' Hp).
  - unfold sp_brq. destruct (sp_braced (c :: l')) as [[[n om] r']|] eqn:Eb.
    + cbn [negb andb]. destruct (bounds_ok n om) eqn:Ebo; cbn [negb]; [|discriminate]. intros [= <-].
      apply sp_braced_sound in Eb. destruct Eb as [q [HB ->]].
      apply Quantifier_of_prefix. apply (QP_braced q n om HB).
      intros m ->. cbn [bounds_ok] in Ebo. apply N.leb_le in Ebo. exact Ebo.
    + destruct (negb false && u && starts_with g_lbrace (c :: l'))%bool; discriminate.
Qed.
Lemma sp_brq_false u ne l r : sp_brq u ne l = SOk false r -> r = l.
Proof.
  unfold sp_brq. destruct (sp_braced l) as [[[n om] r']|].
  - destruct (negb ne && negb (bounds_ok n om))%bool; discriminate.
  - destruct (negb ne && u && starts_with g_lbrace l)%bool; [discriminate|intros [= <-]; reflexivity].
Qed.
Lemma sp_quant_false u ne l r : sp_quant u ne l = SOk false r -> r = l.
Proof.
  destruct l as [|c l']; cbn [sp_quant]; [intros [= <-]; reflexivity|].
  destruct (is_quant_char c); [discriminate|].
  destruct (sp_brq u ne (c :: l')) as [[|] r'| |] eqn:E; try discriminate. intros [= <-]. exact (sp_brq_false _ _ _ _ E).
Qed.

Lemma Alternative_cons u np t a r k1 k2 : Term u np t (a ++ r) k1 -> Alternative u np a r k2 ->
  Alternative u np (t ++ a) r (k1 + k2).
Proof.
  intros Ht Ha. revert t k1 Ht. induction Ha as [r|a t' r ka kt Ha IH Ht']; intros t k1 Ht.
  - rewrite app_nil_r in *. rewrite N.add_0_r. change t with ([] ++ t). replace k1 with (0 + k1) by apply N.add_0_l.
    apply A_term; [apply A_empty|exact Ht].
  - rewrite app_assoc. rewrite N.add_assoc. apply A_term; [|exact Ht']. apply IH. rewrite <- app_assoc in Ht. exact Ht.
Qed.

(* ---- decimal escapes and legacy octal escapes ---- *)
Lemma non_zero_digit_digit c : non_zero_digit c = true -> decimal_digit c = true.
Proof.
  unfold non_zero_digit, decimal_digit. intros H. apply andb_true_iff in H. destruct H as [H1 H2]. rewrite H2, andb_true_r.
  apply N.leb_le in H1. apply N.leb_le. lia.
Qed.
Lemma span_digits_cons c r : decimal_digit c = true -> span_digits (c :: r) = (c :: fst (span_digits r), snd (span_digits r)).
Proof. intros H. cbn [span_digits]. rewrite H. destruct (span_digits r); reflexivity. Qed.
Lemma no_digit_follows_nodigit r : no_digit_follows r <-> nodigit r.
Proof. destruct r; split; trivial. Qed.
(* a DecimalEscape at l is the maximal run of digits *)
Lemma DecimalEscape_run ds v r : DecimalEscape ds v r -> span_digits (ds ++ r) = (ds, r) /\ dec_value ds = v /\
  exists d ds', ds = d :: ds' /\ non_zero_digit d = true.
Proof.
  intros [d ds' v0 r0 Hd HD Hn]. apply DecimalDigits_spec in HD. destruct HD as [_ [Hf Hv]].
  split; [apply span_digits_app; [exact Hf|apply no_digit_follows_nodigit; exact Hn]|]. split; [exact Hv|].
  exists d, ds'. split; [reflexivity|exact Hd].
Qed.
Lemma sp_backref_complete u np ds v r : DecimalEscape ds v r -> v <= np -> sp_backref u np (ds ++ r) = SOk true r.
Proof.
  intros HD Hv. destruct (DecimalEscape_run ds v r HD) as [Hs [Hval [d [ds' [-> Hd]]]]].
  cbn [app sp_backref]. rewrite Hd. cbn [app] in Hs. rewrite (span_digits_cons d _ (non_zero_digit_digit d Hd)) in Hs.
  injection Hs as Hs1 Hs2. rewrite Hs1, Hs2, Hval. apply N.leb_le in Hv. rewrite Hv. reflexivity.
Qed.
Lemma sp_backref_sound u np l b r : sp_backref u np l = SOk b r ->
  (b = true /\ exists ds v, l = ds ++ r /\ DecimalEscape ds v r /\ v <= np) \/
  (b = false /\ r = l /\ ~ decimal_escape_matches np l).
Proof.
  destruct l as [|c l']; cbn [sp_backref].
  { intros [= <- <-]. right. repeat split. intros [ds [v [r0 [HD [_ E]]]]].
    destruct (DecimalEscape_run ds v r0 HD) as [_ [_ [d [ds' [-> _]]]]]. discriminate E. }
  destruct (non_zero_digit c) eqn:Ec.
  2:{ intros [= <- <-]. right. repeat split. intros [ds [v [r0 [HD [_ E]]]]].
      destruct (DecimalEscape_run ds v r0 HD) as [_ [_ [d [ds' [-> Hd]]]]]. injection E as -> _. congruence. }
  pose proof (non_zero_digit_digit c Ec) as Hdig.
  destruct (span_digits_spec l') as [E1 [F1 N1]].
  assert (HD : DecimalEscape (c :: fst (span_digits l')) (dec_value (c :: fst (span_digits l'))) (snd (span_digits l'))).
  { apply DE_digits; [exact Ec| |apply no_digit_follows_nodigit; exact N1].
    apply DecimalDigits_intro; [discriminate|constructor; assumption]. }
  destruct (dec_value (c :: fst (span_digits l')) <=? np) eqn:Ev.
  - intros [= <- <-]. left. split; [reflexivity|]. exists (c :: fst (span_digits l')), (dec_value (c :: fst (span_digits l'))).
    split; [cbn [app]; rewrite <- E1; reflexivity|]. split; [exact HD|apply N.leb_le; exact Ev].
  - destruct u; [discriminate|]. intros [= <- <-]. right. repeat split. intros [ds [v [r0 [HD' [Hv E]]]]].
    destruct (DecimalEscape_run ds v r0 HD') as [Hs [Hval _]]. rewrite <- E in Hs.
    rewrite (span_digits_cons c l' Hdig) in Hs. injection Hs as Hs1 Hs2. rewrite Hs1, Hval in Ev.
    apply N.leb_gt in Ev. lia.
Qed.
Lemma sp_backref_skip u np l : (u = false \/ match l with c :: _ => non_zero_digit c = false | [] => True end) ->
  ~ decimal_escape_matches np l -> sp_backref u np l = SOk false l.
Proof.
  intros Hu Hn. destruct (sp_backref u np l) as [[|] r| |] eqn:E.
  - apply sp_backref_sound in E. destruct E as [[_ [ds [v [-> [HD Hv]]]]]|[E _]]; [|discriminate].
    exfalso. apply Hn. exists ds, v, r. repeat split; assumption.
  - apply sp_backref_sound in E. destruct E as [[E _]|[_ [-> _]]]; [discriminate|reflexivity].
  - exfalso. destruct l as [|c l']; [discriminate E|]. cbn [sp_backref] in E. destruct Hu as [->|Hc].
    + destruct (non_zero_digit c); [destruct (_ <=? np)|]; discriminate E.
    + rewrite Hc in E. discriminate E.
  - destruct l as [|c l']; [discriminate E|]. cbn [sp_backref] in E.
    destruct (non_zero_digit c); [destruct (_ <=? np); [|destruct u]|]; discriminate E.
Qed.
Lemma not_decimal_escape np c r : non_zero_digit c = false -> ~ decimal_escape_matches np (c :: r).
Proof.
  intros Hc [ds [v [r0 [HD [_ E]]]]]. destruct (DecimalEscape_run ds v r0 HD) as [_ [_ [d [ds' [-> Hd]]]]].
  injection E as -> _. congruence.
Qed.

Lemma octal_is_digit c : octal_digit c = true -> decimal_digit c = true.
Proof.
  unfold octal_digit, decimal_digit. intros H. apply andb_true_iff in H. destruct H as [H1 H2]. rewrite H1.
  apply N.leb_le in H2. apply N.leb_le. lia.
Qed.
Lemma octal_split c : octal_digit c = true -> zero_to_three c = false -> four_to_seven c = true.
Proof.
  unfold octal_digit, zero_to_three, four_to_seven. intros H1 H2. apply andb_true_iff in H1. destruct H1 as [H1 H3].
  rewrite H1 in H2. cbn [andb] in H2. rewrite H3, andb_true_r. apply N.leb_gt in H2. apply N.leb_le. lia.
Qed.
Lemma zero_to_three_octal c : zero_to_three c = true -> octal_digit c = true.
Proof.
  unfold octal_digit, zero_to_three. intros H. apply andb_true_iff in H. destruct H as [H1 H2]. rewrite H1.
  apply N.leb_le in H2. apply N.leb_le. lia.
Qed.
Lemma four_to_seven_octal c : four_to_seven c = true -> octal_digit c = true /\ zero_to_three c = false /\ c <> 48.
Proof.
  unfold octal_digit, zero_to_three, four_to_seven. intros H. apply andb_true_iff in H. destruct H as [H1 H2].
  apply N.leb_le in H1. rewrite H2. repeat split.
  - rewrite andb_true_r. apply N.leb_le. lia.
  - apply andb_false_iff. right. apply N.leb_gt. lia.
  - lia.
Qed.
Lemma digit_not_octal d : decimal_digit d = true -> octal_digit d = false -> d = 56 \/ d = 57.
Proof.
  unfold decimal_digit, octal_digit. intros H1 H2. apply andb_true_iff in H1. destruct H1 as [H1 H3]. rewrite H1 in H2.
  cbn [andb] in H2. apply N.leb_le in H1, H3. apply N.leb_gt in H2. lia.
Qed.
Definition nooctal (r : list N) : bool := match r with c :: _ => negb (octal_digit c) | [] => true end.
Lemma nooctal_follows r : nooctal r = true <-> no_octal_follows r.
Proof. destruct r as [|c r]; cbn; [tauto|]. rewrite negb_true_iff. tauto. Qed.
Lemma sp_legacy_octal_sound a r1 r : sp_legacy_octal (a :: r1) = (true, r) -> ((a =? 48) && negb (starts_digit r1))%bool = false ->
  exists w, a :: r1 = w ++ r /\ LegacyOctalEscapeSequence w r (legacy_octal_value (a :: r1)).
Proof.
  cbn [sp_legacy_octal legacy_octal_value]. destruct (octal_digit a) eqn:Ea; [|discriminate]. intros H Hz.
  assert (Hone : forall rest, nooctal rest = true -> (a = 48 -> starts_digit rest = true) ->
                 exists w, a :: rest = w ++ rest /\ LegacyOctalEscapeSequence w rest (a - 48)).
  { intros rest Hno Hz'. exists [a]. split; [reflexivity|]. destruct (N.eq_dec a 48) as [->|Hne].
    - destruct rest as [|d rest']; [discriminate (Hz' eq_refl)|]. cbn [starts_digit nooctal] in *.
      apply negb_true_iff in Hno. apply LO_zero. exact (digit_not_octal d (Hz' eq_refl) Hno).
    - apply LO_one; [exact Ea|exact Hne|apply nooctal_follows; exact Hno]. }
  assert (Hz' : a = 48 -> starts_digit r1 = true).
  { intros ->. cbn [N.eqb Pos.eqb andb] in Hz. apply negb_false_iff in Hz. exact Hz. }
  destruct r1 as [|b r2]; [injection H as <-; apply Hone; [reflexivity|exact Hz']|].
  destruct (octal_digit b) eqn:Eb.
  2:{ injection H as <-. apply Hone; [cbn [nooctal]; rewrite Eb; reflexivity|exact Hz']. }
  destruct (zero_to_three a) eqn:E03.
  - destruct r2 as [|c r3].
    + injection H as <-. exists [a; b]. split; [reflexivity|apply LO_two_low; [exact E03|exact Eb|exact I]].
    + destruct (octal_digit c) eqn:Ec; injection H as <-.
      * exists [a; b; c]. split; [reflexivity|apply LO_three; assumption].
      * exists [a; b]. split; [reflexivity|apply LO_two_low; [exact E03|exact Eb|exact Ec]].
  - injection H as <-. exists [a; b]. split; [reflexivity|apply LO_two_high; [apply octal_split; assumption|exact Eb]].
Qed.
Lemma sp_legacy_octal_complete w r v : LegacyOctalEscapeSequence w r v ->
  sp_legacy_octal (w ++ r) = (true, r) /\ legacy_octal_value (w ++ r) = v.
Proof.
  intros [d r0 Hd|a r0 Ha Hne Hno|a b r0 Ha Hb Hno|a b r0 Ha Hb|a b c r0 Ha Hb Hc]; cbn [app sp_legacy_octal legacy_octal_value].
  - cbn [octal_digit N.leb N.compare Pos.compare Pos.compare_cont andb]. destruct Hd as [-> | ->]; split; reflexivity.
  - rewrite Ha. destruct r0 as [|b r1]; [split; reflexivity|]. cbn in Hno. rewrite Hno. split; reflexivity.
  - rewrite (zero_to_three_octal a Ha), Hb, Ha. destruct r0 as [|c r1]; [split; reflexivity|]. cbn in Hno. rewrite Hno. split; reflexivity.
  - destruct (four_to_seven_octal a Ha) as [Ho [H03 _]]. rewrite Ho, Hb, H03. split; reflexivity.
  - rewrite (zero_to_three_octal a Ha), Hb, Ha, Hc. split; reflexivity.
Qed.
Lemma sp_legacy_octal_false l r : sp_legacy_octal l = (false, r) ->
  r = l /\ match l with c :: _ => octal_digit c = false | [] => True end.
Proof.
  destruct l as [|a r1]; cbn [sp_legacy_octal]; [intros [= <-]; split; trivial|].
  destruct (octal_digit a) eqn:Ea; [|intros [= <-]; split; trivial].
  destruct r1 as [|b r2]; [discriminate|]. destruct (octal_digit b); [|discriminate].
  destruct (zero_to_three a); [|discriminate]. destruct r2 as [|c r3]; [discriminate|]. destruct (octal_digit c); discriminate.
Qed.
Lemma LegacyOctal_head w r v : LegacyOctalEscapeSequence w r v -> exists a w', w = a :: w' /\ octal_digit a = true /\
  ((a =? 48) && negb (starts_digit (w' ++ r)))%bool = false.
Proof.
  intros [d r0 Hd|a r0 Ha Hne Hno|a b r0 Ha Hb Hno|a b r0 Ha Hb|a b c r0 Ha Hb Hc].
  - exists 48, []. repeat split. cbn [app starts_digit N.eqb Pos.eqb andb]. destruct Hd as [-> | ->]; reflexivity.
  - exists a, []. split; [reflexivity|]. split; [exact Ha|]. apply N.eqb_neq in Hne. rewrite Hne. reflexivity.
  - exists a, [b]. split; [reflexivity|]. split; [apply zero_to_three_octal; exact Ha|]. cbn [app starts_digit].
    rewrite (octal_is_digit b Hb). apply andb_false_r.
  - exists a, [b]. split; [reflexivity|]. destruct (four_to_seven_octal a Ha) as [Ho [_ Hne]]. split; [exact Ho|].
    apply N.eqb_neq in Hne. rewrite Hne. reflexivity.
  - exists a, [b; c]. split; [reflexivity|]. split; [apply zero_to_three_octal; exact Ha|]. cbn [app starts_digit].
    rewrite (octal_is_digit b Hb). apply andb_false_r.
Qed.
Lemma octal_not_special a : octal_digit a = true ->
  character_class_escape a = false /\ control_escape a = false /\ (a =? 99) = false /\ (a =? 120) = false /\ (a =? 117) = false /\
  assertion_escape a = false.
Proof.
  unfold octal_digit. intros H. apply andb_true_iff in H. destruct H as [H1 H2]. apply N.leb_le in H1, H2.
  unfold character_class_escape, control_escape, assertion_escape. cbn [existsb].
  repeat split; repeat (apply orb_false_iff; split); try reflexivity; apply N.eqb_neq; lia.
Qed.

Section EscapeSound.
Variable u : bool.
Variable np : N.
Lemma sp_hex_esc_sound l b r : sp_hex_esc u l = SOk b r ->
  (b = true /\ exists h1 h2, l = 120 :: h1 :: h2 :: r /\ hex_digit h1 = true /\ hex_digit h2 = true) \/
  (b = false /\ r = l /\ forall h1 h2 r', hex_digit h1 = true -> hex_digit h2 = true -> l <> 120 :: h1 :: h2 :: r').
Proof.
  destruct l as [|c l']; cbn [sp_hex_esc]; [intros [= <- <-]; right; repeat split; discriminate|].
  destruct (N.eqb_spec c 120) as [->|Hc]; [|intros [= <- <-]; right; repeat split; congruence].
  unfold sp_fixed_hex. destruct (hex_run 2 l' 0) as [[v r0]|] eqn:E.
  - intros [= <- <-]. left. split; [reflexivity|]. apply hex_run_spec in E. destruct E as [hs [-> [Hl [Hf _]]]].
    destruct hs as [|h1 [|h2 [|h3 hs]]]; try discriminate Hl. exists h1, h2. split; [reflexivity|].
    inversion Hf as [|? ? H1 Hf']; subst. inversion Hf' as [|? ? H2 _]; subst. split; assumption.
  - destruct u; [discriminate|]. intros [= <- <-]. right. repeat split. intros h1 h2 r' H1 H2 [= ->].
    cbn [hex_run] in E. rewrite H1, H2 in E. discriminate.
Qed.
Lemma hex_run_value_spec hs v r : Hex4Digits hs v -> hex_run_value 4 (hs ++ r) = v.
Proof. intros H. unfold hex_run_value. rewrite (Hex4Digits_run hs v r H). reflexivity. Qed.
Lemma sp_unicode_esc_sound l b r : sp_unicode_esc u l = SOk b r ->
  (b = true /\ exists w, l = 117 :: w ++ r /\ w <> [] /\ RegExpUnicodeEscapeSequence u (117 :: w) r (unicode_value u (tl l))) \/
  (b = false /\ r = l /\ forall hs v r', Hex4Digits hs v -> l <> 117 :: hs ++ r').
Proof.
  destruct l as [|c l']; cbn [sp_unicode_esc]; [intros [= <- <-]; right; repeat split; discriminate|].
  destruct (N.eqb_spec c 117) as [->|Hc]; [|intros [= <- <-]; right; repeat split; congruence].
  cbn [tl]. unfold unicode_value.
  destruct (if u then sp_surrogate_pair l' else (false, l')) as [b1 r1] eqn:E1.
  destruct b1.
  { destruct u eqn:Eu; [|discriminate E1]. intros [= <- <-]. left. split; [reflexivity|]. rewrite E1. cbn [fst andb].
    apply sp_surrogate_pair_true in E1. destruct E1 as [hs [v [ts [w [Hh [Hl [Ht [Hw ->]]]]]]]].
    exists (hs ++ g_backslash :: 117 :: ts). split; [rewrite <- app_assoc; reflexivity|]. split; [destruct hs; discriminate|].
    rewrite (hex_run_value_spec hs v _ Hh).
    assert (E6 : skipn 6 (hs ++ g_backslash :: 117 :: ts ++ r1) = ts ++ r1).
    { destruct Hh as [_ Hlen]. destruct hs as [|h1 [|h2 [|h3 [|h4 [|h5 hs]]]]]; try discriminate Hlen. reflexivity. }
    rewrite E6. rewrite (hex_run_value_spec ts w _ Ht).
    apply (UE_pair true hs v ts w r1 eq_refl Hh Hl Ht Hw). }
  assert (Ep : (u && fst (sp_surrogate_pair l'))%bool = false).
  { destruct u; [|reflexivity]. rewrite E1. reflexivity. }
  rewrite Ep.
  destruct (sp_fixed_hex 4 l') as [b2 r2] eqn:E2. destruct b2.
  { intros [= <- <-]. left. split; [reflexivity|]. unfold sp_fixed_hex in E2.
    destruct (hex_run 4 l' 0) as [[v r0]|] eqn:E; [|discriminate]. injection E2 as <-.
    apply run_Hex4Digits in E. destruct E as [hs [-> Hh]]. exists hs. split; [reflexivity|].
    split; [destruct Hh as [_ Hl]; destruct hs; discriminate|].
    apply (UE_hex4 u hs v r0 Hh). intros -> Hl Hf. destruct Hf as [ts [w [r' [Ht [Hw ->]]]]].
    rewrite (sp_surrogate_pair_complete hs v ts w r' Hh Hl Ht Hw) in E1. discriminate. }
  destruct (sp_fixed_hex_false _ _ _ _ E2 eq_refl) as [_ Hnone]. rewrite Hnone.
  assert (Hno : forall hs v r', Hex4Digits hs v -> 117 :: l' <> 117 :: hs ++ r').
  { intros hs v r' Hh [= ->]. rewrite (Hex4Digits_run hs v r' Hh) in Hnone. discriminate. }
  destruct u eqn:Eu.
  - destruct (sp_codepoint l') as [[|] r3| |] eqn:E3; try discriminate. intros [= <- <-]. left. split; [reflexivity|].
    apply sp_codepoint_sound in E3. destruct E3 as [[_ [ds [v [Hd [Hv ->]]]]]|[E3 _]]; [|discriminate].
    exists (g_lbrace :: ds ++ [g_rbrace]). split; [cbn [app]; rewrite <- app_assoc; reflexivity|]. split; [discriminate|].
    cbn [tl]. pose proof (HexDigits_spec ds v Hd) as [_ [Hf Hval]]. rewrite (span_hex_app ds _ Hf) by reflexivity. cbn [fst].
    rewrite Hval. apply (UE_code_point true ds v r3 eq_refl Hd Hv).
  - intros [= <- <-]. right. repeat split. exact Hno.
Qed.
Lemma identity_true_cases c : identity_escape true c = true ->
  character_class_escape c = false /\ control_escape c = false /\ (c =? 99) = false /\ (c =? 48) = false /\
  (c =? 120) = false /\ (c =? 117) = false /\ assertion_escape c = false.
Proof.
  cbn [identity_escape]. unfold syntax_character. cbn [existsb]. intros H.
  repeat (apply orb_true_iff in H; destruct H as [H|H]); try discriminate H; apply N.eqb_eq in H; subst c; repeat split.
Qed.
(* CharacterEscape as sp_ce finds it, with the CharacterValue ce_value computes *)
Lemma sp_ce_sound onp l b r : sp_ce u l = SOk b r -> ~ decimal_escape_earlier onp l ->
  (b = true /\ exists w, l = w ++ r /\ CharacterEscape u onp w r (ce_value u l) /\
                          (forall x w', w = x :: w' -> w' <> [] -> assertion_escape x = false)) \/
  (b = false /\ r = l).
Proof.
  intros H Hnodec. destruct l as [|c l']; cbn [sp_ce] in H; [injection H as <- <-; right; split; reflexivity|].
  assert (Hone : forall x w', [c] = x :: w' -> w' <> [] -> assertion_escape x = false) by (intros x w' [= <- <-] H'; contradiction).
  cbn [ce_value]. revert H.
  destruct (control_escape c) eqn:Eco.
  { intros [= <- <-]. left. split; [reflexivity|]. exists [c]. split; [reflexivity|].
    split; [apply CE_control; exact Eco|exact Hone]. }
  destruct ((c =? 99) && starts_letter l')%bool eqn:Ele.
  { apply andb_true_iff in Ele. destruct Ele as [Ec El]. apply N.eqb_eq in Ec. subst c.
    destruct l' as [|d l'']; [discriminate El|]. cbn [starts_letter tl hd] in *. intros [= <- <-]. left. split; [reflexivity|].
    exists [99; d]. split; [reflexivity|]. split; [apply CE_letter; exact El|].
    intros x w' [= <- <-] _. reflexivity. }
  destruct ((c =? 48) && negb (starts_digit l'))%bool eqn:Ez.
  { apply andb_true_iff in Ez. destruct Ez as [Ec Ed]. apply N.eqb_eq in Ec. subst c. apply negb_true_iff in Ed.
    intros [= <- <-]. left. split; [reflexivity|]. exists [48]. split; [reflexivity|]. split; [|exact Hone].
    apply CE_zero. destruct l' as [|d l'']; [exact I|exact Ed]. }
  destruct (sp_hex_esc u (c :: l')) as [[|] r1| |] eqn:Eh; try discriminate.
  { intros [= <- <-]. left. split; [reflexivity|]. cbn [is_true]. apply sp_hex_esc_sound in Eh.
    destruct Eh as [[_ [h1 [h2 [E [H1 H2]]]]]|[Eh _]]; [|discriminate]. injection E as -> ->.
    exists [120; h1; h2]. split; [reflexivity|]. split; [|intros x w' [= <- <-] _; reflexivity].
    unfold hex_run_value. cbn [hex_run]. rewrite H1, H2. rewrite N.mul_0_r, N.add_0_l. apply CE_hex; assumption. }
  cbn [is_true]. apply sp_hex_esc_sound in Eh. destruct Eh as [[Eh _]|[_ [_ Hnohex]]]; [discriminate|].
  destruct (sp_unicode_esc u (c :: l')) as [[|] r2| |] eqn:Eu; try discriminate.
  { intros [= <- <-]. left. split; [reflexivity|]. cbn [is_true]. apply sp_unicode_esc_sound in Eu.
    destruct Eu as [[_ [w [E [Hne HU]]]]|[Eu _]]; [|discriminate]. injection E as -> ->.
    exists (117 :: w). split; [reflexivity|]. split; [apply CE_unicode; exact HU|].
    intros x w' [= <- <-] _. reflexivity. }
  cbn [is_true]. apply sp_unicode_esc_sound in Eu. destruct Eu as [[Eu _]|[_ [_ Hnouni]]]; [discriminate|].
  destruct (if u then (false, c :: l') else sp_legacy_octal (c :: l')) as [bo ro] eqn:Eo. destruct bo.
  { destruct u eqn:Eu'; [discriminate Eo|]. intros [= <- <-]. left. split; [reflexivity|].
    destruct (sp_legacy_octal_sound c l' ro Eo Ez) as [w [E HL]]. exists w. split; [exact E|].
    destruct (LegacyOctal_head w ro _ HL) as [a [w' [-> [Ha _]]]]. injection E as <- E. cbn [negb andb]. rewrite Ha. split.
    - apply CE_legacy_octal; [reflexivity|exact HL|]. cbn [app]. rewrite <- E. exact Hnodec.
    - intros x w'' [= <- <-] _. apply (octal_not_special c Ha). }
  destruct (identity_escape u c) eqn:Ei.
  2:{ intros [= <- <-]. right. split; reflexivity. }
  intros [= <- <-]. left. split; [reflexivity|]. exists [c]. split; [reflexivity|]. split; [|exact Hone].
  assert (Hval : (if negb u && octal_digit c then legacy_octal_value (c :: l') else c) = c).
  { destruct u; [reflexivity|]. cbn [negb andb]. apply sp_legacy_octal_false in Eo. destruct Eo as [_ Hoct]. rewrite Hoct. reflexivity. }
  rewrite Hval. apply CE_identity; [exact Ei|]. intros Hu. rewrite Hu in Eo. split; [exact Eco|]. split; [|exact Hnodec].
  apply sp_legacy_octal_false in Eo. destruct Eo as [_ Hoct].
  intros [H|[[-> [h1 [h2 [r' [H1 [H2 ->]]]]]]|[-> [hs [v [r' [Hh ->]]]]]]].
  - congruence.
  - exact (Hnohex h1 h2 r' H1 H2 eq_refl).
  - exact (Hnouni hs v r' Hh eq_refl).
Qed.
Lemma sp_cce_sound l b r : sp_cce l = SOk b r ->
  (b = true /\ exists c, l = c :: r /\ character_class_escape c = true) \/ (b = false /\ r = l).
Proof.
  destruct l as [|c l']; cbn [sp_cce]; [intros [= <- <-]; right; split; reflexivity|].
  destruct (character_class_escape c) eqn:E; intros [= <- <-]; [left; split; [reflexivity|exists c; split; [reflexivity|exact E]]|right; split; reflexivity].
Qed.
(* sp_atom_escape is DecimalEscape, then CharacterClassEscape, then CharacterEscape *)
Lemma sp_atom_escape_split l : sp_atom_escape u np l =
  match sp_backref u np l with
  | SOk true r' => SOk true r'
  | SOk false _ =>
      match sp_cce l with
      | SOk true r' => SOk true r'
      | SOk false _ =>
          match sp_ce u l with
          | SOk true r' => SOk true r'
          | SOk false _ => if u then SErr else SOk false l
          | SErr => SErr
          | SFuel => SFuel
          end
      | SErr => SErr
      | SFuel => SFuel
      end
  | SErr => SErr
  | SFuel => SFuel
  end.
Proof.
  unfold sp_atom_escape. destruct (sp_backref u np l) as [[|] r0| |]; try reflexivity.
  destruct l as [|c r]; [reflexivity|]. cbn [sp_cce sp_ce].
  destruct (character_class_escape c); [reflexivity|]. destruct (control_escape c); [reflexivity|].
  destruct ((c =? 99) && starts_letter r); [reflexivity|]. destruct ((c =? 48) && negb (starts_digit r)); [reflexivity|].
  destruct (sp_hex_esc u (c :: r)) as [[|] r1| |]; try reflexivity.
  destruct (sp_unicode_esc u (c :: r)) as [[|] r2| |]; try reflexivity.
  destruct (if u then (false, c :: r) else sp_legacy_octal (c :: r)) as [[|] r3]; [reflexivity|].
  destruct (identity_escape u c); reflexivity.
Qed.
Lemma sp_atom_escape_sound l b r : sp_atom_escape u np l = SOk b r ->
  (b = true /\ exists w, l = w ++ r /\ AtomEscape u np w r /\ (forall x w', w = x :: w' -> w' <> [] -> assertion_escape x = false)) \/
  (b = false /\ r = l).
Proof.
  rewrite sp_atom_escape_split. destruct (sp_backref u np l) as [[|] r0| |] eqn:Eb; try discriminate.
  { intros [= <- <-]. left. split; [reflexivity|]. apply sp_backref_sound in Eb.
    destruct Eb as [[_ [ds [v [-> [HD Hv]]]]]|[Eb _]]; [|discriminate]. exists ds. split; [reflexivity|].
    split; [apply (AE_decimal u np ds v r0 HD Hv)|].
    destruct (DecimalEscape_run ds v r0 HD) as [_ [_ [d [ds' [-> Hd]]]]]. intros x w' [= <- <-] _.
    unfold non_zero_digit in Hd. apply andb_true_iff in Hd. destruct Hd as [_ Hd]. apply N.leb_le in Hd.
    unfold assertion_escape. apply orb_false_iff. split; apply N.eqb_neq; lia. }
  apply sp_backref_sound in Eb. destruct Eb as [[Eb _]|[_ [_ Hnodec]]]; [discriminate|].
  destruct (sp_cce l) as [[|] r1| |] eqn:Ec; try discriminate.
  { intros [= <- <-]. left. split; [reflexivity|]. apply sp_cce_sound in Ec. destruct Ec as [[_ [c [-> Hc]]]|[Ec _]]; [|discriminate].
    exists [c]. split; [reflexivity|]. split; [apply AE_class; exact Hc|]. intros x w' [= <- <-] H; contradiction. }
  destruct (sp_ce u l) as [[|] r2| |] eqn:Ee; try discriminate.
  - intros [= <- <-]. left. split; [reflexivity|].
    destruct (sp_ce_sound (Some np) l true r2 Ee Hnodec) as [[_ [w [E [HC Hh]]]]|[Ee' _]]; [|discriminate].
    exists w. split; [exact E|]. split; [eapply AE_character; exact HC|exact Hh].
  - destruct u; [discriminate|]. intros [= <- <-]. right. split; reflexivity.
Qed.
Lemma sp_escape_sound l b r : sp_escape u np l = SOk b r ->
  (b = true /\ exists w, l = g_backslash :: w ++ r /\ AtomEscape u np w r /\
                          (forall x w', w = x :: w' -> w' <> [] -> assertion_escape x = false)) \/ (b = false /\ r = l).
Proof.
  destruct l as [|c l']; cbn [sp_escape]; [intros [= <- <-]; right; split; reflexivity|].
  destruct (N.eqb_spec c g_backslash) as [->|_]; [|intros [= <- <-]; right; split; reflexivity].
  destruct (sp_atom_escape u np l') as [[|] r1| |] eqn:E; try discriminate; intros [= <- <-].
  - left. split; [reflexivity|]. apply sp_atom_escape_sound in E. destruct E as [[_ [w [-> H]]]|[E _]]; [|discriminate].
    exists w. split; [reflexivity|exact H].
  - right. split; reflexivity.
Qed.
End EscapeSound.

(* ================= character classes ================= *)
Lemma CharacterEscape_head u onp w r v : CharacterEscape u onp w r v -> exists x w', w = x :: w' /\
  (w' <> [] -> x <> 98 /\ character_class_escape x = false /\ assertion_escape x = false /\ (x = 99 \/ x = 120 \/ x = 117 \/ octal_digit x = true)).
Proof.
  intros [c r0 Hc|c r0 Hc|r0 Hn|h1 h2 r0 H1 H2|w0 r0 v0 HU|w0 r0 v0 Hu HL Hnd|c r0 Hi Hn];
    try (eexists; eexists; split; [reflexivity|intros H; first [contradiction|repeat split; (discriminate || auto)]]).
  - destruct HU; eexists; eexists; (split; [reflexivity|intros _; repeat split; (discriminate || auto)]).
  - destruct (LegacyOctal_head w0 r0 _ HL) as [a [w' [-> [Ha _]]]]. exists a, w'. split; [reflexivity|]. intros _.
    destruct (octal_not_special a Ha) as [Ecl [_ [_ [_ [_ Eas]]]]]. repeat split; try assumption; [|auto].
    intros ->. discriminate Ha.
Qed.
Lemma CharacterEscape_first u onp w r v : CharacterEscape u onp w r v -> forall x w', w = x :: w' ->
  (u = true -> x <> 45) /\ (x = 99 -> exists c, w' = [c] /\ control_letter c = true).
Proof.
  intros [c r0 Hc|c r0 Hc|r0 Hn|h1 h2 r0 H1 H2|w0 r0 v0 HU|w0 r0 v0 Hu HL Hnd|c r0 Hi Hn] x w' E.
  - injection E as <- <-. split; [intros _ ->; discriminate Hc|intros ->; discriminate Hc].
  - injection E as <- <-. split; [intros _; discriminate|intros _; exists c; split; [reflexivity|exact Hc]].
  - injection E as <- <-. split; [intros _; discriminate|discriminate].
  - injection E as <- <-. split; [intros _; discriminate|discriminate].
  - destruct HU; injection E as <- <-; (split; [intros _; discriminate|discriminate]).
  - destruct (LegacyOctal_head w0 r0 _ HL) as [a [w2 [-> [Ha _]]]]. injection E as <- <-.
    split; [intros _ ->; discriminate Ha|intros ->; discriminate Ha].
  - injection E as <- <-. split.
    + intros -> ->. discriminate Hi.
    + intros ->. destruct u; discriminate Hi.
Qed.
Section ClassSound.
Variable u : bool.
Lemma sp_class_escape_sound l ov r : sp_class_escape u l = SOk (Some ov) r -> exists w, l = w ++ r /\ ClassEscape u w r ov.
Proof.
  destruct l as [|c l']; cbn [sp_class_escape]; [discriminate|].
  destruct (N.eqb_spec c 98) as [->|Hb]; [intros [= <- <-]; exists [98]; split; [reflexivity|apply CLE_b]|].
  destruct (u && (c =? 45))%bool eqn:Ed.
  { apply andb_true_iff in Ed. destruct Ed as [Hu Ec]. apply N.eqb_eq in Ec. subst c. intros [= <- <-].
    exists [45]. split; [reflexivity|apply CLE_dash; exact Hu]. }
  destruct (negb u && (c =? 99) && match l' with d :: _ => class_control_letter d | [] => false end)%bool eqn:Ec.
  { apply andb_true_iff in Ec. destruct Ec as [Ec Hd]. apply andb_true_iff in Ec. destruct Ec as [Hu Ec].
    apply negb_true_iff in Hu. apply N.eqb_eq in Ec. subst c. destruct l' as [|d l'']; [discriminate Hd|]. cbn [hd tl].
    intros [= <- <-]. exists [99; d]. split; [reflexivity|apply CLE_control_letter; assumption]. }
  destruct (sp_cce (c :: l')) as [[|] r1| |] eqn:Ecc; try discriminate.
  { intros [= <- <-]. apply sp_cce_sound in Ecc. destruct Ecc as [[_ [c0 [E Hc]]]|[Ecc _]]; [|discriminate]. injection E as <- <-.
    exists [c]. split; [reflexivity|apply CLE_class; exact Hc]. }
  assert (Hncl : character_class_escape c = false).
  { cbn [sp_cce] in Ecc. destruct (character_class_escape c); [discriminate|reflexivity]. }
  destruct (sp_ce u (c :: l')) as [[|] r2| |] eqn:Ece; try discriminate. intros [= <- <-].
  destruct (sp_ce_sound u None (c :: l') true r2 Ece (fun H => H)) as [[_ [w [E [HC _]]]]|[Ee _]]; [|discriminate].
  exists w. split; [exact E|]. apply CLE_character; [exact HC|]. intros c0 ->. injection E as <- _. split; assumption.
Qed.
Lemma sp_class_escape_none l r : sp_class_escape u l = SOk None r -> r = l /\
  forall l', l = 99 :: l' -> u = false -> match l' with d :: _ => class_control_letter d = false /\ control_letter d = false | [] => True end.
Proof.
  destruct l as [|c l']; cbn [sp_class_escape]; [intros [= <-]; split; [reflexivity|discriminate]|].
  destruct (c =? 98); [discriminate|]. destruct (u && (c =? 45))%bool; [discriminate|].
  destruct (negb u && (c =? 99) && match l' with d :: _ => class_control_letter d | [] => false end)%bool eqn:Ec; [discriminate|].
  destruct (sp_cce (c :: l')) as [[|] r1| |]; try discriminate.
  destruct (sp_ce u (c :: l')) as [[|] r2| |] eqn:Ece; try discriminate. intros [= <-]. split; [reflexivity|].
  intros l0 [= -> <-] Hu. rewrite Hu in *. cbn [negb N.eqb Pos.eqb andb] in Ec. destruct l' as [|d l'']; [exact I|].
  split; [exact Ec|]. cbn [sp_ce control_escape existsb N.eqb Pos.eqb orb andb starts_letter] in Ece.
  destruct (control_letter d); [discriminate Ece|reflexivity].
Qed.
Lemma sp_class_atom_sound l ov r : sp_class_atom u l = SOk (Some ov) r -> exists w, l = w ++ r /\ ClassAtom u w r ov.
Proof.
  destruct l as [|c l']; cbn [sp_class_atom]; [discriminate|].
  destruct (N.eqb_spec c g_backslash) as [->|Hbs]; cbn [negb andb].
  - destruct (sp_class_escape u l') as [[ov'|] r1| |] eqn:E; try discriminate.
    + intros [= <- <-]. apply sp_class_escape_sound in E. destruct E as [w [-> HE]].
      exists (g_backslash :: w). split; [reflexivity|apply CA_no_dash, CAN_escape; exact HE].
    + destruct (negb u && starts_with 99 l')%bool eqn:Ec; [|destruct u; discriminate]. intros [= <- <-].
      apply andb_true_iff in Ec. destruct Ec as [Hu Hc]. apply negb_true_iff in Hu. destruct l' as [|x l'']; [discriminate Hc|].
      cbn [starts_with] in Hc. apply N.eqb_eq in Hc. subst x. exists [g_backslash]. split; [reflexivity|].
      apply CA_no_dash, CAN_backslash_c; [exact Hu|]. apply sp_class_escape_none in E. destruct E as [_ E]. exact (E l'' eq_refl Hu).
  - destruct (N.eqb_spec c g_rbracket) as [->|Hrb]; [discriminate|]. cbn [negb]. intros [= <- <-]. exists [c]. split; [reflexivity|].
    destruct (N.eq_dec c 45) as [->|Hd]; [apply CA_dash|apply CA_no_dash, CAN_char; assumption].
Qed.
Lemma sp_class_atom_none l r : sp_class_atom u l = SOk None r -> r = l.
Proof.
  destruct l as [|c l']; cbn [sp_class_atom]; [intros [= <-]; reflexivity|].
  destruct (negb (c =? g_backslash) && negb (c =? g_rbracket))%bool; [discriminate|]. destruct (c =? g_backslash); [|intros [= <-]; reflexivity].
  destruct (sp_class_escape u l') as [[ov'|] r1| |]; try discriminate.
  destruct (negb u && starts_with 99 l')%bool; [discriminate|]. destruct u; [discriminate|intros [= <-]; reflexivity].
Qed.
Lemma ClassAtomNoDash_head w r v : ClassAtomNoDash u w r v -> exists x w', w = x :: w' /\ x <> 45 /\ x <> g_rbracket.
Proof. intros [c r0 H1 H2 H3|w0 r0 v0 _|r0 _ _]; eexists; eexists; (split; [reflexivity|split; (assumption || discriminate)]). Qed.
Lemma ClassAtom_nonempty w r v : ClassAtom u w r v -> exists x w', w = x :: w' /\ x <> g_rbracket.
Proof.
  intros [r0|w0 r0 v0 H]; [exists 45, []; split; [reflexivity|discriminate]|].
  destruct (ClassAtomNoDash_head _ _ _ H) as [x [w' [-> [_ Hx]]]]. exists x, w'. split; [reflexivity|exact Hx].
Qed.
Lemma to_nodash w r : ClassRanges u w r -> match w with c :: _ => c <> 45 | [] => True end ->
  w = [] \/ NonemptyClassRangesNoDash u w r.
Proof.
  intros [r0|w0 r0 H] Hc; [left; reflexivity|right].
  assert (Hnd : forall a rest va, ClassAtom u a rest va -> match a with c :: _ => c <> 45 | [] => True end -> ClassAtomNoDash u a rest va).
  { intros a rest va [r1|w1 r1 v1 H1] Hc'; [exfalso; apply Hc'; reflexivity|exact H1]. }
  destruct H as [a r1 v Ha|a b r1 v Ha Hb|a b c r1 va vb Ha Hb Hc' Hok].
  - eapply NCRN_atom; exact Ha.
  - destruct (ClassAtom_nonempty _ _ _ Ha) as [x [a' [-> _]]]. eapply NCRN_atom_more; [|exact Hb]. apply (Hnd _ _ _ Ha). exact Hc.
  - destruct (ClassAtom_nonempty _ _ _ Ha) as [x [a' [-> _]]]. eapply NCRN_range; [|exact Hb|exact Hc'|exact Hok]. apply (Hnd _ _ _ Ha). exact Hc.
Qed.
Lemma range_ok_b_spec a b : range_ok_b u a b = true <-> range_ok u a b.
Proof.
  unfold range_ok_b, range_ok. destruct a as [x|], b as [y|]; try (rewrite negb_true_iff; tauto). apply N.leb_le.
Qed.
Lemma sp_class_ranges_sound g : forall l r, sp_class_ranges u g l = SOk tt r -> exists w, l = w ++ r /\ ClassRanges u w r.
Proof.
  induction g as [|g IH]; intros l r; cbn [sp_class_ranges]; [discriminate|].
  destruct (sp_class_atom u l) as [[va|] l1| |] eqn:Ea; try discriminate.
  2:{ intros [= <-]. exists []. split; [reflexivity|apply CR_empty]. }
  apply sp_class_atom_sound in Ea. destruct Ea as [a [-> Ha]].
  destruct (starts_with 45 l1) eqn:Ed.
  - destruct l1 as [|d l2]; [discriminate Ed|]. cbn [starts_with] in Ed. apply N.eqb_eq in Ed. subst d. cbn [tl].
    destruct (sp_class_atom u l2) as [[vb|] l3| |] eqn:Eb; try discriminate.
    + destruct (range_ok_b u va vb) eqn:Eok; [|discriminate]. intros H. apply IH in H. destruct H as [c [-> Hc]].
      apply sp_class_atom_sound in Eb. destruct Eb as [b [-> Hb]].
      exists (a ++ 45 :: b ++ c). split; [rewrite <- app_assoc; cbn [app]; rewrite <- app_assoc; reflexivity|].
      apply CR_nonempty. apply (NCR_range u a b c r va vb Ha Hb Hc). apply range_ok_b_spec. exact Eok.
    + intros [= <-]. exists (a ++ [45]). split; [rewrite <- app_assoc; reflexivity|]. apply CR_nonempty.
      apply (NCR_atom_more u a [45] l2 va Ha). eapply NCRN_atom. apply CA_dash.
  - intros H. apply IH in H. destruct H as [w' [-> Hw]]. exists (a ++ w'). split; [rewrite app_assoc; reflexivity|].
    apply CR_nonempty. destruct (to_nodash w' r Hw) as [->|Hn].
    + destruct w' as [|c w'']; [exact I|]. cbn [app starts_with] in Ed. intros ->. discriminate Ed.
    + rewrite app_nil_r. eapply NCR_atom. exact Ha.
    + eapply NCR_atom_more; [exact Ha|exact Hn].
Qed.
Lemma sp_class_sound l b r : sp_class u l = SOk b r ->
  (b = true /\ exists w, l = w ++ r /\ CharacterClass u w r) \/ (b = false /\ r = l /\ starts_with g_lbracket l = false).
Proof.
  destruct l as [|c l']; cbn [sp_class]; [intros [= <- <-]; right; repeat split|].
  destruct (N.eqb_spec c g_lbracket) as [->|Hc]; [|intros [= <- <-]; right; repeat split; cbn [starts_with]; apply N.eqb_neq; exact Hc].
  set (r1 := if starts_with g_caret l' then tl l' else l').
  destruct (sp_class_ranges u (S (length r1)) r1) as [[] r2| |] eqn:E; try discriminate.
  destruct (starts_with g_rbracket r2) eqn:Er; [|discriminate]. intros [= <- <-]. left. split; [reflexivity|].
  destruct r2 as [|x r3]; [discriminate Er|]. cbn [starts_with] in Er. apply N.eqb_eq in Er. subst x. cbn [tl].
  apply sp_class_ranges_sound in E. destruct E as [w [E Hw]]. subst r1.
  destruct (starts_with g_caret l') eqn:Ec.
  - destruct l' as [|x l'']; [discriminate Ec|]. cbn [starts_with] in Ec. apply N.eqb_eq in Ec. subst x. cbn [tl] in E. subst l''.
    exists (g_lbracket :: g_caret :: w ++ [g_rbracket]). split; [cbn [app]; rewrite <- app_assoc; reflexivity|apply CC_negative; exact Hw].
  - subst l'. exists (g_lbracket :: w ++ [g_rbracket]). split; [cbn [app]; rewrite <- app_assoc; reflexivity|].
    apply CC_positive; [|exact Hw]. destruct w as [|x w']; [exact I|]. cbn [app starts_with] in Ec. intros ->. discriminate Ec.
Qed.
End ClassSound.

Section Sound.
Variable u : bool.
Variable np : N.
Variable sdisj : list N -> SR unit.
Hypothesis sdisj_sound : forall l r, sdisj l = SOk tt r -> exists d k, l = d ++ r /\ Disjunction u np d r k.

Lemma sp_group_body_sound l b r : sp_group_body sdisj l = SOk b r ->
  b = true /\ exists d k, l = d ++ g_rparen :: r /\ Disjunction u np d (g_rparen :: r) k.
Proof.
  unfold sp_group_body. destruct (sdisj l) as [[] [|c r0]| |] eqn:E; try discriminate.
  destruct (N.eqb_spec c g_rparen) as [->|_]; [|discriminate]. intros [= <- <-].
  split; [reflexivity|]. apply sdisj_sound in E. exact E.
Qed.
Lemma is_eq_or_bang_cases y : is_eq_or_bang y = true -> y = g_equals \/ y = g_bang.
Proof. unfold is_eq_or_bang. intros H. apply orb_true_iff in H. destruct H as [H|H]; apply N.eqb_eq in H; auto. Qed.
Lemma sp_assertion_sound l b r : sp_assertion sdisj l = SOk b r ->
  (b = true /\ exists w k, l = w ++ r /\ Assertion u np w r k /\
     (quantifiable u l = true -> u = false /\ QuantifiableAssertion u np w r k)) \/ (b = false /\ r = l).
Proof.
  destruct l as [|c l']; cbn [sp_assertion]; [intros [= <- <-]; right; split; reflexivity|].
  destruct (N.eqb_spec c g_caret) as [->|_].
  { intros [= <- <-]. left. split; [reflexivity|]. exists [g_caret], 0. split; [reflexivity|]. split; [apply As_caret|].
    destruct l' as [|c1 [|c2 l2]]; cbn; discriminate. }
  destruct (N.eqb_spec c g_dollar) as [->|_].
  { intros [= <- <-]. left. split; [reflexivity|]. exists [g_dollar], 0. split; [reflexivity|]. split; [apply As_dollar|].
    destruct l' as [|c1 [|c2 l2]]; cbn; discriminate. }
  destruct (N.eqb_spec c g_backslash) as [->|_].
  { destruct l' as [|x r']; [intros [= <- <-]; right; split; reflexivity|].
    destruct (assertion_escape x) eqn:Ex; [|intros [= <- <-]; right; split; reflexivity].
    intros [= <- <-]. left. split; [reflexivity|]. exists [g_backslash; x], 0. split; [reflexivity|]. split.
    - unfold assertion_escape in Ex. apply orb_true_iff in Ex. destruct Ex as [Ex|Ex]; apply N.eqb_eq in Ex; subst x;
        [apply As_word_boundary|apply As_not_word_boundary].
    - destruct r' as [|c2 l2]; cbn; discriminate. }
  destruct (N.eqb_spec c g_lparen) as [->|_]; [|intros [= <- <-]; right; split; reflexivity].
  destruct l' as [|q r1]; [intros [= <- <-]; right; split; reflexivity|].
  destruct (N.eqb_spec q g_question) as [->|_]; [|intros [= <- <-]; right; split; reflexivity].
  destruct r1 as [|x r2]; [intros [= <- <-]; right; split; reflexivity|].
  destruct (N.eqb_spec x g_less) as [->|Hx].
  - destruct r2 as [|y r3]; [intros [= <- <-]; right; split; reflexivity|].
    destruct (is_eq_or_bang y) eqn:Ey; [|intros [= <- <-]; right; split; reflexivity].
    intros H. apply sp_group_body_sound in H. destruct H as [-> [d [k [-> Hd]]]]. left. split; [reflexivity|].
    apply is_eq_or_bang_cases in Ey. destruct Ey as [->| ->].
    + exists (g_lparen :: g_question :: g_less :: g_equals :: d ++ [g_rparen]), k. split; [cbn [app]; rewrite <- app_assoc; reflexivity|].
      split; [apply As_lookbehind; exact Hd|]. cbn. discriminate.
    + exists (g_lparen :: g_question :: g_less :: g_bang :: d ++ [g_rparen]), k. split; [cbn [app]; rewrite <- app_assoc; reflexivity|].
      split; [apply As_neg_lookbehind; exact Hd|]. cbn. discriminate.
  - destruct (is_eq_or_bang x) eqn:Ex; [|intros [= <- <-]; right; split; reflexivity].
    intros H. apply sp_group_body_sound in H. destruct H as [-> [d [k [-> Hd]]]]. left. split; [reflexivity|].
    apply is_eq_or_bang_cases in Ex. destruct Ex as [->| ->].
    + exists (g_lparen :: g_question :: g_equals :: d ++ [g_rparen]), k. split; [cbn [app]; rewrite <- app_assoc; reflexivity|].
      assert (HQ : QuantifiableAssertion u np (g_lparen :: g_question :: g_equals :: d ++ [g_rparen]) r k) by (apply QA_lookahead; exact Hd).
      split; [apply As_lookahead; exact HQ|]. cbn. intros Hu. split; [destruct u; [discriminate|reflexivity]|exact HQ].
    + exists (g_lparen :: g_question :: g_bang :: d ++ [g_rparen]), k. split; [cbn [app]; rewrite <- app_assoc; reflexivity|].
      assert (HQ : QuantifiableAssertion u np (g_lparen :: g_question :: g_bang :: d ++ [g_rparen]) r k) by (apply QA_neg_lookahead; exact Hd).
      split; [apply As_lookahead; exact HQ|]. cbn. intros Hu. split; [destruct u; [discriminate|reflexivity]|exact HQ].
Qed.
Lemma sp_brq_noerr_false u0 l r : sp_brq u0 true l = SOk false r -> sp_braced l = None.
Proof. unfold sp_brq. destruct (sp_braced l) as [[[n om] r']|]; [cbn [negb andb]; discriminate|reflexivity]. Qed.
Lemma sp_brq_noerr_none u0 l : sp_braced l = None -> sp_brq u0 true l = SOk false l.
Proof. unfold sp_brq. intros ->. reflexivity. Qed.
Lemma sp_atom_sound l b r : sp_assertion sdisj l = SOk false l -> sp_atom u np sdisj l = SOk b r ->
  (b = true /\ exists w k, l = w ++ r /\ Atom u np w r k) \/ (b = false /\ r = l).
Proof.
  intros Hna.
  destruct l as [|c l']; cbn [sp_atom]; [intros [= <- <-]; right; split; reflexivity|].
  destruct (N.eqb_spec c g_dot) as [->|_].
  { intros [= <- <-]. left. split; [reflexivity|]. exists [g_dot], 0. split; [reflexivity|apply At_dot]. }
  destruct (N.eqb_spec c g_backslash) as [->|_].
  { destruct (sp_escape u np (g_backslash :: l')) as [[|] r1| |] eqn:Ee; try discriminate.
    - intros [= <- <-]. left. split; [reflexivity|]. apply (sp_escape_sound u np) in Ee.
      destruct Ee as [[_ [w [E [HA Hlong]]]]|[Ee _]]; [|discriminate]. injection E as ->.
      exists (g_backslash :: w), 0. split; [reflexivity|]. apply At_escape; [exact HA|].
      intros c ->. cbn [sp_assertion app] in Hna. cbn [N.eqb Pos.eqb] in Hna. destruct (assertion_escape c); [discriminate|reflexivity].
    - destruct (bs_c (g_backslash :: l')) eqn:Ebc; [|intros [= <- <-]; right; split; reflexivity].
      intros [= <- <-]. left. split; [reflexivity|]. exists [g_backslash], 0. split; [reflexivity|].
      destruct l' as [|x l'']; [discriminate Ebc|]. cbn [bs_c] in Ebc. rewrite N.eqb_refl in Ebc. cbn [andb] in Ebc.
      apply N.eqb_eq in Ebc. subst x. destruct u eqn:Eu.
      + cbn [sp_escape] in Ee. rewrite N.eqb_refl in Ee. exfalso. revert Ee. unfold sp_atom_escape, sp_hex_esc, sp_unicode_esc.
        cbn [character_class_escape control_escape existsb N.eqb Pos.eqb orb andb identity_escape syntax_character g_slash
             g_caret g_dollar g_backslash g_dot g_star g_plus g_question g_lparen g_rparen g_lbracket g_rbracket g_lbrace g_rbrace g_bar].
        destruct (starts_letter l''); discriminate.
      + apply At_backslash_c; [reflexivity|].
        cbn [sp_escape] in Ee. rewrite N.eqb_refl in Ee. revert Ee. unfold sp_atom_escape.
        cbn [character_class_escape control_escape existsb N.eqb Pos.eqb orb andb].
        destruct l'' as [|d l3]; [intros _; exact I|]. cbn [starts_letter]. destruct (control_letter d); [discriminate|reflexivity]. }
  destruct (N.eqb_spec c g_lbracket) as [->|_].
  { intros H. apply sp_class_sound in H. destruct H as [[-> [w [-> Hw]]]|[_ [_ H]]]; [|discriminate H].
    left. split; [reflexivity|]. exists w, 0. split; [reflexivity|apply At_class; exact Hw]. }
  destruct (N.eqb_spec c g_lparen) as [->|_].
  { assert (Hcap : forall l0, sp_group_body sdisj l0 = SOk b r ->
              b = true /\ exists w k, g_lparen :: l0 = w ++ r /\ Atom u np w r k).
    { intros l0 H. apply sp_group_body_sound in H. destruct H as [-> [d [k [-> Hd]]]]. split; [reflexivity|].
      exists (g_lparen :: d ++ [g_rparen]), (1 + k). split; [cbn [app]; rewrite <- app_assoc; reflexivity|apply At_group; exact Hd]. }
    destruct l' as [|q r']; [intros H; left; apply Hcap; exact H|].
    destruct (N.eqb_spec q g_question) as [->|_]; [|intros H; left; apply Hcap; exact H].
    destruct r' as [|k r'']; [discriminate|].
    destruct (N.eqb_spec k g_colon) as [->|_]; [|discriminate].
    intros H. apply sp_group_body_sound in H. destruct H as [-> [d [k [-> Hd]]]]. left. split; [reflexivity|].
    exists (g_lparen :: g_question :: g_colon :: d ++ [g_rparen]), k. split; [cbn [app]; rewrite <- app_assoc; reflexivity|].
    apply At_noncapturing; exact Hd. }
  destruct u eqn:Eu.
  { destruct (syntax_character c) eqn:Es; cbn [negb]; [intros [= <- <-]; right; split; reflexivity|].
    intros [= <- <-]. left. split; [reflexivity|]. exists [c], 0. split; [reflexivity|].
    apply At_char; [cbn [pattern_char]; rewrite Es; reflexivity|discriminate]. }
  destruct (sp_brq false true (c :: l')) as [[|] r0| |] eqn:Eb; try discriminate.
  destruct (extended_pattern_character c) eqn:Ec; [|intros [= <- <-]; right; split; reflexivity].
  intros [= <- <-]. left. split; [reflexivity|]. exists [c], 0. split; [reflexivity|].
  apply At_char; [exact Ec|]. intros _. apply not_ibq_none. exact (sp_brq_noerr_false _ _ _ Eb).
Qed.
Lemma sp_quantified_sound r0 b r : sp_quantified u r0 = SOk b r ->
  b = true /\ (r = r0 \/ exists q, r0 = q ++ r /\ Quantifier q).
Proof.
  unfold sp_quantified. destruct (sp_quant u false r0) as [[|] r1| |] eqn:E; try discriminate; intros [= <- <-]; (split; [reflexivity|]).
  - right. apply sp_quant_sound in E. exact E.
  - left. apply sp_quant_false in E. exact E.
Qed.
Lemma sp_term_sound l b r : sp_term u np sdisj l = SOk b r ->
  (b = true /\ exists t k, l = t ++ r /\ Term u np t r k) \/ (b = false /\ r = l).
Proof.
  unfold sp_term. destruct (sp_assertion sdisj l) as [[|] r0| |] eqn:Ea; try discriminate.
  - apply sp_assertion_sound in Ea. destruct Ea as [[_ [w [k [-> [Hw Hq]]]]]|[Ea _]]; [|discriminate].
    destruct (quantifiable u (w ++ r0)) eqn:Eq.
    + intros H. apply sp_quantified_sound in H. destruct H as [-> H]. left. split; [reflexivity|]. destruct (Hq eq_refl) as [Hu HQ].
      destruct H as [->|[q [-> Hq']]].
      * exists w, k. split; [reflexivity|apply T_assertion; exact Hw].
      * exists (w ++ q), k. split; [rewrite app_assoc; reflexivity|]. apply T_qassertion_quant; assumption.
    + intros [= <- <-]. left. split; [reflexivity|]. exists w, k. split; [reflexivity|apply T_assertion; exact Hw].
  - assert (Hna : sp_assertion sdisj l = SOk false l).
    { rewrite Ea. f_equal. apply sp_assertion_sound in Ea. destruct Ea as [[Ea _]|[_ Ea]]; [discriminate|exact Ea]. }
    destruct (sp_atom u np sdisj l) as [[|] r1| |] eqn:E; try discriminate.
    + intros H. apply sp_quantified_sound in H. destruct H as [-> H]. left. split; [reflexivity|].
      apply (sp_atom_sound _ _ _ Hna) in E. destruct E as [[_ [w [k [-> Hw]]]]|[E _]]; [|discriminate].
      destruct H as [->|[q [-> Hq]]].
      * exists w, k. split; [reflexivity|apply T_atom; exact Hw].
      * exists (w ++ q), k. split; [rewrite app_assoc; reflexivity|]. apply T_atom_quant; assumption.
    + intros [= <- <-]. right. split; [reflexivity|].
      apply (sp_atom_sound _ _ _ Hna) in E. destruct E as [[E _]|[_ E]]; [discriminate|exact E].
Qed.
Lemma sp_alternative_sound g : forall l r, sp_alternative u np sdisj g l = SOk tt r ->
  exists a k, l = a ++ r /\ Alternative u np a r k.
Proof.
  induction g as [|g IH]; intros l r; cbn [sp_alternative]; [discriminate|].
  destruct l as [|c l']; [intros [= <-]; exists [], 0; split; [reflexivity|apply A_empty]|].
  destruct (sp_term u np sdisj (c :: l')) as [[|] r0| |] eqn:E; try discriminate.
  - intros H. apply IH in H. destruct H as [a [ka [-> Ha]]].
    apply sp_term_sound in E. destruct E as [[_ [t [kt [-> Ht]]]]|[E _]]; [|discriminate].
    exists (t ++ a), (kt + ka). split; [rewrite app_assoc; reflexivity|apply Alternative_cons; assumption].
  - intros [= <-]. apply sp_term_sound in E. destruct E as [[E _]|[_ ->]]; [discriminate|].
    exists [], 0. split; [reflexivity|apply A_empty].
Qed.
Lemma sp_bars_sound g : forall l r, sp_bars u np sdisj g l = SOk tt r ->
  forall a k, Alternative u np a l k -> exists d k', a ++ l = d ++ r /\ Disjunction u np d r k'.
Proof.
  induction g as [|g IH]; intros l r; cbn [sp_bars]; [discriminate|].
  destruct l as [|c l'].
  { intros [= <-] a k Ha. exists a, k. split; [reflexivity|apply D_alt; exact Ha]. }
  destruct (N.eqb_spec c g_bar) as [->|_].
  2:{ intros [= <-] a k Ha. exists a, k. split; [reflexivity|apply D_alt; exact Ha]. }
  destruct (sp_alternative u np sdisj (S (length l')) l') as [[] r0| |] eqn:E; try discriminate.
  intros H a k Ha. apply sp_alternative_sound in E. destruct E as [a' [k' [-> Ha']]].
  destruct (IH _ _ H a' k' Ha') as [d [kd [Hd1 Hd2]]]. exists (a ++ g_bar :: d), (k + kd). split.
  - rewrite Hd1. rewrite <- app_assoc. reflexivity.
  - apply D_bar; [rewrite <- Hd1; exact Ha|exact Hd2].
Qed.
Lemma sp_disjunction_body_sound l r : sp_disjunction_body u np sdisj l = SOk tt r ->
  exists d k, l = d ++ r /\ Disjunction u np d r k.
Proof.
  unfold sp_disjunction_body.
  destruct (sp_alternative u np sdisj (S (length l)) l) as [[] l1| |] eqn:E1; try discriminate.
  destruct (sp_bars u np sdisj (S (length l1)) l1) as [[] l2| |] eqn:E2; try discriminate.
  destruct (sp_quant u true l2) as [[|] r2| |]; try discriminate.
  destruct (starts_with g_lbrace l2); [discriminate|]. intros [= <-].
  apply sp_alternative_sound in E1. destruct E1 as [a [k [-> Ha]]].
  exact (sp_bars_sound _ _ _ E2 a k Ha).
Qed.
End Sound.

Lemma sp_disjunction_sound u np f : forall l r, sp_disjunction u np f l = SOk tt r -> exists d k, l = d ++ r /\ Disjunction u np d r k.
Proof.
  induction f as [|f IH]; intros l r; cbn [sp_disjunction]; [discriminate|].
  apply sp_disjunction_body_sound. exact IH.
Qed.

(* ================= completeness ================= *)
Lemma sp_quant_complete u q r : Quantifier q -> noq u r -> sp_quant u false (q ++ r) = SOk true r.
Proof.
  intros HQ Hr.
  assert (Hpre : forall p r0, QuantifierPrefix p -> sp_quant u false (p ++ r0) = SOk true (skip_lazy r0)).
  { intros p r0 Hp. destruct Hp as [| | |p n om HB Hle]; try reflexivity.
    pose proof (sp_braced_complete p n om HB r0) as Eb. destruct (Braced_head p n om HB) as [p' ->].
    cbn [app sp_quant] in *. cbn [is_quant_char N.eqb Pos.eqb g_lbrace g_star g_plus g_question orb].
    unfold sp_brq. change 123 with g_lbrace. rewrite Eb. cbn [negb andb].
    assert (Hb : bounds_ok n om = true).
    { destruct om as [m|]; [|reflexivity]. cbn [bounds_ok]. apply N.leb_le. apply Hle. reflexivity. }
    rewrite Hb. reflexivity. }
  destruct HQ as [p Hp|p Hp].
  - rewrite (Hpre p r Hp). rewrite (noq_skip_lazy u r Hr). reflexivity.
  - rewrite <- app_assoc. rewrite (Hpre p _ Hp). cbn [app skip_lazy]. rewrite N.eqb_refl. reflexivity.
Qed.

(* first units: nothing starts where a quantifier could be read *)
Lemma grammar_heads u np :
  (forall d r k, Disjunction u np d r k -> d = [] \/ noq u (d ++ r)) /\
  (forall a r k, Alternative u np a r k -> a = [] \/ noq u (a ++ r)) /\
  (forall t r k, Term u np t r k -> t <> [] /\ noq u (t ++ r)) /\
  (forall w r k, Assertion u np w r k -> w <> [] /\ noq u (w ++ r)) /\
  (forall w r k, QuantifiableAssertion u np w r k -> w <> [] /\ noq u (w ++ r)) /\
  (forall w r k, Atom u np w r k -> w <> [] /\ noq u (w ++ r)).
Proof.
  apply grammar_mutind.
  - intros a r k _ IH. exact IH.
  - intros a d r k1 k2 _ IHa _ _. right. destruct IHa as [->|IHa]; [destruct u; reflexivity|]. rewrite <- app_assoc. exact IHa.
  - intros r. left. reflexivity.
  - intros a t r k1 k2 _ IHa _ [Hne IHt]. right. destruct IHa as [->|IHa]; [exact IHt|]. rewrite <- app_assoc. exact IHa.
  - intros a r k _ IH. exact IH.
  - intros a q r k _ _ [Hne IHa] _. split; [destruct a; [contradiction|discriminate]|]. rewrite <- app_assoc. exact IHa.
  - intros a r k _ IH. exact IH.
  - intros a q r k _ [Hne IHa] _. split; [destruct a; [contradiction|discriminate]|]. rewrite <- app_assoc. exact IHa.
  - intros r. split; [discriminate|destruct u; reflexivity].
  - intros r. split; [discriminate|destruct u; reflexivity].
  - intros r. split; [discriminate|destruct u; reflexivity].
  - intros r. split; [discriminate|destruct u; reflexivity].
  - intros a r k _ IH. exact IH.
  - intros d r k _ _. split; [discriminate|destruct u; reflexivity].
  - intros d r k _ _. split; [discriminate|destruct u; reflexivity].
  - intros d r k _ _. split; [discriminate|destruct u; reflexivity].
  - intros d r k _ _. split; [discriminate|destruct u; reflexivity].
  - intros c r Hc Hib. split; [discriminate|]. cbn [app]. unfold noq. cbn [sp_quant].
    rewrite (pattern_char_not_quant u c Hc). destruct (N.eqb_spec c g_lbrace) as [->|Hn].
    2:{ apply N.eqb_neq in Hn. rewrite (sp_brq_not_brace u false c r Hn). reflexivity. }
    destruct u; [discriminate Hc|]. unfold sp_brq.
    destruct (sp_braced (g_lbrace :: r)) as [[[n om] r']|] eqn:Eb; [|reflexivity].
    exfalso. apply sp_braced_sound in Eb. destruct Eb as [q [HB E]].
    exact (Hib eq_refl q r' (ex_intro _ n (ex_intro _ om HB)) E).
  - intros r. split; [discriminate|destruct u; reflexivity].
  - intros w r _ _. split; [discriminate|destruct u; reflexivity].
  - intros r _ _. split; [discriminate|destruct u; reflexivity].
  - intros w r [w0 r0 _ _|w0 r0 _]; (split; [discriminate|destruct u; reflexivity]).
  - intros d r k _ _. split; [discriminate|destruct u; reflexivity].
  - intros d r k _ _. split; [discriminate|destruct u; reflexivity].
Qed.
Lemma noq_not_question' u r q l : noq u r -> r = q :: l -> (q =? g_question) = false.
Proof. intros H ->. apply noq_head in H. unfold is_quant_char in H. apply orb_false_iff in H. apply H. Qed.

(* ---- NcapturingParens: the groups of a derivation are the groups count_groups finds in its text ---- *)
(* units that count_groups passes over, whether inside a class or not *)
Definition safe (c : N) : Prop := c <> g_backslash /\ c <> g_lparen /\ c <> g_lbracket /\ c <> g_rbracket.
Lemma count_safe cls ws r : Forall safe ws -> count_groups (ws ++ r) cls false = count_groups r cls false.
Proof.
  induction 1 as [|c ws [H1 [H2 [H3 H4]]] _ IH]; [reflexivity|]. cbn [app count_groups].
  apply N.eqb_neq in H1, H2, H3, H4. rewrite H1, H2, H3, H4. exact IH.
Qed.
(* inside a class only the backslash and the closing bracket matter *)
Definition csafe (c : N) : Prop := c <> g_backslash /\ c <> g_rbracket.
Lemma count_csafe ws r : Forall csafe ws -> count_groups (ws ++ r) true false = count_groups r true false.
Proof.
  induction 1 as [|c ws [H1 H2] _ IH]; [reflexivity|]. cbn [app count_groups].
  apply N.eqb_neq in H1, H2. rewrite H1, H2. cbn [negb andb]. rewrite andb_false_r. destruct (c =? g_lbracket); exact IH.
Qed.
Lemma digit_safe ds : Forall digit ds -> Forall safe ds.
Proof. apply Forall_impl. intros c Hc. repeat split; intros ->; discriminate Hc. Qed.
Lemma hexd_safe ds : Forall hexd ds -> Forall safe ds.
Proof. apply Forall_impl. intros c Hc. repeat split; intros ->; discriminate Hc. Qed.
Lemma DecimalDigits_safe ds v : DecimalDigits ds v -> Forall safe ds.
Proof. intros H. apply DecimalDigits_spec in H. apply digit_safe. apply H. Qed.
Lemma HexDigits_safe ds v : HexDigits ds v -> Forall safe ds.
Proof. intros H. apply HexDigits_spec in H. apply hexd_safe. apply H. Qed.
Lemma safe_const c : (c =? g_backslash) = false -> (c =? g_lparen) = false -> (c =? g_lbracket) = false -> (c =? g_rbracket) = false -> safe c.
Proof. intros H1 H2 H3 H4. repeat split; apply N.eqb_neq; assumption. Qed.
Lemma Braced_safe q n om : Braced q n om -> Forall safe q.
Proof.
  intros [ds n0 Hd|ds n0 Hd|ds n0 es m Hd He]; (constructor; [apply safe_const; reflexivity|]); apply Forall_app; split;
    try (eapply DecimalDigits_safe; eassumption).
  - repeat constructor; apply safe_const; reflexivity.
  - repeat constructor; apply safe_const; reflexivity.
  - constructor; [apply safe_const; reflexivity|]. apply Forall_app. split; [eapply DecimalDigits_safe; eassumption|].
    repeat constructor; apply safe_const; reflexivity.
Qed.
Lemma Quantifier_safe q : Quantifier q -> Forall safe q.
Proof.
  assert (Hp : forall p, QuantifierPrefix p -> Forall safe p).
  { intros p [| | |p0 n om HB _]; try (repeat constructor; apply safe_const; reflexivity). eapply Braced_safe; eassumption. }
  intros [p H|p H]; [apply Hp; exact H|]. apply Forall_app. split; [apply Hp; exact H|repeat constructor; apply safe_const; reflexivity].
Qed.
Lemma letter_safe c : control_letter c = true -> safe c.
Proof. intros H. repeat split; intros ->; discriminate H. Qed.
Lemma CharacterEscape_count u onp w r v cls : CharacterEscape u onp w r v -> count_groups (w ++ r) cls true = count_groups r cls false.
Proof.
  intros [c r0 _|c r0 Hc|r0 _|h1 h2 r0 H1 H2|w0 r0 v0 HU|w0 r0 v0 _ HL _|c r0 _ _]; try reflexivity.
  - cbn [app count_groups]. apply (count_safe cls [c]). constructor; [apply letter_safe; exact Hc|constructor].
  - cbn [app count_groups]. apply (count_safe cls [h1; h2]). apply hexd_safe. repeat constructor; assumption.
  - destruct HU as [hs v1 ts x r1 _ [Hh _] _ [Ht _] _|hs v1 r1 [Hh _] _|ds v1 r1 _ Hd _]; cbn [app count_groups].
    + rewrite <- app_assoc. rewrite (count_safe cls hs) by (eapply HexDigits_safe; eassumption). cbn [app count_groups].
      cbn [N.eqb Pos.eqb g_backslash]. apply count_safe. eapply HexDigits_safe; eassumption.
    + apply count_safe. eapply HexDigits_safe; eassumption.
    + change (count_groups ((g_lbrace :: ds ++ [g_rbrace]) ++ r1) cls false = count_groups r1 cls false).
      apply count_safe. constructor; [apply safe_const; reflexivity|]. apply Forall_app. split; [eapply HexDigits_safe; eassumption|].
      repeat constructor; apply safe_const; reflexivity.
  - destruct (LegacyOctal_head w0 r0 _ HL) as [a [w' [-> _]]]. cbn [app count_groups]. apply count_safe.
    assert (Hall : Forall (fun c => octal_digit c = true) (a :: w')).
    { destruct HL; repeat constructor; try assumption; try reflexivity; try (apply zero_to_three_octal; assumption);
        try (apply four_to_seven_octal; assumption). }
    inversion Hall as [|? ? _ Hw']; subst. revert Hw'. apply Forall_impl. intros c Hc. repeat split; intros ->; discriminate Hc.
Qed.
Lemma AtomEscape_count u np w r : AtomEscape u np w r -> count_groups (w ++ r) false true = count_groups r false false.
Proof.
  intros [ds v r0 HD _|c r0 _|w0 r0 v0 HC].
  - destruct HD as [d ds' v0 r1 _ HDD _]. apply DecimalDigits_safe in HDD. inversion HDD as [|? ? _ Hs]; subst.
    cbn [app count_groups]. apply count_safe. exact Hs.
  - reflexivity.
  - eapply CharacterEscape_count; exact HC.
Qed.
(* classes *)
Lemma ClassEscape_count u w r ov : ClassEscape u w r ov -> count_groups (w ++ r) true true = count_groups r true false.
Proof.
  intros [r0|r0 _|c r0 _ Hc|c r0 _|w0 r0 v HC _]; try reflexivity.
  - cbn [app count_groups]. apply (count_csafe [c]). constructor; [|constructor].
    unfold class_control_letter in Hc. split; intros ->; discriminate Hc.
  - eapply CharacterEscape_count; exact HC.
Qed.
Lemma ClassAtom_count u a r v : ClassAtom u a r v -> count_groups (a ++ r) true false = count_groups r true false.
Proof.
  intros [r0|w0 r0 v0 [c r1 H1 H2 H3|w1 r1 v1 HE|r1 _ _]].
  - reflexivity.
  - apply (count_csafe [c]). constructor; [split; assumption|constructor].
  - cbn [app count_groups]. cbn [N.eqb Pos.eqb g_backslash]. eapply ClassEscape_count; exact HE.
  - reflexivity.
Qed.
Lemma ClassAtomNoDash_count u a r v : ClassAtomNoDash u a r v -> count_groups (a ++ r) true false = count_groups r true false.
Proof. intros H. apply (ClassAtom_count u a r v). apply CA_no_dash. exact H. Qed.
Lemma ClassRanges_count u :
  (forall w r, ClassRanges u w r -> count_groups (w ++ r) true false = count_groups r true false) /\
  (forall w r, NonemptyClassRanges u w r -> count_groups (w ++ r) true false = count_groups r true false) /\
  (forall w r, NonemptyClassRangesNoDash u w r -> count_groups (w ++ r) true false = count_groups r true false).
Proof.
  apply class_ranges_mutind.
  - intros r. reflexivity.
  - intros w r _ IH. exact IH.
  - intros a r v Ha. eapply ClassAtom_count; exact Ha.
  - intros a b r v Ha _ IHb. rewrite <- app_assoc. rewrite (ClassAtom_count u a _ v Ha). exact IHb.
  - intros a b c r va vb Ha Hb _ IHc _. rewrite <- app_assoc. cbn [app]. rewrite <- app_assoc.
    rewrite (ClassAtom_count u a _ va Ha). cbn [count_groups N.eqb Pos.eqb g_backslash g_lbracket g_rbracket g_lparen andb negb].
    rewrite (ClassAtom_count u b _ vb Hb). exact IHc.
  - intros a r v Ha. eapply ClassAtom_count; exact Ha.
  - intros a b r v Ha _ IHb. rewrite <- app_assoc. rewrite (ClassAtomNoDash_count u a _ v Ha). exact IHb.
  - intros a b c r va vb Ha Hb _ IHc _. rewrite <- app_assoc. cbn [app]. rewrite <- app_assoc.
    rewrite (ClassAtomNoDash_count u a _ va Ha). cbn [count_groups N.eqb Pos.eqb g_backslash g_lbracket g_rbracket g_lparen andb negb].
    rewrite (ClassAtom_count u b _ vb Hb). exact IHc.
Qed.
Lemma CharacterClass_count u w r : CharacterClass u w r -> count_groups (w ++ r) false false = count_groups r false false.
Proof.
  intros [w0 r0 _ Hw|w0 r0 Hw]; cbn [app count_groups]; cbn [N.eqb Pos.eqb g_lbracket g_backslash]; rewrite <- app_assoc; cbn [app].
  - rewrite (proj1 (ClassRanges_count u) w0 _ Hw). reflexivity.
  - cbn [count_groups N.eqb Pos.eqb g_caret g_backslash g_lbracket g_rbracket g_lparen andb negb].
    rewrite (proj1 (ClassRanges_count u) w0 _ Hw). reflexivity.
Qed.
Lemma count_mut u np :
  (forall d r k, Disjunction u np d r k -> count_groups (d ++ r) false false = k + count_groups r false false) /\
  (forall a r k, Alternative u np a r k -> count_groups (a ++ r) false false = k + count_groups r false false) /\
  (forall t r k, Term u np t r k -> count_groups (t ++ r) false false = k + count_groups r false false) /\
  (forall w r k, Assertion u np w r k -> count_groups (w ++ r) false false = k + count_groups r false false) /\
  (forall w r k, QuantifiableAssertion u np w r k -> count_groups (w ++ r) false false = k + count_groups r false false) /\
  (forall w r k, Atom u np w r k -> count_groups (w ++ r) false false = k + count_groups r false false).
Proof.
  assert (Hgroup : forall pre d r k, Forall safe pre ->
            count_groups (d ++ g_rparen :: r) false false = k + count_groups (g_rparen :: r) false false ->
            count_groups ((g_lparen :: g_question :: pre ++ d ++ [g_rparen]) ++ r) false false = k + count_groups r false false).
  { intros pre d r k Hp IH. cbn [app count_groups]. cbn [N.eqb Pos.eqb g_lparen g_backslash g_question g_lbracket g_rbracket starts_with andb negb].
    rewrite <- !app_assoc. rewrite (count_safe false pre _ Hp). cbn [app]. rewrite IH. reflexivity. }
  apply grammar_mutind.
  - intros a r k _ IH. exact IH.
  - intros a d r k1 k2 _ IHa _ IHd. rewrite <- app_assoc. cbn [app]. rewrite IHa. cbn [count_groups].
    cbn [N.eqb Pos.eqb g_bar g_backslash g_lparen g_lbracket g_rbracket andb]. rewrite IHd. apply N.add_assoc.
  - intros r. reflexivity.
  - intros a t r k1 k2 _ IHa _ IHt. rewrite <- app_assoc. rewrite IHa, IHt. apply N.add_assoc.
  - intros a r k _ IH. exact IH.
  - intros a q r k _ _ IHa Hq. rewrite <- app_assoc. rewrite IHa. rewrite (count_safe false q r (Quantifier_safe q Hq)). reflexivity.
  - intros a r k _ IH. exact IH.
  - intros a q r k _ IHa Hq. rewrite <- app_assoc. rewrite IHa. rewrite (count_safe false q r (Quantifier_safe q Hq)). reflexivity.
  - intros r. reflexivity.
  - intros r. reflexivity.
  - intros r. reflexivity.
  - intros r. reflexivity.
  - intros a r k _ IH. exact IH.
  - intros d r k _ IH. apply (Hgroup [g_less; g_equals] d r k); [repeat constructor; apply safe_const; reflexivity|exact IH].
  - intros d r k _ IH. apply (Hgroup [g_less; g_bang] d r k); [repeat constructor; apply safe_const; reflexivity|exact IH].
  - intros d r k _ IH. apply (Hgroup [g_equals] d r k); [repeat constructor; apply safe_const; reflexivity|exact IH].
  - intros d r k _ IH. apply (Hgroup [g_bang] d r k); [repeat constructor; apply safe_const; reflexivity|exact IH].
  - intros c r Hc _. destruct (N.eq_dec c g_rbracket) as [->|Hrb]; [reflexivity|].
    apply (count_safe false [c]). constructor; [|constructor]. repeat split; try (intros ->; destruct u; discriminate Hc). exact Hrb.
  - intros r. reflexivity.
  - intros w r He _. cbn [app count_groups]. cbn [N.eqb Pos.eqb g_backslash]. apply (AtomEscape_count u np w r He).
  - intros r _ _. reflexivity.
  - intros w r Hc. apply (CharacterClass_count u w r Hc).
  - intros d r k Hd IH. cbn [app count_groups]. cbn [N.eqb Pos.eqb g_lparen g_backslash g_lbracket g_rbracket andb negb].
    assert (Hq : starts_with g_question ((d ++ [g_rparen]) ++ r) = false).
    { destruct (proj1 (grammar_heads u np) d _ k Hd) as [->|Hq]; [reflexivity|]. destruct d as [|q d']; [reflexivity|].
      cbn [app starts_with] in *. exact (noq_not_question' u _ q _ Hq eq_refl). }
    rewrite Hq. cbn [negb]. rewrite <- app_assoc. cbn [app]. rewrite IH. rewrite N.add_assoc. reflexivity.
  - intros d r k _ IH. apply (Hgroup [g_colon] d r k); [repeat constructor; apply safe_const; reflexivity|exact IH].
Qed.

Theorem sp_pattern_sound u l a r : sp_pattern u l = SOk a r -> Pattern u l.
Proof.
  unfold sp_pattern. destruct (sp_disjunction u (count_groups l false false) (S (length l)) l) as [[] [|c r0]| |] eqn:E; try discriminate.
  intros _. apply sp_disjunction_sound in E. destruct E as [d [k [-> Hd]]]. rewrite app_nil_r in *.
  pose proof (proj1 (count_mut u _) d [] k Hd) as Hc. rewrite app_nil_r in Hc. cbn [count_groups] in Hc. rewrite N.add_0_r in Hc.
  exists k. rewrite Hc in Hd. exact Hd.
Qed.

(* more fuel does not change a result *)
Lemma sp_alternative_mono u np sdisj g : forall l res, sp_alternative u np sdisj g l = res -> res <> SFuel ->
  forall g', (g <= g')%nat -> sp_alternative u np sdisj g' l = res.
Proof.
  induction g as [|g IH]; intros l res H Hne g' Hle; [cbn in H; congruence|].
  destruct g' as [|g']; [lia|]. cbn [sp_alternative] in *.
  destruct l as [|c l']; [exact H|].
  destruct (sp_term u np sdisj (c :: l')) as [[|] r0| |]; try exact H.
  apply (IH _ _ H Hne). lia.
Qed.

Section Complete.
Variable u : bool.
Variable np : N.

Definition P_D (d r : list N) : Prop :=
  forall f, stop r -> (length (d ++ r) <= f)%nat ->
  exists l1, sp_alternative u np (sp_disjunction u np f) (S (length (d ++ r))) (d ++ r) = SOk tt l1 /\
             (length l1 <= length (d ++ r))%nat /\
             forall g, (length l1 < g)%nat -> sp_bars u np (sp_disjunction u np f) g l1 = SOk tt r.
Definition P_A (a r : list N) : Prop :=
  forall f g res, noq u r -> (length (a ++ r) <= f)%nat ->
  sp_alternative u np (sp_disjunction u np f) g r = res -> res <> SFuel ->
  sp_alternative u np (sp_disjunction u np f) (g + length a) (a ++ r) = res.
Definition P_T (t r : list N) : Prop :=
  forall f, noq u r -> (length (t ++ r) <= f)%nat -> sp_term u np (sp_disjunction u np f) (t ++ r) = SOk true r.
Definition P_As (w r : list N) : Prop :=
  forall f, (length (w ++ r) <= f)%nat -> sp_assertion (sp_disjunction u np f) (w ++ r) = SOk true r.
(* a look-ahead: recognised as an assertion, and quantifiable exactly without u *)
Definition P_QA (w r : list N) : Prop :=
  forall f, (length (w ++ r) <= f)%nat ->
  sp_assertion (sp_disjunction u np f) (w ++ r) = SOk true r /\ quantifiable u (w ++ r) = negb u.
(* an atom: not an assertion, recognised as an atom *)
Definition P_At (w r : list N) : Prop :=
  forall f, (length (w ++ r) <= f)%nat ->
  sp_atom u np (sp_disjunction u np f) (w ++ r) = SOk true r /\ sp_assertion (sp_disjunction u np f) (w ++ r) = SOk false (w ++ r).

Lemma stop_after_bars r : stop r -> sp_quant u true r = SOk false r /\ starts_with g_lbrace r = false.
Proof. intros [->|[r' ->]]; split; destruct u; reflexivity. Qed.
Lemma P_D_disjunction d r : P_D d r -> forall f, stop r -> (length (d ++ r) < f)%nat ->
  sp_disjunction u np f (d ++ r) = SOk tt r.
Proof.
  intros HP f Hs Hlen. destruct f as [|f]; [lia|]. cbn [sp_disjunction]. unfold sp_disjunction_body.
  destruct (HP f Hs ltac:(lia)) as [l1 [E1 [Hl1 Hb]]]. rewrite E1.
  rewrite (Hb (S (length l1)) ltac:(lia)). destruct (stop_after_bars r Hs) as [-> ->]. reflexivity.
Qed.
(* `(x` D `)` rest, entered after the prefix: the body of any group or look-around *)
Lemma P_D_group_body d r : P_D d (g_rparen :: r) -> forall f, (S (length (d ++ g_rparen :: r)) <= f)%nat ->
  sp_group_body (sp_disjunction u np f) (d ++ g_rparen :: r) = SOk true r.
Proof.
  intros HP f Hlen. unfold sp_group_body. rewrite (P_D_disjunction d (g_rparen :: r) HP f).
  - rewrite N.eqb_refl. reflexivity.
  - right. exists r. reflexivity.
  - lia.
Qed.

Lemma alt_stops_at f r : r = [] \/ (exists r', r = g_rparen :: r') \/ (exists r', r = g_bar :: r') ->
  sp_alternative u np (sp_disjunction u np f) 1 r = SOk tt r.
Proof. intros [->|[[r' ->]|[r' ->]]]; [reflexivity| |]; cbn; destruct u; reflexivity. Qed.

Lemma stop_bar_noq r : noq u (g_bar :: r).
Proof. destruct u; reflexivity. Qed.
Lemma app_comm_cons' (a b : list N) c : (a ++ [c]) ++ b = a ++ c :: b.
Proof. rewrite <- app_assoc. reflexivity. Qed.
Lemma noq_not_question r q l : noq u r -> r = q :: l -> (q =? g_question) = false.
Proof. intros H ->. apply noq_head in H. unfold is_quant_char in H. apply orb_false_iff in H. apply H. Qed.

Lemma sp_hex_esc_not_x u0 c r : (c =? 120) = false -> sp_hex_esc u0 (c :: r) = SOk false (c :: r).
Proof. intros H. cbn [sp_hex_esc]. rewrite H. reflexivity. Qed.
Lemma sp_unicode_esc_not_u u0 c r : (c =? 117) = false -> sp_unicode_esc u0 (c :: r) = SOk false (c :: r).
Proof. intros H. cbn [sp_unicode_esc]. rewrite H. reflexivity. Qed.
Lemma sp_unicode_esc_complete w r v : RegExpUnicodeEscapeSequence u w r v ->
  sp_unicode_esc u (w ++ r) = SOk true r /\ unicode_value u (tl (w ++ r)) = v.
Proof.
  intros [hs v0 ts x r0 Hu Hh Hl Ht Hw|hs v0 r0 Hh Hn|ds v0 r0 Hu Hd Hv]; cbn [app sp_unicode_esc tl]; cbn [N.eqb Pos.eqb]; unfold unicode_value.
  - rewrite Hu. rewrite <- app_assoc. cbn [app]. rewrite (sp_surrogate_pair_complete hs v0 ts x r0 Hh Hl Ht Hw). cbn [fst andb].
    split; [reflexivity|]. rewrite (hex_run_value_spec hs v0 _ Hh).
    assert (E6 : skipn 6 (hs ++ g_backslash :: 117 :: ts ++ r0) = ts ++ r0).
    { destruct Hh as [_ Hlen]. destruct hs as [|h1 [|h2 [|h3 [|h4 [|h5 hs]]]]]; try discriminate Hlen. reflexivity. }
    rewrite E6. rewrite (hex_run_value_spec ts x _ Ht). reflexivity.
  - assert (E1 : (if u then sp_surrogate_pair (hs ++ r0) else (false, hs ++ r0)) = (false, hs ++ r0)).
    { destruct u eqn:Eu; [|reflexivity]. apply (sp_surrogate_pair_lone hs v0 r0 Hh). intros Hl. exact (Hn eq_refl Hl). }
    rewrite E1. unfold sp_fixed_hex. rewrite (Hex4Digits_run hs v0 r0 Hh). split; [reflexivity|].
    assert (E2 : (u && fst (sp_surrogate_pair (hs ++ r0)))%bool = false).
    { destruct u; [|reflexivity]. rewrite E1. reflexivity. }
    rewrite E2. reflexivity.
  - rewrite Hu. rewrite <- app_assoc. cbn [app].
    assert (Hrun : hex_run 4 (g_lbrace :: ds ++ g_rbrace :: r0) 0 = None) by reflexivity.
    unfold sp_surrogate_pair, sp_fixed_hex. rewrite Hrun. rewrite (sp_codepoint_complete ds v0 r0 Hd Hv). cbn [fst andb tl].
    split; [reflexivity|]. pose proof (HexDigits_spec ds v0 Hd) as [_ [Hf Hval]]. rewrite (span_hex_app ds _ Hf) by reflexivity. exact Hval.
Qed.
Lemma is_true_false x : (forall r, x <> SOk true r) -> is_true x = false.
Proof. destruct x as [[|] r| |]; intros H; try reflexivity. exfalso. exact (H r eq_refl). Qed.
Lemma sp_ce_complete onp w r v : CharacterEscape u onp w r v -> sp_ce u (w ++ r) = SOk true r /\ ce_value u (w ++ r) = v.
Proof.
  intros HC. destruct HC as [c r0 Hc|c r0 Hc|r0 Hn|h1 h2 r0 H1 H2|w0 r0 v0 HU|w0 r0 v0 Hu HL Hnd|c r0 Hi Hn].
  - cbn [app sp_ce ce_value]. rewrite Hc. split; reflexivity.
  - cbn [app sp_ce ce_value]. cbn [control_escape existsb N.eqb Pos.eqb orb andb starts_letter tl hd]. rewrite Hc. split; reflexivity.
  - cbn [app sp_ce ce_value]. cbn [control_escape existsb N.eqb Pos.eqb orb andb].
    assert (E : starts_digit r0 = false) by (destruct r0 as [|d r1]; [reflexivity|exact Hn]). rewrite E. split; reflexivity.
  - cbn [app sp_ce ce_value]. cbn [control_escape existsb N.eqb Pos.eqb orb andb sp_hex_esc].
    unfold sp_fixed_hex, hex_run_value. cbn [hex_run]. rewrite H1, H2. cbn [is_true]. split; [reflexivity|].
    rewrite N.mul_0_r, N.add_0_l. reflexivity.
  - destruct (sp_unicode_esc_complete w0 r0 v0 HU) as [E Ev].
    assert (Hw : exists w', w0 = 117 :: w') by (destruct HU; eexists; reflexivity). destruct Hw as [w' ->].
    cbn [app] in *. cbn [sp_ce ce_value]. cbn [control_escape existsb N.eqb Pos.eqb orb andb].
    rewrite sp_hex_esc_not_x by reflexivity. rewrite E. cbn [is_true tl] in *. split; [reflexivity|exact Ev].
  - destruct (LegacyOctal_head w0 r0 _ HL) as [a [w' [-> [Ha Hz]]]]. cbn [app] in *. cbn [sp_ce ce_value].
    destruct (octal_not_special a Ha) as [Ecl [Eco [E99 [E120 [E117 _]]]]]. rewrite Eco, E99. cbn [andb]. rewrite Hz.
    rewrite sp_hex_esc_not_x by exact E120. rewrite sp_unicode_esc_not_u by exact E117. rewrite Hu. cbn [is_true negb andb].
    change (a :: w' ++ r0) with ((a :: w') ++ r0). destruct (sp_legacy_octal_complete _ _ _ HL) as [E Ev]. rewrite E, Ha.
    split; [reflexivity|exact Ev].
  - cbn [app sp_ce ce_value]. destruct u eqn:Eu.
    + destruct (identity_true_cases c Hi) as [Ecl [Eco [E99 [E48 [E120 [E117 _]]]]]]. rewrite Eco, E99, E48. cbn [andb].
      rewrite sp_hex_esc_not_x by exact E120. rewrite sp_unicode_esc_not_u by exact E117. rewrite Hi. cbn [is_true negb andb].
      split; reflexivity.
    + destruct (Hn eq_refl) as [Eco [Hne Hnd]]. rewrite Eco.
      cbn [identity_escape] in Hi. apply negb_true_iff in Hi. rewrite Hi. cbn [andb].
      assert (Eoct : octal_digit c = false) by (destruct (octal_digit c) eqn:Eo; [exfalso; apply Hne; left; exact Eo|reflexivity]).
      assert (E48 : (c =? 48) = false) by (apply N.eqb_neq; intros ->; discriminate Eoct). rewrite E48. cbn [andb].
      assert (Eh : sp_hex_esc false (c :: r0) = SOk false (c :: r0)).
      { destruct (N.eqb_spec c 120) as [->|Hc]; [|apply sp_hex_esc_not_x; apply N.eqb_neq; exact Hc].
        cbn [sp_hex_esc N.eqb Pos.eqb]. unfold sp_fixed_hex. destruct (hex_run 2 r0 0) as [[v r1]|] eqn:E; [|reflexivity].
        exfalso. apply Hne. right. left. split; [reflexivity|]. apply hex_run_spec in E. destruct E as [hs [-> [Hl [Hf _]]]].
        destruct hs as [|h1 [|h2 [|h3 hs]]]; try discriminate Hl. exists h1, h2, r1.
        inversion Hf as [|? ? H1 Hf']; subst. inversion Hf' as [|? ? H2 _]; subst. repeat split; assumption. }
      rewrite Eh.
      assert (Eu' : sp_unicode_esc false (c :: r0) = SOk false (c :: r0)).
      { destruct (N.eqb_spec c 117) as [->|Hc]; [|apply sp_unicode_esc_not_u; apply N.eqb_neq; exact Hc].
        cbn [sp_unicode_esc N.eqb Pos.eqb]. unfold sp_fixed_hex. destruct (hex_run 4 r0 0) as [[v r1]|] eqn:E; [|reflexivity].
        exfalso. apply Hne. right. right. split; [reflexivity|]. apply run_Hex4Digits in E. destruct E as [hs [-> Hh]].
        exists hs, v, r1. split; [exact Hh|reflexivity]. }
      rewrite Eu'. cbn [sp_legacy_octal is_true negb andb]. rewrite Eoct. cbn [identity_escape]. rewrite Hi. split; reflexivity.
Qed.
Lemma sp_backref_nondigit u0 c r : non_zero_digit c = false -> sp_backref u0 np (c :: r) = SOk false (c :: r).
Proof. intros H. cbn [sp_backref]. rewrite H. reflexivity. Qed.
Lemma class_escape_cases c : character_class_escape c = true -> non_zero_digit c = false.
Proof.
  unfold character_class_escape. cbn [existsb]. intros H.
  repeat (apply orb_true_iff in H; destruct H as [H|H]); try discriminate H; apply N.eqb_eq in H; subst c; reflexivity.
Qed.
Lemma control_escape_cases c : control_escape c = true -> non_zero_digit c = false /\ character_class_escape c = false.
Proof.
  unfold control_escape. cbn [existsb]. intros H.
  repeat (apply orb_true_iff in H; destruct H as [H|H]); try discriminate H; apply N.eqb_eq in H; subst c; split; reflexivity.
Qed.
Lemma identity_true_nondigit c : identity_escape true c = true -> non_zero_digit c = false.
Proof.
  cbn [identity_escape]. unfold syntax_character. cbn [existsb]. intros H.
  repeat (apply orb_true_iff in H; destruct H as [H|H]); try discriminate H; apply N.eqb_eq in H; subst c; reflexivity.
Qed.
Lemma sp_atom_escape_complete w r : AtomEscape u np w r -> sp_atom_escape u np (w ++ r) = SOk true r.
Proof.
  intros HA. rewrite sp_atom_escape_split. destruct HA as [ds v r0 HD Hv|c r0 Hc|w0 r0 v0 HC].
  { rewrite (sp_backref_complete u np ds v r0 HD Hv). reflexivity. }
  { cbn [app]. rewrite (sp_backref_nondigit u c r0 (class_escape_cases c Hc)). cbn [sp_cce]. rewrite Hc. reflexivity. }
  destruct (sp_ce_complete (Some np) w0 r0 v0 HC) as [Ece _].
  assert (Eb : sp_backref u np (w0 ++ r0) = SOk false (w0 ++ r0)).
  { destruct HC as [c r0 Hc|c r0 Hc|r0 Hn|h1 h2 r0 H1 H2|w0 r0 v0 HU|w0 r0 v0 Hu HL Hnd|c r0 Hi Hn].
    - apply sp_backref_nondigit. apply (control_escape_cases c Hc).
    - apply sp_backref_nondigit. reflexivity.
    - apply sp_backref_nondigit. reflexivity.
    - apply sp_backref_nondigit. reflexivity.
    - assert (Hw : exists w', w0 = 117 :: w') by (destruct HU; eexists; reflexivity). destruct Hw as [w' ->].
      apply sp_backref_nondigit. reflexivity.
    - apply (sp_backref_skip u np _ (or_introl Hu) Hnd).
    - cbn [app]. destruct u eqn:Eu; [apply sp_backref_nondigit; apply (identity_true_nondigit c Hi)|].
      apply (sp_backref_skip false np _ (or_introl eq_refl)). apply (Hn eq_refl). }
  rewrite Eb.
  destruct (sp_cce (w0 ++ r0)) as [[|] r1| |] eqn:Ec; try (destruct (w0 ++ r0) as [|x l']; cbn [sp_cce] in Ec; [discriminate Ec|destruct (character_class_escape x); discriminate Ec]).
  - (* a unit that is also a CharacterClassEscape: the same text *)
    apply sp_cce_sound in Ec. destruct Ec as [[_ [c [E Hc]]]|[Ec _]]; [|discriminate].
    destruct (CharacterEscape_head u _ w0 r0 v0 HC) as [x [w' [-> Hx]]]. cbn [app] in E. injection E as <- E.
    destruct w' as [|y w'']; [cbn [app] in E; subst r1; reflexivity|].
    destruct (Hx ltac:(discriminate)) as [_ [Hcl _]]. congruence.
  - rewrite Ece. reflexivity.
Qed.
Lemma AtomEscape_head w r : AtomEscape u np w r -> exists x w', w = x :: w' /\ (w' <> [] -> assertion_escape x = false).
Proof.
  intros [ds v r0 HD _|c r0 Hc|w0 r0 v0 HC].
  - destruct (DecimalEscape_run ds v r0 HD) as [_ [_ [d [ds' [-> Hd]]]]]. exists d, ds'. split; [reflexivity|]. intros _.
    unfold non_zero_digit in Hd. apply andb_true_iff in Hd. destruct Hd as [_ Hd]. apply N.leb_le in Hd.
    unfold assertion_escape. apply orb_false_iff. split; apply N.eqb_neq; lia.
  - exists c, []. split; [reflexivity|intros H; contradiction].
  - destruct (CharacterEscape_head u _ w0 r0 v0 HC) as [x [w' [-> Hx]]]. exists x, w'. split; [reflexivity|].
    intros H. apply (Hx H).
Qed.

(* classes *)
Definition cstop (r : list N) : Prop := exists r', r = g_rbracket :: r'.
Lemma sp_class_escape_complete w r ov : ClassEscape u w r ov -> sp_class_escape u (w ++ r) = SOk (Some ov) r.
Proof.
  intros [r0|r0 Hu|c r0 Hu Hc|c r0 Hc|w0 r0 v HC Hside].
  - reflexivity.
  - cbn [app sp_class_escape N.eqb Pos.eqb]. rewrite Hu. reflexivity.
  - cbn [app sp_class_escape N.eqb Pos.eqb]. rewrite Hu, Hc. cbn [negb andb]. reflexivity.
  - cbn [app sp_class_escape]. assert (Hn : (c =? 98) = false /\ (c =? 45) = false /\ (c =? 99) = false).
    { unfold character_class_escape in Hc. cbn [existsb] in Hc.
      repeat (apply orb_true_iff in Hc; destruct Hc as [Hc|Hc]); try discriminate Hc; apply N.eqb_eq in Hc; subst c; repeat split. }
    destruct Hn as [-> [-> ->]]. destruct u; cbn [negb andb sp_cce]; rewrite Hc; reflexivity.
  - destruct (sp_ce_complete None w0 r0 v HC) as [Ece Ev].
    destruct (CharacterEscape_head u _ w0 r0 v HC) as [x [w' [-> Hx]]]. cbn [app] in *. cbn [sp_class_escape].
    assert (Hb : x <> 98 /\ character_class_escape x = false).
    { destruct w' as [|y w'']; [apply Hside; reflexivity|]. destruct (Hx ltac:(discriminate)) as [H1 [H2 _]]. split; assumption. }
    destruct Hb as [Hb Hcl]. apply N.eqb_neq in Hb. rewrite Hb.
    destruct (CharacterEscape_first u _ _ _ _ HC x w' eq_refl) as [Hf1 Hf2].
    assert (Hd : (u && (x =? 45))%bool = false).
    { destruct u eqn:Eu; [|reflexivity]. cbn [andb]. apply N.eqb_neq. apply Hf1. reflexivity. }
    rewrite Hd.
    assert (Hc : (negb u && (x =? 99) && match w' ++ r0 with d :: _ => class_control_letter d | [] => false end)%bool = false).
    { destruct (negb u); [|reflexivity]. cbn [andb]. destruct (N.eqb_spec x 99) as [Hx99|_]; [|reflexivity]. cbn [andb].
      destruct (Hf2 Hx99) as [c [-> Hcl']]. cbn [app]. unfold class_control_letter. unfold control_letter in Hcl'. unfold decimal_digit.
      apply orb_true_iff in Hcl'. destruct Hcl' as [Hcl'|Hcl']; apply andb_true_iff in Hcl'; destruct Hcl' as [Hl1 Hl2];
        apply N.leb_le in Hl1, Hl2; apply orb_false_iff; split; try (apply N.eqb_neq; lia);
        apply andb_false_iff; right; apply N.leb_gt; lia. }
    rewrite Hc. cbn [sp_cce]. rewrite Hcl. rewrite Ece, Ev. reflexivity.
Qed.
Lemma sp_class_atom_complete a r ov : ClassAtom u a r ov -> sp_class_atom u (a ++ r) = SOk (Some ov) r.
Proof.
  intros [r0|w0 r0 v0 [c r1 H1 H2 H3|w1 r1 v1 HE|r1 Hu Hl]].
  - reflexivity.
  - cbn [app sp_class_atom]. apply N.eqb_neq in H1, H2. rewrite H1, H2. reflexivity.
  - cbn [app sp_class_atom N.eqb Pos.eqb g_backslash negb andb]. rewrite (sp_class_escape_complete w1 r1 v1 HE). reflexivity.
  - cbn [app sp_class_atom N.eqb Pos.eqb g_backslash negb andb]. rewrite Hu.
    assert (E : sp_class_escape false (99 :: r1) = SOk None (99 :: r1)).
    { cbn [sp_class_escape N.eqb Pos.eqb negb andb]. destruct r1 as [|d r2].
      - reflexivity.
      - destruct Hl as [Hl1 Hl2]. rewrite Hl1. cbn [sp_cce character_class_escape existsb N.eqb Pos.eqb orb sp_ce control_escape andb starts_letter].
        rewrite Hl2. cbn [andb N.eqb Pos.eqb sp_hex_esc sp_unicode_esc sp_legacy_octal octal_digit N.leb N.compare Pos.compare Pos.compare_cont identity_escape negb].
        reflexivity. }
    rewrite E. reflexivity.
Qed.
Definition P_CR (w r : list N) : Prop := forall g, cstop r -> (length (w ++ r) < g)%nat -> sp_class_ranges u g (w ++ r) = SOk tt r.
Definition P_NCRN (w r : list N) : Prop := P_CR w r /\ (starts_with 45 (w ++ r) = true -> w = [45]).
Lemma cstop_atom r : cstop r -> sp_class_atom u r = SOk None r /\ starts_with 45 r = false.
Proof. intros [r' ->]. split; reflexivity. Qed.
Lemma class_ranges_complete :
  (forall w r, ClassRanges u w r -> P_CR w r) /\ (forall w r, NonemptyClassRanges u w r -> P_CR w r) /\
  (forall w r, NonemptyClassRangesNoDash u w r -> P_NCRN w r).
Proof.
  assert (Hlast : forall a r v g, ClassAtom u a r v -> cstop r -> (length (a ++ r) < g)%nat -> sp_class_ranges u g (a ++ r) = SOk tt r).
  { intros a r v g Ha Hs Hg. destruct g as [|g]; [lia|]. cbn [sp_class_ranges]. rewrite (sp_class_atom_complete a r v Ha).
    destruct (cstop_atom r Hs) as [E1 E2]. rewrite E2. destruct g as [|g].
    - destruct (ClassAtom_nonempty u a r v Ha) as [x [a' [-> _]]]. cbn [app length] in Hg. lia.
    - cbn [sp_class_ranges]. rewrite E1. reflexivity. }
  assert (Hmore : forall a b r v g, ClassAtom u a (b ++ r) v -> P_NCRN b r -> cstop r -> (length ((a ++ b) ++ r) < g)%nat ->
            sp_class_ranges u g ((a ++ b) ++ r) = SOk tt r).
  { intros a b r v g Ha [IHb Hdash] Hs Hg. destruct g as [|g]; [lia|]. cbn [sp_class_ranges]. rewrite <- app_assoc.
    rewrite (sp_class_atom_complete a (b ++ r) v Ha).
    destruct (ClassAtom_nonempty u a _ v Ha) as [x [a' [-> _]]]. rewrite <- app_assoc in Hg. cbn [app length] in Hg.
    destruct (starts_with 45 (b ++ r)) eqn:Ed.
    - rewrite (Hdash eq_refl). cbn [app tl]. destruct (cstop_atom r Hs) as [E1 _]. rewrite E1. reflexivity.
    - apply IHb; [exact Hs|rewrite app_length in Hg; lia]. }
  assert (Hrange : forall a b c r va vb g, ClassAtom u a (45 :: b ++ c ++ r) va -> ClassAtom u b (c ++ r) vb -> P_CR c r ->
            range_ok u va vb -> cstop r -> (length ((a ++ 45%N :: b ++ c) ++ r) < g)%nat ->
            sp_class_ranges u g ((a ++ 45 :: b ++ c) ++ r) = SOk tt r).
  { intros a b c r va vb g Ha Hb IHc Hok Hs Hg. destruct g as [|g]; [lia|]. cbn [sp_class_ranges].
    rewrite <- app_assoc. cbn [app]. rewrite <- app_assoc. rewrite (sp_class_atom_complete a _ va Ha). cbn [starts_with N.eqb Pos.eqb tl].
    rewrite (sp_class_atom_complete b _ vb Hb). rewrite (proj2 (range_ok_b_spec u va vb) Hok).
    apply IHc; [exact Hs|]. rewrite <- app_assoc in Hg. cbn [app] in Hg. rewrite <- app_assoc in Hg.
    destruct (ClassAtom_nonempty u a _ va Ha) as [x [a' [-> _]]]. cbn [app length] in Hg. rewrite !app_length in Hg. cbn [length] in Hg.
    rewrite !app_length in Hg. rewrite app_length. lia. }
  apply class_ranges_mutind.
  - intros r g Hs Hg. destruct g as [|g]; [lia|]. cbn [app sp_class_ranges]. rewrite (proj1 (cstop_atom r Hs)). reflexivity.
  - intros w r _ IH. exact IH.
  - intros a r v Ha g Hs Hg. exact (Hlast a r v g Ha Hs Hg).
  - intros a b r v Ha _ IHb g Hs Hg. exact (Hmore a b r v g Ha IHb Hs Hg).
  - intros a b c r va vb Ha Hb _ IHc Hok g Hs Hg. exact (Hrange a b c r va vb g Ha Hb IHc Hok Hs Hg).
  - intros a r v Ha. split; [intros g Hs Hg; exact (Hlast a r v g Ha Hs Hg)|].
    intros Hd. destruct Ha as [r0|w0 r0 v0 Hn]; [reflexivity|].
    destruct (ClassAtomNoDash_head u _ _ _ Hn) as [x [w' [-> [Hx _]]]]. cbn [app starts_with] in Hd. apply N.eqb_eq in Hd. contradiction.
  - intros a b r v Ha _ IHb. split; [intros g Hs Hg; exact (Hmore a b r v g (CA_no_dash u a _ v Ha) IHb Hs Hg)|].
    intros Hd. destruct (ClassAtomNoDash_head u _ _ _ Ha) as [x [w' [-> [Hx _]]]]. cbn [app starts_with] in Hd. apply N.eqb_eq in Hd. contradiction.
  - intros a b c r va vb Ha Hb _ IHc Hok. split; [intros g Hs Hg; exact (Hrange a b c r va vb g (CA_no_dash u a _ va Ha) Hb IHc Hok Hs Hg)|].
    intros Hd. destruct (ClassAtomNoDash_head u _ _ _ Ha) as [x [w' [-> [Hx _]]]]. cbn [app starts_with] in Hd. apply N.eqb_eq in Hd. contradiction.
Qed.
Lemma sp_class_complete w r : CharacterClass u w r -> sp_class u (w ++ r) = SOk true r.
Proof.
  intros [w0 r0 Hc Hw|w0 r0 Hw]; cbn [app sp_class N.eqb Pos.eqb g_lbracket]; rewrite <- app_assoc; cbn [app].
  - assert (E : starts_with g_caret (w0 ++ g_rbracket :: r0) = false).
    { destruct w0 as [|x w']; [reflexivity|]. cbn [app starts_with]. apply N.eqb_neq. exact Hc. }
    rewrite E. rewrite (proj1 class_ranges_complete w0 _ Hw); [reflexivity|exists r0; reflexivity|lia].
  - cbn [starts_with N.eqb Pos.eqb g_caret tl]. rewrite (proj1 class_ranges_complete w0 _ Hw); [reflexivity|exists r0; reflexivity|lia].
Qed.

Lemma completeness_mut :
  (forall d r k, Disjunction u np d r k -> P_D d r) /\ (forall a r k, Alternative u np a r k -> P_A a r) /\
  (forall t r k, Term u np t r k -> P_T t r) /\ (forall w r k, Assertion u np w r k -> P_As w r) /\
  (forall w r k, QuantifiableAssertion u np w r k -> P_QA w r) /\ (forall w r k, Atom u np w r k -> P_At w r).
Proof.
  apply grammar_mutind.
  - (* D_alt *) intros a r k Ha IHa f Hs Hlen. exists r. split; [|split].
    + pose proof (IHa f 1%nat (SOk tt r) (stop_noq u r Hs) Hlen) as H.
      assert (E : sp_alternative u np (sp_disjunction u np f) 1 r = SOk tt r).
      { apply alt_stops_at. destruct Hs as [->|Hs]; [left; reflexivity|right; left; exact Hs]. }
      specialize (H E ltac:(discriminate)).
      apply (sp_alternative_mono _ _ _ _ _ _ H); [discriminate|]. rewrite app_length. lia.
    + rewrite app_length. lia.
    + intros g Hg. destruct g as [|g]; [lia|]. cbn [sp_bars].
      destruct Hs as [->|[r' ->]]; [reflexivity|]. reflexivity.
  - (* D_bar *) intros a d r k1 k2 Ha IHa Hd IHd f Hs Hlen.
    rewrite <- app_assoc in *. cbn [app] in *.
    exists (g_bar :: d ++ r). split; [|split].
    + assert (E : sp_alternative u np (sp_disjunction u np f) 1 (g_bar :: d ++ r) = SOk tt (g_bar :: d ++ r)).
      { apply alt_stops_at. right. right. exists (d ++ r). reflexivity. }
      pose proof (IHa f 1%nat _ (stop_bar_noq (d ++ r)) Hlen E ltac:(discriminate)) as H.
      apply (sp_alternative_mono _ _ _ _ _ _ H); [discriminate|]. rewrite app_length. lia.
    + rewrite app_length. lia.
    + intros g Hg. destruct g as [|g]; [cbn in Hg; lia|]. cbn [sp_bars]. rewrite N.eqb_refl.
      assert (Hlen' : (length (d ++ r) <= f)%nat) by (rewrite app_length in Hlen; cbn [length] in Hlen; lia).
      destruct (IHd f Hs Hlen') as [l1 [E1 [Hl1 Hb]]]. rewrite E1. apply Hb. cbn [length] in Hg. lia.
  - (* A_empty *) intros r f g res _ _ H _. cbn [length app]. rewrite Nat.add_0_r. exact H.
  - (* A_term *) intros a t r k1 k2 Ha IHa Ht IHt f g res Hq Hlen H Hne.
    destruct (proj1 (proj2 (proj2 (grammar_heads u np))) t r k2 Ht) as [Hnt Hqt].
    rewrite <- app_assoc in *.
    assert (Hlen' : (length (t ++ r) <= f)%nat) by (rewrite app_length in Hlen; lia).
    assert (E : sp_alternative u np (sp_disjunction u np f) (g + length t) (t ++ r) = res).
    { destruct t as [|c t']; [contradiction|]. cbn [length]. rewrite Nat.add_succ_r. cbn [sp_alternative app].
      change (c :: t' ++ r) with ((c :: t') ++ r). rewrite (IHt f Hq Hlen').
      apply (sp_alternative_mono _ _ _ _ _ _ H Hne). lia. }
    pose proof (IHa f (g + length t)%nat res Hqt Hlen E Hne) as H'.
    replace (g + length (a ++ t))%nat with (g + length t + length a)%nat by (rewrite app_length; lia). exact H'.
  - (* T_assertion *) intros a r k Ha IHa f Hq Hlen. unfold sp_term. rewrite (IHa f Hlen).
    destruct (quantifiable u (a ++ r)); [unfold sp_quantified; rewrite Hq|]; reflexivity.
  - (* T_qassertion_quant *) intros a q r k Hu Ha IHa Hq0 f Hq Hlen.
    rewrite <- app_assoc in *.
    destruct (IHa f Hlen) as [E1 E2]. unfold sp_term. rewrite E1, E2. replace (negb u) with true by (rewrite Hu; reflexivity).
    unfold sp_quantified. rewrite (sp_quant_complete u q r Hq0 Hq). reflexivity.
  - (* T_atom *) intros a r k Ha IHa f Hq Hlen. unfold sp_term. destruct (IHa f Hlen) as [E1 E2].
    rewrite E2, E1. unfold sp_quantified. rewrite Hq. reflexivity.
  - (* T_atom_quant *) intros a q r k Ha IHa Hq0 f Hq Hlen.
    rewrite <- app_assoc in *.
    unfold sp_term. destruct (IHa f Hlen) as [E1 E2]. rewrite E2, E1.
    unfold sp_quantified. rewrite (sp_quant_complete u q r Hq0 Hq). reflexivity.
  - (* As_caret *) intros r f _. reflexivity.
  - (* As_dollar *) intros r f _. reflexivity.
  - (* As_word_boundary *) intros r f _. reflexivity.
  - (* As_not_word_boundary *) intros r f _. reflexivity.
  - (* As_lookahead *) intros a r k Ha IHa f Hlen. apply (IHa f Hlen).
  - (* As_lookbehind *) intros d r k Hd IHd f Hlen.
    cbn [app sp_assertion]. rewrite app_comm_cons'. cbn [N.eqb Pos.eqb is_eq_or_bang orb].
    apply (P_D_group_body d r IHd). cbn [length app] in Hlen. rewrite app_comm_cons' in Hlen. cbn [length] in *. lia.
  - (* As_neg_lookbehind *) intros d r k Hd IHd f Hlen.
    cbn [app sp_assertion]. rewrite app_comm_cons'. cbn [N.eqb Pos.eqb is_eq_or_bang orb].
    apply (P_D_group_body d r IHd). cbn [length app] in Hlen. rewrite app_comm_cons' in Hlen. cbn [length] in *. lia.
  - (* QA_lookahead *) intros d r k Hd IHd f Hlen. split.
    + cbn [app sp_assertion]. rewrite app_comm_cons'. cbn [N.eqb Pos.eqb is_eq_or_bang orb].
      apply (P_D_group_body d r IHd). cbn [length app] in Hlen. rewrite app_comm_cons' in Hlen. cbn [length] in *. lia.
    + cbn. reflexivity.
  - (* QA_neg_lookahead *) intros d r k Hd IHd f Hlen. split.
    + cbn [app sp_assertion]. rewrite app_comm_cons'. cbn [N.eqb Pos.eqb is_eq_or_bang orb].
      apply (P_D_group_body d r IHd). cbn [length app] in Hlen. rewrite app_comm_cons' in Hlen. cbn [length] in *. lia.
    + cbn. reflexivity.
  - (* At_char *) intros c r Hc Hib f _. cbn [app].
    assert (Hn : (c =? g_dot) = false /\ (c =? g_backslash) = false /\ (c =? g_lparen) = false /\
                 (c =? g_caret) = false /\ (c =? g_dollar) = false /\ (c =? g_lbracket) = false).
    { repeat split; apply N.eqb_neq; intros ->; destruct u; discriminate Hc. }
    destruct Hn as [H1 [H2 [H3 [H4 [H5 H6]]]]]. split.
    + cbn [sp_atom]. rewrite H1, H2, H6, H3. destruct u eqn:Eu; [cbn [pattern_char] in Hc; rewrite Hc; reflexivity|].
      rewrite sp_brq_noerr_none.
      * cbn [pattern_char] in Hc. rewrite Hc. reflexivity.
      * destruct (sp_braced (c :: r)) as [[[n om] r']|] eqn:Eb; [|reflexivity].
        exfalso. apply sp_braced_sound in Eb. destruct Eb as [q [HB E]].
        exact (Hib eq_refl q r' (ex_intro _ n (ex_intro _ om HB)) E).
    + cbn [sp_assertion]. rewrite H4, H5, H2, H3. reflexivity.
  - (* At_dot *) intros r f _. split; reflexivity.
  - (* At_escape *) intros w r He Hne f _.
    pose proof (sp_atom_escape_complete w r He) as Ec. destruct (AtomEscape_head w r He) as [x [w' [-> Hx]]].
    assert (Hax : assertion_escape x = false).
    { destruct w' as [|y w'']; [apply Hne; reflexivity|apply Hx; discriminate]. }
    cbn [app] in *. cbn [sp_atom sp_assertion sp_escape]. cbn [N.eqb Pos.eqb]. rewrite Ec, Hax. split; reflexivity.
  - (* At_backslash_c *) intros r Hu Hl f _. cbn [app sp_atom sp_assertion sp_escape bs_c]. cbn [N.eqb Pos.eqb andb assertion_escape orb].
    split; [|reflexivity]. rewrite Hu in *.
    unfold sp_atom_escape. cbn [character_class_escape control_escape existsb N.eqb Pos.eqb orb andb].
    assert (E : starts_letter r = false) by (destruct r as [|d r1]; [reflexivity|exact Hl]). rewrite E.
    reflexivity.
  - (* At_class *) intros w r Hc f _. split.
    + assert (Hw : exists w', w = g_lbracket :: w') by (destruct Hc; eexists; reflexivity). destruct Hw as [w' ->].
      pose proof (sp_class_complete _ r Hc) as E. cbn [app] in *. cbn [sp_atom]. cbn [N.eqb Pos.eqb g_dot g_backslash g_lbracket]. exact E.
    + destruct Hc; reflexivity.
  - (* At_group *) intros d r k Hd IHd f Hlen.
    pose proof (proj1 (grammar_heads u np) d _ k Hd) as Hqd.
    cbn [app sp_atom sp_assertion]. rewrite app_comm_cons'. cbn [N.eqb Pos.eqb negb syntax_character existsb orb].
    assert (Hbody : sp_group_body (sp_disjunction u np f) (d ++ g_rparen :: r) = SOk true r).
    { apply (P_D_group_body d r IHd). cbn [length app] in Hlen. rewrite app_comm_cons' in Hlen. cbn [length] in *. lia. }
    destruct d as [|q d']; [split; [exact Hbody|reflexivity]|]. cbn [app] in *.
    destruct Hqd as [Hqd|Hqd]; [discriminate|]. rewrite (noq_not_question _ q _ Hqd eq_refl). split; [exact Hbody|reflexivity].
  - (* At_noncapturing *) intros d r k Hd IHd f Hlen.
    cbn [app sp_atom sp_assertion]. rewrite app_comm_cons'. cbn [N.eqb Pos.eqb negb syntax_character existsb orb is_eq_or_bang].
    split; [|reflexivity].
    apply (P_D_group_body d r IHd). cbn [length app] in Hlen. rewrite app_comm_cons' in Hlen. cbn [length] in *. lia.
Qed.

Lemma sp_disjunction_complete l k : Disjunction u np l [] k -> sp_disjunction u np (S (length l)) l = SOk tt [].
Proof.
  intros Hp. pose proof (P_D_disjunction l [] (proj1 completeness_mut l [] k Hp) (S (length l)) (or_introl eq_refl)) as H.
  rewrite app_nil_r in H. apply H. lia.
Qed.
End Complete.

Theorem sp_pattern_complete u l : Pattern u l -> sp_pattern u l = SOk tt [].
Proof.
  intros [k Hp]. unfold sp_pattern.
  pose proof (proj1 (count_mut u k) l [] k Hp) as Hc. rewrite app_nil_r in Hc. cbn [count_groups] in Hc. rewrite N.add_0_r in Hc.
  rewrite Hc. rewrite (sp_disjunction_complete u k l k Hp). reflexivity.
Qed.

Theorem recognises_iff_Pattern u l : recognises u l = true <-> Pattern u l.
Proof.
  unfold recognises. split.
  - destruct (sp_pattern u l) as [a r| |] eqn:E; try discriminate. intros _. exact (sp_pattern_sound u l a r E).
  - intros Hp. rewrite (sp_pattern_complete u l Hp). reflexivity.
Qed.

Print Assumptions recognises_iff_Pattern.
