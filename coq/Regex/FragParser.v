(* A recogniser for the grammar fragment of Grammar.v, as a recursive-descent parser over the list of remaining
   units.  It serves two purposes: FragGrammar.v proves it sound and complete w.r.t. the inductive predicate
   `Pattern u` (so it is the executable form of the grammar, cross-validated against V8), and FragSim.v proves that
   the validator model behaves exactly like it on inputs of the fragment alphabet.  Its loops carry the same
   fuel as the validator's (so that the simulation is fuel-for-fuel). *)
From Coq Require Import List NArith Bool.
From V Require Import Regex.Grammar.
Import ListNotations.
Open Scope N_scope.

Inductive SR (A : Type) := SOk (a : A) (rest : list N) | SErr | SFuel.
Arguments SOk {A}. Arguments SErr {A}. Arguments SFuel {A}.

Definition is_quant_char (c : N) : bool := (c =? g_star) || (c =? g_plus) || (c =? g_question).
(* Quantifier(opt): (matched?, rest) *)
Definition sp_quant (l : list N) : bool * list N :=
  match l with
  | c :: r =>
      if is_quant_char c then
        (true, match r with q :: r' => if q =? g_question then r' else r | [] => r end)
      else (false, l)
  | [] => (false, l)
  end.

Section Knot.
Variable sdisj : list N -> SR unit.

(* Disjunction `)` *)
Definition sp_group_body (l : list N) : SR bool :=
  match sdisj l with
  | SOk _ (c :: r) => if c =? g_rparen then SOk true r else SErr
  | SOk _ [] => SErr
  | SErr => SErr
  | SFuel => SFuel
  end.
Definition sp_atom (l : list N) : SR bool :=
  match l with
  | [] => SOk false l
  | c :: r =>
      if negb (syntax_character c) then SOk true r
      else if c =? g_dot then SOk true r
      else if c =? g_lparen then
        match r with
        | q :: r' =>
            if q =? g_question then
              match r' with
              | k :: r'' => if k =? g_colon then sp_group_body r'' else SErr
              | [] => SErr
              end
            else sp_group_body r
        | [] => sp_group_body r
        end
      else SOk false l
  end.
Definition sp_term (l : list N) : SR bool :=
  match sp_atom l with
  | SOk true r => SOk true (snd (sp_quant r))
  | SOk false r => SOk false r
  | SErr => SErr
  | SFuel => SFuel
  end.
Fixpoint sp_alternative (g : nat) (l : list N) : SR unit :=
  match g with O => SFuel | S g =>
    match l with
    | [] => SOk tt l
    | _ :: _ =>
        match sp_term l with
        | SOk true r => sp_alternative g r
        | SOk false r => SOk tt r
        | SErr => SErr
        | SFuel => SFuel
        end
    end
  end.
Fixpoint sp_bars (g : nat) (l : list N) : SR unit :=
  match g with O => SFuel | S g =>
    match l with
    | c :: r =>
        if c =? g_bar then
          match sp_alternative (S (length r)) r with
          | SOk _ r' => sp_bars g r'
          | SErr => SErr
          | SFuel => SFuel
          end
        else SOk tt l
    | [] => SOk tt l
    end
  end.
Definition sp_disjunction_body (l : list N) : SR unit :=
  match sp_alternative (S (length l)) l with
  | SOk _ l1 =>
      match sp_bars (S (length l1)) l1 with
      | SOk _ l2 => if fst (sp_quant l2) then SErr else SOk tt l2
      | SErr => SErr
      | SFuel => SFuel
      end
  | SErr => SErr
  | SFuel => SFuel
  end.
End Knot.

Fixpoint sp_disjunction (f : nat) (l : list N) : SR unit :=
  match f with O => SFuel | S f => sp_disjunction_body (sp_disjunction f) l end.

(* Pattern: a Disjunction that spans the whole input *)
Definition sp_pattern (l : list N) : SR unit :=
  match sp_disjunction (S (length l)) l with
  | SOk _ [] => SOk tt []
  | SOk _ (_ :: _) => SErr
  | SErr => SErr
  | SFuel => SFuel
  end.
Definition recognises (l : list N) : bool := match sp_pattern l with SOk _ _ => true | _ => false end.

(* ---- the fragment alphabet ----
   pattern characters except `<` `=` `!` (which after `(?` would start look-arounds / named groups, outside the
   fragment) and the seven structural characters  . | ( ) ? * +   *)
Definition frag_char (c : N) : bool :=
  (negb (syntax_character c) && negb ((c =? 60) || (c =? 61) || (c =? 33)))
  || existsb (N.eqb c) [g_dot; g_bar; g_lparen; g_rparen; g_question; g_star; g_plus].
Definition in_fragment (l : list N) : bool := forallb frag_char l.
