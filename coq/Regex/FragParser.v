(* A recogniser for the grammar fragment of Grammar.v, as a recursive-descent parser over the list of remaining
   units.  It serves two purposes: FragGrammar.v proves it sound and complete w.r.t. the inductive predicate
   `Pattern u` (so it is the executable form of the grammar, cross-validated against V8), and FragSim.v proves that
   the validator model behaves exactly like it on inputs of the fragment alphabet.  Its loops carry the same
   fuel as the validator's (so that the simulation is fuel-for-fuel). *)
From Coq Require Import List NArith Bool.
From V Require Import Regex.Grammar.
Import ListNotations.
Open Scope N_scope.

Inductive SR (A : Type) := SOk (a : A) (rest : list N) | SErr | SFuel.
Arguments SOk {A}. Arguments SErr {A}. Arguments SFuel {A}.

Definition is_quant_char (c : N) : bool := (c =? g_star) || (c =? g_plus) || (c =? g_question).
(* the optional lazy suffix *)
Definition skip_lazy (r : list N) : list N :=
  match r with q :: r' => if q =? g_question then r' else r | [] => r end.

(* the leading run of decimal digits, and what follows it *)
Fixpoint span_digits (l : list N) : list N * list N :=
  match l with
  | c :: r => if decimal_digit c then let '(ds, r') := span_digits r in (c :: ds, r') else ([], l)
  | [] => ([], [])
  end.
Definition dec_step (a d : N) : N := 10 * a + (d - 48).
Definition dec_value (ds : list N) : N := fold_left dec_step ds 0.
Definition is_nil {A} (l : list A) : bool := match l with [] => true | _ => false end.
(* `{n}` `{n,}` `{n,m}` at the head of l: (n, upper bound if any, rest) *)
Definition sp_braced (l : list N) : option (N * option N * list N) :=
  match l with
  | c :: r =>
      if c =? g_lbrace then
        let '(ds, r1) := span_digits r in
        if is_nil ds then None else
        match r1 with
        | c1 :: r2 =>
            if c1 =? g_rbrace then Some (dec_value ds, Some (dec_value ds), r2)
            else if c1 =? g_comma then
              let '(es, r3) := span_digits r2 in
              match r3 with
              | c3 :: r4 =>
                  if c3 =? g_rbrace then Some (dec_value ds, if is_nil es then None else Some (dec_value es), r4)
                  else None
              | [] => None
              end
            else None
        | [] => None
        end
      else None
  | [] => None
  end.
Definition bounds_ok (n : N) (om : option N) : bool := match om with Some m => n <=? m | None => true end.
Definition starts_with (c : N) (l : list N) : bool := match l with x :: _ => x =? c | [] => false end.
(* the braced quantifier as eat_braced_quantifier(no_error) reads it: with no_error nothing is an error; otherwise
   bounds out of order are, and with u so is a `{` that does not start a quantifier *)
Definition sp_brq (u no_error : bool) (l : list N) : SR bool :=
  match sp_braced l with
  | Some (n, om, r') => if negb no_error && negb (bounds_ok n om) then SErr else SOk true r'
  | None => if negb no_error && u && starts_with g_lbrace l then SErr else SOk false l
  end.
(* Quantifier(opt) *)
Definition sp_quant (u no_error : bool) (l : list N) : SR bool :=
  match l with
  | c :: r =>
      if is_quant_char c then SOk true (skip_lazy r)
      else match sp_brq u no_error l with
           | SOk true r' => SOk true (skip_lazy r')
           | SOk false r' => SOk false r'
           | SErr => SErr
           | SFuel => SFuel
           end
  | [] => SOk false l
  end.

Definition is_eq_or_bang (c : N) : bool := (c =? g_equals) || (c =? g_bang).
(* is the assertion that starts here a QuantifiableAssertion of Annex B (a look-ahead, without u)? *)
Definition quantifiable (u : bool) (l : list N) : bool :=
  match l with
  | c0 :: c1 :: c2 :: _ => (c0 =? g_lparen) && (c1 =? g_question) && is_eq_or_bang c2 && negb u
  | _ => false
  end.

(* ---- escapes (the units after the backslash) ---- *)
Definition starts_digit (r : list N) : bool := match r with d :: _ => decimal_digit d | [] => false end.
Definition starts_letter (r : list N) : bool := match r with d :: _ => control_letter d | [] => false end.
(* exactly n hex digits: (their value, rest) *)
Fixpoint hex_run (n : nat) (l : list N) (acc : N) : option (N * list N) :=
  match n with
  | O => Some (acc, l)
  | S n => match l with
           | c :: r => if hex_digit c then hex_run n r (16 * acc + hex_digit_value c) else None
           | [] => None
           end
  end.
Definition sp_fixed_hex (n : nat) (l : list N) : bool * list N :=
  match hex_run n l 0 with Some (_, r) => (true, r) | None => (false, l) end.
(* HexLeadSurrogate `\u` HexTrailSurrogate *)
Definition sp_surrogate_pair (l : list N) : bool * list N :=
  match hex_run 4 l 0 with
  | Some (v, r1) =>
      if lead_surrogate v then
        match r1 with
        | b :: x :: r2 =>
            if (b =? g_backslash) && (x =? 117) then
              match hex_run 4 r2 0 with
              | Some (w, r3) => if trail_surrogate w then (true, r3) else (false, l)
              | None => (false, l)
              end
            else (false, l)
        | _ => (false, l)
        end
      else (false, l)
  | None => (false, l)
  end.
Fixpoint span_hex (l : list N) : list N * list N :=
  match l with
  | c :: r => if hex_digit c then let '(ds, r') := span_hex r in (c :: ds, r') else ([], l)
  | [] => ([], [])
  end.
Definition hex_step (a d : N) : N := 16 * a + hex_digit_value d.
Definition hex_value (ds : list N) : N := fold_left hex_step ds 0.
(* `{` CodePoint `}` *)
Definition sp_codepoint (l : list N) : SR bool :=
  match l with
  | c :: r =>
      if c =? g_lbrace then
        let '(ds, r1) := span_hex r in
        if is_nil ds then SOk false l else
        match r1 with
        | c1 :: r2 => if (c1 =? g_rbrace) && (hex_value ds <=? 1114111) then SOk true r2 else SOk false l
        | [] => SOk false l
        end
      else SOk false l
  | [] => SOk false l
  end.
(* HexEscapeSequence; `x` without two hex digits is an error with u, left to IdentityEscape without *)
Definition sp_hex_esc (u : bool) (l : list N) : SR bool :=
  match l with
  | c :: r =>
      if c =? 120 then
        let '(b, r') := sp_fixed_hex 2 r in
        if b then SOk true r' else if u then SErr else SOk false l
      else SOk false l
  | [] => SOk false l
  end.
(* RegExpUnicodeEscapeSequence[?U] *)
Definition sp_unicode_esc (u : bool) (l : list N) : SR bool :=
  match l with
  | c :: r =>
      if c =? 117 then
        let '(b1, r1) := if u then sp_surrogate_pair r else (false, r) in
        if b1 then SOk true r1 else
        let '(b2, r2) := sp_fixed_hex 4 r in
        if b2 then SOk true r2 else
        match (if u then sp_codepoint r else SOk false r) with
        | SOk true r3 => SOk true r3
        | SOk false _ => if u then SErr else SOk false l
        | SErr => SErr
        | SFuel => SFuel
        end
      else SOk false l
  | [] => SOk false l
  end.
(* DecimalEscape as consume_backreference reads it: a back-reference if its number is at most np, the number of
   capturing groups of the whole pattern; otherwise an error with u, not a DecimalEscape without *)
Definition sp_backref (u : bool) (np : N) (l : list N) : SR bool :=
  match l with
  | c :: r =>
      if non_zero_digit c then
        if dec_value (c :: fst (span_digits r)) <=? np then SOk true (snd (span_digits r))
        else if u then SErr else SOk false l
      else SOk false l
  | [] => SOk false l
  end.
(* LegacyOctalEscapeSequence (maximal munch, value at most 0o377) *)
Definition sp_legacy_octal (l : list N) : bool * list N :=
  match l with
  | a :: r1 =>
      if octal_digit a then
        match r1 with
        | b :: r2 =>
            if octal_digit b then
              if zero_to_three a then
                match r2 with
                | c :: r3 => if octal_digit c then (true, r3) else (true, r2)
                | [] => (true, r2)
                end
              else (true, r2)
            else (true, r1)
        | [] => (true, r1)
        end
      else (false, l)
  | [] => (false, l)
  end.
(* AtomEscape, in the order consume_atom_escape tries the alternatives; SOk false (no escape here) only without u *)
Definition sp_atom_escape (u : bool) (np : N) (l : list N) : SR bool :=
  match sp_backref u np l with
  | SOk true r' => SOk true r'
  | SErr => SErr
  | SFuel => SFuel
  | SOk false _ =>
  match l with
  | [] => if u then SErr else SOk false l
  | c :: r =>
      if character_class_escape c then SOk true r
      else if control_escape c then SOk true r
      else if (c =? 99) && starts_letter r then SOk true (tl r)
      else if (c =? 48) && negb (starts_digit r) then SOk true r
      else
        match sp_hex_esc u l with
        | SOk true r' => SOk true r'
        | SOk false _ =>
            match sp_unicode_esc u l with
            | SOk true r' => SOk true r'
            | SOk false _ =>
                let '(b, r') := if u then (false, l) else sp_legacy_octal l in
                if b then SOk true r'
                else if identity_escape u c then SOk true r else if u then SErr else SOk false l
            | SErr => SErr
            | SFuel => SFuel
            end
        | SErr => SErr
        | SFuel => SFuel
        end
  end
  end.
(* backslash AtomEscape *)
Definition sp_escape (u : bool) (np : N) (l : list N) : SR bool :=
  match l with
  | c :: r =>
      if c =? g_backslash then
        match sp_atom_escape u np r with
        | SOk true r' => SOk true r'
        | SOk false _ => SOk false l
        | SErr => SErr
        | SFuel => SFuel
        end
      else SOk false l
  | [] => SOk false l
  end.
(* ---- the pieces of consume_atom_escape that consume_class_escape shares ---- *)
(* CharacterClassEscape *)
Definition sp_cce (l : list N) : SR bool :=
  match l with c :: r => if character_class_escape c then SOk true r else SOk false l | [] => SOk false l end.
(* CharacterEscape (without the DecimalEscape of AtomEscape) *)
Definition sp_ce (u : bool) (l : list N) : SR bool :=
  match l with
  | [] => SOk false l
  | c :: r =>
      if control_escape c then SOk true r
      else if (c =? 99) && starts_letter r then SOk true (tl r)
      else if (c =? 48) && negb (starts_digit r) then SOk true r
      else
        match sp_hex_esc u l with
        | SOk true r' => SOk true r'
        | SOk false _ =>
            match sp_unicode_esc u l with
            | SOk true r' => SOk true r'
            | SOk false _ =>
                let '(b, r') := if u then (false, l) else sp_legacy_octal l in
                if b then SOk true r' else if identity_escape u c then SOk true r else SOk false l
            | SErr => SErr
            | SFuel => SFuel
            end
        | SErr => SErr
        | SFuel => SFuel
        end
  end.
(* the CharacterValue of the CharacterEscape that sp_ce finds at l *)
Definition hex_run_value (n : nat) (l : list N) : N := match hex_run n l 0 with Some (v, _) => v | None => 0 end.
Definition unicode_value (u : bool) (r : list N) : N :=      (* r: after the `u` *)
  if u && fst (sp_surrogate_pair r) then
    (hex_run_value 4 r - 55296) * 1024 + (hex_run_value 4 (skipn 6 r) - 56320) + 65536
  else match hex_run 4 r 0 with
       | Some (v, _) => v
       | None => hex_value (fst (span_hex (tl r)))          (* `{` CodePoint `}` *)
       end.
Definition legacy_octal_value (l : list N) : N :=
  match l with
  | a :: r1 =>
      match r1 with
      | b :: r2 =>
          if octal_digit b then
            if zero_to_three a then
              match r2 with
              | c :: _ => if octal_digit c then 64 * (a - 48) + 8 * (b - 48) + (c - 48) else 8 * (a - 48) + (b - 48)
              | [] => 8 * (a - 48) + (b - 48)
              end
            else 8 * (a - 48) + (b - 48)
          else a - 48
      | [] => a - 48
      end
  | [] => 0
  end.
Definition is_true (x : SR bool) : bool := match x with SOk true _ => true | _ => false end.
Definition ce_value (u : bool) (l : list N) : N :=
  match l with
  | [] => 0
  | c :: r =>
      if control_escape c then control_escape_value c
      else if (c =? 99) && starts_letter r then (hd 0 r) mod 32
      else if (c =? 48) && negb (starts_digit r) then 0
      else if is_true (sp_hex_esc u l) then hex_run_value 2 r
      else if is_true (sp_unicode_esc u l) then unicode_value u r
      else if negb u && octal_digit c then legacy_octal_value l
      else c
  end.

(* ---- character classes ----
   class atoms answer  Some (Some v): an atom with CharacterValue v | Some None: an atom that is a class | None: no atom here *)
Definition sp_class_escape (u : bool) (l : list N) : SR (option (option N)) :=     (* l: after the backslash *)
  match l with
  | c :: r =>
      if c =? 98 then SOk (Some (Some 8)) r
      else if u && (c =? 45) then SOk (Some (Some 45)) r
      else if negb u && (c =? 99) && (match r with d :: _ => class_control_letter d | [] => false end)
      then SOk (Some (Some (hd 0 r mod 32))) (tl r)
      else
        match sp_cce l with
        | SOk true r' => SOk (Some None) r'
        | SOk false _ =>
            match sp_ce u l with
            | SOk true r' => SOk (Some (Some (ce_value u l))) r'
            | SOk false _ => SOk None l
            | SErr => SErr
            | SFuel => SFuel
            end
        | SErr => SErr
        | SFuel => SFuel
        end
  | [] => SOk None l
  end.
Definition sp_class_atom (u : bool) (l : list N) : SR (option (option N)) :=
  match l with
  | [] => SOk None l
  | c :: r =>
      if negb (c =? g_backslash) && negb (c =? g_rbracket) then SOk (Some (Some c)) r
      else if c =? g_backslash then
        match sp_class_escape u r with
        | SOk (Some ov) r' => SOk (Some ov) r'
        | SOk None _ =>
            (* Annex B: the backslash before `c` is a literal *)
            if negb u && starts_with 99 r then SOk (Some (Some g_backslash)) r
            else if u then SErr else SOk None l
        | SErr => SErr
        | SFuel => SFuel
        end
      else SOk None l
  end.
(* the early errors of a range *)
Definition range_ok_b (u : bool) (a b : option N) : bool :=
  match a, b with Some x, Some y => x <=? y | _, _ => negb u end.
Fixpoint sp_class_ranges (u : bool) (g : nat) (l : list N) : SR unit :=
  match g with O => SFuel | S g =>
    match sp_class_atom u l with
    | SOk None _ => SOk tt l
    | SOk (Some va) l1 =>
        if starts_with 45 l1 then
          match sp_class_atom u (tl l1) with
          | SOk None _ => SOk tt (tl l1)
          | SOk (Some vb) l3 => if range_ok_b u va vb then sp_class_ranges u g l3 else SErr
          | SErr => SErr
          | SFuel => SFuel
          end
        else sp_class_ranges u g l1
    | SErr => SErr
    | SFuel => SFuel
    end
  end.
(* CharacterClass *)
Definition sp_class (u : bool) (l : list N) : SR bool :=
  match l with
  | c :: r =>
      if c =? g_lbracket then
        let r1 := if starts_with g_caret r then tl r else r in
        match sp_class_ranges u (S (length r1)) r1 with
        | SOk _ r2 => if starts_with g_rbracket r2 then SOk true (tl r2) else SErr
        | SErr => SErr
        | SFuel => SFuel
        end
      else SOk false l
  | [] => SOk false l
  end.

(* Annex B: a backslash before `c` *)
Definition bs_c (l : list N) : bool := match l with b :: c :: _ => (b =? g_backslash) && (c =? 99) | _ => false end.

Section Knot.
Variable u : bool.
Variable np : N.
Variable sdisj : list N -> SR unit.

(* Disjunction `)` *)
Definition sp_group_body (l : list N) : SR bool :=
  match sdisj l with
  | SOk _ (c :: r) => if c =? g_rparen then SOk true r else SErr
  | SOk _ [] => SErr
  | SErr => SErr
  | SFuel => SFuel
  end.
Definition sp_assertion (l : list N) : SR bool :=
  match l with
  | [] => SOk false l
  | c :: r =>
      if c =? g_caret then SOk true r
      else if c =? g_dollar then SOk true r
      else if c =? g_backslash then
        match r with
        | x :: r' => if assertion_escape x then SOk true r' else SOk false l
        | [] => SOk false l
        end
      else if c =? g_lparen then
        match r with
        | q :: r1 =>
            if q =? g_question then
              match r1 with
              | x :: r2 =>
                  if x =? g_less then
                    match r2 with
                    | y :: r3 => if is_eq_or_bang y then sp_group_body r3 else SOk false l
                    | [] => SOk false l
                    end
                  else if is_eq_or_bang x then sp_group_body r2
                  else SOk false l
              | [] => SOk false l
              end
            else SOk false l
        | [] => SOk false l
        end
      else SOk false l
  end.
Definition sp_atom (l : list N) : SR bool :=
  match l with
  | [] => SOk false l
  | c :: r =>
      if c =? g_dot then SOk true r
      else if c =? g_backslash then
        match sp_escape u np l with
        | SOk true r' => SOk true r'
        | SOk false _ => if bs_c l then SOk true r else SOk false l
        | SErr => SErr
        | SFuel => SFuel
        end
      else if c =? g_lbracket then sp_class u l
      else if c =? g_lparen then
        match r with
        | q :: r' =>
            if q =? g_question then
              match r' with
              | k :: r'' => if k =? g_colon then sp_group_body r'' else SErr
              | [] => SErr
              end
            else sp_group_body r
        | [] => sp_group_body r
        end
      else if u then (if negb (syntax_character c) then SOk true r else SOk false l)
      else
        (* Annex B: InvalidBracedQuantifier (an early error) before ExtendedPatternCharacter *)
        match sp_brq u true l with
        | SOk true _ => SErr
        | SOk false _ => if extended_pattern_character c then SOk true r else SOk false l
        | SErr => SErr
        | SFuel => SFuel
        end
  end.
Definition sp_quantified (r : list N) : SR bool :=
  match sp_quant u false r with
  | SOk _ r' => SOk true r'
  | SErr => SErr
  | SFuel => SFuel
  end.
Definition sp_term (l : list N) : SR bool :=
  match sp_assertion l with
  | SOk true r => if quantifiable u l then sp_quantified r else SOk true r
  | SOk false _ =>
      match sp_atom l with
      | SOk true r => sp_quantified r
      | SOk false r => SOk false r
      | SErr => SErr
      | SFuel => SFuel
      end
  | SErr => SErr
  | SFuel => SFuel
  end.
Fixpoint sp_alternative (g : nat) (l : list N) : SR unit :=
  match g with O => SFuel | S g =>
    match l with
    | [] => SOk tt l
    | _ :: _ =>
        match sp_term l with
        | SOk true r => sp_alternative g r
        | SOk false r => SOk tt r
        | SErr => SErr
        | SFuel => SFuel
        end
    end
  end.
Fixpoint sp_bars (g : nat) (l : list N) : SR unit :=
  match g with O => SFuel | S g =>
    match l with
    | c :: r =>
        if c =? g_bar then
          match sp_alternative (S (length r)) r with
          | SOk _ r' => sp_bars g r'
          | SErr => SErr
          | SFuel => SFuel
          end
        else SOk tt l
    | [] => SOk tt l
    end
  end.
Definition sp_disjunction_body (l : list N) : SR unit :=
  match sp_alternative (S (length l)) l with
  | SOk _ l1 =>
      match sp_bars (S (length l1)) l1 with
      | SOk _ l2 =>
          match sp_quant u true l2 with
          | SOk true _ => SErr                                      (* nothing to repeat *)
          | SOk false _ => if starts_with g_lbrace l2 then SErr else SOk tt l2   (* lone quantifier bracket *)
          | SErr => SErr
          | SFuel => SFuel
          end
      | SErr => SErr
      | SFuel => SFuel
      end
  | SErr => SErr
  | SFuel => SFuel
  end.
End Knot.

Fixpoint sp_disjunction (u : bool) (np : N) (f : nat) (l : list N) : SR unit :=
  match f with O => SFuel | S f => sp_disjunction_body u np (sp_disjunction u np f) l end.

(* NcapturingParens, counted on the units as count_capturing_parens does: an unescaped `(` outside a class that is not
   followed by `?` (the fragment has no named groups); a class runs from an unescaped `[` to the next unescaped `]` *)
Fixpoint count_groups (l : list N) (in_class escaped : bool) : N :=
  match l with
  | [] => 0
  | c :: r =>
      if escaped then count_groups r in_class false
      else if c =? g_backslash then count_groups r in_class true
      else if c =? g_lbracket then count_groups r true false
      else if c =? g_rbracket then count_groups r false false
      else if (c =? g_lparen) && negb in_class && negb (starts_with g_question r) then 1 + count_groups r in_class false
      else count_groups r in_class false
  end.

(* Pattern: a Disjunction that spans the whole input *)
Definition sp_pattern (u : bool) (l : list N) : SR unit :=
  match sp_disjunction u (count_groups l false false) (S (length l)) l with
  | SOk _ [] => SOk tt []
  | SOk _ (_ :: _) => SErr
  | SErr => SErr
  | SFuel => SFuel
  end.
Definition recognises (u : bool) (l : list N) : bool := match sp_pattern u l with SOk _ _ => true | _ => false end.

(* ---- the fragment ----
   A left-to-right scan of the units, in the mode u, outside and inside classes (a class runs from an unescaped `[` to
   the next unescaped `]`):
     a backslash is followed by a unit x, which is skipped, where
         with u: x is not p or P (property escapes are outside the fragment), and outside a class not k (named references),
         outside a class: if x is one of the digits 1-9, the value of the decimal digits that start at x is below 2^63;
     outside a class:
         `(?<` is followed by `=` or `!` (a look-behind, not a named group);
         where `{` starts a syntactically complete `{n}` `{n,}` `{n,m}`, the bounds are below 2^63 (the implementation
         accumulates decimal numbers in saturating 64-bit arithmetic, the grammar compares the unbounded values). *)
Definition bound_limit : N := 9223372036854775808.
Definition allowed_after_backslash (u cls : bool) (x : N) (r : list N) : bool :=
  (if negb cls && non_zero_digit x then dec_value (x :: fst (span_digits r)) <? bound_limit else true) &&
  (if u then negb (existsb (N.eqb x) [112; 80]) && (cls || negb (x =? 107)) else true).
Definition braces_small (l : list N) : bool :=
  match sp_braced l with
  | Some (n, om, _) => (n <? bound_limit) && match om with Some m => m <? bound_limit | None => true end
  | None => true
  end.
Definition local_ok (c : N) (r : list N) : bool :=
  if c =? g_lbrace then braces_small (c :: r)
  else
  match r with
  | c1 :: c2 :: r' =>
      if (c =? g_lparen) && (c1 =? g_question) && (c2 =? g_less) then
        match r' with x :: _ => is_eq_or_bang x | [] => false end
      else true
  | _ => true
  end.
(* cls = inside a class; esc = the previous unit was an (unescaped) backslash *)
Fixpoint scan (u cls esc : bool) (l : list N) : bool :=
  match l with
  | [] => negb esc
  | c :: r =>
      if esc then allowed_after_backslash u cls c r && scan u cls false r
      else if c =? g_backslash then scan u cls true r
      else if cls then scan u (negb (c =? g_rbracket)) false r
      else if c =? g_lbracket then scan u true false r
      else local_ok c r && scan u false false r
  end.
Definition in_fragment (u : bool) (l : list N) : bool := scan u false false l.

(* ---- the inputs on which the grammar of Grammar.v is the whole ES2022 grammar ----
   (where the recogniser is compared with V8; in_fragment above is the smaller set on which the validator model is
   proved to agree with it).  The same scan, with classes: a class runs from an unescaped `[` to the next unescaped `]`;
   inside a class a backslash may be followed by any unit except, with u, p or P; `(?<`, `{` and the decimal escapes
   are only looked at outside classes (and there the bounds need not be small). *)
Definition escape_in_grammar (u cls : bool) (x : N) : bool :=
  if u then negb (existsb (N.eqb x) [112; 80]) && (cls || negb (x =? 107)) else true.
Definition group_in_grammar (c : N) (r : list N) : bool :=
  match r with
  | c1 :: c2 :: r' =>
      if (c =? g_lparen) && (c1 =? g_question) && (c2 =? g_less) then
        match r' with x :: _ => is_eq_or_bang x | [] => false end
      else true
  | _ => true
  end.
Fixpoint gscan (u cls esc : bool) (l : list N) : bool :=
  match l with
  | [] => negb esc
  | c :: r =>
      if esc then escape_in_grammar u cls c && gscan u cls false r
      else if c =? g_backslash then gscan u cls true r
      else if cls then gscan u (negb (c =? g_rbracket)) false r
      else if c =? g_lbracket then gscan u true false r
      else group_in_grammar c r && gscan u false false r
  end.
Definition in_grammar (u : bool) (l : list N) : bool := gscan u false false l.
