(* A recogniser for the grammar fragment of Grammar.v, as a recursive-descent parser over the list of remaining
   units.  It serves two purposes: FragGrammar.v proves it sound and complete w.r.t. the inductive predicate
   `Pattern u` (so it is the executable form of the grammar, cross-validated against V8), and FragSim.v proves that
   the validator model behaves exactly like it on inputs of the fragment alphabet.  Its loops carry the same
   fuel as the validator's (so that the simulation is fuel-for-fuel). *)
From Coq Require Import List NArith Bool.
From V Require Import Regex.Grammar.
Import ListNotations.
Open Scope N_scope.

Inductive SR (A : Type) := SOk (a : A) (rest : list N) | SErr | SFuel.
Arguments SOk {A}. Arguments SErr {A}. Arguments SFuel {A}.

Definition is_quant_char (c : N) : bool := (c =? g_star) || (c =? g_plus) || (c =? g_question).
(* Quantifier(opt): (matched?, rest) *)
Definition sp_quant (l : list N) : bool * list N :=
  match l with
  | c :: r =>
      if is_quant_char c then
        (true, match r with q :: r' => if q =? g_question then r' else r | [] => r end)
      else (false, l)
  | [] => (false, l)
  end.

Definition is_eq_or_bang (c : N) : bool := (c =? g_equals) || (c =? g_bang).
(* is the assertion that starts here a QuantifiableAssertion of Annex B (a look-ahead, without u)? *)
Definition quantifiable (u : bool) (l : list N) : bool :=
  match l with
  | c0 :: c1 :: c2 :: _ => (c0 =? g_lparen) && (c1 =? g_question) && is_eq_or_bang c2 && negb u
  | _ => false
  end.

Section Knot.
Variable u : bool.
Variable sdisj : list N -> SR unit.

(* Disjunction `)` *)
Definition sp_group_body (l : list N) : SR bool :=
  match sdisj l with
  | SOk _ (c :: r) => if c =? g_rparen then SOk true r else SErr
  | SOk _ [] => SErr
  | SErr => SErr
  | SFuel => SFuel
  end.
Definition sp_assertion (l : list N) : SR bool :=
  match l with
  | [] => SOk false l
  | c :: r =>
      if c =? g_caret then SOk true r
      else if c =? g_dollar then SOk true r
      else if c =? g_lparen then
        match r with
        | q :: r1 =>
            if q =? g_question then
              match r1 with
              | x :: r2 =>
                  if x =? g_less then
                    match r2 with
                    | y :: r3 => if is_eq_or_bang y then sp_group_body r3 else SOk false l
                    | [] => SOk false l
                    end
                  else if is_eq_or_bang x then sp_group_body r2
                  else SOk false l
              | [] => SOk false l
              end
            else SOk false l
        | [] => SOk false l
        end
      else SOk false l
  end.
Definition sp_atom (l : list N) : SR bool :=
  match l with
  | [] => SOk false l
  | c :: r =>
      if negb (syntax_character c) then SOk true r
      else if c =? g_dot then SOk true r
      else if c =? g_lparen then
        match r with
        | q :: r' =>
            if q =? g_question then
              match r' with
              | k :: r'' => if k =? g_colon then sp_group_body r'' else SErr
              | [] => SErr
              end
            else sp_group_body r
        | [] => sp_group_body r
        end
      else SOk false l
  end.
Definition sp_term (l : list N) : SR bool :=
  match sp_assertion l with
  | SOk true r => if quantifiable u l then SOk true (snd (sp_quant r)) else SOk true r
  | SOk false _ =>
      match sp_atom l with
      | SOk true r => SOk true (snd (sp_quant r))
      | SOk false r => SOk false r
      | SErr => SErr
      | SFuel => SFuel
      end
  | SErr => SErr
  | SFuel => SFuel
  end.
Fixpoint sp_alternative (g : nat) (l : list N) : SR unit :=
  match g with O => SFuel | S g =>
    match l with
    | [] => SOk tt l
    | _ :: _ =>
        match sp_term l with
        | SOk true r => sp_alternative g r
        | SOk false r => SOk tt r
        | SErr => SErr
        | SFuel => SFuel
        end
    end
  end.
Fixpoint sp_bars (g : nat) (l : list N) : SR unit :=
  match g with O => SFuel | S g =>
    match l with
    | c :: r =>
        if c =? g_bar then
          match sp_alternative (S (length r)) r with
          | SOk _ r' => sp_bars g r'
          | SErr => SErr
          | SFuel => SFuel
          end
        else SOk tt l
    | [] => SOk tt l
    end
  end.
Definition sp_disjunction_body (l : list N) : SR unit :=
  match sp_alternative (S (length l)) l with
  | SOk _ l1 =>
      match sp_bars (S (length l1)) l1 with
      | SOk _ l2 => if fst (sp_quant l2) then SErr else SOk tt l2
      | SErr => SErr
      | SFuel => SFuel
      end
  | SErr => SErr
  | SFuel => SFuel
  end.
End Knot.

Fixpoint sp_disjunction (u : bool) (f : nat) (l : list N) : SR unit :=
  match f with O => SFuel | S f => sp_disjunction_body u (sp_disjunction u f) l end.

(* Pattern: a Disjunction that spans the whole input *)
Definition sp_pattern (u : bool) (l : list N) : SR unit :=
  match sp_disjunction u (S (length l)) l with
  | SOk _ [] => SOk tt []
  | SOk _ (_ :: _) => SErr
  | SErr => SErr
  | SFuel => SFuel
  end.
Definition recognises (u : bool) (l : list N) : bool := match sp_pattern u l with SOk _ _ => true | _ => false end.

(* ---- the fragment ----
   alphabet: every pattern character, and the nine structural characters  . | ( ) ? * + ^ $ ;
   context condition: `(?<` is followed by `=` or `!` (a look-behind, not a named group, which is outside the fragment) *)
Definition frag_char (c : N) : bool :=
  negb (syntax_character c)
  || existsb (N.eqb c) [g_dot; g_bar; g_lparen; g_rparen; g_question; g_star; g_plus; g_caret; g_dollar].
Definition chars_ok (l : list N) : bool := forallb frag_char l.
Definition local_ok (c : N) (r : list N) : bool :=
  match r with
  | c1 :: c2 :: r' =>
      if (c =? g_lparen) && (c1 =? g_question) && (c2 =? g_less) then
        match r' with x :: _ => is_eq_or_bang x | [] => false end
      else true
  | _ => true
  end.
Fixpoint ctx_ok (l : list N) : bool :=
  match l with [] => true | c :: r => local_ok c r && ctx_ok r end.
Definition in_fragment (l : list N) : bool := chars_ok l && ctx_ok l.
