(* A recogniser for the grammar fragment of Grammar.v, as a recursive-descent parser over the list of remaining
   units.  It serves two purposes: FragGrammar.v proves it sound and complete w.r.t. the inductive predicate
   `Pattern u` (so it is the executable form of the grammar, cross-validated against V8), and FragSim.v proves that
   the validator model behaves exactly like it on inputs of the fragment alphabet.  Its loops carry the same
   fuel as the validator's (so that the simulation is fuel-for-fuel). *)
From Coq Require Import List NArith Bool.
From V Require Import Regex.Grammar.
Import ListNotations.
Open Scope N_scope.

Inductive SR (A : Type) := SOk (a : A) (rest : list N) | SErr | SFuel.
Arguments SOk {A}. Arguments SErr {A}. Arguments SFuel {A}.

Definition is_quant_char (c : N) : bool := (c =? g_star) || (c =? g_plus) || (c =? g_question).
(* the optional lazy suffix *)
Definition skip_lazy (r : list N) : list N :=
  match r with q :: r' => if q =? g_question then r' else r | [] => r end.

(* the leading run of decimal digits, and what follows it *)
Fixpoint span_digits (l : list N) : list N * list N :=
  match l with
  | c :: r => if decimal_digit c then let '(ds, r') := span_digits r in (c :: ds, r') else ([], l)
  | [] => ([], [])
  end.
Definition dec_step (a d : N) : N := 10 * a + (d - 48).
Definition dec_value (ds : list N) : N := fold_left dec_step ds 0.
Definition is_nil {A} (l : list A) : bool := match l with [] => true | _ => false end.
(* `{n}` `{n,}` `{n,m}` at the head of l: (n, upper bound if any, rest) *)
Definition sp_braced (l : list N) : option (N * option N * list N) :=
  match l with
  | c :: r =>
      if c =? g_lbrace then
        let '(ds, r1) := span_digits r in
        if is_nil ds then None else
        match r1 with
        | c1 :: r2 =>
            if c1 =? g_rbrace then Some (dec_value ds, Some (dec_value ds), r2)
            else if c1 =? g_comma then
              let '(es, r3) := span_digits r2 in
              match r3 with
              | c3 :: r4 =>
                  if c3 =? g_rbrace then Some (dec_value ds, if is_nil es then None else Some (dec_value es), r4)
                  else None
              | [] => None
              end
            else None
        | [] => None
        end
      else None
  | [] => None
  end.
Definition bounds_ok (n : N) (om : option N) : bool := match om with Some m => n <=? m | None => true end.
Definition starts_with (c : N) (l : list N) : bool := match l with x :: _ => x =? c | [] => false end.
(* the braced quantifier as eat_braced_quantifier(no_error) reads it: with no_error nothing is an error; otherwise
   bounds out of order are, and with u so is a `{` that does not start a quantifier *)
Definition sp_brq (u no_error : bool) (l : list N) : SR bool :=
  match sp_braced l with
  | Some (n, om, r') => if negb no_error && negb (bounds_ok n om) then SErr else SOk true r'
  | None => if negb no_error && u && starts_with g_lbrace l then SErr else SOk false l
  end.
(* Quantifier(opt) *)
Definition sp_quant (u no_error : bool) (l : list N) : SR bool :=
  match l with
  | c :: r =>
      if is_quant_char c then SOk true (skip_lazy r)
      else match sp_brq u no_error l with
           | SOk true r' => SOk true (skip_lazy r')
           | SOk false r' => SOk false r'
           | SErr => SErr
           | SFuel => SFuel
           end
  | [] => SOk false l
  end.

Definition is_eq_or_bang (c : N) : bool := (c =? g_equals) || (c =? g_bang).
(* is the assertion that starts here a QuantifiableAssertion of Annex B (a look-ahead, without u)? *)
Definition quantifiable (u : bool) (l : list N) : bool :=
  match l with
  | c0 :: c1 :: c2 :: _ => (c0 =? g_lparen) && (c1 =? g_question) && is_eq_or_bang c2 && negb u
  | _ => false
  end.

(* backslash x as an atom: CharacterClassEscape, ControlEscape or IdentityEscape[?U] *)
Definition escape_ok (u : bool) (x : N) : bool :=
  character_class_escape x || control_escape x || identity_escape u x.

(* backslash AtomEscape *)
Definition sp_escape (u : bool) (l : list N) : SR bool :=
  match l with
  | c :: x :: r' => if c =? g_backslash then (if escape_ok u x then SOk true r' else SErr) else SOk false l
  | [c] => if c =? g_backslash then SErr else SOk false l
  | [] => SOk false l
  end.

Section Knot.
Variable u : bool.
Variable sdisj : list N -> SR unit.

(* Disjunction `)` *)
Definition sp_group_body (l : list N) : SR bool :=
  match sdisj l with
  | SOk _ (c :: r) => if c =? g_rparen then SOk true r else SErr
  | SOk _ [] => SErr
  | SErr => SErr
  | SFuel => SFuel
  end.
Definition sp_assertion (l : list N) : SR bool :=
  match l with
  | [] => SOk false l
  | c :: r =>
      if c =? g_caret then SOk true r
      else if c =? g_dollar then SOk true r
      else if c =? g_backslash then
        match r with
        | x :: r' => if assertion_escape x then SOk true r' else SOk false l
        | [] => SOk false l
        end
      else if c =? g_lparen then
        match r with
        | q :: r1 =>
            if q =? g_question then
              match r1 with
              | x :: r2 =>
                  if x =? g_less then
                    match r2 with
                    | y :: r3 => if is_eq_or_bang y then sp_group_body r3 else SOk false l
                    | [] => SOk false l
                    end
                  else if is_eq_or_bang x then sp_group_body r2
                  else SOk false l
              | [] => SOk false l
              end
            else SOk false l
        | [] => SOk false l
        end
      else SOk false l
  end.
Definition sp_atom (l : list N) : SR bool :=
  match l with
  | [] => SOk false l
  | c :: r =>
      if c =? g_dot then SOk true r
      else if c =? g_backslash then sp_escape u l
      else if c =? g_lparen then
        match r with
        | q :: r' =>
            if q =? g_question then
              match r' with
              | k :: r'' => if k =? g_colon then sp_group_body r'' else SErr
              | [] => SErr
              end
            else sp_group_body r
        | [] => sp_group_body r
        end
      else if u then (if negb (syntax_character c) then SOk true r else SOk false l)
      else
        (* Annex B: InvalidBracedQuantifier (an early error) before ExtendedPatternCharacter *)
        match sp_brq u true l with
        | SOk true _ => SErr
        | SOk false _ => if extended_pattern_character c then SOk true r else SOk false l
        | SErr => SErr
        | SFuel => SFuel
        end
  end.
Definition sp_quantified (r : list N) : SR bool :=
  match sp_quant u false r with
  | SOk _ r' => SOk true r'
  | SErr => SErr
  | SFuel => SFuel
  end.
Definition sp_term (l : list N) : SR bool :=
  match sp_assertion l with
  | SOk true r => if quantifiable u l then sp_quantified r else SOk true r
  | SOk false _ =>
      match sp_atom l with
      | SOk true r => sp_quantified r
      | SOk false r => SOk false r
      | SErr => SErr
      | SFuel => SFuel
      end
  | SErr => SErr
  | SFuel => SFuel
  end.
Fixpoint sp_alternative (g : nat) (l : list N) : SR unit :=
  match g with O => SFuel | S g =>
    match l with
    | [] => SOk tt l
    | _ :: _ =>
        match sp_term l with
        | SOk true r => sp_alternative g r
        | SOk false r => SOk tt r
        | SErr => SErr
        | SFuel => SFuel
        end
    end
  end.
Fixpoint sp_bars (g : nat) (l : list N) : SR unit :=
  match g with O => SFuel | S g =>
    match l with
    | c :: r =>
        if c =? g_bar then
          match sp_alternative (S (length r)) r with
          | SOk _ r' => sp_bars g r'
          | SErr => SErr
          | SFuel => SFuel
          end
        else SOk tt l
    | [] => SOk tt l
    end
  end.
Definition sp_disjunction_body (l : list N) : SR unit :=
  match sp_alternative (S (length l)) l with
  | SOk _ l1 =>
      match sp_bars (S (length l1)) l1 with
      | SOk _ l2 =>
          match sp_quant u true l2 with
          | SOk true _ => SErr                                      (* nothing to repeat *)
          | SOk false _ => if starts_with g_lbrace l2 then SErr else SOk tt l2   (* lone quantifier bracket *)
          | SErr => SErr
          | SFuel => SFuel
          end
      | SErr => SErr
      | SFuel => SFuel
      end
  | SErr => SErr
  | SFuel => SFuel
  end.
End Knot.

Fixpoint sp_disjunction (u : bool) (f : nat) (l : list N) : SR unit :=
  match f with O => SFuel | S f => sp_disjunction_body u (sp_disjunction u f) l end.

(* Pattern: a Disjunction that spans the whole input *)
Definition sp_pattern (u : bool) (l : list N) : SR unit :=
  match sp_disjunction u (S (length l)) l with
  | SOk _ [] => SOk tt []
  | SOk _ (_ :: _) => SErr
  | SErr => SErr
  | SFuel => SFuel
  end.
Definition recognises (u : bool) (l : list N) : bool := match sp_pattern u l with SOk _ _ => true | _ => false end.

(* ---- the fragment ----
   A left-to-right scan of the units:
     a backslash must be followed by a unit other than a decimal digit and c k x u p P (back-references, control
         letters, named references, hex/unicode/property escapes are outside the fragment); the escaped unit is skipped;
     every other unit is any unit but an opening bracket `[` (classes are outside the fragment);
     `(?<` is followed by `=` or `!` (a look-behind, not a named group);
     where `{` starts a syntactically complete `{n}` `{n,}` `{n,m}`, the bounds are below 2^63 (the implementation
         accumulates them in saturating 64-bit arithmetic, the grammar compares the unbounded values). *)
Definition plain_char (c : N) : bool := negb (c =? g_lbracket).
Definition is_dec_digit (c : N) : bool := (48 <=? c) && (c <=? 57).
Definition allowed_after_backslash (x : N) : bool :=
  negb (is_dec_digit x) && negb (existsb (N.eqb x) [99; 107; 120; 117; 112; 80]).
Definition bound_limit : N := 9223372036854775808.
Definition braces_small (l : list N) : bool :=
  match sp_braced l with
  | Some (n, om, _) => (n <? bound_limit) && match om with Some m => m <? bound_limit | None => true end
  | None => true
  end.
Definition local_ok (c : N) (r : list N) : bool :=
  if c =? g_lbrace then braces_small (c :: r)
  else
  match r with
  | c1 :: c2 :: r' =>
      if (c =? g_lparen) && (c1 =? g_question) && (c2 =? g_less) then
        match r' with x :: _ => is_eq_or_bang x | [] => false end
      else true
  | _ => true
  end.
(* esc = the previous unit was an (unescaped) backslash *)
Fixpoint scan (esc : bool) (l : list N) : bool :=
  match l with
  | [] => negb esc
  | c :: r =>
      if esc then allowed_after_backslash c && scan false r
      else if c =? g_backslash then scan true r
      else plain_char c && local_ok c r && scan false r
  end.
Definition in_fragment (u : bool) (l : list N) : bool := scan false l.
