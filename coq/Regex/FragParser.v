(* A recogniser for the grammar fragment of Grammar.v, as a recursive-descent parser over the list of remaining
   units.  It serves two purposes: FragGrammar.v proves it sound and complete w.r.t. the inductive predicate
   `Pattern u` (so it is the executable form of the grammar, cross-validated against V8), and FragSim.v proves that
   the validator model behaves exactly like it on inputs of the fragment alphabet.  Its loops carry the same
   fuel as the validator's (so that the simulation is fuel-for-fuel). *)
From Coq Require Import List NArith Bool.
From V Require Import Regex.Grammar.
Import ListNotations.
Open Scope N_scope.

Inductive SR (A : Type) := SOk (a : A) (rest : list N) | SErr | SFuel.
Arguments SOk {A}. Arguments SErr {A}. Arguments SFuel {A}.

Definition is_quant_char (c : N) : bool := (c =? g_star) || (c =? g_plus) || (c =? g_question).
(* Quantifier(opt): (matched?, rest) *)
Definition sp_quant (l : list N) : bool * list N :=
  match l with
  | c :: r =>
      if is_quant_char c then
        (true, match r with q :: r' => if q =? g_question then r' else r | [] => r end)
      else (false, l)
  | [] => (false, l)
  end.

Definition is_eq_or_bang (c : N) : bool := (c =? g_equals) || (c =? g_bang).
(* is the assertion that starts here a QuantifiableAssertion of Annex B (a look-ahead, without u)? *)
Definition quantifiable (u : bool) (l : list N) : bool :=
  match l with
  | c0 :: c1 :: c2 :: _ => (c0 =? g_lparen) && (c1 =? g_question) && is_eq_or_bang c2 && negb u
  | _ => false
  end.

(* backslash x as an atom: CharacterClassEscape, ControlEscape or IdentityEscape[?U] *)
Definition escape_ok (u : bool) (x : N) : bool :=
  character_class_escape x || control_escape x || identity_escape u x.

(* backslash AtomEscape *)
Definition sp_escape (u : bool) (l : list N) : SR bool :=
  match l with
  | c :: x :: r' => if c =? g_backslash then (if escape_ok u x then SOk true r' else SErr) else SOk false l
  | [c] => if c =? g_backslash then SErr else SOk false l
  | [] => SOk false l
  end.

Section Knot.
Variable u : bool.
Variable sdisj : list N -> SR unit.

(* Disjunction `)` *)
Definition sp_group_body (l : list N) : SR bool :=
  match sdisj l with
  | SOk _ (c :: r) => if c =? g_rparen then SOk true r else SErr
  | SOk _ [] => SErr
  | SErr => SErr
  | SFuel => SFuel
  end.
Definition sp_assertion (l : list N) : SR bool :=
  match l with
  | [] => SOk false l
  | c :: r =>
      if c =? g_caret then SOk true r
      else if c =? g_dollar then SOk true r
      else if c =? g_backslash then
        match r with
        | x :: r' => if assertion_escape x then SOk true r' else SOk false l
        | [] => SOk false l
        end
      else if c =? g_lparen then
        match r with
        | q :: r1 =>
            if q =? g_question then
              match r1 with
              | x :: r2 =>
                  if x =? g_less then
                    match r2 with
                    | y :: r3 => if is_eq_or_bang y then sp_group_body r3 else SOk false l
                    | [] => SOk false l
                    end
                  else if is_eq_or_bang x then sp_group_body r2
                  else SOk false l
              | [] => SOk false l
              end
            else SOk false l
        | [] => SOk false l
        end
      else SOk false l
  end.
Definition sp_atom (l : list N) : SR bool :=
  match l with
  | [] => SOk false l
  | c :: r =>
      if negb (syntax_character c) then SOk true r
      else if c =? g_dot then SOk true r
      else if c =? g_backslash then sp_escape u l
      else if c =? g_lparen then
        match r with
        | q :: r' =>
            if q =? g_question then
              match r' with
              | k :: r'' => if k =? g_colon then sp_group_body r'' else SErr
              | [] => SErr
              end
            else sp_group_body r
        | [] => sp_group_body r
        end
      else SOk false l
  end.
Definition sp_term (l : list N) : SR bool :=
  match sp_assertion l with
  | SOk true r => if quantifiable u l then SOk true (snd (sp_quant r)) else SOk true r
  | SOk false _ =>
      match sp_atom l with
      | SOk true r => SOk true (snd (sp_quant r))
      | SOk false r => SOk false r
      | SErr => SErr
      | SFuel => SFuel
      end
  | SErr => SErr
  | SFuel => SFuel
  end.
Fixpoint sp_alternative (g : nat) (l : list N) : SR unit :=
  match g with O => SFuel | S g =>
    match l with
    | [] => SOk tt l
    | _ :: _ =>
        match sp_term l with
        | SOk true r => sp_alternative g r
        | SOk false r => SOk tt r
        | SErr => SErr
        | SFuel => SFuel
        end
    end
  end.
Fixpoint sp_bars (g : nat) (l : list N) : SR unit :=
  match g with O => SFuel | S g =>
    match l with
    | c :: r =>
        if c =? g_bar then
          match sp_alternative (S (length r)) r with
          | SOk _ r' => sp_bars g r'
          | SErr => SErr
          | SFuel => SFuel
          end
        else SOk tt l
    | [] => SOk tt l
    end
  end.
Definition sp_disjunction_body (l : list N) : SR unit :=
  match sp_alternative (S (length l)) l with
  | SOk _ l1 =>
      match sp_bars (S (length l1)) l1 with
      | SOk _ l2 => if fst (sp_quant l2) then SErr else SOk tt l2
      | SErr => SErr
      | SFuel => SFuel
      end
  | SErr => SErr
  | SFuel => SFuel
  end.
End Knot.

Fixpoint sp_disjunction (u : bool) (f : nat) (l : list N) : SR unit :=
  match f with O => SFuel | S f => sp_disjunction_body u (sp_disjunction u f) l end.

(* Pattern: a Disjunction that spans the whole input *)
Definition sp_pattern (u : bool) (l : list N) : SR unit :=
  match sp_disjunction u (S (length l)) l with
  | SOk _ [] => SOk tt []
  | SOk _ (_ :: _) => SErr
  | SErr => SErr
  | SFuel => SFuel
  end.
Definition recognises (u : bool) (l : list N) : bool := match sp_pattern u l with SOk _ _ => true | _ => false end.

(* ---- the fragment ----
   A left-to-right scan of the units:
     a backslash must be followed by a unit other than a decimal digit and c k x u p P (back-references, control
         letters, named references, hex/unicode/property escapes are outside the fragment); the escaped unit is skipped;
     every other unit is a pattern character or one of  . | ( ) ? * + ^ $  (a bare bracket or brace is outside);
     `(?<` is followed by `=` or `!` (a look-behind, not a named group).
   chars_ok (all that the grammar side needs): without u no unit is a closing bracket or a brace at all (Annex B would
   admit a bare one as ExtendedPatternCharacter; the fragment has them only with u, escaped). *)
Definition plain_char (c : N) : bool :=
  negb (syntax_character c)
  || existsb (N.eqb c) [g_dot; g_bar; g_lparen; g_rparen; g_question; g_star; g_plus; g_caret; g_dollar].
Definition is_dec_digit (c : N) : bool := (48 <=? c) && (c <=? 57).
Definition allowed_after_backslash (x : N) : bool :=
  negb (is_dec_digit x) && negb (existsb (N.eqb x) [99; 107; 120; 117; 112; 80]).
Definition local_ok (c : N) (r : list N) : bool :=
  match r with
  | c1 :: c2 :: r' =>
      if (c =? g_lparen) && (c1 =? g_question) && (c2 =? g_less) then
        match r' with x :: _ => is_eq_or_bang x | [] => false end
      else true
  | _ => true
  end.
(* esc = the previous unit was an (unescaped) backslash *)
Fixpoint scan (esc : bool) (l : list N) : bool :=
  match l with
  | [] => negb esc
  | c :: r =>
      if esc then allowed_after_backslash c && scan false r
      else if c =? g_backslash then scan true r
      else plain_char c && local_ok c r && scan false r
  end.
Definition no_brace (c : N) : bool := negb ((c =? g_rbracket) || (c =? g_lbrace) || (c =? g_rbrace)).
Definition chars_ok (u : bool) (l : list N) : bool := u || forallb no_brace l.
Definition in_fragment (u : bool) (l : list N) : bool := scan false l && chars_ok u l.
