(* On inputs of the fragment alphabet the validator model behaves exactly like the recogniser of FragParser.v. *)
From Coq Require Import List NArith ZArith Bool Lia PeanoNat.
From RecordUpdate Require Import RecordSet.
From V Require Import Common.Str Regex.Reader Gen.UnicodeProps Regex.Validator Regex.Grammar Regex.FragParser Regex.FragGrammar.
Import ListNotations RecordSetNotations.

(* the validator is at the input suffix l, in mode u (validate_pattern sets strict = u_flag = u) *)
Definition at_ (u : bool) (np : N) (s : vst) (l : list N) : Prop :=
  skipn (pos s) (units (rd s)) = l /\ strict s = u /\ uflag s = u /\ nflag s = u /\ ncap s = np.
(* the part of in_fragment the simulation depends on *)
Definition frag (u : bool) (l : list N) : Prop := scan u false false l = true.
(* inside a class, at an atom boundary *)
Definition cfrag (u : bool) (l : list N) : Prop := scan u true false l = true.
(* a fact kept aside in its original form *)
Definition keep (P : Prop) : Prop := P.
Definition cfgeq (s t : vst) : Prop :=
  units (rd t) = units (rd s) /\ strict t = strict s /\ uflag t = uflag s /\ nflag t = nflag s /\
  ncap t = ncap s /\ gnames t = gnames s /\ brnames t = brnames s.
Definition Post {A} (u : bool) (np : N) (s : vst) (_ : A) (t : vst) (l' : list N) : Prop :=
  at_ u np t l' /\ frag u l' /\ cfgeq s t.
(* the validator is at the unit after a backslash: the escaped state of the scan *)
Definition efrag (u cls : bool) (l : list N) : Prop := scan u cls true l = true.
(* vp: what is known about last_int_value after a success (the CharacterValue of the escape) *)
Definition PostE (u cls : bool) (np : N) (vp : Z -> Prop) (s : vst) (b : bool) (t : vst) (l' : list N) : Prop :=
  at_ u np t l' /\ cfgeq s t /\ (b = true -> scan u cls false l' = true /\ vp (liv t)).
Definition anyv (_ : Z) : Prop := True.
Definition SimR {A} (P : A -> vst -> list N -> Prop) (r : R A) (x : SR A) : Prop :=
  match r, x with
  | Ok a t, SOk a' l' => a = a' /\ P a t l'
  | SyntaxErr _ _, SErr => True
  | OutOfFuel, SFuel => True
  | _, _ => False
  end.
Definition SimP (P : bool -> vst -> list N -> Prop) (r : R bool) (p : bool * list N) : Prop :=
  match r with Ok a t => a = fst p /\ P a t (snd p) | _ => False end.
(* class atoms: the model answers a boolean and leaves the CharacterValue (-1 for a class) in last_int_value *)
Definition enc (ov : option N) : Z := match ov with Some v => Z.of_N v | None => (-1)%Z end.
Definition is_some {A} (o : option A) : bool := match o with Some _ => true | None => false end.
Definition SimC (P : bool -> vst -> list N -> Prop) (r : R bool) (x : SR (option (option N))) : Prop :=
  match r, x with
  | Ok b t, SOk oov l' => b = is_some oov /\ P b t l' /\ match oov with Some ov => liv t = enc ov | None => True end
  | SyntaxErr _ _, SErr => True
  | OutOfFuel, SFuel => True
  | _, _ => False
  end.
Definition PostC (u : bool) (np : N) (s : vst) (b : bool) (t : vst) (l' : list N) : Prop :=
  at_ u np t l' /\ cfgeq s t /\ (b = true -> cfrag u l').
Definition PostR (u : bool) (np : N) (s : vst) (_ : unit) (t : vst) (l' : list N) : Prop :=
  at_ u np t l' /\ cfrag u l' /\ cfgeq s t.
(* a model function that cannot fail against a recogniser piece that cannot fail *)
Definition SimB (P : bool -> vst -> list N -> Prop) (p : bool * vst) (x : bool * list N) : Prop :=
  fst p = fst x /\ P (fst p) (snd p) (snd x).

Lemma nth_error_skipn_add {A} (us : list A) i k : nth_error (skipn i us) k = nth_error us (i + k).
Proof. revert us; induction i as [|i IH]; intros us; [reflexivity|]. destruct us as [|x us]; [destruct k; reflexivity|]. apply IH. Qed.
Lemma r_cp_skipn us i k : r_cp k (mkreader us i) = nth_error (skipn i us) k.
Proof. unfold r_cp. cbn [units idx]. symmetry. apply nth_error_skipn_add. Qed.
Lemma skipn_S_tl {A} (us : list A) i c r : skipn i us = c :: r -> skipn (S i) us = r.
Proof.
  revert us; induction i as [|i IH]; intros us H; [cbn in H; subst us; reflexivity|].
  destruct us as [|x us]; [discriminate|]. cbn [skipn] in *. apply IH. exact H.
Qed.
Lemma remaining_skipn {A} (us : list A) i m : skipn i us = m -> (length us - i)%nat = length m.
Proof. intros <-. symmetry. apply skipn_length. Qed.

Lemma quantifiable_true l : quantifiable true l = false.
Proof. destruct l as [|c0 [|c1 [|c2 l]]]; cbn [quantifiable negb]; try reflexivity. apply andb_false_r. Qed.
(* the input starts with something Assertion matches (or `(?<`, which in the fragment is a look-behind) *)
Definition assertion_prefix (l : list N) : bool :=
  match l with
  | c0 :: c1 :: r =>
      ((c0 =? g_backslash) && assertion_escape c1)
      || match r with
         | c2 :: _ => (c0 =? g_lparen) && (c1 =? g_question) && (is_eq_or_bang c2 || (c2 =? g_less))
         | [] => false
         end
  | _ => false
  end.
Lemma sp_group_body_not_false sdisj l r : sp_group_body sdisj l <> SOk false r.
Proof. unfold sp_group_body. destruct (sdisj l) as [[] [|c r0]| |]; try discriminate. destruct (c =? g_rparen); discriminate. Qed.
Lemma sp_assertion_false_prefix u sdisj l r : sp_assertion sdisj l = SOk false r -> scan u false false l = true -> assertion_prefix l = false.
Proof.
  destruct l as [|c0 [|c1 l1]]; try reflexivity. cbn [sp_assertion assertion_prefix].
  destruct (N.eqb_spec c0 g_caret) as [->|_]; [discriminate|]. destruct (N.eqb_spec c0 g_dollar) as [->|_]; [discriminate|].
  destruct (N.eqb_spec c0 g_backslash) as [->|_].
  { destruct (assertion_escape c1); [discriminate|]. intros _ _. destruct l1; reflexivity. }
  cbn [andb orb].
  destruct (N.eqb_spec c0 g_lparen) as [->|_]; [|intros _ _; destruct l1; reflexivity].
  destruct (N.eqb_spec c1 g_question) as [->|_]; [|intros _ _; destruct l1; reflexivity].
  destruct l1 as [|c2 l']; [reflexivity|]. cbn [andb].
  destruct (N.eqb_spec c2 g_less) as [->|_].
  - destruct l' as [|y r3]; [intros _ H; cbn in H; discriminate H|]. destruct (is_eq_or_bang y) eqn:Ey.
    + intros H _. exfalso. exact (sp_group_body_not_false _ _ _ H).
    + intros _ H. cbn in H. rewrite Ey in H. discriminate H.
  - rewrite orb_false_r. destruct (is_eq_or_bang c2); [|reflexivity]. intros H _. exfalso. exact (sp_group_body_not_false _ _ _ H).
Qed.
Lemma sp_assertion_false_eq sdisj l r : sp_assertion sdisj l = SOk false r -> r = l.
Proof.
  destruct l as [|c0 l0]; cbn [sp_assertion]; [intros [= <-]; reflexivity|].
  destruct (c0 =? g_caret); [discriminate|]. destruct (c0 =? g_dollar); [discriminate|].
  destruct (c0 =? g_backslash).
  { destruct l0 as [|x r']; [intros [= <-]; reflexivity|]. destruct (assertion_escape x); [discriminate|intros [= <-]; reflexivity]. }
  destruct (c0 =? g_lparen); [|intros [= <-]; reflexivity].
  destruct l0 as [|c1 l1]; [intros [= <-]; reflexivity|]. destruct (c1 =? g_question); [|intros [= <-]; reflexivity].
  destruct l1 as [|c2 l2]; [intros [= <-]; reflexivity|]. destruct (c2 =? g_less).
  - destruct l2 as [|c3 l3]; [intros [= <-]; reflexivity|]. destruct (is_eq_or_bang c3); [|intros [= <-]; reflexivity].
    intros H. exfalso. exact (sp_group_body_not_false _ _ _ H).
  - destruct (is_eq_or_bang c2); [|intros [= <-]; reflexivity]. intros H. exfalso. exact (sp_group_body_not_false _ _ _ H).
Qed.
Lemma sp_escape_not_bs u np c r : (c =? 92)%N = false -> sp_escape u np (c :: r) = SOk false (c :: r).
Proof. intros E. cbn [sp_escape]. unfold g_backslash. destruct r; rewrite E; reflexivity. Qed.
Lemma syntax_character_is_syntax c : syntax_character c = is_syntax c.
Proof. reflexivity. Qed.
(* a recogniser piece that answers "not here" has consumed nothing *)
Ltac same_rest H :=
  repeat match type of H with
         | (match ?x with _ => _ end) = _ => destruct x eqn:?
         | (let '(_, _) := ?x in _) = _ => destruct x eqn:?
         end; inversion H; try reflexivity.
Lemma sp_fixed_hex_false_eq n l r : sp_fixed_hex n l = (false, r) -> r = l.
Proof. intros H. exact (proj1 (sp_fixed_hex_false _ _ _ _ H eq_refl)). Qed.
Lemma sp_surrogate_pair_false_eq l r : sp_surrogate_pair l = (false, r) -> r = l.
Proof. intros H. exact (sp_surrogate_pair_false _ _ _ H eq_refl). Qed.
Lemma sp_codepoint_false_eq l r : sp_codepoint l = SOk false r -> r = l.
Proof. intros H. apply sp_codepoint_sound in H. destruct H as [[H _]|[_ H]]; [discriminate|exact H]. Qed.
Lemma sp_hex_esc_false_eq u l r : sp_hex_esc u l = SOk false r -> r = l.
Proof. intros H. apply sp_hex_esc_sound in H. destruct H as [[H _]|[_ [H _]]]; [discriminate|exact H]. Qed.
Lemma sp_unicode_esc_false_eq u l r : sp_unicode_esc u l = SOk false r -> r = l.
Proof. intros H. apply sp_unicode_esc_sound in H. destruct H as [[H _]|[_ [H _]]]; [discriminate|exact H]. Qed.
Lemma sp_atom_escape_false_eq u np l r : sp_atom_escape u np l = SOk false r -> r = l.
Proof. intros H. apply sp_atom_escape_sound in H. destruct H as [[H _]|[_ H]]; [discriminate|exact H]. Qed.
Lemma sp_escape_false_eq u np l r : sp_escape u np l = SOk false r -> r = l.
Proof. intros H. apply sp_escape_sound in H. destruct H as [[H _]|[_ H]]; [discriminate|exact H]. Qed.
Lemma sp_backref_false_eq u np l r : sp_backref u np l = SOk false r -> r = l.
Proof. intros H. apply sp_backref_sound in H. destruct H as [[H _]|[_ [H _]]]; [discriminate|exact H]. Qed.
Lemma sp_legacy_octal_false_eq l r : sp_legacy_octal l = (false, r) -> r = l.
Proof. intros H. apply sp_legacy_octal_false in H. apply H. Qed.
Lemma sp_cce_false_eq l r : sp_cce l = SOk false r -> r = l.
Proof. destruct l as [|c l']; cbn [sp_cce]; [intros [= <-]; reflexivity|]. destruct (character_class_escape c); [discriminate|intros [= <-]; reflexivity]. Qed.
Lemma sp_ce_false_eq u l r : sp_ce u l = SOk false r -> r = l.
Proof.
  destruct l as [|c l']; cbn [sp_ce]; [intros [= <-]; reflexivity|].
  destruct (control_escape c); [discriminate|]. destruct ((c =? 99) && starts_letter l')%bool; [discriminate|].
  destruct ((c =? 48) && negb (starts_digit l'))%bool; [discriminate|].
  destruct (sp_hex_esc u (c :: l')) as [[|] r1| |]; try discriminate.
  destruct (sp_unicode_esc u (c :: l')) as [[|] r2| |]; try discriminate.
  destruct (if u then (false, c :: l') else sp_legacy_octal (c :: l')) as [[|] r3]; [discriminate|].
  destruct (identity_escape u c)%bool; [discriminate|intros [= <-]; reflexivity].
Qed.
Lemma sp_escape_true_bs np l r : sp_escape true np (92 :: l) = SOk false r -> False.
Proof.
  cbn [sp_escape N.eqb Pos.eqb g_backslash]. rewrite sp_atom_escape_split.
  destruct (sp_backref true np l) as [[|] r0| |]; try discriminate.
  destruct (sp_cce l) as [[|] r1| |]; try discriminate. destruct (sp_ce true l) as [[|] r2| |]; discriminate.
Qed.
Lemma sp_class_false_eq u l r : sp_class u l = SOk false r -> r = l /\ starts_with g_lbracket l = false.
Proof. intros H. apply sp_class_sound in H. destruct H as [[H _]|[_ H]]; [discriminate|exact H]. Qed.
Lemma sp_class_not_lb u c r : (c =? 91)%N = false -> sp_class u (c :: r) = SOk false (c :: r).
Proof. intros H. cbn [sp_class]. unfold g_lbracket. rewrite H. reflexivity. Qed.
Lemma sp_brq_nil u ne : sp_brq u ne [] = SOk false [].
Proof. unfold sp_brq. cbn [sp_braced starts_with]. rewrite andb_false_r. reflexivity. Qed.

Ltac proj := cbn [rd strict uflag nflag liv lmin lmax lstr lkey lval laq ncap gnames brnames fst snd units idx nth_error andb orb negb length N.eqb Pos.eqb] in *.
Ltac unfold_chars :=
  unfold c_bs, c_lp, c_rp, c_lb, c_rb, c_lc, c_rc, c_q, c_star, c_plus, c_bar, c_caret, c_dollar, c_dot, c_comma,
         c_minus, c_lt, c_gt, c_eq, c_bang, c_colon, c_slash, c_us,
         g_caret, g_dollar, g_backslash, g_dot, g_star, g_plus, g_question, g_lparen, g_rparen, g_lbracket,
         g_rbracket, g_lbrace, g_rbrace, g_bar, g_colon, g_equals, g_bang, g_less, g_slash in *.
Ltac prim :=
  unfold back_to, consume_pattern_character, consume_extended_pattern_character, consume_bs_followed_by_c, nonempty in *;
  unfold eat, eat2, eat3, fuel_of in *; unfold advance, rewind, cp, pos, remaining, is in *;
  unfold r_advance, r_rewind, r_remaining in *; unfold set in *; proj.
Ltac unfold_hyps :=
  repeat match goal with
         | H : Post _ _ _ _ _ _ |- _ => unfold Post in H
         | H : PostE _ _ _ _ _ _ _ _ |- _ => unfold PostE in H
         | H : PostC _ _ _ _ _ _ |- _ => unfold PostC in H
         | H : PostR _ _ _ _ _ _ |- _ => unfold PostR in H
         | H : anyv _ |- _ => clear H
         | H : at_ _ _ _ _ |- _ => unfold at_, pos in H
         | H : cfgeq _ _ |- _ => unfold cfgeq in H
         | H : _ /\ _ |- _ => destruct H
         end.
Ltac destruct_states :=
  repeat match goal with
         | s : vst |- _ => destruct s
         | r : reader |- _ => destruct r
         end; proj.
(* facts about the remaining input *)
Ltac feed :=
  repeat match goal with
         | H : skipn ?j ?us = ?c :: ?r |- _ =>
             lazymatch goal with
             | _ : skipn (S j) us = r |- _ => fail
             | _ => pose proof (skipn_S_tl us j c r H)
             end
         | H : frag _ _ |- _ => unfold frag in H
         | H : cfrag _ _ |- _ => unfold cfrag in H
         | H : efrag _ _ _ |- _ => unfold efrag in H
         | H : scan _ _ false [] = true |- _ => clear H
         | H : scan _ _ true [] = true |- _ => discriminate H
         | H : scan _ _ true (_ :: _) = true |- _ =>
             cbn [scan] in H; apply andb_true_iff in H; destruct H as [? H]
         | H : scan ?u false false (?c :: ?r) = true |- _ =>
             lazymatch goal with
             | _ : keep (scan u false false (c :: r) = true) |- _ => idtac
             | _ => pose proof (H : keep (scan u false false (c :: r) = true))
             end;
             cbn [scan] in H; unfold g_backslash, g_lbracket in H;
             first [ is_var c;
                     let E := fresh "Ebs" in let E' := fresh "Elb" in
                     destruct (c =? 92)%N eqn:E; [apply N.eqb_eq in E; subst c|
                       destruct (c =? 91)%N eqn:E'; [apply N.eqb_eq in E'; subst c|]]
                   | cbn [N.eqb Pos.eqb] in H ]
         | H : scan ?u true false (?c :: ?r) = true |- _ =>
             lazymatch goal with
             | _ : keep (scan u true false (c :: r) = true) |- _ => idtac
             | _ => pose proof (H : keep (scan u true false (c :: r) = true))
             end;
             cbn [scan] in H; unfold g_backslash, g_rbracket in H;
             first [ is_var c;
                     let E := fresh "Ebs" in let E' := fresh "Erb" in
                     destruct (c =? 92)%N eqn:E; [apply N.eqb_eq in E; subst c|
                       destruct (c =? 93)%N eqn:E'; [apply N.eqb_eq in E'; subst c|]; cbn [negb] in H]
                   | cbn [N.eqb Pos.eqb negb] in H ]
         | H : local_ok _ _ && scan _ false false _ = true |- _ =>
             apply andb_true_iff in H; destruct H as [? ?]
         end.
Ltac rw1 :=
  first [ rewrite r_cp_skipn
        | match goal with
          | H : skipn ?j ?us = _ |- context [skipn ?j ?us] => rewrite H
          | H : skipn ?j ?us = ?m |- context [(length ?us - ?j)%nat] => rewrite (remaining_skipn us j m H)
          end ].
Ltac rw_skipn := repeat (rw1; proj).
(* a closed boolean hypothesis that computes to a contradiction *)
(* rewrite the known values of boolean tests into H *)
Ltac saturate H :=
  repeat match goal with
         | E : ?b = ?v |- _ =>
             lazymatch type of H with
             | context [b] => tryif constr_eq E H then fail else (rewrite E in H)
             end
         end.
Ltac absurd_hyp :=
  match goal with
  | H : ?x <> ?x |- _ => exfalso; apply H; reflexivity
  | H : local_ok _ _ = true |- _ =>
      unfold local_ok, is_eq_or_bang in H; unfold_chars; cbn [N.eqb Pos.eqb andb orb] in H;
      saturate H; cbn [orb andb negb] in H; discriminate H
  | H : allowed_after_backslash _ _ _ = true |- _ =>
      unfold allowed_after_backslash, non_zero_digit in H;
      cbn [existsb N.eqb Pos.eqb N.leb N.compare Pos.compare Pos.compare_cont andb orb negb] in H; saturate H;
      cbn [orb andb negb N.eqb Pos.eqb] in H; discriminate H
  | H : assertion_prefix _ = false |- _ => vm_compute in H; discriminate H
  | H : assertion_prefix _ = false |- _ =>
      unfold assertion_prefix, is_eq_or_bang, assertion_escape in H; unfold_chars; cbn [N.eqb Pos.eqb andb orb] in H;
      saturate H; cbn [orb andb negb] in H; discriminate H
  end.
(* closed boolean facts that compute to a contradiction: tried only when a character has just become known *)
Ltac small_fact t :=
  lazymatch t with
  | context [scan] => fail | context [local_ok] => fail | context [braces_small] => fail
  | context [allowed_after_backslash] => fail | context [bound_limit] => fail
  | context [sp_braced] => fail | context [span_digits] => fail | context [dec_value] => fail
  | _ => idtac
  end.
Ltac absurd_closed :=
  match goal with
  | H : ?t = true |- _ => small_fact t; vm_compute in H; discriminate H
  | H : ?t = false |- _ => small_fact t; vm_compute in H; discriminate H
  end.
Ltac cleanup :=
  repeat match goal with
         | H : _ /\ _ |- _ => destruct H
         | H : negb _ = false |- _ => apply negb_false_iff in H
         | H : negb _ = true |- _ => apply negb_true_iff in H
         | H : ?x = ?x |- _ => clear H
         | H : true = true -> _ |- _ => specialize (H eq_refl)
         | H : false = true -> _ |- _ => clear H
         | H : @eq (list N) ?x ?y |- _ => is_var x; is_var y; subst x
         | H : @eq bool ?x true |- _ => is_var x; subst x
         | H : @eq bool ?x false |- _ => is_var x; subst x
         | H : @eq bool true ?x |- _ => is_var x; subst x
         | H : @eq bool false ?x |- _ => is_var x; subst x
         | H : @eq bool ?x ?y |- _ => is_var x; subst x
         | H : (?c =? _)%N = true |- _ => is_var c; apply N.eqb_eq in H; subst c; try solve [exfalso; absurd_closed]
         | H : Some _ = Some _ |- _ => injection H as H
         | H : sp_quant _ _ ?l = SOk false ?r |- _ => is_var r; apply sp_quant_false in H; subst r
         | H : sp_brq _ _ ?l = SOk false ?r |- _ => is_var r; pose proof (sp_brq_false _ _ _ _ H); subst r
         | H : sp_fixed_hex _ ?l = (false, ?r) |- _ => is_var r; pose proof (sp_fixed_hex_false_eq _ _ _ H); subst r
         | H : sp_surrogate_pair ?l = (false, ?r) |- _ => is_var r; pose proof (sp_surrogate_pair_false_eq _ _ H); subst r
         | H : sp_codepoint ?l = SOk false ?r |- _ => is_var r; pose proof (sp_codepoint_false_eq _ _ H); subst r
         | H : sp_hex_esc _ ?l = SOk false ?r |- _ => is_var r; pose proof (sp_hex_esc_false_eq _ _ _ H); subst r
         | H : sp_unicode_esc _ ?l = SOk false ?r |- _ => is_var r; pose proof (sp_unicode_esc_false_eq _ _ _ H); subst r
         | H : sp_atom_escape _ _ ?l = SOk false ?r |- _ => is_var r; pose proof (sp_atom_escape_false_eq _ _ _ _ H); subst r
         | H : sp_backref _ _ ?l = SOk false ?r |- _ => is_var r; pose proof (sp_backref_false_eq _ _ _ _ H); subst r
         | H : sp_legacy_octal ?l = (false, ?r) |- _ => is_var r; pose proof (sp_legacy_octal_false_eq _ _ H); subst r
         | H : sp_escape true _ (92%N :: _) = SOk false _ |- _ => exfalso; exact (sp_escape_true_bs _ _ _ H)
         | H : sp_escape _ _ ?l = SOk false ?r |- _ => is_var r; pose proof (sp_escape_false_eq _ _ _ _ H); subst r
         | H : sp_class _ (91%N :: _) = SOk false _ |- _ => exfalso; apply sp_class_false_eq in H; destruct H as [_ H]; discriminate H
         | H : sp_class _ ?l = SOk false ?r |- _ => is_var r; pose proof (proj1 (sp_class_false_eq _ _ _ H)); subst r
         | H : sp_cce ?l = SOk false ?r |- _ => is_var r; pose proof (sp_cce_false_eq _ _ H); subst r
         | H : sp_class_escape _ ?l = SOk None ?r |- _ => is_var r; pose proof (proj1 (sp_class_escape_none _ _ _ H)); subst r
         | H : sp_class_atom _ ?l = SOk None ?r |- _ => is_var r; pose proof (sp_class_atom_none _ _ _ H); subst r
         | H : sp_ce _ ?l = SOk false ?r |- _ => is_var r; pose proof (sp_ce_false_eq _ _ _ H); subst r
         | H : sp_assertion _ ?l = SOk false ?r |- _ => is_var r; pose proof (sp_assertion_false_eq _ _ _ H); subst r
         | H : @eq unit _ _ |- _ => clear H
         | H : @eq N ?x ?y |- _ => first [is_var x; subst x | is_var y; subst y]
         | H : @eq Z ?x ?y |- _ => first [is_var x; subst x | is_var y; subst y]
         | H : @eq (list str) ?x _ |- _ => is_var x; subst x
         end; feed.
Ltac norm := unfold_hyps; destruct_states; cleanup.
Lemma enc_some_neq n : (enc (Some n) =? -1)%Z = false.
Proof. cbn [enc]. apply Z.eqb_neq. lia. Qed.
Ltac sp_simpl :=
  repeat (change (syntax_character ?x) with (is_syntax x));
  rewrite ?enc_some_neq;
  cbn [fst snd andb orb negb nth_error length tl hd enc Z.eqb].
Ltac simp := rw_skipn; sp_simpl; unfold_chars; rewrite ?quantifiable_true; proj; rw_skipn.
(* range tests on the same character that contradict each other *)
Ltac arith_absurd :=
  repeat match goal with
         | H : (_ <=? _)%N = true |- _ => apply N.leb_le in H
         | H : (_ <=? _)%N = false |- _ => apply N.leb_gt in H
         end; lia.
Ltac split_test c :=
  lazymatch c with
  | (?a && _)%bool => split_test a
  | (?a || _)%bool => split_test a
  | negb ?a => split_test a
  | _ => tryif is_var c then destruct c
         else first [
           (* a closed test: compute it *)
           lazymatch type of c with bool => idtac end;
           let v := eval vm_compute in c in
           lazymatch v with
           | true => change c with true
           | false => change c with false
           end
         | match goal with
              | E : c = _ |- _ => rewrite E        (* the outcome of this test is already known *)
              | _ => destruct c eqn:?;
                     lazymatch c with (_ <=? _)%N => try solve [exfalso; arith_absurd] | _ => idtac end
              end ]
  end.
Ltac case_scrut :=
  match goal with
  | |- context [match ?c with _ => _ end] =>
      lazymatch c with
      | context [match _ with _ => _ end] => fail
      | nth_error ?m _ => is_var m; destruct m
      | _ => split_test c
      end
  end.
Ltac split_mem :=
  match goal with
  | H : existsb (N.eqb ?n) _ = true |- _ =>
      is_var n; cbn [existsb] in H; repeat (apply orb_true_iff in H; destruct H as [H|H]);
      try discriminate H; apply N.eqb_eq in H; subst n
  | H : is_syntax ?n = true |- _ =>
      is_var n; unfold is_syntax in H; unfold_chars; cbn [existsb] in H;
      repeat (apply orb_true_iff in H; destruct H as [H|H]);
      try discriminate H; apply N.eqb_eq in H; subst n
  end.
Ltac finish :=
  simp; repeat (case_scrut; proj; cleanup; try solve [exfalso; absurd_hyp]; simp);
  try (split_mem; try solve [exfalso; first [absurd_hyp | absurd_closed]]);
  unfold SimP, SimB; cbn [SimR SimC is_some fst snd]; unfold Post, PostE, PostC, PostR, enc, anyv, at_, cfgeq, pos, frag, cfrag; proj; rewrite ?quantifiable_true;
  repeat match goal with |- _ /\ _ => split end;
  try reflexivity; try assumption; try congruence;
  try solve [unfold keep in *; assumption];
  try solve [intros; first [discriminate | assumption | exact I | unfold keep in *; assumption
                           | split; first [assumption | exact I | reflexivity | unfold keep in *; assumption]]];
  try solve [unfold frag; cbn [scan N.eqb Pos.eqb]; unfold_chars; cbn [N.eqb Pos.eqb];
             repeat match goal with E : (?c =? 92)%N = false |- _ => rewrite E end;
             repeat match goal with E : (?c =? 91)%N = false |- _ => rewrite E end;
             repeat match goal with E : ?c <> 92%N |- _ => rewrite (proj2 (N.eqb_neq c 92) E) end;
             repeat (apply andb_true_iff; split); assumption]; auto.

#[global] Hint Extern 1 (at_ _ _ _ _) =>
  solve [unfold at_, pos; proj; split; [eassumption | split; [|split; [|split]]; first [reflexivity | eassumption | congruence]]] : sim.
#[global] Hint Extern 1 (frag _ _) => solve [unfold frag, keep in *; first [eassumption | reflexivity]] : sim.
#[global] Hint Extern 1 (cfrag _ _) => solve [unfold cfrag, keep in *; first [eassumption | reflexivity]] : sim.
#[global] Hint Extern 1 (efrag _ _ _) =>
  solve [unfold efrag, keep in *; first [eassumption | cbn [scan]; apply andb_true_iff; split; first [eassumption | reflexivity]]] : sim.
#[global] Hint Extern 1 (assertion_prefix _ = false) =>
  solve [eapply sp_assertion_false_prefix; [eassumption | unfold frag, keep in *; first [eassumption | reflexivity]]] : sim.

Ltac head_scrut t :=
  lazymatch t with
  | match ?c with _ => _ end =>
      lazymatch c with
      | match _ with _ => _ end => head_scrut c
      | _ => c
      end
  end.
Ltac is_call c :=
  lazymatch type of c with
  | R _ => idtac
  | (bool * vst)%type => lazymatch c with (_, _) => fail | _ => idtac end
  end.
Ltac use_lemma c :=
  let L := fresh "L" in
  first [ eassert (L : SimR _ c _) by (eauto with sim) | eassert (L : SimP _ c _) by (eauto with sim)
        | eassert (L : SimB _ c _) by (eauto with sim) | eassert (L : SimC _ c _) by (eauto with sim) ];
  try (rewrite sp_escape_not_bs in L by (first [assumption | reflexivity]));
  try (change (sp_escape ?uu ?nn []) with (@SOk bool false []) in L);
  try (rewrite sp_brq_nil in L);
  try (rewrite sp_class_not_lb in L by (first [assumption | reflexivity]));
  try (change (sp_class ?uu []) with (@SOk bool false []) in L);
  (* a backslash: look at the escaped unit before comparing the outcomes *)
  repeat match type of L with
         | SimR _ _ (if ?b then _ else _) => destruct b eqn:?
         end;
  lazymatch type of L with
  | SimR _ _ (SOk _ _) => let E1 := fresh "E" in
                   destruct c eqn:E1; cbn [SimR] in L; try contradiction; clear E1; norm
  | SimR _ _ SErr => let E1 := fresh "E" in
                   destruct c eqn:E1; cbn [SimR] in L; try contradiction; clear E1; norm
  | SimR _ _ SFuel => let E1 := fresh "E" in
                   destruct c eqn:E1; cbn [SimR] in L; try contradiction; clear E1; norm
  | SimR _ _ ?x => let E1 := fresh "E" in let E2 := fresh "E" in
                   destruct c eqn:E1; destruct x eqn:E2; cbn [SimR] in L; try contradiction; clear E1; norm
  | SimP _ _ ?x => let E1 := fresh "E" in let E2 := fresh "E" in
                   destruct c eqn:E1; destruct x eqn:E2; unfold SimP in L; cbn [fst snd] in L; try contradiction; clear E1; norm
  | SimB _ _ ?x => let E1 := fresh "E" in let E2 := fresh "E" in
                   destruct c eqn:E1; destruct x eqn:E2; unfold SimB in L; cbn [fst snd] in L; clear E1; norm
  | SimC _ _ ?x => let E1 := fresh "E" in let E2 := fresh "E" in
                   destruct c eqn:E1; destruct x as [[[?|]|] ?| |] eqn:E2; cbn [SimC is_some] in L; try contradiction; clear E1; norm
  end.
Ltac step :=
  simp;
  lazymatch goal with
  | |- SimR _ ?l _ => let c := head_scrut l in
      first [ is_call c; use_lemma c
            | lazymatch c with
              | nth_error ?m _ => is_var m; destruct m
              | _ => split_test c
              end ]
  | |- SimP _ ?l _ => let c := head_scrut l in
      first [ is_call c; use_lemma c
            | lazymatch c with
              | nth_error ?m _ => is_var m; destruct m
              | _ => split_test c
              end ]
  | |- SimC _ ?l _ =>
      first [ is_call l; use_lemma l
            | let c := head_scrut l in first [ is_call c; use_lemma c
            | lazymatch c with
              | nth_error ?m _ => is_var m; destruct m
              | _ => split_test c
              end ] ]
  | |- SimB _ ?l _ => let c := head_scrut l in
      first [ is_call c; use_lemma c
            | lazymatch c with
              | nth_error ?m _ => is_var m; destruct m
              | _ => split_test c
              end ]
  end; proj; cleanup; try solve [exfalso; absurd_hyp].
Lemma SimR_weaken {A} (P' P : A -> vst -> list N -> Prop) (r : R A) x :
  SimR P' r x -> (forall a t l, P' a t l -> P a t l) -> SimR P r x.
Proof. destruct r, x; cbn [SimR]; try tauto. intros [-> HP] HW. split; [reflexivity|apply HW; exact HP]. Qed.
Ltac tail :=
  simp;
  lazymatch goal with
  | |- SimR _ (Ok _ _) _ => fail
  | |- SimR _ (SyntaxErr _ _) _ => fail
  | |- SimR _ (Panic _) _ => fail
  | |- SimR _ OutOfFuel _ => fail
  | |- SimR _ _ _ => eapply SimR_weaken; [solve [eauto with sim] | intros; norm; finish]
  end.
Ltac go := repeat step; first [tail | finish].
Ltac start F := intros; norm; unfold F, bind; prim.


(* ---- decimal digit runs ---- *)
Definition sat_step (z : Z) (c : N) : Z := sat_mul_add 10 z (digval c).
Lemma digits_loop_dec st uf nf mn mx ls lk lvv lq nc gn bn us : forall l f i lv, skipn i us = l -> (length l < f)%nat ->
  digits_loop f false (mkvst (mkreader us i) st uf nf lv mn mx ls lk lvv lq nc gn bn) =
  Ok tt (mkvst (mkreader us (i + length (fst (span_digits l)))) st uf nf (fold_left sat_step (fst (span_digits l)) lv)
               mn mx ls lk lvv lq nc gn bn).
Proof.
  induction l as [|c l IH]; intros f i lv Hl Hf; (destruct f as [|f]; [cbn in Hf; lia|]); cbn [digits_loop]; unfold cp; cbn [rd];
    rewrite r_cp_skipn, Hl; cbn [nth_error span_digits].
  - cbn [fst length fold_left]. rewrite Nat.add_0_r. reflexivity.
  - change (is_digit c) with (decimal_digit c). destruct (decimal_digit c) eqn:Ec.
    + pose proof (skipn_S_tl us i c l Hl) as Hl'.
      unfold advance, set. cbn [rd units idx liv strict uflag nflag lmin lmax lstr lkey lval laq ncap gnames brnames].
      unfold r_advance. rewrite r_cp_skipn. cbn [units idx]. rewrite Hl. cbn [nth_error].
      rewrite (IH f (S i) _ Hl') by (cbn [length] in Hf; lia).
      destruct (span_digits l) as [ds r']. cbn [fst length fold_left].
      replace (S i + length ds)%nat with (i + S (length ds))%nat by lia. reflexivity.
    + cbn [fst length fold_left]. rewrite Nat.add_0_r. reflexivity.
Qed.
Lemma sat_fold ds : forall a, fold_left sat_step ds (Z.min i64max (Z.of_N a)) = Z.min i64max (Z.of_N (fold_left dec_step ds a)).
Proof.
  induction ds as [|d ds IH]; intros a; [reflexivity|]. cbn [fold_left]. rewrite <- IH. f_equal.
  unfold sat_step, sat_mul_add, sat64, digval, dec_step, i64max, i64min. lia.
Qed.
Lemma eat_decimal_digits_eq st uf nf lv mn mx ls lk lvv lq nc gn bn us i l : skipn i us = l ->
  eat_decimal_digits (mkvst (mkreader us i) st uf nf lv mn mx ls lk lvv lq nc gn bn) =
  Ok (negb (is_nil (fst (span_digits l))))
     (mkvst (mkreader us (i + length (fst (span_digits l)))) st uf nf (Z.min i64max (Z.of_N (dec_value (fst (span_digits l)))))
            mn mx ls lk lvv lq nc gn bn).
Proof.
  intros Hl. unfold eat_decimal_digits, bind, set. cbn [rd units idx liv strict uflag nflag lmin lmax lstr lkey lval laq ncap gnames brnames].
  rewrite (digits_loop_dec _ _ _ _ _ _ _ _ _ _ _ _ us l) by
    (first [exact Hl | unfold fuel_of, remaining, r_remaining; cbn [rd units idx]; rewrite (remaining_skipn us i l Hl); lia]).
  change 0%Z with (Z.min i64max (Z.of_N 0)). rewrite sat_fold. fold (dec_value (fst (span_digits l))).
  unfold pos. cbn [rd idx]. f_equal. destruct (fst (span_digits l)) as [|d0 ds0]; cbn [length is_nil negb]; [rewrite Nat.add_0_r, Nat.eqb_refl; reflexivity|].
  destruct (Nat.eqb_spec (i + S (length ds0)) i); [lia|reflexivity].
Qed.

(* ---- the braced quantifier ---- *)
Lemma skipn_app_drop {A} (us a b : list A) i : skipn i us = a ++ b -> skipn (i + length a) us = b.
Proof.
  revert i. induction a as [|x a IH]; intros i H; [rewrite Nat.add_0_r; exact H|].
  cbn [length]. rewrite Nat.add_succ_r. apply (IH (S i)). apply (skipn_S_tl us i x). exact H.
Qed.
(* units the scan passes over, inside a class or not *)
Definition okc (c : N) : Prop := (c =? 92) = false /\ (c =? 91) = false /\ (c =? 93) = false.
Lemma scan_drop u cls ds r : Forall okc ds -> scan u cls false (ds ++ r) = true -> scan u cls false r = true.
Proof.
  induction 1 as [|d ds [H1 [H2 H3]] _ IH]; [trivial|]. cbn [app scan]. unfold g_backslash, g_lbracket, g_rbracket. rewrite H1, H2, H3.
  destruct cls; cbn [negb]; intros H; [apply IH; exact H|]. apply andb_true_iff in H. apply IH. apply H.
Qed.
Lemma digit_not_bs ds : Forall digit ds -> Forall okc ds.
Proof.
  apply Forall_impl. intros c Hc. unfold digit, decimal_digit in Hc. apply andb_true_iff in Hc. destruct Hc as [_ Hc].
  apply N.leb_le in Hc. repeat split; apply N.eqb_neq; lia.
Qed.
Lemma is_nil_true {A} (l : list A) : is_nil l = true -> l = [].
Proof. destruct l; [reflexivity|discriminate]. Qed.
Lemma min_small n : (n <? bound_limit) = true -> Z.min i64max (Z.of_N n) = Z.of_N n.
Proof. unfold bound_limit, i64max. intros H. apply N.ltb_lt in H. lia. Qed.

Lemma eat_braced_quantifier_sim u ne np s l : at_ u np s l -> frag u l ->
  SimR (Post u np s) (eat_braced_quantifier ne s) (sp_brq u ne l).
Proof.
  intros Ha Hf. unfold frag in Hf. unfold_hyps. destruct_states. cleanup.
  unfold eat_braced_quantifier, sp_brq. unfold bind. prim.
  destruct l as [|c r].
  - simp. cbn [sp_braced starts_with]. rewrite andb_false_r. finish.
  - simp. cbn [starts_with]. destruct (c =? 123) eqn:Ec.
    2:{ cbn [sp_braced]. unfold g_lbrace. rewrite Ec. rewrite andb_false_r. finish. }
    apply N.eqb_eq in Ec; subst c.
    assert (Hb : braces_small (123 :: r) = true /\ scan u false false r = true).
    { cbn [scan] in Hf. cbn [N.eqb Pos.eqb g_backslash g_lbracket] in Hf. unfold local_ok in Hf. cbn [N.eqb Pos.eqb g_lbrace] in Hf.
      apply andb_true_iff in Hf. exact Hf. }
    destruct Hb as [Hb Hr]. unfold braces_small in Hb.
    cbn [sp_braced] in *. cbn [N.eqb Pos.eqb g_lbrace] in *.
    pose proof (skipn_S_tl _ _ _ _ H) as H1.
    rewrite (eat_decimal_digits_eq _ _ _ _ _ _ _ _ _ _ _ _ _ _ _ r H1). proj.
    destruct (span_digits_spec r) as [E1 [F1 N1]]. destruct (span_digits r) as [ds r1]. cbn [fst snd] in *.
    destruct (is_nil ds) eqn:En; cbn [negb].
    { apply is_nil_true in En. subst ds. rewrite andb_true_r. destruct ne, u; cbn [negb andb orb]; finish. }
    pose proof (skipn_app_drop _ _ _ _ (eq_trans H1 E1)) as H2.
    assert (Hr1 : scan u false false r1 = true) by (apply (scan_drop u false ds); [apply digit_not_bs; exact F1|rewrite <- E1; exact Hr]).
    destruct r1 as [|c1 r2].
    { simp. rewrite andb_true_r. destruct ne, u; cbn [negb andb orb]; finish. }
    simp.
    pose proof (skipn_S_tl _ _ _ _ H2) as H3.
    unfold g_comma in *.
    destruct (c1 =? 125) eqn:Ec1.
    { apply N.eqb_eq in Ec1. subst c1.
      assert (Hr2 : scan u false false r2 = true) by (apply (scan_drop u false [125]); [repeat constructor|exact Hr1]).
      cbn [N.eqb Pos.eqb]. simp. rewrite Z.ltb_irrefl. rewrite andb_false_r.
      cbn [bounds_ok]. rewrite N.leb_refl. cbn [negb]. rewrite andb_false_r. finish. }
    destruct (c1 =? 44) eqn:Ec2.
    2:{ simp. rewrite Ec1. rewrite andb_true_r. destruct ne, u; cbn [negb andb orb]; finish. }
    assert (Hr2 : scan u false false r2 = true).
    { apply N.eqb_eq in Ec2. subst c1. apply (scan_drop u false [44]); [repeat constructor|exact Hr1]. }
    rewrite (eat_decimal_digits_eq _ _ _ _ _ _ _ _ _ _ _ _ _ _ _ r2 H3). proj.
    destruct (span_digits_spec r2) as [E2 [F2 N2]]. destruct (span_digits r2) as [es r3]. cbn [fst snd] in *.
    pose proof (skipn_app_drop _ _ _ _ (eq_trans H3 E2)) as H4.
    assert (Hr3 : scan u false false r3 = true) by (apply (scan_drop u false es); [apply digit_not_bs; exact F2|rewrite <- E2; exact Hr2]).
    destruct r3 as [|c3 r4].
    { simp. rewrite andb_true_r. destruct ne, u; cbn [negb andb orb]; finish. }
    simp. destruct (c3 =? 125) eqn:Ec3.
    2:{ rewrite andb_true_r. destruct ne, u; cbn [negb andb orb]; finish. }
    apply N.eqb_eq in Ec3. subst c3. pose proof (skipn_S_tl _ _ _ _ H4) as H5.
    assert (Hr4 : scan u false false r4 = true) by (apply (scan_drop u false [125]); [repeat constructor|exact Hr3]).
    apply andb_true_iff in Hb. destruct Hb as [Hb1 Hb2].
    rewrite (min_small _ Hb1).
    destruct (is_nil es) eqn:En2; cbn [negb bounds_ok].
    { proj. replace (i64max <? Z.of_N (dec_value ds))%Z with false; [rewrite !andb_false_r; finish|].
      symmetry. apply Z.ltb_ge. unfold bound_limit, i64max in *. apply N.ltb_lt in Hb1. lia. }
    rewrite (min_small _ Hb2). proj.
    replace (Z.of_N (dec_value es) <? Z.of_N (dec_value ds))%Z with (negb (dec_value ds <=? dec_value es)).
    2:{ destruct (N.leb_spec (dec_value ds) (dec_value es)); cbn [negb]; symmetry; [apply Z.ltb_ge|apply Z.ltb_lt]; lia. }
    destruct (negb ne && negb (dec_value ds <=? dec_value es)); finish.
Qed.

#[local] Hint Resolve eat_braced_quantifier_sim : sim.
Lemma consume_quantifier_sim u nc np s l : at_ u np s l -> frag u l ->
  SimR (Post u np s) (consume_quantifier nc s) (sp_quant u nc l).
Proof. start consume_quantifier. unfold sp_quant, is_quant_char, skip_lazy. go. Qed.
#[local] Hint Resolve consume_quantifier_sim : sim.


(* ---- hexadecimal digits ---- *)
Fixpoint hex_foldZ (n : nat) (l : list N) (acc : Z) : bool * Z :=
  match n with
  | O => (true, acc)
  | S n => match l with
           | c :: r => if is_hex c then hex_foldZ n r (16 * acc + hexval c)%Z else (false, acc)
           | [] => (false, acc)
           end
  end.
Lemma fixed_hex_eq st uf nf mn mx ls lk lvv lq nc gn bn us start : forall n l i lv, skipn i us = l ->
  fixed_hex n start (mkvst (mkreader us i) st uf nf lv mn mx ls lk lvv lq nc gn bn) =
  (fst (hex_foldZ n l lv),
   mkvst (mkreader us (if fst (hex_foldZ n l lv) then i + n else start)) st uf nf (snd (hex_foldZ n l lv)) mn mx ls lk lvv lq nc gn bn).
Proof.
  induction n as [|n IH]; intros l i lv Hl; cbn [fixed_hex hex_foldZ fst snd]; [rewrite Nat.add_0_r; reflexivity|].
  unfold cp. cbn [rd]. rewrite r_cp_skipn, Hl. destruct l as [|c l']; cbn [nth_error].
  - unfold rewind, set, r_rewind. reflexivity.
  - destruct (is_hex c) eqn:Ec; [|unfold rewind, set, r_rewind; reflexivity].
    pose proof (skipn_S_tl us i c l' Hl) as Hl'.
    unfold advance, set. cbn [rd units idx liv strict uflag nflag lmin lmax lstr lkey lval laq ncap gnames brnames].
    unfold r_advance. rewrite r_cp_skipn. cbn [units idx]. rewrite Hl. cbn [nth_error].
    rewrite (IH l' (S i) _ Hl'). replace (S i + n)%nat with (i + S n)%nat by lia. reflexivity.
Qed.
Lemma hex_fold_run n : forall l a,
  match hex_run n l a with
  | Some (v, r) => hex_foldZ n l (Z.of_N a) = (true, Z.of_N v) /\ r = skipn n l
  | None => fst (hex_foldZ n l (Z.of_N a)) = false
  end.
Proof.
  induction n as [|n IH]; intros l a; cbn [hex_run hex_foldZ]; [split; reflexivity|].
  destruct l as [|c l']; [reflexivity|]. change (is_hex c) with (hex_digit c). destruct (hex_digit c); [|reflexivity].
  replace (16 * Z.of_N a + hexval c)%Z with (Z.of_N (16 * a + hex_digit_value c)).
  - apply IH.
  - change (hexval c) with (Z.of_N (hex_digit_value c)). lia.
Qed.
Lemma skipn_skipn' {A} (us : list A) i n l : skipn i us = l -> skipn (i + n) us = skipn n l.
Proof.
  intros <-. revert us. induction i as [|i IH]; intros us; [reflexivity|].
  destruct us as [|x us]; [cbn [plus skipn]; destruct n; reflexivity|]. cbn [plus skipn]. apply IH.
Qed.
Lemma hexd_not_bs hs : Forall hexd hs -> Forall okc hs.
Proof. apply Forall_impl. intros c Hc. repeat split; apply N.eqb_neq; intros ->; discriminate Hc. Qed.
Lemma eat_fixed_hex_digits_eq st uf nf lv mn mx ls lk lvv lq nc gn bn us i n l : skipn i us = l ->
  eat_fixed_hex_digits n (mkvst (mkreader us i) st uf nf lv mn mx ls lk lvv lq nc gn bn) =
  (fst (hex_foldZ n l 0),
   mkvst (mkreader us (if fst (hex_foldZ n l 0) then i + n else i)) st uf nf (snd (hex_foldZ n l 0)) mn mx ls lk lvv lq nc gn bn).
Proof.
  intros Hl. unfold eat_fixed_hex_digits, set, pos.
  cbn [rd units idx liv strict uflag nflag lmin lmax lstr lkey lval laq ncap gnames brnames].
  apply fixed_hex_eq. exact Hl.
Qed.

(* the hypothesis a lemma about a piece of an escape needs: the scan invariant at its position, inside a class or not *)
Definition fragc (u cls : bool) (l : list N) : Prop := scan u cls false l = true.
#[global] Hint Extern 1 (fragc _ _ _) => solve [unfold fragc, keep in *; first [eassumption | reflexivity]] : sim.
Ltac finishB :=
  unfold SimB; cbn [fst snd]; split; [reflexivity|]; unfold PostE, at_, cfgeq, pos; proj;
  repeat split; try reflexivity; try assumption; try (intros; discriminate).
Lemma eat_fixed_hex_digits_sim n u cls np s l : at_ u np s l -> fragc u cls l ->
  SimB (PostE u cls np (eq (Z.of_N (hex_run_value n l))) s) (eat_fixed_hex_digits n s) (sp_fixed_hex n l).
Proof.
  intros Ha Hf. unfold fragc in Hf. unfold_hyps. destruct_states. cleanup.
  rewrite (eat_fixed_hex_digits_eq _ _ _ _ _ _ _ _ _ _ _ _ _ _ _ n l H). unfold sp_fixed_hex, hex_run_value.
  pose proof (hex_fold_run n l 0) as Hr. change (Z.of_N 0) with 0%Z in Hr.
  destruct (hex_run n l 0) as [[v r]|] eqn:E.
  - destruct Hr as [Hr ->]. rewrite Hr. cbn [fst snd]. unfold SimB. cbn [fst snd]. split; [reflexivity|].
    apply hex_run_spec in E. destruct E as [hs [E [_ [Hh _]]]].
    unfold PostE, at_, cfgeq, pos. proj. repeat split; try reflexivity.
    + apply skipn_skipn'. exact H.
    + apply (scan_drop u cls hs); [apply hexd_not_bs; exact Hh|]. rewrite <- E. exact Hf.
  - rewrite Hr. finishB.
Qed.
#[local] Hint Resolve eat_fixed_hex_digits_sim : sim.
Lemma is_lead_N v : is_lead (Z.of_N v) = lead_surrogate v.
Proof.
  unfold is_lead, lead_surrogate. f_equal; [destruct (N.leb_spec 55296 v)|destruct (N.leb_spec v 56319)];
    first [apply Z.leb_le; lia | apply Z.leb_gt; lia].
Qed.
Lemma is_trail_N v : is_trail (Z.of_N v) = trail_surrogate v.
Proof.
  unfold is_trail, trail_surrogate. f_equal; [destruct (N.leb_spec 56320 v)|destruct (N.leb_spec v 57343)];
    first [apply Z.leb_le; lia | apply Z.leb_gt; lia].
Qed.
Lemma combine_N v w : lead_surrogate v = true -> trail_surrogate w = true ->
  combine (Z.of_N v) (Z.of_N w) = Z.of_N ((v - 55296) * 1024 + (w - 56320) + 65536).
Proof.
  unfold lead_surrogate, trail_surrogate, combine. intros Hl Ht. apply andb_true_iff in Hl, Ht. destruct Hl as [H1 H2], Ht as [H3 H4].
  apply N.leb_le in H1, H2, H3, H4. lia.
Qed.
Lemma eat_surrogate_pair_escape_sim u cls np s l : at_ u np s l -> fragc u cls l ->
  SimB (PostE u cls np (eq (Z.of_N ((hex_run_value 4 l - 55296) * 1024 + (hex_run_value 4 (skipn 6 l) - 56320) + 65536))) s)
       (eat_surrogate_pair_escape s) (sp_surrogate_pair l).
Proof.
  intros Ha Hf. unfold fragc in Hf. unfold_hyps. destruct_states. cleanup.
  unfold eat_surrogate_pair_escape, sp_surrogate_pair.
  rewrite (eat_fixed_hex_digits_eq _ _ _ _ _ _ _ _ _ _ _ _ _ _ _ 4 l H).
  pose proof (hex_fold_run 4 l 0) as Hr. change (Z.of_N 0) with 0%Z in Hr.
  destruct (hex_run 4 l 0) as [[v r1]|] eqn:E.
  2:{ rewrite Hr. finishB. }
  destruct Hr as [Hr Er1]. rewrite Hr. cbn [fst snd]. proj. rewrite is_lead_N.
  destruct (lead_surrogate v) eqn:El.
  2:{ prim. finishB. }
  pose proof (skipn_skipn' _ _ 4 _ H) as H1. rewrite <- Er1 in H1.
  pose proof E as E'. apply hex_run_spec in E. destruct E as [hs [E [Hlen [Hh _]]]].
  assert (Hf1 : scan u cls false r1 = true) by (apply (scan_drop u cls hs); [apply hexd_not_bs; exact Hh|rewrite <- E; exact Hf]).
  prim. rw_skipn.
  destruct r1 as [|b [|x r2]]; [proj; finishB| |].
  { proj. unfold_chars. destruct (b =? 92) eqn:Eb; [|proj; finishB]. apply N.eqb_eq in Eb. subst b.
    pose proof (skipn_S_tl _ _ _ _ H1) as H2. proj. rw_skipn. proj. finishB. }
  proj. unfold_chars. destruct (b =? 92) eqn:Eb; [|proj; finishB]. apply N.eqb_eq in Eb. subst b.
  pose proof (skipn_S_tl _ _ _ _ H1) as H2. proj. rw_skipn. proj.
  destruct (x =? 117) eqn:Ex; [|proj; finishB]. apply N.eqb_eq in Ex. subst x.
  pose proof (skipn_S_tl _ _ _ _ H2) as H3. proj. rw_skipn.
  assert (Hf2 : scan u cls false r2 = true).
  { cbn [scan] in Hf1. cbn [N.eqb Pos.eqb g_backslash] in Hf1. apply andb_true_iff in Hf1. apply Hf1. }
  rewrite (eat_fixed_hex_digits_eq _ _ _ _ _ _ _ _ _ _ _ _ _ _ _ 4 r2 H3).
  pose proof (hex_fold_run 4 r2 0) as Hr2. change (Z.of_N 0) with 0%Z in Hr2.
  destruct (hex_run 4 r2 0) as [[w r3]|] eqn:E2.
  2:{ rewrite Hr2. proj. finishB. }
  destruct Hr2 as [Hr2 Er3]. rewrite Hr2. cbn [fst snd]. proj. rewrite is_trail_N.
  destruct (trail_surrogate w) eqn:Et; [|proj; finishB].
  pose proof (skipn_skipn' _ _ 4 _ H3) as H4. rewrite <- Er3 in H4.
  pose proof E2 as E2'. apply hex_run_spec in E2. destruct E2 as [ts [E2 [_ [Ht _]]]].
  assert (Hf3 : scan u cls false r3 = true) by (apply (scan_drop u cls ts); [apply hexd_not_bs; exact Ht|rewrite <- E2; exact Hf2]).
  assert (Hv : hex_run_value 4 l = v) by (unfold hex_run_value; rewrite E'; reflexivity).
  assert (Hw : hex_run_value 4 (skipn 6 l) = w).
  { rewrite E. destruct hs as [|h1 [|h2 [|h3 [|h4 [|h5 hs]]]]]; try discriminate Hlen. cbn [app skipn].
    unfold hex_run_value. rewrite E2'. reflexivity. }
  rewrite Hv, Hw. rewrite combine_N by assumption. finishB.
Qed.
#[local] Hint Resolve eat_surrogate_pair_escape_sim : sim.
Definition sat_step16 (z : Z) (c : N) : Z := sat_mul_add 16 z (hexval c).
Lemma digits_loop_hex st uf nf mn mx ls lk lvv lq nc gn bn us : forall l f i lv, skipn i us = l -> (length l < f)%nat ->
  digits_loop f true (mkvst (mkreader us i) st uf nf lv mn mx ls lk lvv lq nc gn bn) =
  Ok tt (mkvst (mkreader us (i + length (fst (span_hex l)))) st uf nf (fold_left sat_step16 (fst (span_hex l)) lv)
               mn mx ls lk lvv lq nc gn bn).
Proof.
  induction l as [|c l IH]; intros f i lv Hl Hf; (destruct f as [|f]; [cbn in Hf; lia|]); cbn [digits_loop]; unfold cp; cbn [rd];
    rewrite r_cp_skipn, Hl; cbn [nth_error span_hex].
  - cbn [fst length fold_left]. rewrite Nat.add_0_r. reflexivity.
  - change (is_hex c) with (hex_digit c). destruct (hex_digit c) eqn:Ec.
    + pose proof (skipn_S_tl us i c l Hl) as Hl'.
      unfold advance, set. cbn [rd units idx liv strict uflag nflag lmin lmax lstr lkey lval laq ncap gnames brnames].
      unfold r_advance. rewrite r_cp_skipn. cbn [units idx]. rewrite Hl. cbn [nth_error].
      rewrite (IH f (S i) _ Hl') by (cbn [length] in Hf; lia).
      destruct (span_hex l) as [ds r']. cbn [fst length fold_left].
      replace (S i + length ds)%nat with (i + S (length ds))%nat by lia. reflexivity.
    + cbn [fst length fold_left]. rewrite Nat.add_0_r. reflexivity.
Qed.
Lemma sat_fold16 ds : forall a, fold_left sat_step16 ds (Z.min i64max (Z.of_N a)) = Z.min i64max (Z.of_N (fold_left hex_step ds a)).
Proof.
  induction ds as [|d ds IH]; intros a; [reflexivity|]. cbn [fold_left]. rewrite <- IH. f_equal.
  unfold sat_step16, sat_mul_add, sat64, hex_step, i64max, i64min. change (hexval d) with (Z.of_N (hex_digit_value d)). lia.
Qed.
Lemma eat_hex_digits_eq st uf nf lv mn mx ls lk lvv lq nc gn bn us i l : skipn i us = l ->
  eat_hex_digits (mkvst (mkreader us i) st uf nf lv mn mx ls lk lvv lq nc gn bn) =
  Ok (negb (is_nil (fst (span_hex l))))
     (mkvst (mkreader us (i + length (fst (span_hex l)))) st uf nf (Z.min i64max (Z.of_N (hex_value (fst (span_hex l)))))
            mn mx ls lk lvv lq nc gn bn).
Proof.
  intros Hl. unfold eat_hex_digits, bind, set. cbn [rd units idx liv strict uflag nflag lmin lmax lstr lkey lval laq ncap gnames brnames].
  rewrite (digits_loop_hex _ _ _ _ _ _ _ _ _ _ _ _ us l) by
    (first [exact Hl | unfold fuel_of, remaining, r_remaining; cbn [rd units idx]; rewrite (remaining_skipn us i l Hl); lia]).
  change 0%Z with (Z.min i64max (Z.of_N 0)). rewrite sat_fold16. fold (hex_value (fst (span_hex l))).
  unfold pos. cbn [rd idx]. f_equal. destruct (fst (span_hex l)) as [|d0 ds0]; cbn [length is_nil negb]; [rewrite Nat.add_0_r, Nat.eqb_refl; reflexivity|].
  destruct (Nat.eqb_spec (i + S (length ds0)) i); [lia|reflexivity].
Qed.
Lemma eat_codepoint_escape_sim u cls np s l : at_ u np s l -> fragc u cls l ->
  SimR (PostE u cls np (eq (Z.of_N (hex_value (fst (span_hex (tl l)))))) s) (eat_codepoint_escape s) (sp_codepoint l).
Proof.
  intros Ha Hf. unfold fragc in Hf. unfold_hyps. destruct_states. cleanup.
  unfold eat_codepoint_escape, sp_codepoint, bind. prim.
  destruct l as [|c r]; [simp; finish|]. simp. destruct (c =? 123) eqn:Ec; [|finish].
  apply N.eqb_eq in Ec. subst c. pose proof (skipn_S_tl _ _ _ _ H) as H1.
  assert (Hr : scan u cls false r = true) by (apply (scan_drop u cls [123]); [repeat constructor|exact Hf]).
  rewrite (eat_hex_digits_eq _ _ _ _ _ _ _ _ _ _ _ _ _ _ _ r H1). proj. cbn [tl].
  destruct (span_hex_spec r) as [E1 [F1 _]]. destruct (span_hex r) as [ds r1]. cbn [fst snd] in *.
  destruct (is_nil ds) eqn:En; cbn [negb]; [finish|].
  pose proof (skipn_app_drop _ _ _ _ (eq_trans H1 E1)) as H2.
  assert (Hr1 : scan u cls false r1 = true) by (apply (scan_drop u cls ds); [apply hexd_not_bs; exact F1|rewrite <- E1; exact Hr]).
  destruct r1 as [|c1 r2]; [simp; finish|]. simp. destruct (c1 =? 125) eqn:Ec1; [|cbn [andb]; finish].
  apply N.eqb_eq in Ec1. subst c1. pose proof (skipn_S_tl _ _ _ _ H2) as H3.
  assert (Hr2 : scan u cls false r2 = true) by (apply (scan_drop u cls [125]); [repeat constructor|exact Hr1]).
  cbn [andb]. proj.
  replace (Z.min i64max (Z.of_N (hex_value ds)) <=? 1114111)%Z with (hex_value ds <=? 1114111).
  2:{ unfold i64max. destruct (N.leb_spec (hex_value ds) 1114111); symmetry; [apply Z.leb_le|apply Z.leb_gt]; lia. }
  destruct (hex_value ds <=? 1114111) eqn:Ev; [|finish]. apply N.leb_le in Ev.
  replace (Z.min i64max (Z.of_N (hex_value ds))) with (Z.of_N (hex_value ds)) by (unfold i64max; lia). finish.
Qed.
#[local] Hint Resolve eat_codepoint_escape_sim : sim.

Lemma eat_hex_escape_sequence_sim u cls np s l : at_ u np s l -> efrag u cls l ->
  SimR (PostE u cls np (eq (Z.of_N (hex_run_value 2 (tl l)))) s) (eat_hex_escape_sequence s) (sp_hex_esc u l).
Proof. destruct cls; start eat_hex_escape_sequence; unfold sp_hex_esc; go. Qed.
#[local] Hint Resolve eat_hex_escape_sequence_sim : sim.
Ltac uval :=
  intros _; split; [assumption|]; cbn [tl]; unfold unicode_value, hex_run_value in *;
  repeat match goal with
         | E : sp_surrogate_pair ?l = _ |- context [sp_surrogate_pair ?l] => rewrite E
         | E : sp_fixed_hex ?n ?l = _ |- _ =>
             unfold sp_fixed_hex in E; destruct (hex_run n l 0) as [[? ?]|] eqn:?; try discriminate E; clear E
         end; cbn [fst snd andb]; first [assumption | reflexivity].
Lemma eat_unicode_escape_sim u cls np s l : at_ u np s l -> efrag u cls l ->
  SimR (PostE u cls np (eq (Z.of_N (unicode_value u (tl l)))) s) (eat_unicode_escape false s) (sp_unicode_esc u l).
Proof. destruct cls; start eat_unicode_escape; unfold sp_unicode_esc; go; uval. Qed.
#[local] Hint Resolve eat_unicode_escape_sim : sim.
(* ---- AtomEscape: the validator is at the unit after the backslash ---- *)
Lemma efrag_cons u cls x r : efrag u cls (x :: r) -> allowed_after_backslash u cls x r = true /\ scan u cls false r = true.
Proof. unfold efrag. cbn [scan]. intros H. apply andb_true_iff in H. exact H. Qed.
Lemma nonzero_digit_test x : is_digit x && negb (x =? 48) = non_zero_digit x.
Proof.
  unfold is_digit, non_zero_digit. destruct (N.leb_spec 48 x), (N.leb_spec x 57), (N.eqb_spec x 48), (N.leb_spec 49 x);
    cbn [andb negb]; try reflexivity; lia.
Qed.

(* consume_backreference: DecimalEscape *)
Lemma consume_backreference_sim u np s l : at_ u np s l -> efrag u false l ->
  SimR (PostE u false np anyv s) (consume_backreference s) (sp_backref u np l).
Proof.
  intros Ha He. destruct l as [|x r]; [exfalso; unfold efrag in He; discriminate He|].
  destruct (efrag_cons _ _ _ _ He) as [Hal Hr]. unfold_hyps. destruct_states. cleanup.
  unfold consume_backreference, eat_decimal_escape, bind. prim. simp.
  rewrite nonzero_digit_test. cbn [sp_backref]. destruct (non_zero_digit x) eqn:Ex; [|finish].
  pose proof (non_zero_digit_digit x Ex) as Hdig.
  rewrite (digits_loop_dec _ _ _ _ _ _ _ _ _ _ _ _ units (x :: r)) by (first [assumption | cbn [length]; lia]).
  rewrite (span_digits_cons x r Hdig). cbn [fst].
  change 0%Z with (Z.min i64max (Z.of_N 0)). rewrite sat_fold. fold (dec_value (x :: fst (span_digits r))).
  unfold allowed_after_backslash in Hal. cbn [negb andb] in Hal. rewrite Ex in Hal. apply andb_true_iff in Hal. destruct Hal as [Hsmall _].
  rewrite (min_small _ Hsmall). proj.
  replace (Z.of_N (dec_value (x :: fst (span_digits r))) <=? Z.of_N np)%Z with (dec_value (x :: fst (span_digits r)) <=? np).
  2:{ destruct (N.leb_spec (dec_value (x :: fst (span_digits r))) np); symmetry; [apply Z.leb_le|apply Z.leb_gt]; lia. }
  destruct (span_digits_spec r) as [E1 [F1 _]].
  assert (H2 : skipn (idx + length (x :: fst (span_digits r))) units = snd (span_digits r)).
  { apply skipn_app_drop. rewrite H. cbn [app]. f_equal. exact E1. }
  assert (Hr1 : scan u false false (snd (span_digits r)) = true).
  { apply (scan_drop u false (fst (span_digits r))); [apply digit_not_bs; exact F1|rewrite <- E1; exact Hr]. }
  destruct (dec_value (x :: fst (span_digits r)) <=? np); [finish|]. destruct u; cbn [orb]; finish.
Qed.
#[local] Hint Resolve consume_backreference_sim : sim.
(* LegacyOctalEscapeSequence *)
Lemma zero_to_three_digval a : is_octal a = true -> zero_to_three a = (digval a <=? 3)%Z.
Proof.
  unfold is_octal, zero_to_three, digval. intros H. apply andb_true_iff in H. destruct H as [H1 H2]. rewrite H1. cbn [andb].
  apply N.leb_le in H1, H2. destruct (N.leb_spec a 51); symmetry; [apply Z.leb_le|apply Z.leb_gt]; lia.
Qed.
Ltac oval :=
  intros _; split; [first [assumption | unfold keep in *; assumption | reflexivity]|];
  cbn [legacy_octal_value]; change octal_digit with is_octal;
  repeat match goal with
         | E : is_octal ?c = _ |- context [is_octal ?c] => rewrite E
         | E : zero_to_three ?c = _ |- context [zero_to_three ?c] => rewrite E
         end;
  try (change (is_octal 92) with false); try (change (is_octal 93) with false); try (change (is_octal 91) with false);
  unfold digval; lia.
Lemma eat_legacy_octal_sim u cls np s l : at_ u np s l -> efrag u cls l ->
  SimB (PostE u cls np (eq (Z.of_N (legacy_octal_value l))) s) (eat_legacy_octal s) (sp_legacy_octal l).
Proof.
  intros Ha He. destruct l as [|a r1]; [exfalso; unfold efrag in He; discriminate He|].
  destruct (efrag_cons _ _ _ _ He) as [Hal Hr].
  destruct cls; norm; unfold eat_legacy_octal, eat_octal_digit; prim; unfold sp_legacy_octal; change octal_digit with is_octal;
    (destruct (is_octal a) eqn:Ea; [pose proof (zero_to_three_digval a Ea) as Hz; destruct (zero_to_three a) eqn:E03; symmetry in Hz; rewrite ?Hz|]);
    go; oval.
Qed.
#[local] Hint Resolve eat_legacy_octal_sim : sim.
Ltac split_special x :=
  let Ex := fresh "Ex" in
  destruct (existsb (N.eqb x) [100; 68; 115; 83; 119; 87; 112; 80; 102; 110; 114; 116; 118; 99; 48; 120; 117; 107;
                               94; 36; 92; 46; 42; 43; 63; 40; 41; 91; 93; 123; 125; 124; 47]) eqn:Ex;
  [ split_mem; cbn [N.eqb Pos.eqb] in *
  | cbn [existsb] in Ex; repeat (apply orb_false_iff in Ex; let E := fresh "Ne" in destruct Ex as [E Ex]); clear Ex ].
Lemma cce_sim u cls np s l : at_ u np s l -> efrag u cls l ->
  SimR (PostE u cls np (eq (-1)%Z) s) (consume_character_class_escape s) (sp_cce l).
Proof.
  intros Ha He. destruct l as [|x r].
  { exfalso. unfold efrag in He. discriminate He. }
  destruct (efrag_cons _ _ _ _ He) as [Hal Hr].
  destruct cls; norm; unfold consume_character_class_escape, bind; prim; unfold sp_cce, character_class_escape; cbn [existsb];
    split_special x; go.
Qed.
#[local] Hint Resolve cce_sim : sim.
Ltac split_special_digits x :=
  let Ex := fresh "Ex" in
  destruct (existsb (N.eqb x) [100; 68; 115; 83; 119; 87; 112; 80; 102; 110; 114; 116; 118; 99; 48; 120; 117; 107;
                               94; 36; 92; 46; 42; 43; 63; 40; 41; 91; 93; 123; 125; 124; 47;
                               49; 50; 51; 52; 53; 54; 55; 56; 57]) eqn:Ex;
  [ split_mem; cbn [N.eqb Pos.eqb] in *
  | cbn [existsb] in Ex; repeat (apply orb_false_iff in Ex; let E := fresh "Ne" in destruct Ex as [E Ex]); clear Ex ].
Lemma sp_hex_esc_not_x' u c r : (c =? 120)%N = false -> sp_hex_esc u (c :: r) = SOk false (c :: r).
Proof. intros H. cbn [sp_hex_esc]. rewrite H. reflexivity. Qed.
Lemma sp_unicode_esc_not_u' u c r : (c =? 117)%N = false -> sp_unicode_esc u (c :: r) = SOk false (c :: r).
Proof. intros H. cbn [sp_unicode_esc]. rewrite H. reflexivity. Qed.
Lemma is_digit_octal c : is_digit c = false -> octal_digit c = false.
Proof. intros H. destruct (octal_digit c) eqn:E; [|reflexivity]. apply octal_is_digit in E. change (decimal_digit c) with (is_digit c) in E. congruence. Qed.
Lemma mod32_N n : Z.of_N (n mod 32) = (Z.of_N n mod 32)%Z.
Proof. apply N2Z.inj_mod. Qed.
(* the CharacterValue goal left by the symbolic execution of consume_character_escape *)
Ltac cval :=
  intros _; split; [first [assumption | unfold keep in *; assumption | reflexivity | cbn [tl]; assumption]|];
  try solve [exfalso; match goal with
             | E : sp_hex_esc _ (?x :: _) = SOk true _ |- _ => rewrite sp_hex_esc_not_x' in E by (first [assumption | reflexivity]); discriminate E
             | E : sp_unicode_esc _ (?x :: _) = SOk true _ |- _ => rewrite sp_unicode_esc_not_u' in E by (first [assumption | reflexivity]); discriminate E
             | E : sp_legacy_octal (?x :: _) = (false, _) |- _ => apply sp_legacy_octal_false in E; destruct E as [_ E]; discriminate E
             | E : sp_legacy_octal (?x :: _) = (true, _), D : is_digit ?x = false |- _ =>
                 cbn [sp_legacy_octal] in E; rewrite (is_digit_octal x D) in E; discriminate E
             end];
  unfold ce_value; change decimal_digit with is_digit; change control_letter with is_alpha;
  cbn [control_escape existsb N.eqb Pos.eqb orb andb negb starts_letter starts_digit hd tl control_escape_value] in *;
  change decimal_digit with is_digit; change control_letter with is_alpha; try (change (octal_digit 48) with true);
  repeat match goal with
         | E : (?x =? _)%N = false |- context [(?x =? _)%N] => rewrite E
         | E : is_alpha ?x = _ |- context [is_alpha ?x] => rewrite E
         | E : is_digit ?x = _ |- context [is_digit ?x] => rewrite E
         | E : sp_hex_esc ?u ?l = _ |- context [sp_hex_esc ?u ?l] => rewrite E
         | E : sp_unicode_esc ?u ?l = _ |- context [sp_unicode_esc ?u ?l] => rewrite E
         end;
  cbn [is_true orb andb negb sp_hex_esc sp_unicode_esc N.eqb Pos.eqb];
  repeat match goal with
         | D : is_digit ?x = false |- context [octal_digit ?x] => rewrite (is_digit_octal x D)
         end;
  cbn [andb negb orb]; rewrite ?mod32_N;
  first [ reflexivity | assumption | (rewrite andb_false_r; reflexivity) | idtac ].
Ltac ce_script x :=
  norm; unfold consume_character_escape, eat_control_escape, eat_c_control_letter, eat_control_letter, eat_zero, eat_identity_escape, valid_identity_escape, bind; prim;
  unfold sp_ce, control_escape, identity_escape, starts_letter, starts_digit; cbn [existsb];
  change decimal_digit with is_digit; change control_letter with is_alpha;
  split_special_digits x;
  [ .. | assert (Hd' : is_digit x = false) by
           (unfold is_digit; destruct (N.leb_spec 48 x); [|reflexivity]; destruct (N.leb_spec x 57); [|reflexivity]; exfalso;
            repeat match goal with H : (x =? _)%N = false |- _ => apply N.eqb_neq in H end; lia) ];
  go; cval.
Lemma ce_sim u cls np s l : at_ u np s l -> efrag u cls l ->
  SimR (PostE u cls np (eq (Z.of_N (ce_value u l))) s) (consume_character_escape s) (sp_ce u l).
Proof.
  intros Ha He. destruct l as [|x r].
  { exfalso. unfold efrag in He. discriminate He. }
  destruct (efrag_cons _ _ _ _ He) as [Hal Hr].
  destruct cls; ce_script x.
Qed.
#[local] Hint Resolve ce_sim : sim.

Lemma rs_atom_escape_sim u np s l : at_ u np s l -> frag u l ->
  SimR (Post u np s) (consume_reverse_solidus_atom_escape s) (sp_escape u np l).
Proof.
  intros Ha Hf.
  destruct l as [|b l']; [|destruct (b =? 92) eqn:Eb; [apply N.eqb_eq in Eb; subst b|]].
  1,3: norm; unfold consume_reverse_solidus_atom_escape, bind; prim; unfold sp_escape; solve [go].
  norm. unfold consume_reverse_solidus_atom_escape, consume_atom_escape, consume_k_group_name, eat_group_name, bind. prim.
  cbn [sp_escape N.eqb Pos.eqb g_backslash]. rewrite sp_atom_escape_split. go.
Qed.
#[local] Hint Resolve rs_atom_escape_sim : sim.
(* ---- character classes ---- *)
Lemma consume_class_escape_sim u np s l : at_ u np s l -> efrag u true l ->
  SimC (PostC u np s) (consume_class_escape s) (sp_class_escape u l).
Proof.
  start consume_class_escape. unfold sp_class_escape, class_control_letter. change decimal_digit with is_digit. go.
  cbn [hd]. rewrite mod32_N. reflexivity.
Qed.
#[local] Hint Resolve consume_class_escape_sim : sim.
Lemma consume_class_atom_sim u np s l : at_ u np s l -> cfrag u l ->
  SimC (PostC u np s) (consume_class_atom s) (sp_class_atom u l).
Proof.
  start consume_class_atom. unfold sp_class_atom, starts_with. go.
Qed.
#[local] Hint Resolve consume_class_atom_sim : sim.
(* the early errors of a range as class_ranges tests them *)
Lemma range_ok_b_enc u va vb : range_ok_b u va vb =
  if ((enc va =? -1) || (enc vb =? -1))%Z then negb u else negb (enc vb <? enc va)%Z.
Proof.
  destruct va as [x|], vb as [y|]; cbn [range_ok_b enc]; try reflexivity.
  - replace (Z.of_N x =? -1)%Z with false by (symmetry; apply Z.eqb_neq; lia).
    replace (Z.of_N y =? -1)%Z with false by (symmetry; apply Z.eqb_neq; lia). cbn [orb].
    destruct (N.leb_spec x y); symmetry; [apply negb_true_iff, Z.ltb_ge|apply negb_false_iff, Z.ltb_lt]; lia.
  - replace (Z.of_N x =? -1)%Z with false by (symmetry; apply Z.eqb_neq; lia). reflexivity.
Qed.
Lemma sp_class_ranges_step u g l : sp_class_ranges u (S g) l =
  match sp_class_atom u l with
  | SOk None _ => SOk tt l
  | SOk (Some va) l1 =>
      if starts_with 45 l1 then
        match sp_class_atom u (tl l1) with
        | SOk None _ => SOk tt (tl l1)
        | SOk (Some vb) l3 =>
            if ((enc va =? -1) || (enc vb =? -1))%Z then (if u then SErr else sp_class_ranges u g l3)
            else if (enc vb <? enc va)%Z then SErr else sp_class_ranges u g l3
        | SErr => SErr
        | SFuel => SFuel
        end
      else sp_class_ranges u g l1
  | SErr => SErr
  | SFuel => SFuel
  end.
Proof.
  cbn [sp_class_ranges]. destruct (sp_class_atom u l) as [[va|] l1| |]; try reflexivity.
  destruct (starts_with 45 l1); [|reflexivity]. destruct (sp_class_atom u (tl l1)) as [[vb|] l3| |]; try reflexivity.
  rewrite range_ok_b_enc. destruct ((enc va =? -1) || (enc vb =? -1))%Z; [destruct u; reflexivity|].
  destruct (enc vb <? enc va)%Z; reflexivity.
Qed.
Lemma class_ranges_sim u np g : forall s l, at_ u np s l -> cfrag u l ->
  SimR (PostR u np s) (class_ranges g s) (sp_class_ranges u g l).
Proof.
  induction g as [|g IH]; intros s l Ha Hf; [exact I|]. norm. rewrite sp_class_ranges_step. cbn [class_ranges]. unfold bind, starts_with. prim.
  go.
Qed.
#[local] Hint Resolve class_ranges_sim : sim.
Lemma consume_character_class_sim u np s l : at_ u np s l -> frag u l ->
  SimR (Post u np s) (consume_character_class s) (sp_class u l).
Proof. start consume_character_class. unfold sp_class, starts_with. go. Qed.
#[local] Hint Resolve consume_character_class_sim : sim.

(* count_capturing_parens on fragment inputs: the groups count_groups finds *)
Lemma count_parens_groups u : forall l cls esc acc, scan u cls esc l = true ->
  count_parens l cls esc acc = (acc + count_groups l cls esc)%N.
Proof.
  induction l as [|c r IH]; intros cls esc acc Hs; [cbn; lia|].
  cbn [count_parens count_groups]. destruct esc.
  { cbn [scan] in Hs. apply andb_true_iff in Hs. apply IH. apply Hs. }
  cbn [scan] in Hs. unfold c_bs, c_lb, c_rb, c_lp, g_backslash, g_lparen, g_lbracket, g_rbracket in *.
  destruct (c =? 92)%N eqn:Ebs; [apply IH; exact Hs|].
  destruct cls.
  { destruct (N.eqb_spec c 93) as [->|Hrb]; [cbn [N.eqb Pos.eqb negb] in *; apply (IH _ false); exact Hs|].
    cbn [negb] in Hs. destruct (c =? 91)%N eqn:Elb; [apply (IH _ false); exact Hs|].
    cbn [negb andb]. rewrite andb_false_r. apply (IH _ false); exact Hs. }
  destruct (c =? 91)%N eqn:Elb; [apply (IH _ false); exact Hs|].
  apply andb_true_iff in Hs. destruct Hs as [Hl Hr].
  destruct (c =? 93)%N eqn:Erb; [apply (IH _ false); exact Hr|].
  destruct (c =? 40)%N eqn:Elp; cbn [andb negb]; [|apply (IH _ false); exact Hr].
  apply N.eqb_eq in Elp. subst c.
  assert (E : (negb (is c_q (nth_error r 0)) ||
               (is c_lt (nth_error r 1) && negb (is c_eq (nth_error r 2)) && negb (is c_bang (nth_error r 2))))%bool
              = negb (starts_with g_question r)).
  { unfold local_ok in Hl. cbn [N.eqb Pos.eqb g_lbrace g_lparen andb] in Hl. unfold is, c_q, c_lt, c_eq, c_bang, g_question.
    destruct r as [|c1 [|c2 r']]; cbn [nth_error starts_with]; try (rewrite orb_false_r; reflexivity).
    unfold g_question, g_less in Hl. destruct (c1 =? 63)%N eqn:E1; cbn [negb orb andb]; [|reflexivity].
    destruct (c2 =? 60)%N eqn:E2; cbn [andb] in *; [|reflexivity].
    destruct r' as [|x r'']; [discriminate Hl|]. cbn [nth_error]. unfold is_eq_or_bang, g_equals, g_bang in Hl.
    apply orb_true_iff in Hl. destruct Hl as [Hl|Hl]; rewrite Hl; cbn [negb andb]; [reflexivity|apply andb_false_r]. }
  rewrite E. destruct (starts_with g_question r); cbn [negb]; rewrite (IH false false _ Hr); lia.
Qed.

Section KnotSim.
Variable disj : vst -> R unit.
Variable sdisj : list N -> SR unit.
(* the recursive call (one nesting level deeper) simulates the recogniser's, in mode u *)
Definition disj_sim (u : bool) (np : N) : Prop :=
  forall s l, at_ u np s l -> frag u l -> SimR (Post u np s) (disj s) (sdisj l).
#[local] Hint Extern 1 (disj_sim _ _) => eassumption : sim.
#[local] Hint Extern 2 (SimR _ (disj _) _) =>
  match goal with H : disj_sim _ _ |- _ => eapply H end : sim.

Lemma assertion_sim u np s l : disj_sim u np -> at_ u np s l -> frag u l ->
  SimR (fun a t l' => Post u np s a t l' /\ (a = true -> laq t = quantifiable u l)) (assertion disj s) (sp_assertion sdisj l).
Proof. start assertion. unfold sp_assertion, sp_group_body, quantifiable, is_eq_or_bang, assertion_escape. go. Qed.
#[local] Hint Resolve assertion_sim : sim.

Lemma atom_sim np s l : disj_sim true np -> at_ true np s l -> frag true l -> assertion_prefix l = false ->
  SimR (Post true np s) (atom disj s) (sp_atom true np sdisj l).
Proof.
  start atom. unfold uncapturing_group, capturing_group,
    consume_group_specifier, eat_group_name, bind. prim.
  unfold sp_atom, sp_group_body. go.
Qed.
#[local] Hint Resolve atom_sim : sim.

Lemma scan_c u l : scan u false false l = true -> scan u false false (99 :: l) = true.
Proof.
  intros H. cbn [scan N.eqb Pos.eqb g_backslash g_lbracket]. rewrite H. unfold local_ok.
  cbn [N.eqb Pos.eqb g_lbrace g_lparen andb negb]. destruct l as [|? [|? ?]]; reflexivity.
Qed.
Lemma extended_atom_sim np s l : disj_sim false np -> at_ false np s l -> frag false l -> assertion_prefix l = false ->
  SimR (Post false np s) (extended_atom disj s) (sp_atom false np sdisj l).
Proof.
  start extended_atom. unfold uncapturing_group, capturing_group,
    consume_group_specifier, eat_group_name, bind. prim.
  unfold sp_atom, sp_group_body, extended_pattern_character, bs_c. go.
  apply scan_c. assumption.
Qed.
#[local] Hint Resolve extended_atom_sim : sim.

Lemma term_sim u np s l : disj_sim u np -> at_ u np s l -> frag u l -> SimR (Post u np s) (term disj s) (sp_term u np sdisj l).
Proof. start term. unfold sp_term, sp_quantified. go. Qed.
#[local] Hint Resolve term_sim : sim.

Lemma alternative_sim u np (Hd : disj_sim u np) g : forall s l, at_ u np s l -> frag u l ->
  SimR (Post u np s) (alternative disj g s) (sp_alternative u np sdisj g l).
Proof. induction g as [|g IH]; intros s l Ha Hf; [exact I|]. norm. cbn [alternative sp_alternative]. unfold bind. prim. go. Qed.
#[local] Hint Resolve alternative_sim : sim.

Lemma bars_sim u np (Hd : disj_sim u np) g : forall s l, at_ u np s l -> frag u l ->
  SimR (Post u np s) (bars disj g s) (sp_bars u np sdisj g l).
Proof. induction g as [|g IH]; intros s l Ha Hf; [exact I|]. norm. cbn [bars sp_bars]. unfold bind. prim. go. Qed.
#[local] Hint Resolve bars_sim : sim.

Lemma disjunction_body_sim u np s l : disj_sim u np -> at_ u np s l -> frag u l ->
  SimR (Post u np s) (disjunction_body disj s) (sp_disjunction_body u np sdisj l).
Proof. start disjunction_body. unfold sp_disjunction_body, starts_with. go. Qed.
End KnotSim.

Lemma disjunction_sim u np f : forall s l, at_ u np s l -> frag u l ->
  SimR (Post u np s) (disjunction f s) (sp_disjunction u np f l).
Proof.
  induction f as [|f IH]; intros s l Ha Hf; [exact I|]. cbn [disjunction sp_disjunction].
  apply disjunction_body_sim; [exact IH|assumption|assumption].
Qed.
#[local] Hint Resolve disjunction_sim : sim.

Lemma consume_pattern_sim u s l : skipn (pos s) (units (rd s)) = l -> strict s = u -> uflag s = u -> nflag s = u -> frag u l ->
  SimR (fun _ t l' => l' = [] /\ gnames t = []) (consume_pattern s) (sp_pattern u l).
Proof.
  intros Hl H1 H2 H3 Hf. unfold consume_pattern, count_capturing_parens. rewrite Hl.
  rewrite (count_parens_groups u l false false 0 Hf). rewrite N.add_0_l.
  set (np := count_groups l false false).
  set (s' := s <| ncap := np |> <| gnames := [] |> <| brnames := [] |>).
  assert (Ha : at_ u np s' l) by (destruct s as [[us i] ? ? ? ? ? ? ? ? ? ? ? ? ?]; unfold pos in *; cbn in *; repeat split; assumption).
  assert (Hg : gnames s' = []) by (destruct s as [[us i] ? ? ? ? ? ? ? ? ? ? ? ? ?]; reflexivity).
  assert (Hb : brnames s' = []) by (destruct s as [[us i] ? ? ? ? ? ? ? ? ? ? ? ? ?]; reflexivity).
  clearbody s'. clear Hl H1 H2 H3 s. norm. unfold bind, pattern_fuel. prim. unfold sp_pattern. fold np. go.
Qed.

Definition outcome_agrees {A B} (r : R A) (x : SR B) : Prop :=
  match r, x with
  | Ok _ _, SOk _ _ => True | SyntaxErr _ _, SErr => True | OutOfFuel, SFuel => True | _, _ => False end.

(* the fragment condition is on the units the validator reads (code points with u, UTF-16 code units without) *)
Theorem validate_pattern_sim st src u : scan u false false (visible_units src u) = true ->
  outcome_agrees (validate_pattern st src u) (sp_pattern u (visible_units src u)).
Proof.
  intros Hf. unfold validate_pattern, bind.
  set (s := st <| strict := u |> <| uflag := u |> <| nflag := u |> <| rd := mkreader (visible_units src u) 0 |>).
  pose proof (consume_pattern_sim u s (visible_units src u)) as L.
  specialize (L ltac:(destruct st; reflexivity) ltac:(destruct st; reflexivity) ltac:(destruct st; reflexivity)
                ltac:(destruct st; reflexivity) Hf).
  destruct (consume_pattern s) as [a t|m t|p|]; destruct (sp_pattern u (visible_units src u)) as [a' l'| |]; cbn [SimR] in L;
    try contradiction; try exact I.
  destruct L as [_ [_ Hg]]. rewrite Hg. rewrite andb_false_r. exact I.
Qed.
Print Assumptions validate_pattern_sim.
