(* C12, grammar agreement on a fragment, as a theorem:
     on every input whose units lie in the fragment (FragParser.in_fragment), in both modes and from every validator
     state, the validator model accepts  <->  the input is a Pattern of the ECMAScript grammar (Grammar.v).
   The units the grammar speaks about are the ones the validator reads: code points with u, UTF-16 code units
   without (Reader.visible_units); for a string of BMP characters they are the string itself.
   Route: validator = recogniser sp_pattern (FragSim.v, symbolic execution of the model on fragment inputs),
          sp_pattern <-> Pattern (FragGrammar.v, soundness by induction on the fuel, completeness by induction on the
          derivation with follow-set conditions).
   NOT covered: everything outside the fragment (see Grammar.v header): escapes (incl. \b \B), classes, braced
   quantifiers, named groups, back-references, and the early errors attached to them. *)
From Coq Require Import List NArith Bool.
From V Require Import Common.Str Regex.Reader Regex.Validator Regex.ValidatorReset Regex.ValidatorTotal
  Regex.Grammar Regex.FragParser Regex.FragGrammar Regex.FragSim.
Import ListNotations.
Open Scope N_scope.

Lemma in_fragment_chars_ok l : in_fragment l = true -> chars_ok l = true.
Proof. unfold in_fragment. intros H. apply andb_true_iff in H. apply H. Qed.

Theorem fragment_equiv : forall st s u, in_fragment (visible_units s u) = true ->
  (verdict_of (validate_pattern st s u) = VOk <-> Pattern u (visible_units s u)).
Proof.
  intros st s u Hf. pose proof (validate_pattern_sim st s u Hf) as Hsim.
  pose proof (in_fragment_chars_ok _ Hf) as Hc. split.
  - intros Hok. destruct (validate_pattern st s u) as [a t|m t|p|]; try discriminate.
    destruct (sp_pattern u (visible_units s u)) as [a' l'| |] eqn:E; try contradiction.
    exact (sp_pattern_sound u _ a' l' E).
  - intros Hp. rewrite (sp_pattern_complete u _ Hp Hc) in Hsim.
    destruct (validate_pattern st s u) as [a t|m t|p|]; try contradiction. reflexivity.
Qed.

(* on the fragment a rejected input is rejected with a SyntaxErr (never a panic / fuel exhaustion) *)
Corollary fragment_reject : forall st s u, in_fragment (visible_units s u) = true -> ~ Pattern u (visible_units s u) ->
  exists m, verdict_of (validate_pattern st s u) = VErr m.
Proof.
  intros st s u Hf Hn. destruct (validate_pattern st s u) as [a t|m t|p|] eqn:E.
  - exfalso. apply Hn. apply (fragment_equiv st s u Hf). rewrite E. reflexivity.
  - exists m. reflexivity.
  - exfalso. exact (validator_never_panics st s u p E).
  - exfalso. exact (validator_fuel_sufficient st s u E).
Qed.

(* with the u flag the units are the code points themselves *)
Corollary fragment_equiv_u : forall st s, in_fragment s = true ->
  (verdict_of (validate_pattern st s true) = VOk <-> Pattern true s).
Proof. intros st s Hf. exact (fragment_equiv st s true Hf). Qed.

(* ---- non-vacuity ---- *)
Lemma decide_pattern u l : chars_ok l = true -> recognises u l = true -> Pattern u l.
Proof. intros Hc Hr. apply (recognises_iff_Pattern u l Hc). exact Hr. Qed.
Lemma decide_not_pattern u l : chars_ok l = true -> recognises u l = false -> ~ Pattern u l.
Proof. intros Hc Hr Hp. apply (recognises_iff_Pattern u l Hc) in Hp. congruence. Qed.

(* the 31 units of   ^ ( a | b STAR ) PLUS ? ( ? < = c ) ( ? ! d ) ( ? : e | ) ? $   -- anchors, nested alternation,
   lazy quantifier, look-behind, negative look-ahead, non-capturing group: a Pattern in both modes *)
Definition ex_valid : list N :=
  [94; 40;97;124;98;42;41; 43;63; 40;63;60;61;99;41; 40;63;33;100;41; 40;63;58;101;124;41; 63; 36].
Example ex_valid_ok : in_fragment ex_valid = true. Proof. reflexivity. Qed.
Example ex_valid_pattern : forall u, Pattern u ex_valid.
Proof. intros u. apply decide_pattern; destruct u; reflexivity. Qed.
Example ex_valid_accepted : forall st u, verdict_of (validate_pattern st ex_valid u) = VOk.
Proof. intros st u. apply fragment_equiv; [destruct u; reflexivity|]. destruct u; apply ex_valid_pattern. Qed.

(* Annex B: a quantified look-ahead  ( ? = a ) STAR b  is a Pattern without u only *)
Definition ex_annexb : list N := [40;63;61;97;41;42;98].
Example ex_annexb_modes : Pattern false ex_annexb /\ ~ Pattern true ex_annexb.
Proof. split; [apply decide_pattern|apply decide_not_pattern]; reflexivity. Qed.
Example ex_annexb_validator : forall st,
  verdict_of (validate_pattern st ex_annexb false) = VOk /\ verdict_of (validate_pattern st ex_annexb true) <> VOk.
Proof.
  intros st. split.
  - apply (fragment_equiv st ex_annexb false eq_refl). apply ex_annexb_modes.
  - intros H. apply (fragment_equiv st ex_annexb true eq_refl) in H. exact (proj2 ex_annexb_modes H).
Qed.

(* `a` STAR STAR, a lone `(`, a quantified anchor `^` STAR and a quantified look-behind are not Patterns (either mode) *)
Example ex_invalid : forall st u l, In l [[97;42;42]; [40]; [94;42]; [40;63;60;61;97;41;42]] ->
  ~ Pattern u (visible_units l u) /\ verdict_of (validate_pattern st l u) <> VOk.
Proof.
  intros st u l Hin.
  assert (Hn : ~ Pattern u (visible_units l u) /\ in_fragment (visible_units l u) = true).
  { cbn [In] in Hin. repeat (destruct Hin as [<-|Hin]; [split; [apply decide_not_pattern|]; destruct u; reflexivity|]). contradiction. }
  destruct Hn as [Hn Hf]. split; [exact Hn|]. intros Hok. apply Hn. apply (fragment_equiv st l u Hf). exact Hok.
Qed.

Print Assumptions fragment_equiv.
Print Assumptions fragment_reject.
