(* C12, grammar agreement on a fragment, as a theorem:
     on every input whose units lie in the fragment (FragParser.in_fragment), in both modes and from every validator
     state, the validator model accepts  <->  the input is a Pattern of the ECMAScript grammar (Grammar.v).
   The units the grammar speaks about are the ones the validator reads: code points with u, UTF-16 code units
   without (Reader.visible_units); for a string of BMP characters they are the string itself.
   Route: validator = recogniser sp_pattern (FragSim.v, symbolic execution of the model on fragment inputs),
          sp_pattern <-> Pattern (FragGrammar.v, soundness by induction on the fuel, completeness by induction on the
          derivation with follow-set conditions).
   NOT covered: everything outside the fragment (see Grammar.v header): decimal/hex/unicode/property/control-letter
   escapes and legacy octal, classes, braced quantifiers, named groups, back-references, and their early errors. *)
From Coq Require Import List NArith Bool.
From V Require Import Common.Str Regex.Reader Regex.Validator Regex.ValidatorReset Regex.ValidatorTotal
  Regex.Grammar Regex.FragParser Regex.FragGrammar Regex.FragSim.
Import ListNotations.
Open Scope N_scope.

Lemma in_fragment_parts u l : in_fragment u l = true -> scan false l = true /\ chars_ok u l = true.
Proof. unfold in_fragment. intros H. apply andb_true_iff in H. exact H. Qed.

Theorem fragment_equiv : forall st s u, in_fragment u (visible_units s u) = true ->
  (verdict_of (validate_pattern st s u) = VOk <-> Pattern u (visible_units s u)).
Proof.
  intros st s u Hf. destruct (in_fragment_parts _ _ Hf) as [Hs Hc].
  pose proof (validate_pattern_sim st s u Hs) as Hsim. split.
  - intros Hok. destruct (validate_pattern st s u) as [a t|m t|p|]; try discriminate.
    destruct (sp_pattern u (visible_units s u)) as [a' l'| |] eqn:E; try contradiction.
    exact (sp_pattern_sound u _ a' l' E).
  - intros Hp. rewrite (sp_pattern_complete u _ Hp Hc) in Hsim.
    destruct (validate_pattern st s u) as [a t|m t|p|]; try contradiction. reflexivity.
Qed.

(* on the fragment a rejected input is rejected with a SyntaxErr (never a panic / fuel exhaustion) *)
Corollary fragment_reject : forall st s u, in_fragment u (visible_units s u) = true -> ~ Pattern u (visible_units s u) ->
  exists m, verdict_of (validate_pattern st s u) = VErr m.
Proof.
  intros st s u Hf Hn. destruct (validate_pattern st s u) as [a t|m t|p|] eqn:E.
  - exfalso. apply Hn. apply (fragment_equiv st s u Hf). rewrite E. reflexivity.
  - exists m. reflexivity.
  - exfalso. exact (validator_never_panics st s u p E).
  - exfalso. exact (validator_fuel_sufficient st s u E).
Qed.

(* with the u flag the units are the code points themselves *)
Corollary fragment_equiv_u : forall st s, in_fragment true s = true ->
  (verdict_of (validate_pattern st s true) = VOk <-> Pattern true s).
Proof. intros st s Hf. exact (fragment_equiv st s true Hf). Qed.

(* ---- non-vacuity ---- *)
Lemma decide_pattern u l : chars_ok u l = true -> recognises u l = true -> Pattern u l.
Proof. intros Hc Hr. apply (recognises_iff_Pattern u l Hc). exact Hr. Qed.
Lemma decide_not_pattern u l : chars_ok u l = true -> recognises u l = false -> ~ Pattern u l.
Proof. intros Hc Hr Hp. apply (recognises_iff_Pattern u l Hc) in Hp. congruence. Qed.

(* the units of   ^ \b ( a | \d STAR ) PLUS ? ( ? < = \. ) ( ? ! \w ) ( ? : e | ) ? \B $
   -- anchors, word boundaries, nested alternation, class escape, lazy quantifier, look-behind with an identity
   escape, negative look-ahead, non-capturing group: a Pattern in both modes *)
Definition ex_valid : list N :=
  [94; 92;98; 40;97;124;92;100;42;41; 43;63; 40;63;60;61;92;46;41; 40;63;33;92;119;41; 40;63;58;101;124;41; 63; 92;66; 36].
Example ex_valid_ok : forall u, in_fragment u ex_valid = true. Proof. intros [|]; reflexivity. Qed.
Example ex_valid_pattern : forall u, Pattern u ex_valid.
Proof. intros u. apply decide_pattern; destruct u; reflexivity. Qed.
Example ex_valid_accepted : forall st u, verdict_of (validate_pattern st ex_valid u) = VOk.
Proof. intros st u. apply fragment_equiv; [destruct u; reflexivity|]. destruct u; apply ex_valid_pattern. Qed.

(* Annex B: a quantified look-ahead  ( ? = a ) STAR b  and the identity escape  \a  are Patterns without u only *)
Definition ex_annexb : list N := [40;63;61;97;41;42;98].
Definition ex_annexb_escape : list N := [92;97].
Example ex_annexb_modes : (Pattern false ex_annexb /\ ~ Pattern true ex_annexb) /\
                          (Pattern false ex_annexb_escape /\ ~ Pattern true ex_annexb_escape).
Proof. repeat split; first [apply decide_pattern | apply decide_not_pattern]; reflexivity. Qed.
Example ex_annexb_validator : forall st l, In l [ex_annexb; ex_annexb_escape] ->
  verdict_of (validate_pattern st l false) = VOk /\ verdict_of (validate_pattern st l true) <> VOk.
Proof.
  intros st l Hin. cbn [In] in Hin. destruct Hin as [<-|[<-|[]]]; split.
  - apply (fragment_equiv st ex_annexb false eq_refl). apply ex_annexb_modes.
  - intros H. apply (fragment_equiv st ex_annexb true eq_refl) in H. exact (proj2 (proj1 ex_annexb_modes) H).
  - apply (fragment_equiv st ex_annexb_escape false eq_refl). apply ex_annexb_modes.
  - intros H. apply (fragment_equiv st ex_annexb_escape true eq_refl) in H. exact (proj2 (proj2 ex_annexb_modes) H).
Qed.

(* `a` STAR STAR, a lone `(`, a quantified anchor, a quantified look-behind, a quantified word boundary and
   a doubly quantified class escape are not Patterns (either mode) *)
Example ex_invalid : forall st u l,
  In l [[97;42;42]; [40]; [94;42]; [40;63;60;61;97;41;42]; [92;98;42]; [92;100;42;42]] ->
  ~ Pattern u (visible_units l u) /\ verdict_of (validate_pattern st l u) <> VOk.
Proof.
  intros st u l Hin.
  assert (Hn : ~ Pattern u (visible_units l u) /\ in_fragment u (visible_units l u) = true).
  { cbn [In] in Hin. repeat (destruct Hin as [<-|Hin]; [split; [apply decide_not_pattern|]; destruct u; reflexivity|]). contradiction. }
  destruct Hn as [Hn Hf]. split; [exact Hn|]. intros Hok. apply Hn. apply (fragment_equiv st l u Hf). exact Hok.
Qed.

Print Assumptions fragment_equiv.
Print Assumptions fragment_reject.
