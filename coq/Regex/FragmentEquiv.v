(* C12, grammar agreement on a fragment, as a theorem:
     on every input whose units lie in the fragment (FragParser.in_fragment), in both modes and from every validator
     state, the validator model accepts  <->  the input is a Pattern of the ECMAScript grammar (Grammar.v).
   The units the grammar speaks about are the ones the validator reads: code points with u, UTF-16 code units
   without (Reader.visible_units); for a string of BMP characters they are the string itself.
   Route: validator = recogniser sp_pattern (FragSim.v, symbolic execution of the model on fragment inputs),
          sp_pattern <-> Pattern (FragGrammar.v, soundness by induction on the fuel, completeness by induction on the
          derivation with follow-set conditions).
   NOT covered: everything outside the fragment: property escapes, named groups and `\k`, and their early errors (absent
   from Grammar.v); braced quantifiers and decimal escapes whose numbers are 2^63 or more (the implementation saturates
   there, the grammar compares the exact values); the early error "NcapturingParens >= 2^32 - 1". *)
From Coq Require Import List NArith Bool.
From V Require Import Common.Str Regex.Reader Regex.Validator Regex.ValidatorReset Regex.ValidatorTotal
  Regex.Grammar Regex.FragParser Regex.FragGrammar Regex.FragSim.
Import ListNotations.
Open Scope N_scope.

Theorem fragment_equiv : forall st s u, in_fragment u (visible_units s u) = true ->
  (verdict_of (validate_pattern st s u) = VOk <-> Pattern u (visible_units s u)).
Proof.
  intros st s u Hs. unfold in_fragment in Hs.
  pose proof (validate_pattern_sim st s u Hs) as Hsim. split.
  - intros Hok. destruct (validate_pattern st s u) as [a t|m t|p|]; try discriminate.
    destruct (sp_pattern u (visible_units s u)) as [a' l'| |] eqn:E; try contradiction.
    exact (sp_pattern_sound u _ a' l' E).
  - intros Hp. rewrite (sp_pattern_complete u _ Hp) in Hsim.
    destruct (validate_pattern st s u) as [a t|m t|p|]; try contradiction. reflexivity.
Qed.

(* on the fragment a rejected input is rejected with a SyntaxErr (never a panic / fuel exhaustion) *)
Corollary fragment_reject : forall st s u, in_fragment u (visible_units s u) = true -> ~ Pattern u (visible_units s u) ->
  exists m, verdict_of (validate_pattern st s u) = VErr m.
Proof.
  intros st s u Hf Hn. destruct (validate_pattern st s u) as [a t|m t|p|] eqn:E.
  - exfalso. apply Hn. apply (fragment_equiv st s u Hf). rewrite E. reflexivity.
  - exists m. reflexivity.
  - exfalso. exact (validator_never_panics st s u p E).
  - exfalso. exact (validator_fuel_sufficient st s u E).
Qed.

(* with the u flag the units are the code points themselves *)
Corollary fragment_equiv_u : forall st s, in_fragment true s = true ->
  (verdict_of (validate_pattern st s true) = VOk <-> Pattern true s).
Proof. intros st s Hf. exact (fragment_equiv st s true Hf). Qed.

(* ---- non-vacuity ---- *)
Lemma decide_pattern u l : recognises u l = true -> Pattern u l.
Proof. intros Hr. apply (recognises_iff_Pattern u l). exact Hr. Qed.
Lemma decide_not_pattern u l : recognises u l = false -> ~ Pattern u l.
Proof. intros Hr Hp. apply (recognises_iff_Pattern u l) in Hp. congruence. Qed.

(* the units of   ^ \b ( a | \d STAR ) PLUS ? ( ? < = \. ) ( ? ! \w ) ( ? : e | ) ? \B $
   -- anchors, word boundaries, nested alternation, class escape, lazy quantifier, look-behind with an identity
   escape, negative look-ahead, non-capturing group: a Pattern in both modes *)
Definition ex_valid : list N :=
  [94; 92;98; 40;97;124;92;100;42;41; 43;63; 40;63;60;61;92;46;41; 40;63;33;92;119;41; 40;63;58;101;124;41; 63; 92;66; 36].
Example ex_valid_ok : forall u, in_fragment u ex_valid = true. Proof. intros [|]; reflexivity. Qed.
Example ex_valid_pattern : forall u, Pattern u ex_valid.
Proof. intros u. apply decide_pattern; destruct u; reflexivity. Qed.
Example ex_valid_accepted : forall st u, verdict_of (validate_pattern st ex_valid u) = VOk.
Proof. intros st u. apply fragment_equiv; [destruct u; reflexivity|]. destruct u; apply ex_valid_pattern. Qed.

(* braced quantifiers:  a{2}b{3,}?c{4,15}(?:d|e){0}  is a Pattern in both modes *)
Definition ex_braced : list N :=
  [97;123;50;125; 98;123;51;44;125;63; 99;123;52;44;49;53;125; 40;63;58;100;124;101;41;123;48;125].
Example ex_braced_valid : forall st u,
  in_fragment u ex_braced = true /\ Pattern u ex_braced /\ verdict_of (validate_pattern st ex_braced u) = VOk.
Proof.
  intros st u. assert (Hp : Pattern u ex_braced) by (apply decide_pattern; destruct u; reflexivity).
  split; [destruct u; reflexivity|split; [exact Hp|]]. apply fragment_equiv; [destruct u; reflexivity|]. destruct u; exact Hp.
Qed.

(* a pattern is decided the same way by the grammar and by the validator, given that it is in the fragment *)
Lemma agree st l u : in_fragment u (visible_units l u) = true ->
  (Pattern u (visible_units l u) /\ verdict_of (validate_pattern st l u) = VOk) \/
  (~ Pattern u (visible_units l u) /\ verdict_of (validate_pattern st l u) <> VOk).
Proof.
  intros Hf. destruct (recognises u (visible_units l u)) eqn:Er.
  - left. pose proof (decide_pattern _ _ Er) as Hp. split; [exact Hp|]. apply (fragment_equiv st l u Hf). exact Hp.
  - right. pose proof (decide_not_pattern _ _ Er) as Hn. split; [exact Hn|]. intros Hok. apply Hn. apply (fragment_equiv st l u Hf). exact Hok.
Qed.
Ltac decide_both :=
  match goal with
  | |- Pattern ?u ?l /\ verdict_of (validate_pattern ?st ?l0 ?u) = VOk =>
      destruct (agree st l0 u eq_refl) as [H|[H _]]; [exact H|exfalso; apply H; apply decide_pattern; reflexivity]
  | |- ~ Pattern ?u ?l /\ verdict_of (validate_pattern ?st ?l0 ?u) <> VOk =>
      destruct (agree st l0 u eq_refl) as [[H _]|H]; [exfalso; revert H; apply decide_not_pattern; reflexivity|exact H]
  end.

(* Annex B: a quantified look-ahead  ( ? = a ) STAR b ,  the identity escape  \a , and the units { } ] where they do not
   form a quantifier ( a{ ,  a{1 ,  a{,5} ,  x}y]z ,  { ) are Patterns without u only; (?=a){2} likewise *)
Definition ex_annexb : list N := [40;63;61;97;41;42;98].
Definition ex_annexb_escape : list N := [92;97].
Definition ex_annexb_all : list (list N) :=
  [ex_annexb; ex_annexb_escape; [97;123]; [97;123;49]; [97;123;44;53;125]; [120;125;121;93;122]; [123];
   [40;63;61;97;41;123;50;125]].
Example ex_annexb_modes : forall st l, In l ex_annexb_all ->
  (Pattern false l /\ verdict_of (validate_pattern st l false) = VOk) /\
  (~ Pattern true l /\ verdict_of (validate_pattern st l true) <> VOk).
Proof.
  intros st l Hin. unfold ex_annexb_all in Hin. cbn [In] in Hin.
  repeat (destruct Hin as [<-|Hin]; [split; decide_both|]). contradiction.
Qed.

(* `a` STAR STAR, a lone `(`, a quantified anchor, a quantified look-behind, a quantified word boundary, a doubly
   quantified class escape; bounds out of order  a{2,1} ; a braced quantifier with nothing to repeat  {1} ,  a|{1,2} ,
   ^{3} ,  a{1}{2} ,  (?<=a){1} : not Patterns (either mode) *)
Definition ex_invalid_all : list (list N) :=
  [[97;42;42]; [40]; [94;42]; [40;63;60;61;97;41;42]; [92;98;42]; [92;100;42;42];
   [97;123;50;44;49;125]; [123;49;125]; [97;124;123;49;44;50;125]; [94;123;51;125]; [97;123;49;125;123;50;125];
   [40;63;60;61;97;41;123;49;125]].
Example ex_invalid : forall st u l, In l ex_invalid_all ->
  ~ Pattern u (visible_units l u) /\ verdict_of (validate_pattern st l u) <> VOk.
Proof.
  intros st u l Hin. unfold ex_invalid_all in Hin. cbn [In] in Hin.
  repeat (destruct Hin as [<-|Hin]; [destruct u; decide_both|]). contradiction.
Qed.

(* the early error compares the unbounded values:  a{9223372036854775807,9223372036854775806}  is in the fragment and is
   rejected;  a{9223372036854775808,9223372036854775807}  is outside the fragment (bounds >= 2^63): there the grammar
   rejects and the validator model accepts, see FragParser.braces_small *)
Definition ex_big_in : list N :=
  [97;123;57;50;50;51;51;55;50;48;51;54;56;53;52;55;55;53;56;48;55;44;57;50;50;51;51;55;50;48;51;54;56;53;52;55;55;53;56;48;54;125].
Definition ex_big_out : list N :=
  [97;123;57;50;50;51;51;55;50;48;51;54;56;53;52;55;55;53;56;48;56;44;57;50;50;51;51;55;50;48;51;54;56;53;52;55;55;53;56;48;55;125].
Example ex_big_bounds : forall st u,
  (in_fragment u ex_big_in = true /\ ~ Pattern u ex_big_in /\ verdict_of (validate_pattern st ex_big_in u) <> VOk) /\
  (in_fragment u ex_big_out = false /\ ~ Pattern u ex_big_out).
Proof.
  intros st u. split; [split; [destruct u; reflexivity|destruct u; decide_both]|].
  split; [destruct u; reflexivity|apply decide_not_pattern; destruct u; reflexivity].
Qed.

(* character escapes.  In both modes:  \0  \cJ  \x41  \u0041  \uD83D\uDE00  \uD83D  \uDE00  \n  \/  and their concatenation
   with quantifiers  \x41{2}\cJ*\uD83D\uDE00+\0? *)
Definition ex_escapes_both : list (list N) :=
  [[92;48]; [92;99;74]; [92;120;52;49]; [92;117;48;48;52;49]; [92;117;68;56;51;68;92;117;68;69;48;48]; [92;117;68;56;51;68];
   [92;117;68;69;48;48]; [92;110]; [92;47];
   [92;120;52;49;123;50;125; 92;99;74;42; 92;117;68;56;51;68;92;117;68;69;48;48;43; 92;48;63]].
Example ex_escapes_valid : forall st u l, In l ex_escapes_both ->
  Pattern u (visible_units l u) /\ verdict_of (validate_pattern st l u) = VOk.
Proof.
  intros st u l Hin. unfold ex_escapes_both in Hin. cbn [In] in Hin.
  repeat (destruct Hin as [<-|Hin]; [destruct u; decide_both|]). contradiction.
Qed.
(* with u only:  \u{41}  \u{10FFFF}  \u{0000041}  (without u they are `u` quantified by a braced quantifier and are
   Patterns too -- or, for \u{10FFFF}, a literal brace), so the u-only cases are the ones that are errors without u: none;
   without u only (Annex B):  \c  \c1  \c*  \x  \x4  \xg  \u  \u004  \u{110000}  \u{}  \u{41  \k  \p  \-  \_  \a  a\c *)
Definition ex_escapes_annexb : list (list N) :=
  [[92;99]; [92;99;49]; [92;99;42]; [92;120]; [92;120;52]; [92;120;103]; [92;117]; [92;117;48;48;52];
   [92;117;123;49;49;48;48;48;48;125]; [92;117;123;125]; [92;117;123;52;49]; [92;107]; [92;112]; [92;45]; [92;95]; [92;97]; [97;92;99]].
Example ex_escapes_annexb_modes : forall st l, In l ex_escapes_annexb ->
  (Pattern false l /\ verdict_of (validate_pattern st l false) = VOk) /\
  (~ Pattern true l /\ (in_fragment true l = true -> verdict_of (validate_pattern st l true) <> VOk)).
Proof.
  intros st l Hin. unfold ex_escapes_annexb in Hin. cbn [In] in Hin.
  repeat (destruct Hin as [<-|Hin];
          [split; [decide_both|split; [apply decide_not_pattern; reflexivity|]];
           intros Hf; intros Hok; apply (fragment_equiv st _ true Hf) in Hok; revert Hok; apply decide_not_pattern; reflexivity|]).
  contradiction.
Qed.
(* code point escapes are Patterns with u:  \u{41}  \u{10FFFF}  \u{000000041}  \u{1F600}+ *)
Definition ex_code_points : list (list N) :=
  [[92;117;123;52;49;125]; [92;117;123;49;48;70;70;70;70;125]; [92;117;123;48;48;48;48;48;48;48;52;49;125];
   [92;117;123;49;70;54;48;48;125;43]].
Example ex_code_points_valid : forall st l, In l ex_code_points ->
  Pattern true l /\ verdict_of (validate_pattern st l true) = VOk.
Proof.
  intros st l Hin. unfold ex_code_points in Hin. cbn [In] in Hin.
  repeat (destruct Hin as [<-|Hin]; [decide_both|]). contradiction.
Qed.
(* not Patterns in either mode:  a lone backslash is outside the fragment, so:  \c**  \x41**  (\u0041  \0{2,1} *)
Definition ex_escapes_invalid : list (list N) :=
  [[92;99;42;42]; [92;120;52;49;42;42]; [40;92;117;48;48;52;49]; [92;48;123;50;44;49;125]].
Example ex_escapes_invalid_both : forall st u l, In l ex_escapes_invalid ->
  ~ Pattern u (visible_units l u) /\ verdict_of (validate_pattern st l u) <> VOk.
Proof.
  intros st u l Hin. unfold ex_escapes_invalid in Hin. cbn [In] in Hin.
  repeat (destruct Hin as [<-|Hin]; [destruct u; decide_both|]). contradiction.
Qed.

(* back-references.  Patterns in both modes:  (a)\1  \1(a)  ((a))\2  (?=(a))\1  (a)(b)(c)(d)(e)(f)(g)(h)(i)(j)\10 *)
Definition ex_backrefs : list (list N) :=
  [[40;97;41;92;49]; [92;49;40;97;41]; [40;40;97;41;41;92;50]; [40;63;61;40;97;41;41;92;49];
   [40;97;41;40;98;41;40;99;41;40;100;41;40;101;41;40;102;41;40;103;41;40;104;41;40;105;41;40;106;41;92;49;48]].
Example ex_backrefs_valid : forall st u l, In l ex_backrefs ->
  Pattern u (visible_units l u) /\ verdict_of (validate_pattern st l u) = VOk.
Proof.
  intros st u l Hin. unfold ex_backrefs in Hin. cbn [In] in Hin.
  repeat (destruct Hin as [<-|Hin]; [destruct u; decide_both|]). contradiction.
Qed.
(* Annex B: a decimal escape beyond the number of groups is a legacy octal escape or an identity escape without u and an
   early error with u:  \1  (a)\2  \8  \18  \00  \07  \377  \400  \08  (?:a)\1  \(\1  (a)\18 *)
Definition ex_backrefs_annexb : list (list N) :=
  [[92;49]; [40;97;41;92;50]; [92;56]; [92;49;56]; [92;48;48]; [92;48;55]; [92;51;55;55]; [92;52;48;48]; [92;48;56];
   [40;63;58;97;41;92;49]; [92;40;92;49]; [40;97;41;92;49;56]].
Example ex_backrefs_annexb_modes : forall st l, In l ex_backrefs_annexb ->
  (Pattern false l /\ verdict_of (validate_pattern st l false) = VOk) /\
  (~ Pattern true l /\ verdict_of (validate_pattern st l true) <> VOk).
Proof.
  intros st l Hin. unfold ex_backrefs_annexb in Hin. cbn [In] in Hin.
  repeat (destruct Hin as [<-|Hin]; [split; decide_both|]). contradiction.
Qed.
(* not Patterns in either mode:  \1**  (\1  \1{2,1} *)
Example ex_backrefs_invalid : forall st u l, In l [[92;49;42;42]; [40;92;49]; [92;49;123;50;44;49;125]] ->
  ~ Pattern u (visible_units l u) /\ verdict_of (validate_pattern st l u) <> VOk.
Proof.
  intros st u l Hin. cbn [In] in Hin.
  repeat (destruct Hin as [<-|Hin]; [destruct u; decide_both|]). contradiction.
Qed.

(* the fragment lies inside the set of inputs on which Grammar.v is the whole grammar (where the recogniser is compared with V8) *)
Lemma scan_gscan u : forall l cls esc, scan u cls esc l = true -> gscan u cls esc l = true.
Proof.
  induction l as [|c r IH]; intros cls esc H; [exact H|]. cbn [scan gscan] in *. destruct esc.
  - apply andb_true_iff in H. destruct H as [Ha Hr]. rewrite (IH _ false Hr), andb_true_r.
    unfold allowed_after_backslash in Ha. apply andb_true_iff in Ha. destruct Ha as [_ Ha]. exact Ha.
  - destruct (c =? g_backslash); [apply IH; exact H|]. destruct cls; [apply IH; exact H|].
    destruct (c =? g_lbracket); [apply IH; exact H|]. apply andb_true_iff in H. destruct H as [Hl Hr].
    rewrite (IH _ false Hr), andb_true_r. unfold local_ok in Hl. unfold group_in_grammar.
    destruct (N.eqb_spec c g_lbrace) as [->|_]; [destruct r as [|? [|? ?]]; reflexivity|exact Hl].
Qed.
Lemma in_fragment_in_grammar u l : in_fragment u l = true -> in_grammar u l = true.
Proof. apply scan_gscan. Qed.

(* classes.  Patterns in both modes:
   [a-z]  [^a]  []  [^]  [a-]  [-a]  [--a]  [\b-a]  [\-]  [\ca-\cb]  [\0-9]  [a-b-c]  [\n-\r]  [(]  ([(])\1  [\]]  [[] *)
Definition ex_classes : list (list N) :=
  [[91;97;45;122;93]; [91;94;97;93]; [91;93]; [91;94;93]; [91;97;45;93]; [91;45;97;93]; [91;45;45;97;93]; [91;92;98;45;97;93];
   [91;92;45;93]; [91;92;99;97;45;92;99;98;93]; [91;92;48;45;57;93]; [91;97;45;98;45;99;93]; [91;92;110;45;92;114;93];
   [91;40;93]; [40;91;40;93;41;92;49]; [91;92;93;93]; [91;91;93]].
Example ex_classes_patterns : forall st u l, In l ex_classes ->
  Pattern u (visible_units l u) /\ verdict_of (validate_pattern st l u) = VOk.
Proof.
  intros st u l Hin. unfold ex_classes in Hin. cbn [In] in Hin.
  repeat (destruct Hin as [<-|Hin]; [destruct u; decide_both|]). contradiction.
Qed.
(* Annex B: Patterns without u only:  [\d-a]  [a-\d]  [\c1]  [\c_-a]  [\c]  [\1]  [\8]  [\x4]  [b-\u{61}]  [a]]  [\B]  [\k]  [\00-\07]  [\_] *)
Definition ex_classes_annexb : list (list N) :=
  [[91;92;100;45;97;93]; [91;97;45;92;100;93]; [91;92;99;49;93]; [91;92;99;95;45;97;93]; [91;92;99;93]; [91;92;49;93]; [91;92;56;93];
   [91;92;120;52;93]; [91;98;45;92;117;123;54;49;125;93]; [91;97;93;93]; [91;92;66;93]; [91;92;107;93];
   [91;92;48;48;45;92;48;55;93]; [91;92;95;93]].
Example ex_classes_annexb_modes : forall st l, In l ex_classes_annexb ->
  (Pattern false l /\ verdict_of (validate_pattern st l false) = VOk) /\
  (~ Pattern true l /\ verdict_of (validate_pattern st l true) <> VOk).
Proof.
  intros st l Hin. unfold ex_classes_annexb in Hin. cbn [In] in Hin.
  repeat (destruct Hin as [<-|Hin]; [split; decide_both|]). contradiction.
Qed.
(* not Patterns in either mode:  [z-a]  [a--]  [a-\b]  [\r-\n]  [a-\-]  [a  [\]  ;  [\c-a] and [\u{61}-b] without u, [b-\u{61}] with u *)
Example ex_classes_invalid : forall st u l,
  In l [[91;122;45;97;93]; [91;97;45;45;93]; [91;97;45;92;98;93]; [91;92;114;45;92;110;93]; [91;97;45;92;45;93]; [91;97]; [91;92;93]] ->
  ~ Pattern u (visible_units l u) /\ verdict_of (validate_pattern st l u) <> VOk.
Proof.
  intros st u l Hin. cbn [In] in Hin.
  repeat (destruct Hin as [<-|Hin]; [destruct u; decide_both|]). contradiction.
Qed.
Example ex_classes_invalid_modes :
  ~ Pattern false [91;92;99;45;97;93] /\ ~ Pattern false [91;92;117;123;54;49;125;45;98;93] /\ Pattern true [91;92;117;123;54;49;125;45;98;93] /\
  ~ Pattern true [91;98;45;92;117;123;54;49;125;93].
Proof. repeat split; first [apply decide_pattern|apply decide_not_pattern]; reflexivity. Qed.

Print Assumptions fragment_equiv.
Print Assumptions fragment_reject.
