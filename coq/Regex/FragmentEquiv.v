(* C12, grammar agreement on a fragment, as a theorem:
     on every input over the fragment alphabet (FragParser.frag_char), in both modes and from every validator
     state, the validator model accepts  <->  the input is a Pattern of the ECMAScript grammar (Grammar.v).
   The units the grammar speaks about are the ones the validator reads: code points with u, UTF-16 code units
   without (Reader.visible_units).
   Route: validator = recogniser sp_pattern (FragSim.v, symbolic execution of the model on fragment inputs),
          sp_pattern <-> Pattern (FragGrammar.v, soundness by induction on the fuel, completeness by induction on the
          derivation with follow-set conditions).
   NOT covered: everything outside the fragment (see Grammar.v header): escapes, classes, braced quantifiers,
   anchors, look-arounds, named groups, back-references, the early errors attached to them. *)
From Coq Require Import List NArith Bool.
From V Require Import Common.Str Regex.Reader Regex.Validator Regex.ValidatorReset Regex.ValidatorTotal
  Regex.Grammar Regex.FragParser Regex.FragGrammar Regex.FragSim.
Import ListNotations.
Open Scope N_scope.

Theorem fragment_equiv : forall st s u, in_fragment s = true ->
  (verdict_of (validate_pattern st s u) = VOk <-> Pattern u (visible_units s u)).
Proof.
  intros st s u Hf. pose proof (validate_pattern_sim st s u Hf) as Hsim.
  pose proof (in_fragment_visible s u Hf) as Hfv. split.
  - intros Hok. destruct (validate_pattern st s u) as [a t|m t|p|]; try discriminate.
    destruct (sp_pattern (visible_units s u)) as [a' l'| |] eqn:E; try contradiction.
    exact (sp_pattern_sound u _ a' l' E).
  - intros Hp. rewrite (sp_pattern_complete u _ Hp Hfv) in Hsim.
    destruct (validate_pattern st s u) as [a t|m t|p|]; try contradiction. reflexivity.
Qed.

(* on the fragment a rejected input is rejected with a SyntaxErr (never a panic / fuel exhaustion) *)
Corollary fragment_reject : forall st s u, in_fragment s = true -> ~ Pattern u (visible_units s u) ->
  exists m, verdict_of (validate_pattern st s u) = VErr m.
Proof.
  intros st s u Hf Hn. destruct (validate_pattern st s u) as [a t|m t|p|] eqn:E.
  - exfalso. apply Hn. apply (fragment_equiv st s u Hf). rewrite E. reflexivity.
  - exists m. reflexivity.
  - exfalso. exact (validator_never_panics st s u p E).
  - exfalso. exact (validator_fuel_sufficient st s u E).
Qed.

(* ---- non-vacuity ---- *)
(* the pattern  ( a | b STAR ) PLUS ? c (?: d | ) ?   i.e. the 16 units below *)
Definition ex_valid : list N := [40;97;124;98;42;41;43;63;99;40;63;58;100;124;41;63].
Example ex_valid_in_fragment : in_fragment ex_valid = true. Proof. reflexivity. Qed.
Example ex_valid_accepted : forall st u, verdict_of (validate_pattern st ex_valid u) = VOk.
Proof. intros st u. apply fragment_equiv; [reflexivity|]. apply (recognises_iff_Pattern u); destruct u; reflexivity. Qed.
Example ex_valid_is_pattern : forall u, Pattern u ex_valid.
Proof. intros u. apply (recognises_iff_Pattern u); reflexivity. Qed.
Example ex_valid_computed : verdict_of (validate_pattern init_vst ex_valid true) = VOk /\
                            verdict_of (validate_pattern init_vst ex_valid false) = VOk.
Proof. split; vm_compute; reflexivity. Qed.
(* `a` STAR STAR and a lone `(` are not Patterns, and are rejected *)
Example ex_invalid_star : forall st u, ~ Pattern u [97;42;42] /\ verdict_of (validate_pattern st [97;42;42] u) <> VOk.
Proof.
  intros st u. assert (Hn : ~ Pattern u [97;42;42]).
  { intros Hp. apply (recognises_iff_Pattern u) in Hp; [discriminate|reflexivity]. }
  split; [exact Hn|]. intros Hok. apply Hn. apply (fragment_equiv st [97;42;42] u eq_refl) in Hok. destruct u; exact Hok.
Qed.
Example ex_invalid_paren : forall st u, ~ Pattern u [40] /\ verdict_of (validate_pattern st [40] u) <> VOk.
Proof.
  intros st u. assert (Hn : ~ Pattern u [40]).
  { intros Hp. apply (recognises_iff_Pattern u) in Hp; [discriminate|reflexivity]. }
  split; [exact Hn|]. intros Hok. apply Hn. apply (fragment_equiv st [40] u eq_refl) in Hok. destruct u; exact Hok.
Qed.

Print Assumptions fragment_equiv.
Print Assumptions fragment_reject.
