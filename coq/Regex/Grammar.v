(* The ECMAScript 2022 Pattern grammar (ECMA-262 13th edition, §22.2.1 "Patterns", with the Annex B.1.4 production
   variants behind the same [U] switch the standard uses), as an inductive predicate over lists of units
   (code points with u, UTF-16 code units without).  Written from the standard, not from validator.rs.

   FRAGMENT covered so far (everything else of §22.2.1 is absent from the predicate, see FragmentEquiv.v):
     Pattern[U]      :: Disjunction[?U]
     Disjunction[U]  :: Alternative[?U]  |  Alternative[?U] `|` Disjunction[?U]
     Alternative[U]  :: [empty]  |  Alternative[?U] Term[?U]
     Term[U]         :: Assertion[?U]  |  Atom[?U]  |  Atom[?U] Quantifier
        Annex B [~U]:   QuantifiableAssertion Quantifier | Assertion[~U] | ExtendedAtom Quantifier | ExtendedAtom
     Assertion[U]    :: `^` | `$` | `\b` | `\B` | `(?=` Disjunction `)` | `(?!` Disjunction `)` | `(?<=` Disjunction `)` | `(?<!` Disjunction `)`
        Annex B [~U]:   `^` | `$` | `\b` | `\B` | QuantifiableAssertion | `(?<=` Disjunction `)` | `(?<!` Disjunction `)`
        (the escapes are written with a backslash)
     QuantifiableAssertion :: `(?=` Disjunction[~U] `)` | `(?!` Disjunction[~U] `)`
     Quantifier      :: QuantifierPrefix  |  QuantifierPrefix `?`
     QuantifierPrefix:: `*` | `+` | `?`
     Atom[U]         :: PatternCharacter | `.` | `\` AtomEscape[?U] | `(` Disjunction[?U] `)` | `(?:` Disjunction[?U] `)`
                        (GroupSpecifier is [empty]: no named groups in the fragment)
     ExtendedAtom    :: `.` | `\` AtomEscape[~U] | `(` Disjunction[~U] `)` | `(?:` Disjunction[~U] `)` | ExtendedPatternCharacter
     AtomEscape[U]   :: CharacterClassEscape | CharacterEscape[?U]          (no DecimalEscape, no `k` GroupName)
     CharacterClassEscape :: one of d D s S w W                             (no property escapes)
     CharacterEscape[U]   :: ControlEscape | IdentityEscape[?U]             (no c-letter, 0, hex, unicode, legacy octal)
     ControlEscape   :: one of f n r t v
     IdentityEscape[U] :: [+U] SyntaxCharacter | [+U] `/`
        Annex B [~U]:   SourceCharacterIdentityEscape[~N] :: SourceCharacter but not `c`
                        (without u the fragment has no group names, so the [N] parameter is absent)
     Annex B resolves its ambiguities by the order of the alternatives ("each alternative is considered only if
     previous production alternatives do not match"): backslash-b and backslash-B are matched by Assertion, which
     precedes ExtendedAtom in Term, so they are never atoms (side condition of At_escape).
     SyntaxCharacter :: one of ^ $ \ . * + ? ( ) [ ] { } |
     PatternCharacter:: SourceCharacter but not SyntaxCharacter
     ExtendedPatternCharacter :: SourceCharacter but not one of ^ $ \ . * + ? ( ) [ |
   No early errors apply to this fragment. *)
From Coq Require Import List NArith Bool.
Import ListNotations.
Open Scope N_scope.

Definition g_caret := 94. Definition g_dollar := 36. Definition g_backslash := 92. Definition g_dot := 46.
Definition g_star := 42. Definition g_plus := 43. Definition g_question := 63. Definition g_lparen := 40.
Definition g_rparen := 41. Definition g_lbracket := 91. Definition g_rbracket := 93. Definition g_lbrace := 123.
Definition g_rbrace := 125. Definition g_bar := 124. Definition g_colon := 58.
Definition g_equals := 61. Definition g_bang := 33. Definition g_less := 60. Definition g_slash := 47.

Definition syntax_character (c : N) : bool :=
  existsb (N.eqb c) [g_caret; g_dollar; g_backslash; g_dot; g_star; g_plus; g_question; g_lparen; g_rparen;
                     g_lbracket; g_rbracket; g_lbrace; g_rbrace; g_bar].
Definition extended_pattern_character (c : N) : bool :=
  negb (existsb (N.eqb c) [g_caret; g_dollar; g_backslash; g_dot; g_star; g_plus; g_question; g_lparen; g_rparen;
                           g_lbracket; g_bar]).
(* the single-character atom: PatternCharacter with [+U], ExtendedPatternCharacter with [~U] (Annex B) *)
Definition pattern_char (u : bool) (c : N) : bool :=
  if u then negb (syntax_character c) else extended_pattern_character c.

Definition character_class_escape (c : N) : bool := existsb (N.eqb c) [100; 68; 115; 83; 119; 87].  (* d D s S w W *)
Definition control_escape (c : N) : bool := existsb (N.eqb c) [102; 110; 114; 116; 118].           (* f n r t v *)
Definition identity_escape (u : bool) (c : N) : bool :=
  if u then syntax_character c || (c =? g_slash) else negb (c =? 99).                              (* not c *)
Definition assertion_escape (c : N) : bool := (c =? 98) || (c =? 66).                              (* b B *)
Inductive AtomEscape (u : bool) : list N -> Prop :=
| AE_class c : character_class_escape c = true -> AtomEscape u [c]
| AE_control c : control_escape c = true -> AtomEscape u [c]
| AE_identity c : identity_escape u c = true -> AtomEscape u [c].

Inductive QuantifierPrefix : list N -> Prop :=
| QP_star : QuantifierPrefix [g_star]
| QP_plus : QuantifierPrefix [g_plus]
| QP_opt : QuantifierPrefix [g_question].
Inductive Quantifier : list N -> Prop :=
| Q_greedy p : QuantifierPrefix p -> Quantifier p
| Q_lazy p : QuantifierPrefix p -> Quantifier (p ++ [g_question]).

Inductive Disjunction (u : bool) : list N -> Prop :=
| D_alt a : Alternative u a -> Disjunction u a
| D_bar a d : Alternative u a -> Disjunction u d -> Disjunction u (a ++ g_bar :: d)
with Alternative (u : bool) : list N -> Prop :=
| A_empty : Alternative u []
| A_term a t : Alternative u a -> Term u t -> Alternative u (a ++ t)
with Term (u : bool) : list N -> Prop :=
| T_assertion a : Assertion u a -> Term u a
| T_qassertion_quant a q : u = false -> QuantifiableAssertion u a -> Quantifier q -> Term u (a ++ q)   (* Annex B *)
| T_atom a : Atom u a -> Term u a
| T_atom_quant a q : Atom u a -> Quantifier q -> Term u (a ++ q)
with Assertion (u : bool) : list N -> Prop :=
| As_caret : Assertion u [g_caret]
| As_dollar : Assertion u [g_dollar]
| As_word_boundary : Assertion u [g_backslash; 98]
| As_not_word_boundary : Assertion u [g_backslash; 66]
| As_lookahead a : QuantifiableAssertion u a -> Assertion u a
| As_lookbehind d : Disjunction u d -> Assertion u (g_lparen :: g_question :: g_less :: g_equals :: d ++ [g_rparen])
| As_neg_lookbehind d : Disjunction u d -> Assertion u (g_lparen :: g_question :: g_less :: g_bang :: d ++ [g_rparen])
with QuantifiableAssertion (u : bool) : list N -> Prop :=   (* the two look-aheads *)
| QA_lookahead d : Disjunction u d -> QuantifiableAssertion u (g_lparen :: g_question :: g_equals :: d ++ [g_rparen])
| QA_neg_lookahead d : Disjunction u d -> QuantifiableAssertion u (g_lparen :: g_question :: g_bang :: d ++ [g_rparen])
with Atom (u : bool) : list N -> Prop :=
| At_char c : pattern_char u c = true -> Atom u [c]
| At_dot : Atom u [g_dot]
| At_escape c : AtomEscape u [c] -> assertion_escape c = false -> Atom u [g_backslash; c]
| At_group d : Disjunction u d -> Atom u (g_lparen :: d ++ [g_rparen])
| At_noncapturing d : Disjunction u d -> Atom u (g_lparen :: g_question :: g_colon :: d ++ [g_rparen]).

Definition Pattern (u : bool) (s : list N) : Prop := Disjunction u s.

Scheme Disjunction_mind := Minimality for Disjunction Sort Prop
  with Alternative_mind := Minimality for Alternative Sort Prop
  with Term_mind := Minimality for Term Sort Prop
  with Assertion_mind := Minimality for Assertion Sort Prop
  with QuantifiableAssertion_mind := Minimality for QuantifiableAssertion Sort Prop
  with Atom_mind := Minimality for Atom Sort Prop.
Combined Scheme grammar_mutind from Disjunction_mind, Alternative_mind, Term_mind, Assertion_mind,
  QuantifiableAssertion_mind, Atom_mind.
