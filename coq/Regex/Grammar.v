(* The ECMAScript 2022 Pattern grammar (ECMA-262 13th edition, §22.2.1 "Patterns", with the Annex B.1.4 production
   variants behind the same [U] switch the standard uses) and its early errors (§22.2.1.1, B.1.4.1), as an inductive
   predicate over lists of units (code points with u, UTF-16 code units without).  Written from the standard, not
   from validator.rs.

   Shape of the predicates: `X u np w r k` = "the units w are an X, at a place of the pattern where the units r follow"
   (r runs to the end of the whole pattern); np is NcapturingParens of the whole pattern and k the number of capturing
   groups of the construct (the productions below Atom have neither, the escapes have their CharacterValue instead).
   The follow context is what the grammar notation's look-ahead restrictions and Annex B's ordered alternatives ("each
   alternative is considered only if previous production alternatives do not match") speak about; only the
   constructors that have such a restriction constrain r.
   `Pattern u s` = `exists k, Disjunction u k s [] k` = s is a Pattern[U] to which no early error applies.

   COVERED (ABSENT from the predicate: GroupSpecifier with a GroupName -- named groups --, `k` GroupName, the property
   escapes `p{..}` `P{..}`, the early error "NcapturingParens >= 2^32 - 1"; FragParser.in_grammar describes the inputs
   that avoid them):
     Pattern[U]      :: Disjunction[?U]
     Disjunction[U]  :: Alternative[?U]  |  Alternative[?U] `|` Disjunction[?U]
     Alternative[U]  :: [empty]  |  Alternative[?U] Term[?U]
     Term[U]         :: Assertion[?U]  |  Atom[?U]  |  Atom[?U] Quantifier
        Annex B [~U]:   QuantifiableAssertion Quantifier | Assertion[~U] | ExtendedAtom Quantifier | ExtendedAtom
     Assertion[U]    :: `^` | `$` | `\b` | `\B` | `(?=` Disjunction `)` | `(?!` Disjunction `)` | `(?<=` Disjunction `)` | `(?<!` Disjunction `)`
        Annex B [~U]:   `^` | `$` | `\b` | `\B` | QuantifiableAssertion | `(?<=` Disjunction `)` | `(?<!` Disjunction `)`
        (the escapes are written with a backslash)
     QuantifiableAssertion :: `(?=` Disjunction[~U] `)` | `(?!` Disjunction[~U] `)`
     Quantifier      :: QuantifierPrefix  |  QuantifierPrefix `?`
     QuantifierPrefix:: `*` | `+` | `?` | `{` DecimalDigits `}` | `{` DecimalDigits `,}` | `{` DecimalDigits `,` DecimalDigits `}`
        early error:    `{` DecimalDigits `,` DecimalDigits `}` with MV of the first DecimalDigits larger than the MV of the second
     DecimalDigits   :: DecimalDigit | DecimalDigits DecimalDigit          (with its MV, an unbounded natural number)
     Atom[U]         :: PatternCharacter | `.` | `\` AtomEscape[?U] | CharacterClass[?U] | `(` Disjunction[?U] `)` | `(?:` Disjunction[?U] `)`
                        (GroupSpecifier is [empty]: no named groups)
     ExtendedAtom    :: `.` | `\` AtomEscape[~U] | CharacterClass[~U] | `(` Disjunction[~U] `)` | `(?:` Disjunction[~U] `)`
                      | InvalidBracedQuantifier | ExtendedPatternCharacter
     InvalidBracedQuantifier :: `{` DecimalDigits `}` | `{` DecimalDigits `,}` | `{` DecimalDigits `,` DecimalDigits `}`
        early error (B.1.4.1): any source text matched by ExtendedAtom :: InvalidBracedQuantifier.  Hence the production has
        no constructor; what it contributes is the ordered-choice side condition of At_char: without u a unit is an
        ExtendedPatternCharacter only where InvalidBracedQuantifier does not match (it can only match at a `{`).
     ExtendedAtom    :: ... | `\` [lookahead = c]      (the backslash alone, where `\` AtomEscape does not match: At_backslash_c)
     AtomEscape[U]   :: DecimalEscape | CharacterClassEscape | CharacterEscape[?U]          (no `k` GroupName)
        early error:    DecimalEscape whose CapturingGroupNumber is larger than NcapturingParens (the number of
                        `(` GroupSpecifier Disjunction `)` atoms of the whole pattern)
        Annex B [~U]:   DecimalEscape but only if its CapturingGroupNumber is <= NcapturingParens
        (one constructor AE_decimal for both; the predicates carry NcapturingParens of the whole pattern as the
        parameter np and count the capturing groups of the derivation in their last index)
     DecimalEscape   :: NonZeroDigit DecimalDigits(opt) [lookahead not a DecimalDigit]
     CharacterClassEscape :: one of d D s S w W                             (no property escapes)
     CharacterEscape[U]   :: ControlEscape | `c` ControlLetter | `0` [lookahead not a DecimalDigit] | HexEscapeSequence
                           | RegExpUnicodeEscapeSequence[?U] | [~U] LegacyOctalEscapeSequence | IdentityEscape[?U]
     LegacyOctalEscapeSequence :: `0` [lookahead 8 or 9] | NonZeroOctalDigit [lookahead not an OctalDigit]
                           | ZeroToThree OctalDigit [lookahead not an OctalDigit] | FourToSeven OctalDigit
                           | ZeroToThree OctalDigit OctalDigit
     ControlEscape   :: one of f n r t v
     ControlLetter   :: one of a-z A-Z
     HexEscapeSequence :: `x` HexDigit HexDigit
     RegExpUnicodeEscapeSequence[U] :: [+U] `u` HexLeadSurrogate `\u` HexTrailSurrogate | [+U] `u` HexLeadSurrogate
                           | [+U] `u` HexTrailSurrogate | [+U] `u` HexNonSurrogate | [~U] `u` Hex4Digits | [+U] `u{` CodePoint `}`
        the three single forms with u and the form without u are one constructor (UE_hex4: `u` Hex4Digits); the standard's
        association rule (a `\u` HexTrailSurrogate belongs to the nearest preceding unpaired `u` HexLeadSurrogate) is its side
        condition: a lone lead surrogate escape is not followed by a trail surrogate escape
     CodePoint       :: HexDigits but only if MV of HexDigits <= 0x10FFFF
     IdentityEscape[U] :: [+U] SyntaxCharacter | [+U] `/`
        Annex B [~U]:   SourceCharacterIdentityEscape[~N] :: SourceCharacter but not `c`
                        (without u the fragment has no group names, so the [N] parameter is absent)
        Annex B ordered choice: without u CharacterEscape is considered only where DecimalEscape (with its "but only if")
        does not match (side condition of CE_legacy_octal and CE_identity: a digit escape is a back-reference whenever it
        can be), and IdentityEscape only where the earlier alternatives of CharacterEscape do not match: not an octal
        digit, not `x` before two hex digits, not `u` before four hex digits (side condition of CE_identity; for the other
        overlaps -- d, f, ... -- both alternatives match the same text)
     Annex B resolves its ambiguities by the order of the alternatives: backslash-b and backslash-B are matched by
     Assertion, which precedes ExtendedAtom in Term, so they are never atoms (side condition of At_escape).
     SyntaxCharacter :: one of ^ $ \ . * + ? ( ) [ ] { } |
     PatternCharacter:: SourceCharacter but not SyntaxCharacter
     ExtendedPatternCharacter :: SourceCharacter but not one of ^ $ \ . * + ? ( ) [ |
     CharacterClass[U] :: `[` [lookahead is not `^`] ClassRanges[?U] `]` | `[^` ClassRanges[?U] `]`
     ClassRanges[U]  :: [empty] | NonemptyClassRanges[?U]
     NonemptyClassRanges[U] :: ClassAtom | ClassAtom NonemptyClassRangesNoDash | ClassAtom `-` ClassAtom ClassRanges
     NonemptyClassRangesNoDash[U] :: ClassAtom | ClassAtomNoDash NonemptyClassRangesNoDash | ClassAtomNoDash `-` ClassAtom ClassRanges
        early errors of the two range productions (range_ok): an endpoint with IsCharacterClass true (Annex B: only with u);
        CharacterValue of the first endpoint larger than that of the second
     ClassAtom[U]    :: `-` | ClassAtomNoDash[?U]
     ClassAtomNoDash[U] :: SourceCharacter but not one of `\` `]` `-` | `\` ClassEscape[?U]
        Annex B [~U]:   | `\` [lookahead = c]     (the backslash alone, where `\` ClassEscape does not match: CAN_backslash_c)
     ClassEscape[U]  :: `b` | [+U] `-` | CharacterClassEscape | CharacterEscape[?U]        (no DecimalEscape in a class)
        Annex B [~U]:   | `c` ClassControlLetter,  ClassControlLetter :: DecimalDigit | `_`
        ordered choice: `b` and the CharacterClassEscapes are not read as IdentityEscapes (side condition of CLE_character)
     CharacterValue (the last index of CharacterEscape / RegExpUnicodeEscapeSequence / LegacyOctalEscapeSequence; Some v in
        ClassEscape / ClassAtom, None where IsCharacterClass is true): ControlEscape t n v f r = 9 10 11 12 13; c ControlLetter
        and c ClassControlLetter = the unit modulo 32; `0` = 0; HexEscapeSequence, Hex4Digits, CodePoint = their MV; a surrogate
        pair = (lead - 0xD800) * 0x400 + (trail - 0xDC00) + 0x10000; LegacyOctalEscapeSequence = its MV; IdentityEscape and a
        SourceCharacter = the unit; `b` = 8; `-` = 0x2D; the backslash before c = 0x5C
        Annex B ordered choice adds to CE_identity: not a ControlEscape unit (same text, other CharacterValue)
   Early errors of the fragment: the ones above of ranges in classes, and the three above (bounds out of order; InvalidBracedQuantifier; DecimalEscape beyond the
   number of groups); the CodePoint bound is part of the production.  Not stated: "NcapturingParens >= 2^32 - 1" (Pattern). *)
From Coq Require Import List NArith Bool.
Import ListNotations.
Open Scope N_scope.

Definition g_caret := 94. Definition g_dollar := 36. Definition g_backslash := 92. Definition g_dot := 46.
Definition g_star := 42. Definition g_plus := 43. Definition g_question := 63. Definition g_lparen := 40.
Definition g_rparen := 41. Definition g_lbracket := 91. Definition g_rbracket := 93. Definition g_lbrace := 123.
Definition g_rbrace := 125. Definition g_bar := 124. Definition g_colon := 58.
Definition g_equals := 61. Definition g_bang := 33. Definition g_less := 60. Definition g_slash := 47.
Definition g_comma := 44.

Definition syntax_character (c : N) : bool :=
  existsb (N.eqb c) [g_caret; g_dollar; g_backslash; g_dot; g_star; g_plus; g_question; g_lparen; g_rparen;
                     g_lbracket; g_rbracket; g_lbrace; g_rbrace; g_bar].
Definition extended_pattern_character (c : N) : bool :=
  negb (existsb (N.eqb c) [g_caret; g_dollar; g_backslash; g_dot; g_star; g_plus; g_question; g_lparen; g_rparen;
                           g_lbracket; g_bar]).
(* the single-character atom: PatternCharacter with [+U], ExtendedPatternCharacter with [~U] (Annex B) *)
Definition pattern_char (u : bool) (c : N) : bool :=
  if u then negb (syntax_character c) else extended_pattern_character c.

Definition character_class_escape (c : N) : bool := existsb (N.eqb c) [100; 68; 115; 83; 119; 87].  (* d D s S w W *)
Definition control_escape (c : N) : bool := existsb (N.eqb c) [102; 110; 114; 116; 118].           (* f n r t v *)
Definition identity_escape (u : bool) (c : N) : bool :=
  if u then syntax_character c || (c =? g_slash) else negb (c =? 99).                              (* not c *)
Definition assertion_escape (c : N) : bool := (c =? 98) || (c =? 66).                              (* b B *)
Definition control_letter (c : N) : bool := ((65 <=? c) && (c <=? 90)) || ((97 <=? c) && (c <=? 122)).

(* DecimalDigits with its MV *)
Definition decimal_digit (c : N) : bool := (48 <=? c) && (c <=? 57).
Inductive DecimalDigits : list N -> N -> Prop :=
| DD_digit d : decimal_digit d = true -> DecimalDigits [d] (d - 48)
| DD_more ds v d : DecimalDigits ds v -> decimal_digit d = true -> DecimalDigits (ds ++ [d]) (10 * v + (d - 48)).
(* the three braced forms (of QuantifierPrefix and of InvalidBracedQuantifier) with the MV of the lower bound and of
   the upper bound where there is one *)
Inductive Braced : list N -> N -> option N -> Prop :=
| Br_exact ds n : DecimalDigits ds n -> Braced (g_lbrace :: ds ++ [g_rbrace]) n (Some n)
| Br_at_least ds n : DecimalDigits ds n -> Braced (g_lbrace :: ds ++ [g_comma; g_rbrace]) n None
| Br_range ds n es m : DecimalDigits ds n -> DecimalDigits es m ->
    Braced (g_lbrace :: ds ++ g_comma :: es ++ [g_rbrace]) n (Some m).
Definition InvalidBracedQuantifier (q : list N) : Prop := exists n om, Braced q n om.

(* HexDigits with its MV *)
Definition hex_digit (c : N) : bool :=
  decimal_digit c || ((65 <=? c) && (c <=? 70)) || ((97 <=? c) && (c <=? 102)).
Definition hex_digit_value (c : N) : N := if decimal_digit c then c - 48 else if c <=? 70 then c - 55 else c - 87.
Inductive HexDigits : list N -> N -> Prop :=
| HD_digit h : hex_digit h = true -> HexDigits [h] (hex_digit_value h)
| HD_more hs v h : HexDigits hs v -> hex_digit h = true -> HexDigits (hs ++ [h]) (16 * v + hex_digit_value h).
Definition Hex4Digits (hs : list N) (v : N) : Prop := HexDigits hs v /\ length hs = 4%nat.
Definition lead_surrogate (v : N) : bool := (55296 <=? v) && (v <=? 56319).     (* D800..DBFF *)
Definition trail_surrogate (v : N) : bool := (56320 <=? v) && (v <=? 57343).    (* DC00..DFFF *)
(* the units r begin with `\u` HexTrailSurrogate *)
Definition trail_escape_follows (r : list N) : Prop :=
  exists ts w r', Hex4Digits ts w /\ trail_surrogate w = true /\ r = g_backslash :: 117 :: ts ++ r'.
(* with its CharacterValue *)
Inductive RegExpUnicodeEscapeSequence (u : bool) : list N -> list N -> N -> Prop :=
| UE_pair hs v ts w r : u = true -> Hex4Digits hs v -> lead_surrogate v = true -> Hex4Digits ts w -> trail_surrogate w = true ->
    RegExpUnicodeEscapeSequence u (117 :: hs ++ g_backslash :: 117 :: ts) r ((v - 55296) * 1024 + (w - 56320) + 65536)
| UE_hex4 hs v r : Hex4Digits hs v -> (u = true -> lead_surrogate v = true -> ~ trail_escape_follows r) ->
    RegExpUnicodeEscapeSequence u (117 :: hs) r v
| UE_code_point ds v r : u = true -> HexDigits ds v -> v <= 1114111 ->
    RegExpUnicodeEscapeSequence u (117 :: g_lbrace :: ds ++ [g_rbrace]) r v.

(* DecimalEscape with its CapturingGroupNumber *)
Definition non_zero_digit (c : N) : bool := (49 <=? c) && (c <=? 57).
Definition no_digit_follows (r : list N) : Prop := match r with d :: _ => decimal_digit d = false | [] => True end.
Inductive DecimalEscape : list N -> N -> list N -> Prop :=
| DE_digits d ds v r : non_zero_digit d = true -> DecimalDigits (d :: ds) v -> no_digit_follows r -> DecimalEscape (d :: ds) v r.
(* DecimalEscape (Annex B: with its "but only if") matches at the units l *)
Definition decimal_escape_matches (np : N) (l : list N) : Prop :=
  exists ds v r, DecimalEscape ds v r /\ v <= np /\ l = ds ++ r.

Definition octal_digit (c : N) : bool := (48 <=? c) && (c <=? 55).
Definition no_octal_follows (r : list N) : Prop := match r with d :: _ => octal_digit d = false | [] => True end.
Definition zero_to_three (c : N) : bool := (48 <=? c) && (c <=? 51).
Definition four_to_seven (c : N) : bool := (52 <=? c) && (c <=? 55).
(* with its MV *)
Inductive LegacyOctalEscapeSequence : list N -> list N -> N -> Prop :=
| LO_zero d r : (d = 56 \/ d = 57) -> LegacyOctalEscapeSequence [48] (d :: r) 0
| LO_one a r : octal_digit a = true -> a <> 48 -> no_octal_follows r -> LegacyOctalEscapeSequence [a] r (a - 48)
| LO_two_low a b r : zero_to_three a = true -> octal_digit b = true -> no_octal_follows r ->
    LegacyOctalEscapeSequence [a; b] r (8 * (a - 48) + (b - 48))
| LO_two_high a b r : four_to_seven a = true -> octal_digit b = true -> LegacyOctalEscapeSequence [a; b] r (8 * (a - 48) + (b - 48))
| LO_three a b c r : zero_to_three a = true -> octal_digit b = true -> octal_digit c = true ->
    LegacyOctalEscapeSequence [a; b; c] r (64 * (a - 48) + 8 * (b - 48) + (c - 48)).

(* Annex B ordered choice: an alternative of CharacterEscape before IdentityEscape matches at the unit c followed by r,
   and matches a different text than the unit c alone *)
Definition earlier_escape_matches (c : N) (r : list N) : Prop :=
  octal_digit c = true \/
  (c = 120 /\ exists h1 h2 r', hex_digit h1 = true /\ hex_digit h2 = true /\ r = h1 :: h2 :: r') \/
  (c = 117 /\ exists hs v r', Hex4Digits hs v /\ r = hs ++ r').
(* CharacterEscape with its CharacterValue.  onp = Some NcapturingParens where DecimalEscape is an earlier alternative
   (AtomEscape), None inside a class (ClassEscape has no DecimalEscape) *)
Definition control_escape_value (c : N) : N :=
  if c =? 116 then 9 else if c =? 110 then 10 else if c =? 118 then 11 else if c =? 102 then 12 else 13.   (* t n v f r *)
Definition decimal_escape_earlier (onp : option N) (l : list N) : Prop :=
  match onp with Some np => decimal_escape_matches np l | None => False end.
Inductive CharacterEscape (u : bool) (onp : option N) : list N -> list N -> N -> Prop :=
| CE_control c r : control_escape c = true -> CharacterEscape u onp [c] r (control_escape_value c)
| CE_letter c r : control_letter c = true -> CharacterEscape u onp [99; c] r (c mod 32)
| CE_zero r : no_digit_follows r -> CharacterEscape u onp [48] r 0
| CE_hex h1 h2 r : hex_digit h1 = true -> hex_digit h2 = true ->
    CharacterEscape u onp [120; h1; h2] r (16 * hex_digit_value h1 + hex_digit_value h2)
| CE_unicode w r v : RegExpUnicodeEscapeSequence u w r v -> CharacterEscape u onp w r v
| CE_legacy_octal w r v : u = false -> LegacyOctalEscapeSequence w r v -> ~ decimal_escape_earlier onp (w ++ r) ->
    CharacterEscape u onp w r v
| CE_identity c r : identity_escape u c = true ->
    (u = false -> control_escape c = false /\ ~ earlier_escape_matches c r /\ ~ decimal_escape_earlier onp (c :: r)) ->
    CharacterEscape u onp [c] r c.
Inductive AtomEscape (u : bool) (np : N) : list N -> list N -> Prop :=
| AE_decimal ds v r : DecimalEscape ds v r -> v <= np -> AtomEscape u np ds r
| AE_class c r : character_class_escape c = true -> AtomEscape u np [c] r
| AE_character w r v : CharacterEscape u (Some np) w r v -> AtomEscape u np w r.

(* ---- character classes ----
   The value index of ClassEscape / ClassAtom: Some (CharacterValue), or None where IsCharacterClass is true *)
Definition class_control_letter (c : N) : bool := decimal_digit c || (c =? 95).        (* DecimalDigit or _ *)
Inductive ClassEscape (u : bool) : list N -> list N -> option N -> Prop :=
| CLE_b r : ClassEscape u [98] r (Some 8)
| CLE_dash r : u = true -> ClassEscape u [45] r (Some 45)
| CLE_control_letter c r : u = false -> class_control_letter c = true -> ClassEscape u [99; c] r (Some (c mod 32))   (* Annex B *)
| CLE_class c r : character_class_escape c = true -> ClassEscape u [c] r None
| CLE_character w r v : CharacterEscape u None w r v ->
    (* Annex B ordered choice (and the same units with u): `b` and the CharacterClassEscapes are matched by the earlier alternatives *)
    (forall c, w = [c] -> c <> 98 /\ character_class_escape c = false) -> ClassEscape u w r (Some v).
Inductive ClassAtomNoDash (u : bool) : list N -> list N -> option N -> Prop :=
| CAN_char c r : c <> g_backslash -> c <> g_rbracket -> c <> 45 -> ClassAtomNoDash u [c] r (Some c)
| CAN_escape w r v : ClassEscape u w r v -> ClassAtomNoDash u (g_backslash :: w) r v
| CAN_backslash_c r : u = false ->    (* Annex B: `\` [lookahead = c], tried after `\` ClassEscape *)
    match r with c :: _ => class_control_letter c = false /\ control_letter c = false | [] => True end ->
    ClassAtomNoDash u [g_backslash] (99 :: r) (Some g_backslash).
Inductive ClassAtom (u : bool) : list N -> list N -> option N -> Prop :=
| CA_dash r : ClassAtom u [45] r (Some 45)
| CA_no_dash w r v : ClassAtomNoDash u w r v -> ClassAtom u w r v.
(* the early errors of the two range productions: with u an endpoint that is a class is an error, without u (Annex B) it
   is not; two character endpoints must be in order *)
Definition range_ok (u : bool) (a b : option N) : Prop :=
  match a, b with Some x, Some y => x <= y | _, _ => u = false end.
Inductive ClassRanges (u : bool) : list N -> list N -> Prop :=
| CR_empty r : ClassRanges u [] r
| CR_nonempty w r : NonemptyClassRanges u w r -> ClassRanges u w r
with NonemptyClassRanges (u : bool) : list N -> list N -> Prop :=
| NCR_atom a r v : ClassAtom u a r v -> NonemptyClassRanges u a r
| NCR_atom_more a b r v : ClassAtom u a (b ++ r) v -> NonemptyClassRangesNoDash u b r -> NonemptyClassRanges u (a ++ b) r
| NCR_range a b c r va vb : ClassAtom u a (45 :: b ++ c ++ r) va -> ClassAtom u b (c ++ r) vb -> ClassRanges u c r ->
    range_ok u va vb -> NonemptyClassRanges u (a ++ 45 :: b ++ c) r
with NonemptyClassRangesNoDash (u : bool) : list N -> list N -> Prop :=
| NCRN_atom a r v : ClassAtom u a r v -> NonemptyClassRangesNoDash u a r
| NCRN_atom_more a b r v : ClassAtomNoDash u a (b ++ r) v -> NonemptyClassRangesNoDash u b r ->
    NonemptyClassRangesNoDash u (a ++ b) r
| NCRN_range a b c r va vb : ClassAtomNoDash u a (45 :: b ++ c ++ r) va -> ClassAtom u b (c ++ r) vb -> ClassRanges u c r ->
    range_ok u va vb -> NonemptyClassRangesNoDash u (a ++ 45 :: b ++ c) r.
Inductive CharacterClass (u : bool) : list N -> list N -> Prop :=
| CC_positive w r : match w with c :: _ => c <> g_caret | [] => True end (* [lookahead is not ^] *) ->
    ClassRanges u w (g_rbracket :: r) -> CharacterClass u (g_lbracket :: w ++ [g_rbracket]) r
| CC_negative w r : ClassRanges u w (g_rbracket :: r) -> CharacterClass u (g_lbracket :: g_caret :: w ++ [g_rbracket]) r.
Scheme ClassRanges_mind := Minimality for ClassRanges Sort Prop
  with NonemptyClassRanges_mind := Minimality for NonemptyClassRanges Sort Prop
  with NonemptyClassRangesNoDash_mind := Minimality for NonemptyClassRangesNoDash Sort Prop.
Combined Scheme class_ranges_mutind from ClassRanges_mind, NonemptyClassRanges_mind, NonemptyClassRangesNoDash_mind.

Inductive QuantifierPrefix : list N -> Prop :=
| QP_star : QuantifierPrefix [g_star]
| QP_plus : QuantifierPrefix [g_plus]
| QP_opt : QuantifierPrefix [g_question]
| QP_braced q n om : Braced q n om -> (forall m, om = Some m -> n <= m) (* early error otherwise *) -> QuantifierPrefix q.
Inductive Quantifier : list N -> Prop :=
| Q_greedy p : QuantifierPrefix p -> Quantifier p
| Q_lazy p : QuantifierPrefix p -> Quantifier (p ++ [g_question]).

(* np = NcapturingParens of the whole pattern; the last index = the number of capturing groups of the construct *)
Inductive Disjunction (u : bool) (np : N) : list N -> list N -> N -> Prop :=
| D_alt a r k : Alternative u np a r k -> Disjunction u np a r k
| D_bar a d r k1 k2 : Alternative u np a (g_bar :: d ++ r) k1 -> Disjunction u np d r k2 ->
    Disjunction u np (a ++ g_bar :: d) r (k1 + k2)
with Alternative (u : bool) (np : N) : list N -> list N -> N -> Prop :=
| A_empty r : Alternative u np [] r 0
| A_term a t r k1 k2 : Alternative u np a (t ++ r) k1 -> Term u np t r k2 -> Alternative u np (a ++ t) r (k1 + k2)
with Term (u : bool) (np : N) : list N -> list N -> N -> Prop :=
| T_assertion a r k : Assertion u np a r k -> Term u np a r k
| T_qassertion_quant a q r k : u = false -> QuantifiableAssertion u np a (q ++ r) k -> Quantifier q ->
    Term u np (a ++ q) r k                                                                        (* Annex B *)
| T_atom a r k : Atom u np a r k -> Term u np a r k
| T_atom_quant a q r k : Atom u np a (q ++ r) k -> Quantifier q -> Term u np (a ++ q) r k
with Assertion (u : bool) (np : N) : list N -> list N -> N -> Prop :=
| As_caret r : Assertion u np [g_caret] r 0
| As_dollar r : Assertion u np [g_dollar] r 0
| As_word_boundary r : Assertion u np [g_backslash; 98] r 0
| As_not_word_boundary r : Assertion u np [g_backslash; 66] r 0
| As_lookahead a r k : QuantifiableAssertion u np a r k -> Assertion u np a r k
| As_lookbehind d r k : Disjunction u np d (g_rparen :: r) k ->
    Assertion u np (g_lparen :: g_question :: g_less :: g_equals :: d ++ [g_rparen]) r k
| As_neg_lookbehind d r k : Disjunction u np d (g_rparen :: r) k ->
    Assertion u np (g_lparen :: g_question :: g_less :: g_bang :: d ++ [g_rparen]) r k
with QuantifiableAssertion (u : bool) (np : N) : list N -> list N -> N -> Prop :=   (* the two look-aheads *)
| QA_lookahead d r k : Disjunction u np d (g_rparen :: r) k ->
    QuantifiableAssertion u np (g_lparen :: g_question :: g_equals :: d ++ [g_rparen]) r k
| QA_neg_lookahead d r k : Disjunction u np d (g_rparen :: r) k ->
    QuantifiableAssertion u np (g_lparen :: g_question :: g_bang :: d ++ [g_rparen]) r k
with Atom (u : bool) (np : N) : list N -> list N -> N -> Prop :=
| At_char c r : pattern_char u c = true ->
    (* Annex B: ExtendedPatternCharacter is tried after InvalidBracedQuantifier *)
    (u = false -> forall q r', InvalidBracedQuantifier q -> c :: r <> q ++ r') -> Atom u np [c] r 0
| At_dot r : Atom u np [g_dot] r 0
| At_escape w r : AtomEscape u np w r -> (forall c, w = [c] -> assertion_escape c = false) -> Atom u np (g_backslash :: w) r 0
| At_backslash_c r : u = false ->     (* Annex B: `\` [lookahead = c], tried after `\` AtomEscape (`c` ControlLetter) *)
    match r with c :: _ => control_letter c = false | [] => True end -> Atom u np [g_backslash] (99 :: r) 0
| At_class w r : CharacterClass u w r -> Atom u np w r 0
| At_group d r k : Disjunction u np d (g_rparen :: r) k -> Atom u np (g_lparen :: d ++ [g_rparen]) r (1 + k)
| At_noncapturing d r k : Disjunction u np d (g_rparen :: r) k ->
    Atom u np (g_lparen :: g_question :: g_colon :: d ++ [g_rparen]) r k.

(* a Pattern: a Disjunction whose NcapturingParens is the number of its capturing groups *)
Definition Pattern (u : bool) (s : list N) : Prop := exists k, Disjunction u k s [] k.

Scheme Disjunction_mind := Minimality for Disjunction Sort Prop
  with Alternative_mind := Minimality for Alternative Sort Prop
  with Term_mind := Minimality for Term Sort Prop
  with Assertion_mind := Minimality for Assertion Sort Prop
  with QuantifiableAssertion_mind := Minimality for QuantifiableAssertion Sort Prop
  with Atom_mind := Minimality for Atom Sort Prop.
Combined Scheme grammar_mutind from Disjunction_mind, Alternative_mind, Term_mind, Assertion_mind,
  QuantifiableAssertion_mind, Atom_mind.
