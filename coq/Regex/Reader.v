(* Model of src/js_regex/reader.rs (struct Reader) as used by the validator.

   Rust state: { unicode, src, index, end, cps }.  `at(i)` returns None when i >= end, otherwise the i-th code
   point (unicode) or the i-th UTF-16 unit (not unicode) of src.  The validator always calls
   `reset(source, 0, end, u_flag)` with end = source.chars().count() under u and source.encode_utf16().count()
   otherwise, i.e. the whole source is visible in the unit kind the reader indexes.

   Model: the triple (unicode, src, end) is represented by the list of visible units
   `units = if u then src else utf16 src` -- `at i = nth_error units i` -- and `index` by `idx`.
   `cps` (a VecDeque holding at(index), .., at(index+3), refilled by every rewind and shifted by
   every advance) is a cache of the window; the model reads the window from `units` directly.
   `creader` below is the literal reader with the cache; Regex/ReaderCache.v (`creader_refines`) shows that the
   cache always equals the window, whatever its content was before `reset`. *)
From Coq Require Import List NArith ZArith Bool Lia.
From V Require Import Common.Str.
Import ListNotations.
Open Scope N_scope.

(* ---- UTF-16 encoding of a Rust &str given as scalar values ---- *)
Definition utf16_of (c : N) : list N :=
  if c <? 65536 then [c]
  else let v := c - 65536 in [55296 + N.shiftr v 10; 56320 + N.land v 1023].
Definition utf16 (s : str) : list N := flat_map utf16_of s.

(* what `reset(source, 0, end, u)` makes visible: end counts the units of the kind selected by u *)
Definition visible_units (src : str) (u : bool) : list N := if u then src else utf16 src.

Record reader := mkreader { units : list N; idx : nat }.

Definition r_at (r : reader) (i : nat) : option N := nth_error (units r) i.
(* code_point_with_offset(k), k <= 3 *)
Definition r_cp (k : nat) (r : reader) : option N := nth_error (units r) (idx r + k).
Definition r_rewind (i : nat) (r : reader) : reader := mkreader (units r) i.
Definition r_advance (r : reader) : reader :=
  match r_cp 0 r with Some _ => mkreader (units r) (S (idx r)) | None => r end.
Definition r_remaining (r : reader) : nat := length (units r) - idx r.

(* ---- the literal reader with its look-ahead cache ---- *)
Record creader := mkcreader { c_units : list N; c_idx : nat; c_cps : list N }.

Fixpoint fill (us : list N) (i : nat) (n : nat) : list N :=
  match n with
  | O => []
  | S n => match nth_error us i with Some c => c :: fill us (S i) n | None => [] end
  end.
(* rewind: index := i; cps.clear(); push at(i), at(i+1), .. until None or 4 items *)
Definition c_rewind (i : nat) (r : creader) : creader := mkcreader (c_units r) i (fill (c_units r) i 4).
(* advance: if cps non-empty { index += 1; pop_front; if let Some(c) = at(index + cps.len()) push_back(c) } *)
Definition c_advance (r : creader) : creader :=
  match c_cps r with
  | [] => r
  | _ :: tl =>
      let i := S (c_idx r) in
      mkcreader (c_units r) i
        (match nth_error (c_units r) (i + length tl) with Some c => tl ++ [c] | None => tl end)
  end.
Definition c_cp (k : nat) (r : creader) : option N := nth_error (c_cps r) k.
Definition c_reset (us : list N) (r : creader) : creader := c_rewind 0 (mkcreader us (c_idx r) (c_cps r)).

