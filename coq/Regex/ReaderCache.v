(* The literal Reader (with its VecDeque look-ahead cache) refines the cache-free reader of Reader.v. *)
From Coq Require Import List NArith ZArith Bool Lia.
From V Require Import Common.Str Regex.Reader.
Import ListNotations.

Definition abs (r : creader) : reader := mkreader (c_units r) (c_idx r).
Definition cache_ok (r : creader) : Prop := c_cps r = fill (c_units r) (c_idx r) 4.

Lemma fill_length us i n : (length (fill us i n) <= n)%nat.
Proof. revert i; induction n as [|n IH]; intros i; cbn [fill]; [cbn; lia|].
  destruct (nth_error us i); cbn [length]; [specialize (IH (S i))|]; lia. Qed.

(* the window: fill stops at the first None, and nth_error is None from there on *)
Lemma fill_spec us i n k : (k < n)%nat -> nth_error (fill us i n) k = nth_error us (i + k).
Proof.
  revert i k; induction n as [|n IH]; intros i k Hk; [lia|]. cbn [fill].
  destruct (nth_error us i) as [c|] eqn:Ei.
  - destruct k as [|k]; cbn [nth_error].
    + rewrite Nat.add_0_r; congruence.
    + rewrite IH by lia. f_equal; lia.
  - replace (nth_error [] k) with (@None N) by (destruct k; reflexivity).
    symmetry. apply nth_error_None. apply nth_error_None in Ei. lia.
Qed.

Lemma fill_S us i n : fill us i (S n) = match nth_error us i with Some c => c :: fill us (S i) n | None => [] end.
Proof. reflexivity. Qed.
Lemma fill_0 us i : fill us i 0 = []. Proof. reflexivity. Qed.
Lemma fill_shift us i c tl :
  fill us i 4 = c :: tl ->
  fill us (S i) 4 = match nth_error us (S i + length tl) with Some d => tl ++ [d] | None => tl end.
Proof.
  rewrite !fill_S, !fill_0.
  destruct (nth_error us i) as [c0|] eqn:E0; [|discriminate].
  destruct (nth_error us (S i)) as [c1|] eqn:E1;
    [destruct (nth_error us (S (S i))) as [c2|] eqn:E2;
      [destruct (nth_error us (S (S (S i)))) as [c3|] eqn:E3|]|];
    intros [= -> <-].
  - replace (S i + length [c1;c2;c3])%nat with (S (S (S (S i)))) by (cbn [length]; lia).
    destruct (nth_error us (S (S (S (S i))))); reflexivity.
  - replace (S i + length [c1;c2])%nat with (S (S (S i))) by (cbn [length]; lia). rewrite E3; reflexivity.
  - replace (S i + length [c1])%nat with (S (S i)) by (cbn [length]; lia). rewrite E2; reflexivity.
  - replace (S i + length (@nil N))%nat with (S i) by (cbn [length]; lia). rewrite E1; reflexivity.
Qed.

(* reset/rewind establish the cache invariant from ANY previous cache content; advance keeps it;
   under it the literal reader and the model read and move identically. *)
Theorem creader_refines :
  (forall us r, cache_ok (c_reset us r) /\ abs (c_reset us r) = mkreader us 0) /\
  (forall i r, cache_ok (c_rewind i r) /\ abs (c_rewind i r) = r_rewind i (abs r)) /\
  (forall r, cache_ok r -> cache_ok (c_advance r) /\ abs (c_advance r) = r_advance (abs r)) /\
  (forall r k, cache_ok r -> (k < 4)%nat -> c_cp k r = r_cp k (abs r)).
Proof.
  split; [|split; [|split]].
  - intros us r; split; reflexivity.
  - intros i r; split; reflexivity.
  - intros r Hok; split.
    + unfold cache_ok, c_advance in *. destruct (c_cps r) as [|c tl] eqn:E; [rewrite E; exact Hok|].
      cbn [c_units c_idx c_cps]. symmetry. apply (fill_shift _ _ c). congruence.
    + unfold cache_ok in Hok. unfold c_advance, r_advance, r_cp, abs. cbn [units idx].
      rewrite Nat.add_0_r. rewrite <- (Nat.add_0_r (c_idx r)) at 1.
      rewrite <- (fill_spec (c_units r) (c_idx r) 4 0) by lia. rewrite <- Hok.
      destruct (c_cps r) as [|c tl]; cbn [nth_error]; [destruct r|]; reflexivity.
  - intros r k Hok Hk. unfold c_cp, r_cp, abs; cbn [units idx]. rewrite Hok. apply fill_spec; assumption.
Qed.
Print Assumptions creader_refines.
