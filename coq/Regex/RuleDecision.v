(* Model of `validate_flags` (validator.rs) and of the decision of src/rules/no_invalid_regexp.rs.

   The rule owns ONE EcmaRegexValidator (Es2022) per file and reuses it for every regex literal /
   `RegExp("..", ..)` call, in source order.  `check_regex(pattern, flags: Option<&str>, range)`:
       Some(flags) (a literal, `RegExp("p")` = Some(""), `RegExp("p", "f")` = Some("f")):
            check_for_invalid_flags(flags) || invalid(pattern, flags.contains('u'))
       None (a second argument that is not a string literal: flags unknown):
            invalid(pattern, true) && invalid(pattern, false)
   The model threads the validator state through these calls and from one regex to the next. *)
From Coq Require Import List NArith ZArith Bool.
From RecordUpdate Require Import RecordSet.
From V Require Import Common.Str Regex.Reader Regex.Validator.
Import ListNotations RecordSetNotations.
Open Scope N_scope.

Definition E_dup_flag := 20.      (* "Duplicated flag {}" *)
Definition E_invalid_flag := 21.  (* "Invalid flag {}" *)

(* g i m u y s d v : all accepted at Es2022 *)
Definition flag_ok (c : N) : bool := existsb (N.eqb c) [103; 105; 109; 117; 121; 115; 100; 118].
(* None = Ok(()), Some m = Err(message class m).  `seen` = existing_flags *)
Fixpoint validate_flags_from (seen : list N) (fs : str) : option N :=
  match fs with
  | [] => None
  | c :: r =>
      if existsb (N.eqb c) seen then Some E_dup_flag
      else if flag_ok c then validate_flags_from (c :: seen) r
      else Some E_invalid_flag
  end.
Definition validate_flags (fs : str) : option N := validate_flags_from [] fs.

Inductive decision := NoReport | Report | RulePanic (site : N) | RuleFuel.

(* check_for_invalid_pattern: validate_pattern(..).is_err(), keeping the state the validator is left in *)
Inductive pv := PvValid (s : vst) | PvInvalid (m : N) (s : vst) | PvPanic (site : N) | PvFuel.
Definition check_pattern (st : vst) (src : str) (u : bool) : pv :=
  match validate_pattern st src u with
  | Ok _ s => PvValid s | SyntaxErr m s => PvInvalid m s | Panic p => PvPanic p | OutOfFuel => PvFuel end.

(* (invalid(pattern, true) && invalid(pattern, false)) *)
Definition both_modes (st : vst) (pat : str) : decision * vst :=
  match check_pattern st pat true with
  | PvValid s => (NoReport, s)
  | PvInvalid _ s =>
      match check_pattern s pat false with
      | PvValid s' => (NoReport, s')
      | PvInvalid _ s' => (Report, s')
      | PvPanic p => (RulePanic p, s)
      | PvFuel => (RuleFuel, s)
      end
  | PvPanic p => (RulePanic p, st)
  | PvFuel => (RuleFuel, st)
  end.

Definition check_regex (st : vst) (pat : str) (fl : option str) : decision * vst :=
  match fl with
  | None => both_modes st pat
  | Some fl =>
      match validate_flags fl with
      | Some _ => (Report, st)
      | None =>
          match check_pattern st pat (existsb (N.eqb 117) fl) with
          | PvInvalid _ s => (Report, s)
          | PvValid s => (NoReport, s)
          | PvPanic p => (RulePanic p, st)
          | PvFuel => (RuleFuel, st)
          end
      end
  end.

(* all regexes of one file, one validator; a panic aborts the lint of the file: later items are not reached *)
Fixpoint check_file (st : vst) (items : list (str * option str)) : list (option decision) :=
  match items with
  | [] => []
  | (pat, fl) :: r =>
      let '(d, st') := check_regex st pat fl in
      match d with
      | RulePanic _ | RuleFuel => Some d :: map (fun _ => None) r
      | _ => Some d :: check_file st' r
      end
  end.

(* the hook regex_validate_seq: one validator, validate_pattern for each (pattern, u) *)
Inductive seq_out := SOk | SErr (m : N) | SPanic (site : N) | SFuel | SNotReached.
Fixpoint validate_seq (st : vst) (items : list (str * bool)) : list seq_out :=
  match items with
  | [] => []
  | (pat, u) :: r =>
      match check_pattern st pat u with
      | PvValid s => SOk :: validate_seq s r
      | PvInvalid m s => SErr m :: validate_seq s r
      | PvPanic p => SPanic p :: map (fun _ => SNotReached) r
      | PvFuel => SFuel :: map (fun _ => SNotReached) r
      end
  end.


(* a deliberately dirty validator state (testing history independence): wrong flags, stale last_* values,
   non-empty name sets, a reader positioned inside some other source *)
Definition dirty_vst : vst :=
  mkvst (mkreader [40; 63; 60; 97; 62; 92; 107; 60; 98; 62; 41; 123; 49; 44] 7)
        true false true (-1)%Z 77%Z 3%Z [97; 98] [71; 99] [76; 117] true 41
        [[97]; [98]; [120]] [[122]; [97]].
