(* Executable model of src/js_regex/validator.rs (EcmaRegexValidator, ecma_version = Es2022 folded in).

   * `vst` is the whole mutable state of the Rust struct (the reader is the cache-free reader of Reader.v).
   * every fallible function returns `R A`:  Ok a st | SyntaxErr msgclass st | Panic site | OutOfFuel  (st on an error = the state the Rust
     object is left in; a panic unwinds through the visitor that owns the validator, so no state survives it).
     One msgclass per distinct error string of validator.rs (E_* below).  Panic sites: the source line of the
     two `char::from_u32(..).unwrap()` (965, 970); ValidatorTotal.v shows they are unreachable.  The digit
     accumulators saturate (`saturating_mul(..).saturating_add(..)`, same in debug and release builds), so
     there is no arithmetic panic site and no build-profile switch.
   * loops are fuelled; the fuel handed out by the callers is shown sufficient in ValidatorTotal.v.
   * the model is of the code as it is.  No proofs in this file. *)
From Coq Require Import List NArith ZArith Bool.
From RecordUpdate Require Import RecordSet.
From V Require Import Common.Str Regex.Reader Gen.UnicodeProps.
Import ListNotations RecordSetNotations.
Open Scope N_scope.

(* ---- state ---- *)
Record vst := mkvst {
  rd : reader;                        (* reader: Reader (unicode, src, end, index, cps) *)
  strict : bool; uflag : bool; nflag : bool;
  liv : Z; lmin : Z; lmax : Z;        (* last_int_value, last_min_value, last_max_value : i64 *)
  lstr : str; lkey : str; lval : str; (* last_str_value, last_key_value, last_val_value *)
  laq : bool;                         (* last_assertion_is_quantifiable *)
  ncap : N;                           (* num_capturing_parens *)
  gnames : list str; brnames : list str (* group_names, backreference_names : HashSet<String> *) }.
#[export] Instance eta_vst : Settable _ :=
  settable! mkvst <rd; strict; uflag; nflag; liv; lmin; lmax; lstr; lkey; lval; laq; ncap; gnames; brnames>.

(* EcmaRegexValidator::new *)
Definition init_vst : vst := mkvst (mkreader [] 0) false false false 0%Z 0%Z 0%Z [] [] [] false 0 [] [].

Inductive R (A : Type) := Ok (a : A) (s : vst) | SyntaxErr (m : N) (s : vst) | Panic (site : N) | OutOfFuel.
Arguments Ok {A}. Arguments SyntaxErr {A}. Arguments Panic {A}. Arguments OutOfFuel {A}.
Definition bind {A B} (x : R A) (f : A -> vst -> R B) : R B :=
  match x with Ok a s => f a s | SyntaxErr m s => SyntaxErr m s | Panic p => Panic p | OutOfFuel => OutOfFuel end.
Notation "'let*' ( a , s ) := x 'in' y" := (bind x (fun a s => y))
  (at level 200, a name, s name, x at level 100, y at level 200).

(* error message classes: one per distinct message string *)
Definition E_unmatched := 1.     (* "Unmatched ')'" *)
Definition E_bs_end := 2.        (* "\\ at end of pattern" *)
Definition E_lone := 3.          (* "Lone quantifier brackets" *)
Definition E_unexpected := 4.    (* "Unexpected character {}" *)
Definition E_badref := 5.        (* "Invalid named capture referenced: {}" *)
Definition E_nothing := 6.       (* "Nothing to repeat" *)
Definition E_unterm_group := 7.  (* "Unterminated group" *)
Definition E_order := 8.         (* "numbers out of order in {} quantifier" *)
Definition E_incomplete := 9.    (* "Incomplete quantifier" *)
Definition E_invalid_group := 10. (* "Invalid group" *)
Definition E_dup := 11.          (* "Duplicate capture group name" *)
Definition E_escape := 12.       (* "Invalid escape" *)
Definition E_prop := 13.         (* "Invalid property name" *)
Definition E_named_ref := 14.    (* "Invalid named reference" *)
Definition E_unterm_class := 15. (* "Unterminated character class" *)
Definition E_class := 16.        (* "Invalid character class" *)
Definition E_range := 17.        (* "Range out of order in character class" *)
Definition E_gname := 18.        (* "Invalid capture group name" *)
Definition E_uni := 19.          (* "Invalid unicode escape" *)

(* panic sites *)
Definition P_from_u32_start := 965. (* validator.rs:964-965 char::from_u32(..).unwrap() *)
Definition P_from_u32_part := 970.  (* validator.rs:970 *)

(* ---- reader operations lifted to the validator (Deref/DerefMut) ---- *)
Definition pos (s : vst) : nat := idx (rd s).
Definition remaining (s : vst) : nat := r_remaining (rd s).
Definition cp (k : nat) (s : vst) : option N := r_cp k (rd s).
Definition advance (s : vst) : vst := s <| rd := r_advance (rd s) |>.
Definition rewind (i : nat) (s : vst) : vst := s <| rd := r_rewind i (rd s) |>.
Definition eat (c : N) (s : vst) : bool * vst :=
  match cp 0 s with Some x => if N.eqb x c then (true, advance s) else (false, s) | None => (false, s) end.
Definition eat2 (a b : N) (s : vst) : bool * vst :=
  match cp 0 s, cp 1 s with
  | Some x, Some y => if N.eqb x a && N.eqb y b then (true, advance (advance s)) else (false, s)
  | _, _ => (false, s) end.
Definition eat3 (a b c : N) (s : vst) : bool * vst :=
  match cp 0 s, cp 1 s, cp 2 s with
  | Some x, Some y, Some z =>
      if N.eqb x a && N.eqb y b && N.eqb z c then (true, advance (advance (advance s))) else (false, s)
  | _, _, _ => (false, s) end.
Definition is (c : N) (o : option N) : bool := match o with Some x => N.eqb x c | None => false end.
Definition fuel_of (s : vst) : nat := S (remaining s).

(* ---- characters ---- *)
Definition c_bs := 92. Definition c_lp := 40. Definition c_rp := 41. Definition c_lb := 91. Definition c_rb := 93.
Definition c_lc := 123. Definition c_rc := 125. Definition c_q := 63. Definition c_star := 42. Definition c_plus := 43.
Definition c_bar := 124. Definition c_caret := 94. Definition c_dollar := 36. Definition c_dot := 46.
Definition c_comma := 44. Definition c_minus := 45. Definition c_lt := 60. Definition c_gt := 62.
Definition c_eq := 61. Definition c_bang := 33. Definition c_colon := 58. Definition c_slash := 47.
Definition c_us := 95.
Definition is_syntax (c : N) : bool :=
  existsb (N.eqb c) [c_caret; c_dollar; c_bs; c_dot; c_star; c_plus; c_q; c_lp; c_rp; c_lb; c_rb; c_lc; c_rc; c_bar].
Definition is_digit (c : N) := (48 <=? c) && (c <=? 57).
Definition is_octal (c : N) := (48 <=? c) && (c <=? 55).
Definition is_alpha (c : N) := ((65 <=? c) && (c <=? 90)) || ((97 <=? c) && (c <=? 122)).
Definition is_hex (c : N) := is_digit c || ((65 <=? c) && (c <=? 70)) || ((97 <=? c) && (c <=? 102)).
Definition hexval (c : N) : Z := Z.of_N (if is_digit c then c - 48 else if c <=? 70 then c - 55 else c - 87).
Definition digval (c : N) : Z := Z.of_N (c - 48).
Definition is_id_start (c : N) : bool :=
  if c <? 65 then false else if c <? 91 then true else if c <? 97 then false else if c <? 123 then true
  else is_large_id_start c.
Definition is_id_continue (c : N) : bool :=
  if c <? 48 then false else if c <? 58 then true else if c <? 65 then false
  else if (c <? 91) || (c =? 95) then true else if c <? 97 then false else if c <? 123 then true
  else is_large_id_start c || is_large_id_continue c.
Definition is_rx_id_start (c : N) := is_id_start c || (c =? 36) || (c =? 95).
Definition is_rx_id_part (c : N) := is_id_continue c || (c =? 36) || (c =? 95) || (c =? 8204) || (c =? 8205).
Definition is_lead (z : Z) := ((55296 <=? z) && (z <=? 56319))%Z.
Definition is_trail (z : Z) := ((56320 <=? z) && (z <=? 57343))%Z.
Definition combine (l t : Z) : Z := ((l - 55296) * 1024 + (t - 56320) + 65536)%Z.
(* char::from_u32(v).is_some() *)
Definition is_scalar (c : N) : bool := (c <=? 1114111) && negb ((55296 <=? c) && (c <=? 57343)).
(* `x as u32` for x : i64 *)
Definition u32_of (z : Z) : N := Z.to_N (z mod 4294967296).
Definition is_prop_name_char (c : N) := is_alpha c || (c =? c_us).
Definition is_prop_value_char (c : N) := is_prop_name_char c || is_digit c.

(* i64 arithmetic of the digit accumulators: last_int_value.saturating_mul(radix).saturating_add(digit) *)
Definition i64max : Z := 9223372036854775807%Z.
Definition i64min : Z := (-9223372036854775808)%Z.
Definition sat64 (z : Z) : Z := Z.max i64min (Z.min i64max z).
Definition sat_mul_add (radix v d : Z) : Z := sat64 (sat64 (radix * v) + d).

(* ---- digit eaters ---- *)
(* while let Some(cp) = cp(0) { if !digit { break } liv = liv.saturating_mul(radix).saturating_add(digit); advance } *)
Fixpoint digits_loop (f : nat) (radix16 : bool) (s : vst) : R unit :=
  match f with O => OutOfFuel | S f =>
  match cp 0 s with
  | Some c =>
      if (if radix16 then is_hex c else is_digit c) then
        let z := (if radix16 then sat_mul_add 16 (liv s) (hexval c) else sat_mul_add 10 (liv s) (digval c)) in
        digits_loop f radix16 (advance (s <| liv := z |>))
      else Ok tt s
  | None => Ok tt s end end.
Definition eat_decimal_digits (s : vst) : R bool :=
  let start := pos s in
  let* (_, s') := digits_loop (fuel_of s) false (s <| liv := 0%Z |>) in Ok (negb (Nat.eqb (pos s') start)) s'.
Definition eat_hex_digits (s : vst) : R bool :=
  let start := pos s in
  let* (_, s') := digits_loop (fuel_of s) true (s <| liv := 0%Z |>) in Ok (negb (Nat.eqb (pos s') start)) s'.
(* DecimalEscape :: NonZeroDigit DecimalDigits(opt): `cp.is_ascii_digit() && cp != '0'` *)
Definition eat_decimal_escape (s : vst) : R bool :=
  let s := s <| liv := 0%Z |> in
  match cp 0 s with
  | Some c => if is_digit c && negb (N.eqb c 48) then let* (_, s') := digits_loop (fuel_of s) false s in Ok true s' else Ok false s
  | None => Ok false s end.

Fixpoint fixed_hex (n : nat) (start : nat) (s : vst) : bool * vst :=
  match n with O => (true, s) | S n =>
    match cp 0 s with
    | Some c => if is_hex c then fixed_hex n start (advance (s <| liv := (16 * liv s + hexval c)%Z |>))
                else (false, rewind start s)
    | None => (false, rewind start s) end end.
Definition eat_fixed_hex_digits (n : nat) (s : vst) : bool * vst := fixed_hex n (pos s) (s <| liv := 0%Z |>).

Definition eat_octal_digit (s : vst) : bool * vst :=
  match cp 0 s with
  | Some c => if is_octal c then (true, (advance s) <| liv := digval c |>) else (false, s <| liv := 0%Z |>)
  | None => (false, s <| liv := 0%Z |>) end.
Definition eat_legacy_octal (s : vst) : bool * vst :=
  let '(b, s) := eat_octal_digit s in
  if b then
    let n1 := liv s in
    let '(b2, s) := eat_octal_digit s in
    if b2 then
      let n2 := liv s in
      if (n1 <=? 3)%Z then
        let '(b3, s3) := eat_octal_digit s in
        if b3 then (true, s3 <| liv := (liv s3 + (n1 * 64 + n2 * 8))%Z |>)
        else (true, s3 <| liv := (n1 * 8 + n2)%Z |>)
      else (true, s <| liv := (n1 * 8 + n2)%Z |>)
    else (true, s <| liv := n1 |>)
  else (false, s).

(* ---- character escapes ---- *)
Definition eat_control_escape (s : vst) : bool * vst :=
  let '(b, s1) := eat 102 s in if b then (true, s1 <| liv := 12%Z |>) else
  let '(b, s1) := eat 110 s in if b then (true, s1 <| liv := 10%Z |>) else
  let '(b, s1) := eat 114 s in if b then (true, s1 <| liv := 13%Z |>) else
  let '(b, s1) := eat 116 s in if b then (true, s1 <| liv := 9%Z |>) else
  let '(b, s1) := eat 118 s in if b then (true, s1 <| liv := 11%Z |>) else (false, s).
Definition eat_control_letter (s : vst) : bool * vst :=
  match cp 0 s with
  | Some c => if is_alpha c then (true, (advance s) <| liv := (Z.of_N c mod 32)%Z |>) else (false, s)
  | None => (false, s) end.
Definition eat_c_control_letter (s : vst) : bool * vst :=
  let start := pos s in
  let '(b, s1) := eat 99 s in
  if b then let '(b2, s2) := eat_control_letter s1 in if b2 then (true, s2) else (false, rewind start s2)
  else (false, s1).
Definition eat_zero (s : vst) : bool * vst :=
  if negb (is 48 (cp 0 s)) then (false, s)
  else match cp 1 s with
       | Some c => if is_digit c then (false, s) else (true, advance (s <| liv := 0%Z |>))
       | None => (true, advance (s <| liv := 0%Z |>)) end.
Definition eat_hex_escape_sequence (s : vst) : R bool :=
  let start := pos s in
  let '(b, s1) := eat 120 s in
  if b then
    let '(b2, s2) := eat_fixed_hex_digits 2 s1 in
    if b2 then Ok true s2
    else if uflag s2 || strict s2 then SyntaxErr E_escape s2 else Ok false (rewind start s2)
  else Ok false s1.

Definition eat_surrogate_pair_escape (s : vst) : bool * vst :=
  let start := pos s in
  let '(b, s1) := eat_fixed_hex_digits 4 s in
  if b then
    let lead := liv s1 in
    if is_lead lead then
      let '(b2, s2) := eat c_bs s1 in
      if b2 then
        let '(b3, s3) := eat 117 s2 in
        if b3 then
          let '(b4, s4) := eat_fixed_hex_digits 4 s3 in
          if b4 then
            let trail := liv s4 in
            if is_trail trail then (true, s4 <| liv := combine lead trail |>) else (false, rewind start s4)
          else (false, rewind start s4)
        else (false, rewind start s3)
      else (false, rewind start s2)
    else (false, rewind start s1)
  else (false, s1).
Definition eat_codepoint_escape (s : vst) : R bool :=
  let start := pos s in
  let '(b, s1) := eat c_lc s in
  if b then
    let* (b2, s2) := eat_hex_digits s1 in
    if b2 then
      let '(b3, s3) := eat c_rc s2 in
      if b3 && (liv s3 <=? 1114111)%Z then Ok true s3 else Ok false (rewind start s3)
    else Ok false (rewind start s2)
  else Ok false (rewind start s1).
Definition eat_unicode_escape (force_u : bool) (s : vst) : R bool :=
  let start := pos s in
  let u := force_u || uflag s in
  let '(b, s1) := eat 117 s in
  if b then
    let '(b1, s2) := if u then eat_surrogate_pair_escape s1 else (false, s1) in
    if b1 then Ok true s2 else
    let '(b2, s3) := eat_fixed_hex_digits 4 s2 in
    if b2 then Ok true s3 else
    let* (b3, s4) := (if u then eat_codepoint_escape s3 else Ok false s3) in
    if b3 then Ok true s4 else
    if strict s4 || u then SyntaxErr E_uni s4 else Ok false (rewind start s4)
  else Ok false s1.

Definition valid_identity_escape (c : N) (s : vst) : bool :=
  if uflag s then is_syntax c || (c =? c_slash)
  else if strict s then negb (is_id_continue c)
  else if nflag s then negb ((c =? 99) || (c =? 107))
  else negb (c =? 99).
Definition eat_identity_escape (s : vst) : bool * vst :=
  match cp 0 s with
  | Some c => if valid_identity_escape c s then (true, advance (s <| liv := Z.of_N c |>)) else (false, s)
  | None => (false, s) end.

Definition consume_backreference (s : vst) : R bool :=
  let start := pos s in
  let* (b, s1) := eat_decimal_escape s in
  if b then
    if (liv s1 <=? Z.of_N (ncap s1))%Z then Ok true s1
    else if strict s1 || uflag s1 then SyntaxErr E_escape s1
    else Ok false (rewind start s1)
  else Ok false s1.

(* ---- unicode property escapes ---- *)
Fixpoint take_while (p : N -> bool) (f : nat) (s : vst) : vst :=
  match f with O => s | S f =>
    match cp 0 s with
    | Some c => if p c then take_while p f (advance (s <| lstr := lstr s ++ [c] |>)) else s
    | None => s end end.
Definition nonempty (v : str) : bool := match v with [] => false | _ => true end.
Definition eat_prop_name (s : vst) : bool * vst :=
  let s' := take_while is_prop_name_char (fuel_of s) (s <| lstr := [] |>) in (nonempty (lstr s'), s').
Definition eat_prop_value (s : vst) : bool * vst :=
  let s' := take_while is_prop_value_char (fuel_of s) (s <| lstr := [] |>) in (nonempty (lstr s'), s').
Definition GC : str := [71;101;110;101;114;97;108;95;67;97;116;101;103;111;114;121]. (* "General_Category" *)
Definition eat_lone_property (start : nat) (s : vst) : R bool :=
  let s := rewind start s in
  let '(b3, s6) := eat_prop_value s in
  if b3 then
    let nv := lstr s6 in
    if valid_unicode_property GC nv then Ok true (s6 <| lkey := GC |> <| lval := nv |>)
    else if valid_lone_unicode_property nv then Ok true (s6 <| lkey := nv |> <| lval := [] |>)
    else SyntaxErr E_prop s6
  else Ok false s6.
Definition eat_property_value_expression (s : vst) : R bool :=
  let start := pos s in
  let '(b, s1) := eat_prop_name s in
  if b then
    let '(b1, s2) := eat c_eq s1 in
    if b1 then
      let s2 := s2 <| lkey := lstr s2 |> in
      let '(b2, s3) := eat_prop_value s2 in
      if b2 then
        let s3 := s3 <| lval := lstr s3 |> in
        if valid_unicode_property (lkey s3) (lval s3) then Ok true s3 else SyntaxErr E_prop s3
      else eat_lone_property start s3
    else eat_lone_property start s2
  else eat_lone_property start s1.

Definition consume_character_class_escape (s : vst) : R bool :=
  let '(b, s1) := eat 100 s in if b then Ok true (s1 <| liv := (-1)%Z |>) else
  let '(b, s1) := eat 68 s in if b then Ok true (s1 <| liv := (-1)%Z |>) else
  let '(b, s1) := eat 115 s in if b then Ok true (s1 <| liv := (-1)%Z |>) else
  let '(b, s1) := eat 83 s in if b then Ok true (s1 <| liv := (-1)%Z |>) else
  let '(b, s1) := eat 119 s in if b then Ok true (s1 <| liv := (-1)%Z |>) else
  let '(b, s1) := eat 87 s in if b then Ok true (s1 <| liv := (-1)%Z |>) else
  if uflag s then
    let '(b, s1) := eat 112 s in
    let '(b, s1) := if b then (true, s1) else eat 80 s1 in
    if b then
      let s1 := s1 <| liv := (-1)%Z |> in
      let '(b1, s2) := eat c_lc s1 in
      if b1 then
        let* (b2, s3) := eat_property_value_expression s2 in
        if b2 then let '(b3, s4) := eat c_rc s3 in if b3 then Ok true s4 else SyntaxErr E_prop s4
        else SyntaxErr E_prop s3
      else SyntaxErr E_prop s2
    else Ok false s1
  else Ok false s.

Definition consume_character_escape (s : vst) : R bool :=
  let '(b, s1) := eat_control_escape s in if b then Ok true s1 else
  let '(b, s1) := eat_c_control_letter s1 in if b then Ok true s1 else
  let '(b, s1) := eat_zero s1 in if b then Ok true s1 else
  let* (b, s2) := eat_hex_escape_sequence s1 in if b then Ok true s2 else
  let* (b, s3) := eat_unicode_escape false s2 in if b then Ok true s3 else
  let '(b, s4) := if negb (strict s3) && negb (uflag s3) then eat_legacy_octal s3 else (false, s3) in
  if b then Ok true s4 else
  let '(b, s5) := eat_identity_escape s4 in Ok b s5.

(* ---- identifier names ---- *)
Definition back_to (start : nat) (s : vst) : vst := if Nat.eqb (pos s) start then s else rewind start s.
Definition eat_rx_id_start (s : vst) : R bool :=
  let start := pos s in
  let force_u := negb (uflag s) in
  match cp 0 s with
  | Some c0 =>
      let s1 := advance s in
      let cp1 := cp 0 s1 in
      let* (c, s2) :=
        (let* (b, s2) := (if N.eqb c0 c_bs then eat_unicode_escape force_u s1 else Ok false s1) in
         if b then Ok (u32_of (liv s2)) s2
         else if force_u && is_lead (Z.of_N c0) then
           match cp1 with
           | Some t => if is_trail (Z.of_N t) then Ok (u32_of (combine (Z.of_N c0) (Z.of_N t))) (advance s2)
                       else Ok c0 s2
           | None => Ok c0 s2 end
         else Ok c0 s2) in
      if is_rx_id_start c then Ok true (s2 <| liv := Z.of_N c |>)
      else Ok false (back_to start s2)
  | None => Ok false (back_to start s)
  end.
Definition eat_rx_id_part (s : vst) : R bool :=
  let start := pos s in
  let force_u := negb (uflag s) in
  let c0 := cp 0 s in
  let s1 := advance s in
  let cp1 := cp 0 s1 in
  let* (oc, s2) :=
    (let* (b, s2) := (if is c_bs c0 then eat_unicode_escape force_u s1 else Ok false s1) in
     if b then Ok (Some (u32_of (liv s2))) s2
     else if force_u then
       (* cp.is_some_and(lead) && cp1.is_some_and(trail) *)
       match c0 with
       | None => Ok c0 s2
       | Some l =>
          if is_lead (Z.of_N l) then
            match cp1 with
            | None => Ok c0 s2
            | Some t => if is_trail (Z.of_N t) then Ok (Some (u32_of (combine (Z.of_N l) (Z.of_N t)))) (advance s2)
                        else Ok c0 s2
            end
          else Ok c0 s2
       end
     else Ok c0 s2) in
  match oc with
  | Some c => if is_rx_id_part c then Ok true (s2 <| liv := Z.of_N c |>) else Ok false (back_to start s2)
  | None => Ok false (back_to start s2)
  end.
Fixpoint id_parts (f : nat) (s : vst) : R unit :=
  match f with O => OutOfFuel | S f =>
    let* (b, s1) := eat_rx_id_part s in
    if b then
      if is_scalar (u32_of (liv s1)) then id_parts f (s1 <| lstr := lstr s1 ++ [u32_of (liv s1)] |>)
      else Panic P_from_u32_part
    else Ok tt s1 end.
Definition eat_rx_identifier_name (s : vst) : R bool :=
  let* (b, s1) := eat_rx_id_start s in
  if b then
    if is_scalar (u32_of (liv s1)) then
      let* (_, s2) := id_parts (fuel_of s1) (s1 <| lstr := [u32_of (liv s1)] |>) in Ok true s2
    else Panic P_from_u32_start
  else Ok false s1.
Definition eat_group_name (s : vst) : R bool :=
  let '(b, s1) := eat c_lt s in
  if b then
    let* (b1, s2) := eat_rx_identifier_name s1 in
    if b1 then let '(b2, s3) := eat c_gt s2 in if b2 then Ok true s3 else SyntaxErr E_gname s3
    else SyntaxErr E_gname s2
  else Ok false s1.
Definition consume_k_group_name (s : vst) : R bool :=
  let '(b, s1) := eat 107 s in
  if b then
    let* (b1, s2) := eat_group_name s1 in
    if b1 then Ok true (s2 <| brnames := lstr s2 :: brnames s2 |>) else SyntaxErr E_named_ref s2
  else Ok false s1.
Definition consume_group_specifier (s : vst) : R bool :=
  let '(b, s1) := eat c_q s in
  if b then
    let* (b1, s2) := eat_group_name s1 in
    if b1 then
      if negb (mem (lstr s2) (gnames s2)) then Ok true (s2 <| gnames := lstr s2 :: gnames s2 |>)
      else SyntaxErr E_dup s2
    else SyntaxErr E_invalid_group s2
  else Ok false s1.

Definition consume_atom_escape (s : vst) : R bool :=
  let* (b, s1) := consume_backreference s in if b then Ok true s1 else
  let* (b, s2) := consume_character_class_escape s1 in if b then Ok true s2 else
  let* (b, s3) := consume_character_escape s2 in if b then Ok true s3 else
  let* (b, s4) := (if nflag s3 then consume_k_group_name s3 else Ok false s3) in if b then Ok true s4 else
  if strict s4 || uflag s4 then SyntaxErr E_escape s4 else Ok false s4.
Definition consume_reverse_solidus_atom_escape (s : vst) : R bool :=
  let start := pos s in
  let '(b, s1) := eat c_bs s in
  if b then let* (b1, s2) := consume_atom_escape s1 in if b1 then Ok true s2 else Ok false (rewind start s2)
  else Ok false s1.

(* ---- character classes ---- *)
Definition consume_class_escape (s : vst) : R bool :=
  let '(b, s1) := eat 98 s in if b then Ok true (s1 <| liv := 8%Z |>) else
  let '(b, s1) := if uflag s1 then eat c_minus s1 else (false, s1) in if b then Ok true (s1 <| liv := 45%Z |>) else
  let k (s : vst) : R bool :=
    let* (b, s2) := consume_character_class_escape s in if b then Ok true s2 else consume_character_escape s2 in
  if negb (strict s1) && negb (uflag s1) && is 99 (cp 0 s1) then
    match cp 1 s1 with
    | Some c => if is_digit c || (c =? c_us) then Ok true ((advance (advance s1)) <| liv := (Z.of_N c mod 32)%Z |>)
                else k s1
    | None => k s1 end
  else k s1.
Definition consume_class_atom (s : vst) : R bool :=
  let start := pos s in
  match cp 0 s with
  | Some c =>
      if negb (N.eqb c c_bs) && negb (N.eqb c c_rb) then Ok true ((advance s) <| liv := Z.of_N c |>) else
      let '(b, s1) := eat c_bs s in
      if b then
        let* (b1, s2) := consume_class_escape s1 in
        if b1 then Ok true s2
        else if negb (strict s2) && is 99 (cp 0 s2) then Ok true (s2 <| liv := 92%Z |>)
        else if strict s2 || uflag s2 then SyntaxErr E_escape s2
        else Ok false (rewind start s2)
      else Ok false s1
  | None => Ok false s
  end.
Fixpoint class_ranges (f : nat) (s : vst) : R unit :=
  match f with O => OutOfFuel | S f =>
    let* (b, s1) := consume_class_atom s in
    if negb b then Ok tt s1 else
    let mn := liv s1 in
    let '(b1, s2) := eat c_minus s1 in
    if negb b1 then class_ranges f s2 else
    let* (b2, s3) := consume_class_atom s2 in
    if negb b2 then Ok tt s3 else
    let mx := liv s3 in
    if (mn =? -1)%Z || (mx =? -1)%Z then (if strict s3 then SyntaxErr E_class s3 else class_ranges f s3)
    else if (mx <? mn)%Z then SyntaxErr E_range s3 else class_ranges f s3 end.
Definition consume_character_class (s : vst) : R bool :=
  let '(b, s1) := eat c_lb s in
  if negb b then Ok false s1 else
  let '(_, s1) := eat c_caret s1 in   (* `[^`: self.eat('^'); *)
  let* (_, s2) := class_ranges (fuel_of s1) s1 in
  let '(b2, s3) := eat c_rb s2 in
  if b2 then Ok true s3 else SyntaxErr E_unterm_class s3.

(* ---- quantifiers ---- *)
Definition eat_braced_quantifier (no_error : bool) (s : vst) : R bool :=
  let start := pos s in
  let '(b, s1) := eat c_lc s in
  if negb b then Ok false s1 else
  let s1 := s1 <| lmin := 0%Z |> <| lmax := i64max |> in
  let* (bd, s2) := eat_decimal_digits s1 in
  let fail (s : vst) : R bool :=
    if negb no_error && (uflag s || strict s) then SyntaxErr E_incomplete s else Ok false (rewind start s) in
  if bd then
    let s2 := s2 <| lmin := liv s2 |> <| lmax := liv s2 |> in
    let '(bc, s3) := eat c_comma s2 in
    let* (_, s4) := (if bc then
                       let* (bd2, s4) := eat_decimal_digits s3 in
                       Ok tt (s4 <| lmax := if bd2 then liv s4 else i64max |>)
                     else Ok tt s3) in
    let '(br, s5) := eat c_rc s4 in
    if br then
      if negb no_error && (lmax s5 <? lmin s5)%Z then SyntaxErr E_order s5 else Ok true s5
    else fail s5
  else fail s2.
Definition consume_quantifier (no_consume : bool) (s : vst) : R bool :=
  let '(b, s1) := eat c_star s in
  let '(b, s1) := if b then (true, s1) else eat c_plus s1 in
  let '(b, s1) := if b then (true, s1) else eat c_q s1 in
  let* (b, s2) := (if b then Ok true s1 else eat_braced_quantifier no_consume s1) in
  if b then Ok true (snd (eat c_q s2)) else Ok false s2.

Definition consume_pattern_character (s : vst) : bool * vst :=
  match cp 0 s with Some c => if negb (is_syntax c) then (true, advance s) else (false, s) | None => (false, s) end.
Definition consume_extended_pattern_character (s : vst) : bool * vst :=
  match cp 0 s with
  | Some c =>
      if negb (existsb (N.eqb c) [c_caret; c_dollar; c_bs; c_dot; c_star; c_plus; c_q; c_lp; c_rp; c_lb; c_bar])
      then (true, advance s) else (false, s)
  | None => (false, s) end.
Definition consume_bs_followed_by_c (s : vst) : bool * vst :=
  if is c_bs (cp 0 s) && is 99 (cp 1 s) then (true, advance (s <| liv := 92%Z |>)) else (false, s).

(* ---- the recursive knot ----
   consume_disjunction -> consume_alternative -> consume_term -> consume_assertion / consume_atom /
   consume_extended_atom -> consume_(un)capturing_group -> consume_disjunction.
   The functions below take the recursive call `disj` (consume_disjunction one nesting level deeper) as a
   parameter; `disjunction f` ties the knot with f = remaining nesting depth.  The two `while` loops
   (terms of an alternative, alternatives of a disjunction) have their own fuel. *)
Section Knot.
Variable disj : vst -> R unit.

Definition assertion (s : vst) : R bool :=
  let start := pos s in
  let s := s <| laq := false |> in
  let '(b, s1) := eat c_caret s in if b then Ok true s1 else
  let '(b, s1) := eat c_dollar s1 in if b then Ok true s1 else
  let '(b, s1) := eat2 c_bs 66 s1 in if b then Ok true s1 else
  let '(b, s1) := eat2 c_bs 98 s1 in if b then Ok true s1 else
  let '(b, s1) := eat2 c_lp c_q s1 in
  if b then
    let '(lookbehind, s2) := eat c_lt s1 in
    let '(fl, s3) := eat c_eq s2 in
    let '(fl, s3) := if fl then (true, s3) else eat c_bang s3 in
    if fl then
      let* (_, s4) := disj s3 in
      let '(cl, s5) := eat c_rp s4 in
      if negb cl then SyntaxErr E_unterm_group s5 else Ok true (s5 <| laq := negb lookbehind && negb (strict s5) |>)
    else Ok false (rewind start s3)
  else Ok false s1.
Definition uncapturing_group (s : vst) : R bool :=
  let '(b, s1) := eat3 c_lp c_q c_colon s in
  if b then
    let* (_, s2) := disj s1 in
    let '(cl, s3) := eat c_rp s2 in if cl then Ok true s3 else SyntaxErr E_unterm_group s3
  else Ok false s1.
Definition capturing_group (s : vst) : R bool :=
  let '(b, s1) := eat c_lp s in
  if negb b then Ok false s1 else
  let* (_, s2) := consume_group_specifier s1 in
  let* (_, s3) := disj s2 in
  let '(cl, s4) := eat c_rp s3 in if cl then Ok true s4 else SyntaxErr E_unterm_group s4.
Definition atom (s : vst) : R bool :=
  let '(b, s1) := consume_pattern_character s in if b then Ok true s1 else
  let '(b, s1) := eat c_dot s1 in if b then Ok true s1 else
  let* (b, s2) := consume_reverse_solidus_atom_escape s1 in if b then Ok true s2 else
  let* (b, s3) := consume_character_class s2 in if b then Ok true s3 else
  let* (b, s4) := uncapturing_group s3 in if b then Ok true s4 else
  capturing_group s4.
Definition extended_atom (s : vst) : R bool :=
  let '(b, s1) := eat c_dot s in if b then Ok true s1 else
  let* (b, s2) := consume_reverse_solidus_atom_escape s1 in if b then Ok true s2 else
  let '(b, s3) := consume_bs_followed_by_c s2 in if b then Ok true s3 else
  let* (b, s4) := consume_character_class s3 in if b then Ok true s4 else
  let* (b, s5) := uncapturing_group s4 in if b then Ok true s5 else
  let* (b, s6) := capturing_group s5 in if b then Ok true s6 else
  let* (b, s7) := eat_braced_quantifier true s6 in if b then SyntaxErr E_nothing s7 else
  let '(b, s8) := consume_extended_pattern_character s7 in Ok b s8.
Definition term (s : vst) : R bool :=
  if uflag s || strict s then
    let* (a, s1) := assertion s in
    if a then Ok true s1 else
    let* (b, s2) := atom s1 in
    if b then let* (_, s3) := consume_quantifier false s2 in Ok true s3 else Ok false s2
  else
    let* (a, s1) := assertion s in
    let* (ok, s2) := (if a then (if negb (laq s1) then Ok true s1
                                 else let* (_, s2) := consume_quantifier false s1 in Ok true s2)
                      else Ok false s1) in
    if ok then Ok true s2 else
    let* (b, s3) := extended_atom s2 in
    if b then let* (_, s4) := consume_quantifier false s3 in Ok true s4 else Ok false s3.
(* while cp(0).is_some() && consume_term()? {} *)
Fixpoint alternative (g : nat) (s : vst) : R unit :=
  match g with O => OutOfFuel | S g =>
    match cp 0 s with
    | None => Ok tt s
    | Some _ => let* (b, s1) := term s in if b then alternative g s1 else Ok tt s1
    end
  end.
(* while eat('|') { consume_alternative()? } *)
Fixpoint bars (g : nat) (s : vst) : R unit :=
  match g with O => OutOfFuel | S g =>
    let '(b, s') := eat c_bar s in
    if b then let* (_, s'') := alternative (fuel_of s') s' in bars g s'' else Ok tt s'
  end.
Definition disjunction_body (s : vst) : R unit :=
  let* (_, s1) := alternative (fuel_of s) s in
  let* (_, s2) := bars (fuel_of s1) s1 in
  let* (q, s3) := consume_quantifier true s2 in
  if q then SyntaxErr E_nothing s3 else
  let '(b, s4) := eat c_lc s3 in
  if b then SyntaxErr E_lone s4 else Ok tt s4.
End Knot.

Fixpoint disjunction (f : nat) (s : vst) : R unit :=
  match f with O => OutOfFuel | S f => disjunction_body (disjunction f) s end.

(* count_capturing_parens over the units from the current index (it rewinds to where it started) *)
Fixpoint count_parens (l : list N) (in_class escaped : bool) (acc : N) : N :=
  match l with
  | [] => acc
  | c :: r =>
      if escaped then count_parens r in_class false acc
      else if N.eqb c c_bs then count_parens r in_class true acc
      else if N.eqb c c_lb then count_parens r true false acc
      else if N.eqb c c_rb then count_parens r false false acc
      else if N.eqb c c_lp && negb in_class &&
              (negb (is c_q (nth_error r 0)) ||
               (is c_lt (nth_error r 1) && negb (is c_eq (nth_error r 2)) && negb (is c_bang (nth_error r 2))))
           then count_parens r in_class false (acc + 1)
      else count_parens r in_class false acc
  end.
Definition count_capturing_parens (s : vst) : N := count_parens (skipn (pos s) (units (rd s))) false false 0.

(* nesting depth available to consume_disjunction: every level of nesting consumes at least one `(` *)
Definition pattern_fuel (s : vst) : nat := S (remaining s).

Definition consume_pattern (s : vst) : R unit :=
  let s := s <| ncap := count_capturing_parens s |> <| gnames := [] |> <| brnames := [] |> in
  let* (_, s1) := disjunction (pattern_fuel s) s in
  match cp 0 s1 with
  | Some c => if N.eqb c c_rp then SyntaxErr E_unmatched s1 else if N.eqb c c_bs then SyntaxErr E_bs_end s1
              else if N.eqb c c_rb || N.eqb c c_rc then SyntaxErr E_lone s1 else SyntaxErr E_unexpected s1
  | None => if existsb (fun n => negb (mem n (gnames s1))) (brnames s1) then SyntaxErr E_badref s1 else Ok tt s1
  end.

(* validate_pattern(source, u_flag) with ecma_version = Es2022.  The fields written here are exactly those the
   Rust writes: strict, u_flag, n_flag, and the reader (reset).  liv/lmin/lmax/lstr/lkey/lval/laq are NOT reset. *)
Definition validate_pattern (s0 : vst) (src : str) (u : bool) : R unit :=
  let s := s0 <| strict := u |> <| uflag := u |> <| nflag := u |> <| rd := mkreader (visible_units src u) 0 |> in
  let* (_, s1) := consume_pattern s in
  if negb (nflag s1) && negb (match gnames s1 with [] => true | _ => false end) then
    consume_pattern (rewind 0 (s1 <| nflag := true |>))
  else Ok tt s1.

