(* History independence of the validator (C02 / second sentence of C12).

   Rust's validate_pattern resets strict, u_flag, n_flag and the reader; consume_pattern resets
   num_capturing_parens, group_names, backreference_names.  NOT reset: last_int_value, last_min_value,
   last_max_value, last_str_value, last_key_value, last_val_value, last_assertion_is_quantifiable.  This file
   proves that each of those seven is always written before it is read: two runs from states that agree on the
   reset fields (`eqv`) proceed in lock step (`Rrel`/`Prel`), one relational lemma per function of Validator.v.
   Where a value is read after an intervening call, the callee's lemma carries the frame that is needed
   (`fr`: digits/hex/unicode-escape eaters touch only the reader and last_int_value; `QTW`/`QP`: the property
   eaters touch neither last_key_value nor last_int_value).
   Main results: validator_history_independent, check_regex_history_independent, check_file_each_fresh,
   validate_seq_history_independent. *)
From Coq Require Import List NArith ZArith Bool Lia.
From RecordUpdate Require Import RecordSet.
From V Require Import Common.Str Regex.Reader Gen.UnicodeProps Regex.Validator Regex.RuleDecision.
Import ListNotations RecordSetNotations.

Definition eqv (s1 s2 : vst) : Prop :=
  rd s1 = rd s2 /\ strict s1 = strict s2 /\ uflag s1 = uflag s2 /\ nflag s1 = nflag s2 /\
  ncap s1 = ncap s2 /\ gnames s1 = gnames s2 /\ brnames s1 = brnames s2.

Definition Rrel {A} (Q : A -> vst -> vst -> Prop) (r1 r2 : R A) : Prop :=
  match r1, r2 with
  | Ok a1 t1, Ok a2 t2 => a1 = a2 /\ Q a1 t1 t2
  | SyntaxErr m1 t1, SyntaxErr m2 t2 => m1 = m2 /\ eqv t1 t2
  | Panic p1, Panic p2 => p1 = p2
  | OutOfFuel, OutOfFuel => True
  | _, _ => False
  end.
Definition Prel (Q : bool -> vst -> vst -> Prop) (p1 p2 : bool * vst) : Prop :=
  fst p1 = fst p2 /\ Q (fst p1) (snd p1) (snd p2).

(* frame: every scratch field except last_int_value is unchanged *)
Definition fr (s t : vst) : Prop :=
  lmin t = lmin s /\ lmax t = lmax s /\ lstr t = lstr s /\ lkey t = lkey s /\ lval t = lval s /\ laq t = laq s.

Definition QE {A} (_ : A) (t1 t2 : vst) := eqv t1 t2.
Definition QLa {A} (_ : A) (t1 t2 : vst) := eqv t1 t2 /\ liv t1 = liv t2.
Definition QL (b : bool) (t1 t2 : vst) := eqv t1 t2 /\ (b = true -> liv t1 = liv t2).
Definition QLaf {A} (s1 s2 : vst) (_ : A) (t1 t2 : vst) := eqv t1 t2 /\ liv t1 = liv t2 /\ fr s1 t1 /\ fr s2 t2.
Definition QLf (s1 s2 : vst) (b : bool) (t1 t2 : vst) :=
  eqv t1 t2 /\ (b = true -> liv t1 = liv t2) /\ fr s1 t1 /\ fr s2 t2.
Definition QSa {A} (_ : A) (t1 t2 : vst) := eqv t1 t2 /\ lstr t1 = lstr t2.
Definition QS (b : bool) (t1 t2 : vst) := eqv t1 t2 /\ (b = true -> lstr t1 = lstr t2).
Definition QQ {A} (_ : A) (t1 t2 : vst) := eqv t1 t2 /\ laq t1 = laq t2.

(* take_while only touches the reader and last_str_value *)
Definition QTW (s1 s2 : vst) (t1 t2 : vst) :=
  eqv t1 t2 /\ lstr t1 = lstr t2 /\ (lkey t1 = lkey s1 /\ liv t1 = liv s1) /\ (lkey t2 = lkey s2 /\ liv t2 = liv s2).
Definition QTWb (s1 s2 : vst) (_ : bool) (t1 t2 : vst) := QTW s1 s2 t1 t2.
Definition QP {A} (s1 s2 : vst) (_ : A) (t1 t2 : vst) := eqv t1 t2 /\ liv t1 = liv s1 /\ liv t2 = liv s2.

Ltac proj := cbn [rd strict uflag nflag liv lmin lmax lstr lkey lval laq ncap gnames brnames fst snd] in *.
Ltac unfoldQ := unfold QE, QLa, QL, QLaf, QLf, QSa, QS, QQ, QTWb, QTW, QP, fr, eqv.
Ltac unfold_hyps :=
  repeat match goal with
         | H : QE _ _ _ |- _ => unfold QE in H
         | H : QLa _ _ _ |- _ => unfold QLa in H
         | H : QL _ _ _ |- _ => unfold QL in H
         | H : QLaf _ _ _ _ _ |- _ => unfold QLaf in H
         | H : QLf _ _ _ _ _ |- _ => unfold QLf in H
         | H : QSa _ _ _ |- _ => unfold QSa in H
         | H : QS _ _ _ |- _ => unfold QS in H
         | H : QQ _ _ _ |- _ => unfold QQ in H
         | H : QTWb _ _ _ _ _ |- _ => unfold QTWb in H
         | H : QTW _ _ _ _ |- _ => unfold QTW in H
         | H : QP _ _ _ _ _ |- _ => unfold QP in H
         | H : fr _ _ |- _ => unfold fr in H
         | H : eqv _ _ |- _ => unfold eqv in H
         | H : _ /\ _ |- _ => destruct H
         end.
Ltac prim :=
  unfold back_to, consume_pattern_character, consume_extended_pattern_character, consume_bs_followed_by_c, nonempty in *;
  unfold eat, eat2, eat3, fuel_of in *; unfold advance, rewind, cp, pos, remaining, is in *;
  unfold set in *; proj.

(* destruct every state variable into constructor form and substitute the equalities *)
Ltac destruct_states :=
  repeat match goal with
         | s : vst |- _ => destruct s
         end; proj.
Ltac cleanup :=
  repeat match goal with
         | H : _ /\ _ |- _ => destruct H
         | H : negb _ = false |- _ => apply negb_false_iff in H
         | H : negb _ = true |- _ => apply negb_true_iff in H
         | H : true = true -> _ |- _ => specialize (H eq_refl)
         | H : false = true -> _ |- _ => clear H
         | H : ?x = ?x |- _ => clear H
         | H : ?x = ?y |- _ => first [is_var x; subst x | is_var y; subst y]
         end.
Ltac norm := unfold_hyps; destruct_states; cleanup.
Ltac case_scrut :=
  match goal with
  | |- context [match ?c with _ => _ end] =>
      lazymatch c with
      | context [match _ with _ => _ end] => fail
      | _ => destruct c
      end
  end.
Ltac finish :=
  unfold Prel; cbn [Rrel fst snd]; unfoldQ; proj; repeat (case_scrut; proj);
  repeat match goal with |- _ /\ _ => split end;
  try reflexivity; try congruence; try (intros; congruence); auto.

#[global] Hint Extern 1 (eqv _ _) => solve [finish] : rel.
#[global] Hint Extern 1 (@eq _ _ _) => solve [proj; congruence] : rel.

Ltac head_scrut t :=
  lazymatch t with
  | match ?c with _ => _ end =>
      lazymatch c with
      | match _ with _ => _ end => head_scrut c
      | _ => c
      end
  end.

Ltac use_lemma c1 c2 :=
  let L := fresh "L" in
  lazymatch type of c1 with
  | R _ => eassert (L : Rrel _ c1 c2) by (eauto with rel)
  | prod bool vst => eassert (L : Prel _ c1 c2) by (eauto with rel)
  end;
  let E1 := fresh "E" in let E2 := fresh "E" in
  destruct c1 eqn:E1; destruct c2 eqn:E2; unfold Prel in L; cbn [Rrel fst snd] in L;
  try contradiction; clear E1 E2; norm.

(* same scrutinee on both sides: the equation is only kept where later steps need it (negations of results) *)
Ltac case_same c :=
  lazymatch c with
  | negb _ => destruct c eqn:?
  | _ => destruct c
  end.
Ltac step :=
  lazymatch goal with
  | |- Rrel _ ?l ?r =>
      let c1 := head_scrut l in let c2 := head_scrut r in
      first [ constr_eq c1 c2; case_same c1; proj | use_lemma c1 c2 ]
  | |- Prel _ ?l ?r =>
      let c1 := head_scrut l in let c2 := head_scrut r in
      first [ constr_eq c1 c2; case_same c1; proj | use_lemma c1 c2 ]
  end.
Lemma Rrel_weaken {A} (Q' Q : A -> vst -> vst -> Prop) r1 r2 :
  Rrel Q' r1 r2 -> (forall a t1 t2, Q' a t1 t2 -> Q a t1 t2) -> Rrel Q r1 r2.
Proof. destruct r1, r2; cbn [Rrel]; try tauto. intros [-> HQ] HW; split; [reflexivity|apply HW; exact HQ]. Qed.
Lemma Prel_weaken (Q' Q : bool -> vst -> vst -> Prop) p1 p2 :
  Prel Q' p1 p2 -> (forall a t1 t2, Q' a t1 t2 -> Q a t1 t2) -> Prel Q p1 p2.
Proof. destruct p1, p2; unfold Prel; cbn [fst snd]. intros [-> HQ] HW; split; [reflexivity|apply HW; exact HQ]. Qed.

(* the goal is a direct call (tail call): use its lemma and weaken the postcondition *)
Ltac tail :=
  lazymatch goal with
  | |- Rrel _ (Ok _ _) _ => fail
  | |- Rrel _ (SyntaxErr _ _) _ => fail
  | |- Rrel _ (Panic _) _ => fail
  | |- Rrel _ OutOfFuel _ => fail
  | |- Prel _ (pair _ _) _ => fail
  | |- Rrel _ _ _ => eapply Rrel_weaken; [solve [eauto with rel] | intros; norm; finish]
  | |- Prel _ _ _ => eapply Prel_weaken; [solve [eauto with rel] | intros; norm; finish]
  end.
Ltac go := repeat (step; cleanup); first [tail | finish].

Section Rel.

Lemma digits_loop_rel f r16 : forall s1 s2, eqv s1 s2 -> liv s1 = liv s2 ->
  Rrel (QLaf s1 s2) (digits_loop f r16 s1) (digits_loop f r16 s2).
Proof.
  induction f as [|f IH]; intros s1 s2 H Hl; [exact I|]. norm. cbn [digits_loop]. prim.
  go.
Qed.
#[local] Hint Resolve digits_loop_rel : rel.

Lemma eat_decimal_digits_rel s1 s2 : eqv s1 s2 ->
  Rrel (QLaf s1 s2) (eat_decimal_digits s1) (eat_decimal_digits s2).
Proof. intros H. norm. unfold eat_decimal_digits, bind. prim. go. Qed.
#[local] Hint Resolve eat_decimal_digits_rel : rel.
Lemma eat_hex_digits_rel s1 s2 : eqv s1 s2 ->
  Rrel (QLaf s1 s2) (eat_hex_digits s1) (eat_hex_digits s2).
Proof. intros H. norm. unfold eat_hex_digits, bind. prim. go. Qed.
#[local] Hint Resolve eat_hex_digits_rel : rel.
Lemma eat_decimal_escape_rel s1 s2 : eqv s1 s2 ->
  Rrel (QLaf s1 s2) (eat_decimal_escape s1) (eat_decimal_escape s2).
Proof. intros H. norm. unfold eat_decimal_escape, bind. prim. go. Qed.
#[local] Hint Resolve eat_decimal_escape_rel : rel.

Ltac start F := intros; norm; unfold F, bind; prim.

Lemma fixed_hex_rel n start : forall s1 s2, eqv s1 s2 -> liv s1 = liv s2 ->
  Prel (QLaf s1 s2) (fixed_hex n start s1) (fixed_hex n start s2).
Proof. induction n as [|n IH]; intros s1 s2 H Hl; norm; cbn [fixed_hex]; prim; go. Qed.
#[local] Hint Resolve fixed_hex_rel : rel.
Lemma eat_fixed_hex_digits_rel n s1 s2 : eqv s1 s2 ->
  Prel (QLaf s1 s2) (eat_fixed_hex_digits n s1) (eat_fixed_hex_digits n s2).
Proof. start eat_fixed_hex_digits. go. Qed.
#[local] Hint Resolve eat_fixed_hex_digits_rel : rel.
Lemma eat_octal_digit_rel s1 s2 : eqv s1 s2 -> Prel QLa (eat_octal_digit s1) (eat_octal_digit s2).
Proof. start eat_octal_digit. go. Qed.
#[local] Hint Resolve eat_octal_digit_rel : rel.
Lemma eat_legacy_octal_rel s1 s2 : eqv s1 s2 -> Prel QL (eat_legacy_octal s1) (eat_legacy_octal s2).
Proof. start eat_legacy_octal. go. Qed.
#[local] Hint Resolve eat_legacy_octal_rel : rel.
Lemma eat_control_escape_rel s1 s2 : eqv s1 s2 -> Prel QL (eat_control_escape s1) (eat_control_escape s2).
Proof. start eat_control_escape. go. Qed.
#[local] Hint Resolve eat_control_escape_rel : rel.
Lemma eat_control_letter_rel s1 s2 : eqv s1 s2 -> Prel QL (eat_control_letter s1) (eat_control_letter s2).
Proof. start eat_control_letter. go. Qed.
#[local] Hint Resolve eat_control_letter_rel : rel.
Lemma eat_c_control_letter_rel s1 s2 : eqv s1 s2 -> Prel QL (eat_c_control_letter s1) (eat_c_control_letter s2).
Proof. start eat_c_control_letter. go. Qed.
#[local] Hint Resolve eat_c_control_letter_rel : rel.
Lemma eat_zero_rel s1 s2 : eqv s1 s2 -> Prel QL (eat_zero s1) (eat_zero s2).
Proof. start eat_zero. go. Qed.
#[local] Hint Resolve eat_zero_rel : rel.
Lemma eat_hex_escape_sequence_rel s1 s2 : eqv s1 s2 -> Rrel QL (eat_hex_escape_sequence s1) (eat_hex_escape_sequence s2).
Proof. start eat_hex_escape_sequence. go. Qed.
#[local] Hint Resolve eat_hex_escape_sequence_rel : rel.
Lemma eat_surrogate_pair_escape_rel s1 s2 : eqv s1 s2 ->
  Prel (QLf s1 s2) (eat_surrogate_pair_escape s1) (eat_surrogate_pair_escape s2).
Proof. start eat_surrogate_pair_escape. go. Qed.
#[local] Hint Resolve eat_surrogate_pair_escape_rel : rel.
Lemma eat_codepoint_escape_rel s1 s2 : eqv s1 s2 ->
  Rrel (QLf s1 s2) (eat_codepoint_escape s1) (eat_codepoint_escape s2).
Proof. start eat_codepoint_escape. go. Qed.
#[local] Hint Resolve eat_codepoint_escape_rel : rel.
Lemma eat_unicode_escape_rel fu s1 s2 : eqv s1 s2 ->
  Rrel (QLf s1 s2) (eat_unicode_escape fu s1) (eat_unicode_escape fu s2).
Proof. start eat_unicode_escape. go. Qed.
#[local] Hint Resolve eat_unicode_escape_rel : rel.

Lemma eat_identity_escape_rel s1 s2 : eqv s1 s2 -> Prel QL (eat_identity_escape s1) (eat_identity_escape s2).
Proof. start eat_identity_escape. unfold valid_identity_escape. proj. go. Qed.
#[local] Hint Resolve eat_identity_escape_rel : rel.
Lemma consume_backreference_rel s1 s2 : eqv s1 s2 ->
  Rrel QL (consume_backreference s1) (consume_backreference s2).
Proof. start consume_backreference. go. Qed.
#[local] Hint Resolve consume_backreference_rel : rel.

Lemma take_while_rel p f : forall s1 s2, eqv s1 s2 -> lstr s1 = lstr s2 ->
  QTW s1 s2 (take_while p f s1) (take_while p f s2).
Proof.
  induction f as [|f IH]; intros s1 s2 H Hl; norm; cbn [take_while]; prim.
  - unfold QTW. finish.
  - destruct (r_cp 0 rd) as [c|]; [|unfold QTW; finish].
    destruct (p c); [|unfold QTW; finish].
    match goal with
    | |- QTW _ _ (take_while _ _ ?a) (take_while _ _ ?b) =>
        pose proof (IH a b ltac:(finish) ltac:(proj; reflexivity)) as L
    end.
    unfold QTW in *. proj. destruct L as (L1 & L2 & (L3 & L3') & (L4 & L4')). repeat split; try assumption; apply L1.
Qed.
Lemma take_while_fresh_rel p s1 s2 : eqv s1 s2 ->
  QTW s1 s2 (take_while p (fuel_of s1) (s1 <| lstr := [] |>)) (take_while p (fuel_of s2) (s2 <| lstr := [] |>)).
Proof.
  intros H.
  assert (Hf : fuel_of s2 = fuel_of s1) by (norm; prim; reflexivity). rewrite Hf.
  assert (He : eqv (s1 <| lstr := [] |>) (s2 <| lstr := [] |>)) by (norm; prim; finish).
  exact (take_while_rel p (fuel_of s1) _ _ He eq_refl).
Qed.
Lemma eat_prop_name_rel s1 s2 : eqv s1 s2 -> Prel (QTWb s1 s2) (eat_prop_name s1) (eat_prop_name s2).
Proof.
  intros H. pose proof (take_while_fresh_rel is_prop_name_char s1 s2 H) as L.
  unfold eat_prop_name, Prel, QTWb. cbn [fst snd]. split; [|exact L]. destruct L as (_ & -> & _). reflexivity.
Qed.
#[local] Hint Resolve eat_prop_name_rel : rel.
Lemma eat_prop_value_rel s1 s2 : eqv s1 s2 -> Prel (QTWb s1 s2) (eat_prop_value s1) (eat_prop_value s2).
Proof.
  intros H. pose proof (take_while_fresh_rel is_prop_value_char s1 s2 H) as L.
  unfold eat_prop_value, Prel, QTWb. cbn [fst snd]. split; [|exact L]. destruct L as (_ & -> & _). reflexivity.
Qed.
#[local] Hint Resolve eat_prop_value_rel : rel.
Lemma eat_lone_property_rel start s1 s2 : eqv s1 s2 ->
  Rrel (QP s1 s2) (eat_lone_property start s1) (eat_lone_property start s2).
Proof. start eat_lone_property. go. Qed.
#[local] Hint Resolve eat_lone_property_rel : rel.
Lemma eat_property_value_expression_rel s1 s2 : eqv s1 s2 ->
  Rrel (QP s1 s2) (eat_property_value_expression s1) (eat_property_value_expression s2).
Proof. start eat_property_value_expression. go. Qed.
#[local] Hint Resolve eat_property_value_expression_rel : rel.
Lemma consume_character_class_escape_rel s1 s2 : eqv s1 s2 ->
  Rrel QL (consume_character_class_escape s1) (consume_character_class_escape s2).
Proof. start consume_character_class_escape. go. Qed.
#[local] Hint Resolve consume_character_class_escape_rel : rel.
Lemma consume_character_escape_rel s1 s2 : eqv s1 s2 ->
  Rrel QL (consume_character_escape s1) (consume_character_escape s2).
Proof. start consume_character_escape. go. Qed.
#[local] Hint Resolve consume_character_escape_rel : rel.

Lemma eat_rx_id_start_rel s1 s2 : eqv s1 s2 -> Rrel QL (eat_rx_id_start s1) (eat_rx_id_start s2).
Proof. start eat_rx_id_start. go. Qed.
#[local] Hint Resolve eat_rx_id_start_rel : rel.
Lemma eat_rx_id_part_rel s1 s2 : eqv s1 s2 -> Rrel (QLf s1 s2) (eat_rx_id_part s1) (eat_rx_id_part s2).
Proof. start eat_rx_id_part. go. Qed.
#[local] Hint Resolve eat_rx_id_part_rel : rel.
Lemma id_parts_rel f : forall s1 s2, eqv s1 s2 -> lstr s1 = lstr s2 ->
  Rrel QSa (id_parts f s1) (id_parts f s2).
Proof. induction f as [|f IH]; intros s1 s2 H Hl; [exact I|]. norm. cbn [id_parts]. unfold bind. prim. go. Qed.
#[local] Hint Resolve id_parts_rel : rel.
Lemma eat_rx_identifier_name_rel s1 s2 : eqv s1 s2 ->
  Rrel QS (eat_rx_identifier_name s1) (eat_rx_identifier_name s2).
Proof. start eat_rx_identifier_name. go. Qed.
#[local] Hint Resolve eat_rx_identifier_name_rel : rel.
Lemma eat_group_name_rel s1 s2 : eqv s1 s2 -> Rrel QS (eat_group_name s1) (eat_group_name s2).
Proof. start eat_group_name. go. Qed.
#[local] Hint Resolve eat_group_name_rel : rel.
Lemma consume_k_group_name_rel s1 s2 : eqv s1 s2 -> Rrel QE (consume_k_group_name s1) (consume_k_group_name s2).
Proof. start consume_k_group_name. go. Qed.
#[local] Hint Resolve consume_k_group_name_rel : rel.
Lemma consume_group_specifier_rel s1 s2 : eqv s1 s2 ->
  Rrel QE (consume_group_specifier s1) (consume_group_specifier s2).
Proof. start consume_group_specifier. go. Qed.
#[local] Hint Resolve consume_group_specifier_rel : rel.
Lemma consume_atom_escape_rel s1 s2 : eqv s1 s2 -> Rrel QE (consume_atom_escape s1) (consume_atom_escape s2).
Proof. start consume_atom_escape. go. Qed.
#[local] Hint Resolve consume_atom_escape_rel : rel.
Lemma consume_reverse_solidus_atom_escape_rel s1 s2 : eqv s1 s2 ->
  Rrel QE (consume_reverse_solidus_atom_escape s1) (consume_reverse_solidus_atom_escape s2).
Proof. start consume_reverse_solidus_atom_escape. go. Qed.
#[local] Hint Resolve consume_reverse_solidus_atom_escape_rel : rel.
Lemma consume_class_escape_rel s1 s2 : eqv s1 s2 -> Rrel QL (consume_class_escape s1) (consume_class_escape s2).
Proof. start consume_class_escape. go. Qed.
#[local] Hint Resolve consume_class_escape_rel : rel.
Lemma consume_class_atom_rel s1 s2 : eqv s1 s2 -> Rrel QL (consume_class_atom s1) (consume_class_atom s2).
Proof. start consume_class_atom. go. Qed.
#[local] Hint Resolve consume_class_atom_rel : rel.
Lemma class_ranges_rel f : forall s1 s2, eqv s1 s2 -> Rrel QE (class_ranges f s1) (class_ranges f s2).
Proof. induction f as [|f IH]; intros s1 s2 H; [exact I|]. norm. cbn [class_ranges]. unfold bind. prim. go. Qed.
#[local] Hint Resolve class_ranges_rel : rel.
Lemma consume_character_class_rel s1 s2 : eqv s1 s2 ->
  Rrel QE (consume_character_class s1) (consume_character_class s2).
Proof. start consume_character_class. go. Qed.
#[local] Hint Resolve consume_character_class_rel : rel.
Lemma eat_braced_quantifier_rel ne s1 s2 : eqv s1 s2 ->
  Rrel QE (eat_braced_quantifier ne s1) (eat_braced_quantifier ne s2).
Proof. start eat_braced_quantifier. go. Qed.
#[local] Hint Resolve eat_braced_quantifier_rel : rel.
Lemma consume_quantifier_rel nc s1 s2 : eqv s1 s2 -> Rrel QE (consume_quantifier nc s1) (consume_quantifier nc s2).
Proof. start consume_quantifier. go. Qed.
#[local] Hint Resolve consume_quantifier_rel : rel.

Section KnotRel.
Variable disj : vst -> R unit.
Hypothesis disj_rel : forall s1 s2, eqv s1 s2 -> Rrel QE (disj s1) (disj s2).
#[local] Hint Resolve disj_rel : rel.

Lemma assertion_rel s1 s2 : eqv s1 s2 -> Rrel QQ (assertion disj s1) (assertion disj s2).
Proof. start assertion. go. Qed.
#[local] Hint Resolve assertion_rel : rel.
Lemma uncapturing_group_rel s1 s2 : eqv s1 s2 -> Rrel QE (uncapturing_group disj s1) (uncapturing_group disj s2).
Proof. start uncapturing_group. go. Qed.
#[local] Hint Resolve uncapturing_group_rel : rel.
Lemma capturing_group_rel s1 s2 : eqv s1 s2 -> Rrel QE (capturing_group disj s1) (capturing_group disj s2).
Proof. start capturing_group. go. Qed.
#[local] Hint Resolve capturing_group_rel : rel.
Lemma atom_rel s1 s2 : eqv s1 s2 -> Rrel QE (atom disj s1) (atom disj s2).
Proof. start atom. go. Qed.
#[local] Hint Resolve atom_rel : rel.
Lemma extended_atom_rel s1 s2 : eqv s1 s2 -> Rrel QE (extended_atom disj s1) (extended_atom disj s2).
Proof. start extended_atom. go. Qed.
#[local] Hint Resolve extended_atom_rel : rel.
Lemma term_rel s1 s2 : eqv s1 s2 -> Rrel QE (term disj s1) (term disj s2).
Proof. start term. go. Qed.
#[local] Hint Resolve term_rel : rel.
Lemma alternative_rel g : forall s1 s2, eqv s1 s2 -> Rrel QE (alternative disj g s1) (alternative disj g s2).
Proof. induction g as [|g IH]; intros s1 s2 H; [exact I|]. norm. cbn [alternative]. unfold bind. prim. go. Qed.
#[local] Hint Resolve alternative_rel : rel.
Lemma bars_rel g : forall s1 s2, eqv s1 s2 -> Rrel QE (bars disj g s1) (bars disj g s2).
Proof. induction g as [|g IH]; intros s1 s2 H; [exact I|]. norm. cbn [bars]. unfold bind. prim. go. Qed.
#[local] Hint Resolve bars_rel : rel.
Lemma disjunction_body_rel s1 s2 : eqv s1 s2 -> Rrel QE (disjunction_body disj s1) (disjunction_body disj s2).
Proof. start disjunction_body. go. Qed.
End KnotRel.

Lemma disjunction_rel f : forall s1 s2, eqv s1 s2 -> Rrel QE (disjunction f s1) (disjunction f s2).
Proof.
  induction f as [|f IH]; intros s1 s2 H; [exact I|]. cbn [disjunction].
  apply disjunction_body_rel; assumption.
Qed.
#[local] Hint Resolve disjunction_rel : rel.

Lemma consume_pattern_rel s1 s2 : rd s1 = rd s2 -> strict s1 = strict s2 -> uflag s1 = uflag s2 -> nflag s1 = nflag s2 ->
  Rrel QE (consume_pattern s1) (consume_pattern s2).
Proof.
  intros H1 H2 H3 H4. destruct s1, s2. proj. subst.
  unfold consume_pattern, bind, pattern_fuel, count_capturing_parens. prim. go.
Qed.

Lemma consume_pattern_rel' s1 s2 : eqv s1 s2 -> Rrel QE (consume_pattern s1) (consume_pattern s2).
Proof. intros H. unfold eqv in H. apply consume_pattern_rel; apply H. Qed.
#[local] Hint Resolve consume_pattern_rel : rel.

(* validate_pattern overwrites strict, u_flag, n_flag and the reader, and consume_pattern overwrites
   num_capturing_parens, group_names, backreference_names: nothing of the incoming state is left in `eqv`. *)
Theorem validate_pattern_rel st1 st2 src u :
  Rrel QE (validate_pattern st1 src u) (validate_pattern st2 src u).
Proof. destruct st1, st2. unfold validate_pattern, bind. prim. go. Qed.

End Rel.

Inductive verdict := VOk | VErr (m : N) | VPanic (site : N) | VFuel.
Definition verdict_of {A} (r : R A) : verdict :=
  match r with Ok _ _ => VOk | SyntaxErr m _ => VErr m | Panic p => VPanic p | OutOfFuel => VFuel end.

Lemma Rrel_verdict {A} (Q : A -> vst -> vst -> Prop) r1 r2 : Rrel Q r1 r2 -> verdict_of r1 = verdict_of r2.
Proof. destruct r1, r2; cbn [Rrel verdict_of]; try tauto; intros H; try (destruct H as [H _]; subst); congruence. Qed.

Theorem validator_history_independent : forall st1 st2 src u,
  verdict_of (validate_pattern st1 src u) = verdict_of (validate_pattern st2 src u).
Proof. intros. eapply Rrel_verdict. apply validate_pattern_rel. Qed.

(* ---- the rule: decisions do not depend on the validator's history ---- *)
Definition pv_verdict (x : pv) : verdict :=
  match x with PvValid _ => VOk | PvInvalid m _ => VErr m | PvPanic p => VPanic p | PvFuel => VFuel end.
Lemma check_pattern_indep st1 st2 src u :
  pv_verdict (check_pattern st1 src u) = pv_verdict (check_pattern st2 src u).
Proof.
  unfold check_pattern. pose proof (validator_history_independent st1 st2 src u) as H.
  destruct (validate_pattern st1 src u), (validate_pattern st2 src u); cbn in *; congruence.
Qed.
Lemma both_modes_indep st1 st2 pat : fst (both_modes st1 pat) = fst (both_modes st2 pat).
Proof.
  unfold both_modes. pose proof (check_pattern_indep st1 st2 pat true) as H.
  destruct (check_pattern st1 pat true) as [t1|m1 t1|p1|], (check_pattern st2 pat true) as [t2|m2 t2|p2|];
    cbn in H; try discriminate; cbn [fst]; try reflexivity; try congruence.
  pose proof (check_pattern_indep t1 t2 pat false) as H'.
  destruct (check_pattern t1 pat false), (check_pattern t2 pat false); cbn in H'; try discriminate; cbn [fst];
    try reflexivity; congruence.
Qed.
Theorem check_regex_history_independent : forall st1 st2 pat fl,
  fst (check_regex st1 pat fl) = fst (check_regex st2 pat fl).
Proof.
  intros st1 st2 pat [fl|]; unfold check_regex; [|apply both_modes_indep].
  destruct (validate_flags fl); [reflexivity|].
  pose proof (check_pattern_indep st1 st2 pat (existsb (N.eqb 117) fl)) as H.
  destruct (check_pattern st1 pat _) as [t1|m1 t1|p1|], (check_pattern st2 pat _) as [t2|m2 t2|p2|];
    cbn in H; try discriminate; cbn [fst]; try reflexivity; congruence.
Qed.

(* a file's worth of regexes on one validator = each regex on a fresh validator (until a panic ends the lint) *)
Definition decide (pat : str) (fl : option str) : decision := fst (check_regex init_vst pat fl).
Fixpoint stop_after (ds : list decision) : list (option decision) :=
  match ds with
  | [] => []
  | d :: r => match d with
              | RulePanic _ | RuleFuel => Some d :: map (fun _ => None) r
              | _ => Some d :: stop_after r
              end
  end.
Theorem check_file_each_fresh : forall items st,
  check_file st items = stop_after (map (fun it => decide (fst it) (snd it)) items).
Proof.
  intros items. induction items as [|[pat fl] r IH]; intros st; [reflexivity|].
  cbn [check_file map stop_after fst snd]. unfold decide.
  rewrite (check_regex_history_independent init_vst st pat fl).
  destruct (check_regex st pat fl) as [d st']. cbn [fst].
  destruct d; rewrite ?IH, ?map_map; reflexivity.
Qed.
Corollary check_file_history_independent : forall st1 st2 items,
  check_file st1 items = check_file st2 items.
Proof. intros. rewrite !check_file_each_fresh. reflexivity. Qed.

Definition seq_out_of (x : pv) : seq_out :=
  match x with PvValid _ => SOk | PvInvalid m _ => SErr m | PvPanic p => SPanic p | PvFuel => SFuel end.
Theorem validate_seq_history_independent : forall items st1 st2,
  validate_seq st1 items = validate_seq st2 items.
Proof.
  intros items. induction items as [|[pat u] r IH]; intros st1 st2; [reflexivity|].
  cbn [validate_seq]. pose proof (check_pattern_indep st1 st2 pat u) as H.
  destruct (check_pattern st1 pat u) as [t1|m1 t1|p1|], (check_pattern st2 pat u) as [t2|m2 t2|p2|];
    cbn in H; try discriminate; try reflexivity.
  - f_equal. apply IH.
  - injection H as ->. f_equal. apply IH.
  - injection H as ->. reflexivity.
Qed.

(* non-vacuity: the dirty state differs from the initial one in every field, and a state is really threaded *)
Example dirty_differs : dirty_vst <> init_vst. Proof. discriminate. Qed.
Example threaded_state_changes :
  match validate_pattern init_vst [40; 63; 60; 97; 62; 41] false with  (* (?<a>) *)
  | Ok _ s => gnames s = [[97]] /\ nflag s = true
  | _ => False end.
Proof. vm_compute. split; reflexivity. Qed.

Print Assumptions validator_history_independent.
Print Assumptions check_regex_history_independent.
Print Assumptions check_file_each_fresh.
Print Assumptions validate_seq_history_independent.
