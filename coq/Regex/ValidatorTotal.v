(* Totality of the validator model (C01 for js_regex, shared with C12):
     validator_never_panics    : validate_pattern never returns Panic (the two char::from_u32(..).unwrap() sites
                                 965/970 are unreachable: every RegExpIdentifierStart/Part is a scalar value);
     validator_fuel_sufficient : validate_pattern never returns OutOfFuel: the fuel the model hands out itself
                                 (nesting depth S(remaining units) for consume_disjunction, S(remaining units)
                                 iterations for each while loop) is enough, for every input and every state;
     validator_total, check_regex_total: the only outcomes are Ok / SyntaxErr, resp. Report / NoReport.
   Method: one unary specification per function of Validator.v (`UR`/`UP`): on Ok the visible units are
   unchanged and the reader never ends up before the position it started from (`mono`), strictly after it where a
   loop depends on progress (`MS`); Panic and OutOfFuel are excluded.  Holds for arbitrary unit lists (not only
   scalar values) and arbitrary incoming states. *)
From Coq Require Import List NArith ZArith Bool Lia.
From RecordUpdate Require Import RecordSet.
From V Require Import Common.Str Regex.Reader Gen.UnicodeProps Regex.Validator Regex.RuleDecision.
Import ListNotations RecordSetNotations.

(* ---- identifier characters are Unicode scalar values (so char::from_u32(..).unwrap() cannot fail) ---- *)
Lemma in_ranges_scalar rs c :
  forallb range_scalar rs = true -> in_ranges rs c = true ->
  (123 <= c /\ c <= 1114111 /\ ~ (55296 <= c /\ c <= 57343))%N.
Proof.
  unfold in_ranges. intros Hall Hin. apply existsb_exists in Hin. destruct Hin as [[lo hi] [Hmem Hc]].
  rewrite forallb_forall in Hall. specialize (Hall _ Hmem). unfold range_scalar in Hall. cbn [fst snd] in *.
  apply andb_true_iff in Hc. destruct Hc as [H1 H2]. apply N.leb_le in H1, H2.
  apply andb_true_iff in Hall. destruct Hall as [Hall H6]. apply andb_true_iff in Hall. destruct Hall as [Hall H5].
  apply andb_true_iff in Hall. destruct Hall as [H3 H4]. apply N.leb_le in H3, H4, H6.
  apply orb_true_iff in H5. destruct H5 as [H5|H5]; apply N.ltb_lt in H5; lia.
Qed.

Lemma scalar_of_bounds c : (c <= 1114111 /\ ~ (55296 <= c /\ c <= 57343))%N -> is_scalar (u32_of (Z.of_N c)) = true.
Proof.
  intros [H1 H2]. unfold u32_of. rewrite Z.mod_small by lia. rewrite N2Z.id. unfold is_scalar.
  apply andb_true_iff. split; [apply N.leb_le; exact H1|]. apply negb_true_iff. apply andb_false_iff.
  destruct (N.leb_spec 55296 c); [right|left; reflexivity]. apply N.leb_gt. lia.
Qed.

Lemma large_start_scalar c : is_large_id_start c = true -> (123 <= c /\ c <= 1114111 /\ ~ (55296 <= c /\ c <= 57343))%N.
Proof. unfold is_large_id_start. apply in_ranges_scalar. exact (proj1 ranges_scalar_ok). Qed.
Lemma large_continue_scalar c : is_large_id_continue c = true -> (123 <= c /\ c <= 1114111 /\ ~ (55296 <= c /\ c <= 57343))%N.
Proof. unfold is_large_id_continue. apply in_ranges_scalar. exact (proj2 ranges_scalar_ok). Qed.

Lemma is_rx_id_start_scalar c : is_rx_id_start c = true -> is_scalar (u32_of (Z.of_N c)) = true.
Proof.
  intros H. apply scalar_of_bounds. unfold is_rx_id_start, is_id_start in H.
  destruct (N.ltb_spec c 123) as [Hlt|Hge]; [lia|].
  revert H. repeat match goal with |- context [N.ltb c ?k] => let Hk := fresh "Hk" in destruct (N.ltb_spec c k) as [Hk|Hk]; try lia end. intros Hid.
  apply orb_true_iff in Hid. destruct Hid as [Hid|Hid]; [|apply N.eqb_eq in Hid; lia].
  apply orb_true_iff in Hid. destruct Hid as [Hid|Hid]; [|apply N.eqb_eq in Hid; lia].
  apply large_start_scalar in Hid. lia.
Qed.
Lemma is_rx_id_part_scalar c : is_rx_id_part c = true -> is_scalar (u32_of (Z.of_N c)) = true.
Proof.
  intros H. apply scalar_of_bounds. unfold is_rx_id_part, is_id_continue in H.
  destruct (N.ltb_spec c 123) as [Hlt|Hge]; [lia|].
  revert H. repeat match goal with |- context [N.ltb c ?k] => let Hk := fresh "Hk" in destruct (N.ltb_spec c k) as [Hk|Hk]; try lia end. intros Hid.
  do 4 (apply orb_true_iff in Hid; destruct Hid as [Hid|Hid]; [|apply N.eqb_eq in Hid; lia]).
  destruct (N.eqb_spec c 95) as [He|He]; [lia|]. cbn [orb] in Hid.
  apply orb_true_iff in Hid. destruct Hid as [Hid|Hid].
  - apply large_start_scalar in Hid. lia.
  - apply large_continue_scalar in Hid. lia.
Qed.

(* ================= unary specifications: no panic, enough fuel, the reader only moves forward ================= *)
Definition wf (s : vst) : Prop := (pos s <= length (units (rd s)))%nat.
Definition mono (s t : vst) : Prop := units (rd t) = units (rd s) /\ (pos s <= pos t)%nat /\ wf t.
Definition UR {A} (P : A -> vst -> Prop) (r : R A) : Prop :=
  match r with Ok a t => P a t | SyntaxErr _ _ => True | Panic _ => False | OutOfFuel => False end.
Definition UP (P : bool -> vst -> Prop) (p : bool * vst) : Prop := P (fst p) (snd p).
Definition M {A} (s : vst) (_ : A) (t : vst) := mono s t.
Definition MS (s : vst) (b : bool) (t : vst) := mono s t /\ (b = true -> (pos s < pos t)%nat).
Definition MSI (s : vst) (b : bool) (t : vst) :=
  mono s t /\ (b = true -> (pos s < pos t)%nat /\ is_scalar (u32_of (liv t)) = true).

Ltac proj :=
  cbn [rd strict uflag nflag liv lmin lmax lstr lkey lval laq ncap gnames brnames fst snd units idx] in *;
  repeat rewrite Nat.add_succ_r in *; repeat rewrite Nat.add_0_r in *.
Ltac prim :=
  unfold back_to, consume_pattern_character, consume_extended_pattern_character, consume_bs_followed_by_c, nonempty in *;
  unfold eat, eat2, eat3, fuel_of in *; unfold advance, rewind, cp, pos, remaining, is in *;
  unfold r_advance, r_rewind, r_remaining in *; unfold r_cp in *; unfold set in *; proj.
Ltac unfoldQ := unfold M, MS, MSI, mono, wf, pos, remaining, r_remaining.
Ltac unfold_hyps :=
  repeat match goal with
         | H : M _ _ _ |- _ => unfold M in H
         | H : MS _ _ _ |- _ => unfold MS in H
         | H : MSI _ _ _ |- _ => unfold MSI in H
         | H : mono _ _ |- _ => unfold mono in H
         | H : wf _ |- _ => unfold wf, pos in H
         | H : _ /\ _ |- _ => destruct H
         end.
Ltac destruct_states :=
  repeat match goal with
         | s : vst |- _ => destruct s
         | r : reader |- _ => destruct r
         end; proj.
Ltac bounds :=
  repeat match goal with
         | H : nth_error ?us ?j = Some _ |- _ =>
             lazymatch goal with
             | _ : (j < length us)%nat |- _ => fail
             | _ => assert (j < length us)%nat by (apply nth_error_Some; congruence)
             end
         | H : nth_error ?us ?j = None |- _ =>
             lazymatch goal with
             | _ : (length us <= j)%nat |- _ => fail
             | _ => assert (length us <= j)%nat by (apply nth_error_None; exact H)
             end
         end.
Ltac cleanup :=
  repeat match goal with
         | H : _ /\ _ |- _ => destruct H
         | H : negb _ = false |- _ => apply negb_false_iff in H
         | H : negb _ = true |- _ => apply negb_true_iff in H
         | H : true = true -> _ |- _ => specialize (H eq_refl)
         | H : false = true -> _ |- _ => clear H
         | H : ?x = ?x |- _ => clear H
         | H : @eq (list N) ?x ?y |- _ => first [is_var x; subst x | is_var y; subst y]
         | H : @eq bool ?x true |- _ => is_var x; subst x
         | H : @eq bool ?x false |- _ => is_var x; subst x
         | H : Some _ = Some _ |- _ => injection H as H
         | H : @eq N ?x ?y |- _ => first [is_var x; subst x | is_var y; subst y]
         end; bounds; try solve [exfalso; lia].
Ltac norm := unfold_hyps; unfold pos, remaining, r_remaining in *; destruct_states; cleanup.
Ltac case_scrut :=
  match goal with
  | |- context [match ?c with _ => _ end] =>
      lazymatch c with
      | context [match _ with _ => _ end] => fail
      | _ => destruct c eqn:?
      end
  end.
Ltac spec_imps :=
  repeat match goal with
         | H : ?a = true -> _, H' : ?a = true |- _ => specialize (H H')
         | H : _ /\ _ |- _ => destruct H
         end.
Ltac finish :=
  unfold UP; cbn [UR fst snd]; unfoldQ; proj; repeat (case_scrut; proj); bounds;
  repeat match goal with |- _ /\ _ => split end;
  try reflexivity; try (intros; discriminate); try (intros; spec_imps; lia);
  try (intros; spec_imps; split; [lia | assumption]); auto.

#[global] Hint Extern 1 (wf _) => solve [unfold wf, pos; proj; lia] : tot.
#[global] Hint Extern 1 (lt _ _) => solve [unfold pos, remaining, r_remaining; proj; lia] : tot.
#[global] Hint Extern 1 (le _ _) => solve [unfold pos, remaining, r_remaining; proj; lia] : tot.

Ltac head_scrut t :=
  lazymatch t with
  | match ?c with _ => _ end =>
      lazymatch c with
      | match _ with _ => _ end => head_scrut c
      | _ => c
      end
  end.
Ltac is_call c :=
  lazymatch type of c with
  | R _ => idtac
  | prod bool vst => idtac
  | vst => idtac
  end.
Ltac use_lemma c :=
  let L := fresh "L" in
  lazymatch type of c with
  | R _ => eassert (L : UR _ c) by (eauto with tot)
  | prod bool vst => eassert (L : UP _ c) by (eauto with tot)
  end;
  let E1 := fresh "E" in
  destruct c eqn:E1; unfold UP in L; cbn [UR fst snd] in L; try contradiction; clear E1; norm.
Ltac step :=
  lazymatch goal with
  | |- UR _ ?l => let c := head_scrut l in first [ is_call c; use_lemma c | destruct c eqn:?; proj ]
  | |- UP _ ?l => let c := head_scrut l in first [ is_call c; use_lemma c | destruct c eqn:?; proj ]
  end.
Lemma UR_weaken {A} (P' P : A -> vst -> Prop) r : UR P' r -> (forall a t, P' a t -> P a t) -> UR P r.
Proof. destruct r; cbn [UR]; auto. Qed.
Lemma UP_weaken (P' P : bool -> vst -> Prop) p : UP P' p -> (forall a t, P' a t -> P a t) -> UP P p.
Proof. unfold UP; auto. Qed.
Ltac tail :=
  lazymatch goal with
  | |- UR _ (Ok _ _) => fail
  | |- UR _ (SyntaxErr _ _) => fail
  | |- UR _ (Panic _) => fail
  | |- UR _ OutOfFuel => fail
  | |- UP _ (pair _ _) => fail
  | |- UR _ _ => eapply UR_weaken; [solve [eauto with tot] | intros; norm; finish]
  | |- UP _ _ => eapply UP_weaken; [solve [eauto with tot] | intros; norm; finish]
  end.
Ltac go := repeat (step; cleanup); first [tail | finish].
Ltac start F := intros; norm; unfold F, bind; prim.

Lemma digits_loop_tot f r16 : forall s, wf s -> (remaining s < f)%nat -> UR (M s) (digits_loop f r16 s).
Proof. induction f as [|f IH]; intros s Hw Hf; [unfold remaining in Hf; lia|]. norm. cbn [digits_loop]. prim. go. Qed.
#[local] Hint Resolve digits_loop_tot : tot.
Lemma eat_decimal_digits_tot s : wf s -> UR (M s) (eat_decimal_digits s).
Proof. start eat_decimal_digits. go. Qed.
#[local] Hint Resolve eat_decimal_digits_tot : tot.
Lemma eat_hex_digits_tot s : wf s -> UR (M s) (eat_hex_digits s).
Proof. start eat_hex_digits. go. Qed.
#[local] Hint Resolve eat_hex_digits_tot : tot.
Lemma eat_decimal_escape_tot s : wf s -> UR (M s) (eat_decimal_escape s).
Proof. start eat_decimal_escape. go. Qed.
#[local] Hint Resolve eat_decimal_escape_tot : tot.
Lemma fixed_hex_tot n start : forall s, wf s -> (start <= pos s)%nat -> UP (fun _ t => units (rd t) = units (rd s) /\ (start <= pos t)%nat /\ wf t) (fixed_hex n start s).
Proof. induction n as [|n IH]; intros s Hw Hs; norm; cbn [fixed_hex]; prim; go. Qed.
#[local] Hint Resolve fixed_hex_tot : tot.
Lemma eat_fixed_hex_digits_tot n s : wf s -> UP (M s) (eat_fixed_hex_digits n s).
Proof. start eat_fixed_hex_digits. go. Qed.
#[local] Hint Resolve eat_fixed_hex_digits_tot : tot.
Lemma eat_octal_digit_tot s : wf s -> UP (M s) (eat_octal_digit s).
Proof. start eat_octal_digit. go. Qed.
#[local] Hint Resolve eat_octal_digit_tot : tot.
Lemma eat_legacy_octal_tot s : wf s -> UP (M s) (eat_legacy_octal s).
Proof. start eat_legacy_octal. go. Qed.
#[local] Hint Resolve eat_legacy_octal_tot : tot.
Lemma eat_control_escape_tot s : wf s -> UP (M s) (eat_control_escape s).
Proof. start eat_control_escape. go. Qed.
#[local] Hint Resolve eat_control_escape_tot : tot.
Lemma eat_control_letter_tot s : wf s -> UP (M s) (eat_control_letter s).
Proof. start eat_control_letter. go. Qed.
#[local] Hint Resolve eat_control_letter_tot : tot.
Lemma eat_c_control_letter_tot s : wf s -> UP (M s) (eat_c_control_letter s).
Proof. start eat_c_control_letter. go. Qed.
#[local] Hint Resolve eat_c_control_letter_tot : tot.
Lemma eat_zero_tot s : wf s -> UP (M s) (eat_zero s).
Proof. start eat_zero. go. Qed.
#[local] Hint Resolve eat_zero_tot : tot.
Lemma eat_hex_escape_sequence_tot s : wf s -> UR (M s) (eat_hex_escape_sequence s).
Proof. start eat_hex_escape_sequence. go. Qed.
#[local] Hint Resolve eat_hex_escape_sequence_tot : tot.
Lemma eat_surrogate_pair_escape_tot s : wf s -> UP (M s) (eat_surrogate_pair_escape s).
Proof. start eat_surrogate_pair_escape. go. Qed.
#[local] Hint Resolve eat_surrogate_pair_escape_tot : tot.
Lemma eat_codepoint_escape_tot s : wf s -> UR (M s) (eat_codepoint_escape s).
Proof. start eat_codepoint_escape. go. Qed.
#[local] Hint Resolve eat_codepoint_escape_tot : tot.
Lemma eat_unicode_escape_tot fu s : wf s -> UR (M s) (eat_unicode_escape fu s).
Proof. start eat_unicode_escape. go. Qed.
#[local] Hint Resolve eat_unicode_escape_tot : tot.
Lemma eat_identity_escape_tot s : wf s -> UP (M s) (eat_identity_escape s).
Proof. start eat_identity_escape. go. Qed.
#[local] Hint Resolve eat_identity_escape_tot : tot.
Lemma consume_backreference_tot s : wf s -> UR (M s) (consume_backreference s).
Proof. start consume_backreference. go. Qed.
#[local] Hint Resolve consume_backreference_tot : tot.

Lemma take_while_tot p f : forall s, wf s -> mono s (take_while p f s).
Proof.
  induction f as [|f IH]; intros s Hw; norm; cbn [take_while]; prim.
  - finish.
  - destruct (nth_error units idx) as [c|] eqn:E; [|finish]. destruct (p c); [|finish]. bounds.
    match goal with |- mono _ (take_while _ _ ?a) => pose proof (IH a ltac:(unfold wf, pos; proj; lia)) as L end.
    unfold mono, wf, pos in *. proj. destruct L as (L1 & L2 & L3). repeat split; [congruence|lia|lia].
Qed.
Lemma eat_prop_name_tot s : wf s -> UP (M s) (eat_prop_name s).
Proof.
  intros Hw. unfold eat_prop_name, UP, M. cbn [fst snd].
  pose proof (take_while_tot is_prop_name_char (fuel_of s) (s <| lstr := [] |>)) as L.
  destruct s as [[us i] ? ? ? ? ? ? ? ? ? ? ? ? ?]. unfold mono, wf, pos in *. prim. apply L. exact Hw.
Qed.
#[local] Hint Resolve eat_prop_name_tot : tot.
Lemma eat_prop_value_tot s : wf s -> UP (M s) (eat_prop_value s).
Proof.
  intros Hw. unfold eat_prop_value, UP, M. cbn [fst snd].
  pose proof (take_while_tot is_prop_value_char (fuel_of s) (s <| lstr := [] |>)) as L.
  destruct s as [[us i] ? ? ? ? ? ? ? ? ? ? ? ? ?]. unfold mono, wf, pos in *. prim. apply L. exact Hw.
Qed.
#[local] Hint Resolve eat_prop_value_tot : tot.
Lemma eat_lone_property_tot start s : wf s -> (start <= pos s)%nat ->
  UR (fun _ t => units (rd t) = units (rd s) /\ (start <= pos t)%nat /\ wf t) (eat_lone_property start s).
Proof. start eat_lone_property. go. Qed.
#[local] Hint Resolve eat_lone_property_tot : tot.
Lemma eat_property_value_expression_tot s : wf s -> UR (M s) (eat_property_value_expression s).
Proof. start eat_property_value_expression. go. Qed.
#[local] Hint Resolve eat_property_value_expression_tot : tot.
Lemma consume_character_class_escape_tot s : wf s -> UR (M s) (consume_character_class_escape s).
Proof. start consume_character_class_escape. go. Qed.
#[local] Hint Resolve consume_character_class_escape_tot : tot.
Lemma consume_character_escape_tot s : wf s -> UR (M s) (consume_character_escape s).
Proof. start consume_character_escape. go. Qed.
#[local] Hint Resolve consume_character_escape_tot : tot.

Lemma eat_rx_id_start_tot s : wf s -> UR (MSI s) (eat_rx_id_start s).
Proof.
  start eat_rx_id_start. repeat (step; cleanup);
  try (match goal with H : is_rx_id_start _ = true |- _ => apply is_rx_id_start_scalar in H end); first [tail | finish].
Qed.
#[local] Hint Resolve eat_rx_id_start_tot : tot.
Lemma eat_rx_id_part_tot s : wf s -> UR (MSI s) (eat_rx_id_part s).
Proof.
  start eat_rx_id_part. repeat (step; cleanup);
  try (match goal with H : is_rx_id_part _ = true |- _ => apply is_rx_id_part_scalar in H end); first [tail | finish].
Qed.
#[local] Hint Resolve eat_rx_id_part_tot : tot.
Lemma id_parts_tot f : forall s, wf s -> (remaining s < f)%nat -> UR (M s) (id_parts f s).
Proof. induction f as [|f IH]; intros s Hw Hf; [unfold remaining in Hf; lia|]. norm. cbn [id_parts]. unfold bind. prim. go. Qed.
#[local] Hint Resolve id_parts_tot : tot.
Lemma eat_rx_identifier_name_tot s : wf s -> UR (M s) (eat_rx_identifier_name s).
Proof. start eat_rx_identifier_name. go. Qed.
#[local] Hint Resolve eat_rx_identifier_name_tot : tot.
Lemma eat_group_name_tot s : wf s -> UR (M s) (eat_group_name s).
Proof. start eat_group_name. go. Qed.
#[local] Hint Resolve eat_group_name_tot : tot.
Lemma consume_k_group_name_tot s : wf s -> UR (M s) (consume_k_group_name s).
Proof. start consume_k_group_name. go. Qed.
#[local] Hint Resolve consume_k_group_name_tot : tot.
Lemma consume_group_specifier_tot s : wf s -> UR (M s) (consume_group_specifier s).
Proof. start consume_group_specifier. go. Qed.
#[local] Hint Resolve consume_group_specifier_tot : tot.
Lemma consume_atom_escape_tot s : wf s -> UR (M s) (consume_atom_escape s).
Proof. start consume_atom_escape. go. Qed.
#[local] Hint Resolve consume_atom_escape_tot : tot.
Lemma consume_reverse_solidus_atom_escape_tot s : wf s -> UR (MS s) (consume_reverse_solidus_atom_escape s).
Proof. start consume_reverse_solidus_atom_escape. go. Qed.
#[local] Hint Resolve consume_reverse_solidus_atom_escape_tot : tot.
Lemma consume_class_escape_tot s : wf s -> UR (M s) (consume_class_escape s).
Proof. start consume_class_escape. go. Qed.
#[local] Hint Resolve consume_class_escape_tot : tot.
Lemma consume_class_atom_tot s : wf s -> UR (MS s) (consume_class_atom s).
Proof. start consume_class_atom. go. Qed.
#[local] Hint Resolve consume_class_atom_tot : tot.
Lemma class_ranges_tot f : forall s, wf s -> (remaining s < f)%nat -> UR (M s) (class_ranges f s).
Proof. induction f as [|f IH]; intros s Hw Hf; [unfold remaining in Hf; lia|]. norm. cbn [class_ranges]. unfold bind. prim. go. Qed.
#[local] Hint Resolve class_ranges_tot : tot.
Lemma consume_character_class_tot s : wf s -> UR (MS s) (consume_character_class s).
Proof. start consume_character_class. go. Qed.
#[local] Hint Resolve consume_character_class_tot : tot.
Lemma eat_braced_quantifier_tot ne s : wf s -> UR (M s) (eat_braced_quantifier ne s).
Proof. start eat_braced_quantifier. go. Qed.
#[local] Hint Resolve eat_braced_quantifier_tot : tot.
Lemma consume_quantifier_tot nc s : wf s -> UR (M s) (consume_quantifier nc s).
Proof. start consume_quantifier. go. Qed.
#[local] Hint Resolve consume_quantifier_tot : tot.

Section KnotTot.
Variable disj : vst -> R unit.
Variable bound : nat.
Hypothesis disj_tot : forall s, wf s -> (remaining s < bound)%nat -> UR (M s) (disj s).
#[local] Hint Resolve disj_tot : tot.

Lemma assertion_tot s : wf s -> (remaining s <= bound)%nat -> UR (MS s) (assertion disj s).
Proof. start assertion. go. Qed.
#[local] Hint Resolve assertion_tot : tot.
Lemma uncapturing_group_tot s : wf s -> (remaining s <= bound)%nat -> UR (MS s) (uncapturing_group disj s).
Proof. start uncapturing_group. go. Qed.
#[local] Hint Resolve uncapturing_group_tot : tot.
Lemma capturing_group_tot s : wf s -> (remaining s <= bound)%nat -> UR (MS s) (capturing_group disj s).
Proof. start capturing_group. go. Qed.
#[local] Hint Resolve capturing_group_tot : tot.
Lemma atom_tot s : wf s -> (remaining s <= bound)%nat -> UR (MS s) (atom disj s).
Proof. start atom. go. Qed.
#[local] Hint Resolve atom_tot : tot.
Lemma extended_atom_tot s : wf s -> (remaining s <= bound)%nat -> UR (MS s) (extended_atom disj s).
Proof. start extended_atom. go. Qed.
#[local] Hint Resolve extended_atom_tot : tot.
Lemma term_tot s : wf s -> (remaining s <= bound)%nat -> UR (MS s) (term disj s).
Proof. start term. go. Qed.
#[local] Hint Resolve term_tot : tot.
Lemma alternative_tot g : forall s, wf s -> (remaining s <= bound)%nat -> (remaining s < g)%nat ->
  UR (M s) (alternative disj g s).
Proof.
  induction g as [|g IH]; intros s Hw Hb Hg; [unfold remaining in Hg; lia|].
  norm. cbn [alternative]. unfold bind. prim. go.
Qed.
#[local] Hint Resolve alternative_tot : tot.
Lemma bars_tot g : forall s, wf s -> (remaining s <= bound)%nat -> (remaining s < g)%nat ->
  UR (M s) (bars disj g s).
Proof.
  induction g as [|g IH]; intros s Hw Hb Hg; [unfold remaining in Hg; lia|].
  norm. cbn [bars]. unfold bind. prim. go.
Qed.
#[local] Hint Resolve bars_tot : tot.
Lemma disjunction_body_tot s : wf s -> (remaining s <= bound)%nat -> UR (M s) (disjunction_body disj s).
Proof. start disjunction_body. go. Qed.
End KnotTot.

Lemma disjunction_tot f : forall s, wf s -> (remaining s < f)%nat -> UR (M s) (disjunction f s).
Proof.
  induction f as [|f IH]; intros s Hw Hf; [unfold remaining in Hf; lia|]. cbn [disjunction].
  apply (disjunction_body_tot (disjunction f) f IH); [exact Hw | lia].
Qed.
#[local] Hint Resolve disjunction_tot : tot.

Lemma consume_pattern_tot s : wf s -> UR (M s) (consume_pattern s).
Proof. intros Hw. norm. unfold consume_pattern, bind, pattern_fuel, count_capturing_parens. prim. go. Qed.
#[local] Hint Resolve consume_pattern_tot : tot.

Theorem validate_pattern_tot st src u : UR (fun _ _ => True) (validate_pattern st src u).
Proof. destruct st. unfold validate_pattern, bind. prim. go. Qed.

(* ---- the statements ---- *)
Theorem validator_never_panics : forall st src u p, validate_pattern st src u <> Panic p.
Proof. intros st src u p E. pose proof (validate_pattern_tot st src u) as H. rewrite E in H. exact H. Qed.

Theorem validator_fuel_sufficient : forall st src u, validate_pattern st src u <> OutOfFuel.
Proof. intros st src u E. pose proof (validate_pattern_tot st src u) as H. rewrite E in H. exact H. Qed.

Corollary validator_total : forall st src u,
  (exists s, validate_pattern st src u = Ok tt s) \/ (exists m s, validate_pattern st src u = SyntaxErr m s).
Proof.
  intros st src u. pose proof (validate_pattern_tot st src u) as H.
  destruct (validate_pattern st src u) as [[] s|m s|p|]; cbn [UR] in H; try contradiction.
  - left; exists s; reflexivity.
  - right; exists m, s; reflexivity.
Qed.

Lemma both_modes_total st pat : fst (both_modes st pat) = Report \/ fst (both_modes st pat) = NoReport.
Proof.
  unfold both_modes, check_pattern.
  destruct (validator_total st pat true) as [[s ->]|[m [s ->]]]; [right; reflexivity|].
  destruct (validator_total s pat false) as [[s' ->]|[m' [s' ->]]]; [right|left]; reflexivity.
Qed.

Corollary check_regex_total : forall st pat fl,
  fst (check_regex st pat fl) = Report \/ fst (check_regex st pat fl) = NoReport.
Proof.
  intros st pat [fl|]; unfold check_regex; [|apply both_modes_total].
  destruct (validate_flags fl); [left; reflexivity|]. unfold check_pattern.
  destruct (validator_total st pat (existsb (N.eqb 117) fl)) as [[s ->]|[m [s ->]]]; [right|left]; reflexivity.
Qed.

Print Assumptions validator_never_panics.
Print Assumptions validator_fuel_sufficient.
Print Assumptions validator_total.
Print Assumptions check_regex_total.
