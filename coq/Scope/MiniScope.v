(* C14 — a binding calculus for "rules about global names respect lexical scoping".

   MODEL (executable part first, proofs below in the same file because they are short and the model is not extracted:
   the check evaluates it with vm_compute inside coqc).

   Terms abstract an ECMAScript/TypeScript program to what matters for name resolution:

     Ref x            a reference to the identifier x (value position)
     Decl f x         a declaration STATEMENT of x with binding form f; its scope is found by hoisting:
                      `var` goes to the nearest enclosing function (Fun) -- or the program --, through blocks,
                      loops, catch clauses and labels; every other form (let/const/class/function/import/using/
                      enum/namespace/import-equals) goes to the nearest enclosing Block or Fun -- and binds in ALL of
                      it, also before the declaration (temporal dead zone: bound, not global)
     Bind f x body    a binder whose scope is exactly `body`: parameter (body = function body), catch binding,
                      let/const of a loop head, the own name of a function/class expression, setter parameter, ...
     Block body       a scope boundary that binds nothing by itself ({...}, class body, switch, loop body)
     Fun body         a function boundary (also a `var` boundary)
     Seq a b          a ; b
     PropKey x e      { x: e }, class member x, `x` of a destructuring source -- x is NOT a binder
     Member e x       e.x -- x is NOT a binder
     Label x body     x: body -- x is NOT a binder
     Skip

   A sibling scope is `Seq (Block ...) rest` / `Seq (Fun ...) rest` / `Seq (Bind f x inner) rest`: a binder whose scope
   does not enclose what follows (`Sibling` below).

   RESTRICTIONS (said here, validated against swc by the differential run of tools/props_c14.py):
   function declarations are block-scoped (module/strict semantics; Annex B function-in-block hoisting is not modelled);
   declarations of the type namespace only (interface, type alias, type parameter: kind KType) do not bind VALUE
   references; `with` and direct `eval` are not modelled; parameter default expressions are not given their own scope.

   The resolver is swc's, as assumed: per scope a table of declared names; a reference looks outwards for the innermost
   scope declaring its name.  `Bound fs` carries the forms of the declarations found in that scope; it is what deno_ast's
   `Scope::var((name, ctxt))` can see of it: deno_ast records only some forms (`recorded_deno_ast`). *)
From V Require Import Common.Str.
Open Scope N_scope.

Inductive kind :=
  | KParam | KConst | KLet | KVar | KFunction | KClass | KImport | KCatch | KLoop | KFnExprName | KClassExprName
  (* not recorded by deno_ast 0.46's Scope::analyze *)
  | KSetterParam | KTsEnum | KTsNamespace | KImportEquals | KParamProp | KUsing
  | KSameNamedClassVar          (* `let X = class X {}`: deno_ast declares the class expression's name INSTEAD of the variable *)
  | KType.                      (* type namespace only *)

(* fpat: the name is introduced through a destructuring pattern (irrelevant for scoping -- and proved so) *)
Record form := mkForm { fkind : kind; fpat : bool }.

Inductive term :=
  | Ref (x : str)
  | Decl (f : form) (x : str)
  | Bind (f : form) (x : str) (body : term)
  | Block (body : term)
  | Fun (body : term)
  | Seq (a b : term)
  | PropKey (x : str) (e : term)
  | Member (e : term) (x : str)
  | Label (x : str) (body : term)
  | Skip.

Definition Sibling (f : form) (x : str) (inner rest : term) : term := Seq (Bind f x inner) rest.

Definition var_scoped (k : kind) : bool := match k with KVar => true | _ => false end.
Definition type_only (k : kind) : bool := match k with KType => true | _ => false end.

Definition scope := list (str * form).

(* `var` declarations of a function body: through everything but functions *)
Fixpoint hoist_var (t : term) : scope :=
  match t with
  | Decl f x => if var_scoped (fkind f) then [(x, f)] else []
  | Bind _ _ b => hoist_var b
  | Block b => hoist_var b
  | Seq a b => hoist_var a ++ hoist_var b
  | PropKey _ e => hoist_var e
  | Member e _ => hoist_var e
  | Label _ b => hoist_var b
  | Ref _ | Fun _ | Skip => []
  end.

(* lexical declarations of a block: the statements of the block itself *)
Fixpoint hoist_lex (t : term) : scope :=
  match t with
  | Decl f x => if var_scoped (fkind f) || type_only (fkind f) then [] else [(x, f)]
  | Seq a b => hoist_lex a ++ hoist_lex b
  | Label _ b => hoist_lex b
  | _ => []
  end.

Inductive verdict := Unresolved | Bound (fs : list form).

Definition lookup_scope (x : str) (sc : scope) : list form :=
  map snd (filter (fun d => str_eqb x (fst d)) sc).

Fixpoint lookup (x : str) (env : list scope) : verdict :=
  match env with
  | [] => Unresolved
  | sc :: rest => match lookup_scope x sc with [] => lookup x rest | fs => Bound fs end
  end.

Inductive dir := In_ | L | R.
Definition path := list dir.

Definition bind_scope (f : form) (x : str) : scope := if type_only (fkind f) then [] else [(x, f)].

Fixpoint resolve (env : list scope) (t : term) (p : path) : option verdict :=
  match t, p with
  | Ref x, [] => Some (lookup x env)
  | Bind f x b, In_ :: p' => resolve (bind_scope f x :: env) b p'
  | Block b, In_ :: p' => resolve (hoist_lex b :: env) b p'
  | Fun b, In_ :: p' => resolve ((hoist_var b ++ hoist_lex b) :: env) b p'
  | Seq a _, L :: p' => resolve env a p'
  | Seq _ b, R :: p' => resolve env b p'
  | PropKey _ e, In_ :: p' => resolve env e p'
  | Member e _, In_ :: p' => resolve env e p'
  | Label _ b, In_ :: p' => resolve env b p'
  | _, _ => None
  end.

(* the program is a function body (module / script scope is a `var` scope) *)
Definition resolve_prog (t : term) (p : path) : option verdict := resolve [] (Fun t) (In_ :: p).

Fixpoint ref_at (t : term) (p : path) : option str :=
  match t, p with
  | Ref x, [] => Some x
  | Bind _ _ b, In_ :: p' => ref_at b p'
  | Block b, In_ :: p' => ref_at b p'
  | Fun b, In_ :: p' => ref_at b p'
  | Seq a _, L :: p' => ref_at a p'
  | Seq _ b, R :: p' => ref_at b p'
  | PropKey _ e, In_ :: p' => ref_at e p'
  | Member e _, In_ :: p' => ref_at e p'
  | Label _ b, In_ :: p' => ref_at b p'
  | _, _ => None
  end.

Fixpoint all_refs (t : term) : list (path * str) :=
  let under d := map (fun px => (d :: fst px, snd px)) in
  match t with
  | Ref x => [([], x)]
  | Decl _ _ | Skip => []
  | Bind _ _ b | Block b | Fun b | Label _ b => under In_ (all_refs b)
  | PropKey _ e | Member e _ => under In_ (all_refs e)
  | Seq a b => under L (all_refs a) ++ under R (all_refs b)
  end.

Definition is_unresolved (v : option verdict) : bool :=
  match v with Some Unresolved => true | _ => false end.

(* THE RULE SCHEME of the rules that compare the reference's syntax context with the unresolved context
   (no-process-global, no-node-globals, no-global-assign): report `Ref g` iff g is one of the rule's names and the
   resolver says unresolved. *)
Definition reports (names : list str) (t : term) : list path :=
  map fst (filter (fun px => mem (snd px) names && is_unresolved (resolve_prog t (fst px))) (all_refs t)).

(* THE RULE SCHEME of the rules that ask deno_ast's Scope (`scope().var(id).is_none()` / `is_global(id)`): the identifier
   (name, syntax context) is looked up among the declarations deno_ast RECORDED. *)
Definition scope_var_global (rec : form -> bool) (v : option verdict) : bool :=
  match v with
  | Some Unresolved => true
  | Some (Bound fs) => negb (existsb rec fs)
  | None => false
  end.

Definition reports_scope_var (rec : form -> bool) (names : list str) (t : term) : list path :=
  map fst (filter (fun px => mem (snd px) names && scope_var_global rec (resolve_prog t (fst px))) (all_refs t)).

Definition recorded_deno_ast (f : form) : bool :=
  match fkind f with
  | KParam | KConst | KLet | KVar | KFunction | KClass | KImport | KCatch | KLoop | KFnExprName | KClassExprName => true
  | KSetterParam | KTsEnum | KTsNamespace | KImportEquals | KParamProp | KUsing | KSameNamedClassVar | KType => false
  end.

(* every binding form occurring in a term *)
Fixpoint forms_of (t : term) : list form :=
  match t with
  | Decl f _ => [f]
  | Bind f _ b => f :: forms_of b
  | Block b | Fun b | Label _ b => forms_of b
  | PropKey _ e | Member e _ => forms_of e
  | Seq a b => forms_of a ++ forms_of b
  | Ref _ | Skip => []
  end.

(* used by tools/props_c14.py (vm_compute inside coqc): the first reference to `name`:
   0 = none, 1 = Unresolved, 2 = Bound and visible to deno_ast's Scope, 3 = Bound but not recorded by deno_ast *)
Definition probe (t : term) (name : str) : N :=
  match filter (fun px => str_eqb name (snd px)) (all_refs t) with
  | [] => 0
  | px :: _ => match resolve_prog t (fst px) with
               | Some Unresolved => 1
               | Some (Bound fs) => if existsb recorded_deno_ast fs then 2 else 3
               | None => 0
               end
  end.

(* ------------------------------------------------------------------------------------------------------------ *)
(* SPECIFICATION: "x is bound by an enclosing declaration", relationally, with no environment.                   *)
(* ------------------------------------------------------------------------------------------------------------ *)

(* a lexical declaration among the statements of a block *)
Inductive DeclLex : term -> str -> form -> Prop :=
  | dl_here f x : var_scoped (fkind f) = false -> type_only (fkind f) = false -> DeclLex (Decl f x) x f
  | dl_seq_l a b x f : DeclLex a x f -> DeclLex (Seq a b) x f
  | dl_seq_r a b x f : DeclLex b x f -> DeclLex (Seq a b) x f
  | dl_label l b x f : DeclLex b x f -> DeclLex (Label l b) x f.

(* a `var` declaration anywhere in a function body, at any depth, but not inside a nested function *)
Inductive DeclVar : term -> str -> form -> Prop :=
  | dv_here f x : var_scoped (fkind f) = true -> DeclVar (Decl f x) x f
  | dv_bind g y b x f : DeclVar b x f -> DeclVar (Bind g y b) x f
  | dv_block b x f : DeclVar b x f -> DeclVar (Block b) x f
  | dv_seq_l a b x f : DeclVar a x f -> DeclVar (Seq a b) x f
  | dv_seq_r a b x f : DeclVar b x f -> DeclVar (Seq a b) x f
  | dv_propkey k e x f : DeclVar e x f -> DeclVar (PropKey k e) x f
  | dv_member e m x f : DeclVar e x f -> DeclVar (Member e m) x f
  | dv_label l b x f : DeclVar b x f -> DeclVar (Label l b) x f.

(* `Encl t p x f`: on the way from the root of t to position p there is a scope that declares x with form f *)
Inductive Encl : term -> path -> str -> form -> Prop :=
  | en_bind_here f x b p : type_only (fkind f) = false -> Encl (Bind f x b) (In_ :: p) x f
  | en_bind_in g y b p x f : Encl b p x f -> Encl (Bind g y b) (In_ :: p) x f
  | en_block_here b p x f : DeclLex b x f -> Encl (Block b) (In_ :: p) x f
  | en_block_in b p x f : Encl b p x f -> Encl (Block b) (In_ :: p) x f
  | en_fun_var b p x f : DeclVar b x f -> Encl (Fun b) (In_ :: p) x f
  | en_fun_lex b p x f : DeclLex b x f -> Encl (Fun b) (In_ :: p) x f
  | en_fun_in b p x f : Encl b p x f -> Encl (Fun b) (In_ :: p) x f
  | en_seq_l a b p x f : Encl a p x f -> Encl (Seq a b) (L :: p) x f
  | en_seq_r a b p x f : Encl b p x f -> Encl (Seq a b) (R :: p) x f
  | en_propkey k e p x f : Encl e p x f -> Encl (PropKey k e) (In_ :: p) x f
  | en_member e m p x f : Encl e p x f -> Encl (Member e m) (In_ :: p) x f
  | en_label l b p x f : Encl b p x f -> Encl (Label l b) (In_ :: p) x f.

Definition bound_at (t : term) (p : path) (x : str) : Prop := exists f, Encl (Fun t) (In_ :: p) x f.

(* no binder at all: only references, keys, member names, labels, scopes *)
Fixpoint binder_free (t : term) : bool :=
  match t with
  | Decl _ _ | Bind _ _ _ => false
  | Block b | Fun b | Label _ b => binder_free b
  | PropKey _ e | Member e _ => binder_free e
  | Seq a b => binder_free a && binder_free b
  | Ref _ | Skip => true
  end.

(* ------------------------------------------------------------------------------------------------------------ *)
(* PROOFS                                                                                                        *)
(* ------------------------------------------------------------------------------------------------------------ *)

Lemma lookup_scope_app x s1 s2 : lookup_scope x (s1 ++ s2) = lookup_scope x s1 ++ lookup_scope x s2.
Proof. unfold lookup_scope. rewrite filter_app, map_app. reflexivity. Qed.

Lemma lookup_scope_In x sc f : In f (lookup_scope x sc) <-> In (x, f) sc.
Proof.
  unfold lookup_scope. rewrite in_map_iff. split.
  - intros [[y g] [Hg Hin]]. cbn [snd] in Hg. subst g. apply filter_In in Hin. destruct Hin as [Hin Heq].
    cbn [fst] in Heq. apply str_eqb_eq in Heq. subst y. exact Hin.
  - intros Hin. exists (x, f). split; [reflexivity|]. apply filter_In. split; [exact Hin|].
    cbn [fst]. apply str_eqb_refl.
Qed.

Lemma lookup_scope_nil x sc : lookup_scope x sc = [] <-> forall f, ~ In (x, f) sc.
Proof.
  split.
  - intros H f Hin. apply lookup_scope_In in Hin. rewrite H in Hin. exact Hin.
  - intros H. destruct (lookup_scope x sc) as [|f fs] eqn:E; [reflexivity|].
    exfalso. apply (H f). apply lookup_scope_In. rewrite E. left. reflexivity.
Qed.

Lemma hoist_lex_spec t x f : In (x, f) (hoist_lex t) <-> DeclLex t x f.
Proof.
  induction t as [y|g y|g y b IHb|b IHb|b IHb|a IHa b IHb|k e IHe|e IHe m|l b IHb|]; cbn [hoist_lex].
  - split; [intros []|intros H; inversion H].
  - destruct (var_scoped (fkind g)) eqn:Ev; destruct (type_only (fkind g)) eqn:Et; cbn [orb].
    + split; [intros []|intros H; inversion H; subst; congruence].
    + split; [intros []|intros H; inversion H; subst; congruence].
    + split; [intros []|intros H; inversion H; subst; congruence].
    + split.
      * intros [H|[]]. inversion H; subst. constructor; assumption.
      * intros H; inversion H; subst. left. reflexivity.
  - split; [intros []|intros H; inversion H].
  - split; [intros []|intros H; inversion H].
  - split; [intros []|intros H; inversion H].
  - rewrite in_app_iff, IHa, IHb. split.
    + intros [H|H]; [apply dl_seq_l|apply dl_seq_r]; exact H.
    + intros H; inversion H; subst; [left|right]; assumption.
  - split; [intros []|intros H; inversion H].
  - split; [intros []|intros H; inversion H].
  - rewrite IHb. split; [intros H; constructor; exact H|intros H; inversion H; subst; assumption].
  - split; [intros []|intros H; inversion H].
Qed.

Lemma hoist_var_spec t x f : In (x, f) (hoist_var t) <-> DeclVar t x f.
Proof.
  induction t as [y|g y|g y b IHb|b IHb|b IHb|a IHa b IHb|k e IHe|e IHe m|l b IHb|]; cbn [hoist_var].
  - split; [intros []|intros H; inversion H].
  - destruct (var_scoped (fkind g)) eqn:Ev; split.
    + intros [H|[]]. inversion H; subst. constructor; assumption.
    + intros H; inversion H; subst. left. reflexivity.
    + intros [].
    + intros H; inversion H; subst; congruence.
  - rewrite IHb. split; [intros H; constructor; exact H|intros H; inversion H; subst; assumption].
  - rewrite IHb. split; [intros H; constructor; exact H|intros H; inversion H; subst; assumption].
  - split; [intros []|intros H; inversion H].
  - rewrite in_app_iff, IHa, IHb. split.
    + intros [H|H]; [apply dv_seq_l|apply dv_seq_r]; exact H.
    + intros H; inversion H; subst; [left|right]; assumption.
  - rewrite IHe. split; [intros H; constructor; exact H|intros H; inversion H; subst; assumption].
  - rewrite IHe. split; [intros H; constructor; exact H|intros H; inversion H; subst; assumption].
  - rewrite IHb. split; [intros H; constructor; exact H|intros H; inversion H; subst; assumption].
  - split; [intros []|intros H; inversion H].
Qed.

Definition declares (sc : scope) (x : str) : Prop := exists f, In (x, f) sc.

Lemma lookup_cons_unresolved x sc env :
  lookup x (sc :: env) = Unresolved <-> ~ declares sc x /\ lookup x env = Unresolved.
Proof.
  cbn [lookup]. destruct (lookup_scope x sc) as [|f fs] eqn:E.
  - pose proof (proj1 (lookup_scope_nil x sc) E) as E'. split.
    + intros H. split; [intros [f Hf]; exact (E' f Hf)|exact H].
    + intros [_ H]. exact H.
  - split; [discriminate|]. intros [Hn _]. exfalso. apply Hn. exists f.
    apply lookup_scope_In. rewrite E. left. reflexivity.
Qed.

(* the general statement, under any environment *)
Lemma resolve_unresolved_iff t : forall env p x,
  ref_at t p = Some x ->
  (resolve env t p = Some Unresolved <-> lookup x env = Unresolved /\ ~ exists f, Encl t p x f).
Proof.
  induction t as [y|g y|g y b IHb|b IHb|b IHb|a IHa b IHb|k e IHe|e IHe m|l b IHb|]; intros env p x Href;
    destruct p as [|d p]; cbn [ref_at] in Href; try discriminate; try (destruct d; try discriminate).
  - (* Ref *) inversion Href; subst. cbn [resolve]. split.
    + intros H. inversion H as [H1]. split; [reflexivity|]. intros [f Hf]. inversion Hf.
    + intros [H _]. rewrite H. reflexivity.
  - (* Bind *) cbn [resolve]. rewrite (IHb _ _ _ Href). rewrite lookup_cons_unresolved. split.
    + intros [[Hnd Hl] Hne]. split; [exact Hl|]. intros [f Hf]. inversion Hf; subst.
      * apply Hnd. exists f. unfold bind_scope.
        match goal with Ht : type_only (fkind f) = false |- _ => rewrite Ht end. left. reflexivity.
      * apply Hne. exists f. assumption.
    + intros [Hl Hne]. split; [split; [|exact Hl]|].
      * intros [f Hf]. unfold bind_scope in Hf. destruct (type_only (fkind g)) eqn:Et; [destruct Hf|].
        destruct Hf as [Hf|[]]. inversion Hf; subst. apply Hne. exists f. apply en_bind_here. exact Et.
      * intros [f Hf]. apply Hne. exists f. apply en_bind_in. exact Hf.
  - (* Block *) cbn [resolve]. rewrite (IHb _ _ _ Href). rewrite lookup_cons_unresolved. split.
    + intros [[Hnd Hl] Hne]. split; [exact Hl|]. intros [f Hf]. inversion Hf; subst.
      * apply Hnd. exists f. apply hoist_lex_spec. assumption.
      * apply Hne. exists f. assumption.
    + intros [Hl Hne]. split; [split; [|exact Hl]|].
      * intros [f Hf]. apply Hne. exists f. apply en_block_here. apply hoist_lex_spec. exact Hf.
      * intros [f Hf]. apply Hne. exists f. apply en_block_in. exact Hf.
  - (* Fun *) cbn [resolve]. rewrite (IHb _ _ _ Href). rewrite lookup_cons_unresolved. split.
    + intros [[Hnd Hl] Hne]. split; [exact Hl|]. intros [f Hf]. inversion Hf; subst.
      * apply Hnd. exists f. apply in_or_app. left. apply hoist_var_spec. assumption.
      * apply Hnd. exists f. apply in_or_app. right. apply hoist_lex_spec. assumption.
      * apply Hne. exists f. assumption.
    + intros [Hl Hne]. split; [split; [|exact Hl]|].
      * intros [f Hf]. apply Hne. exists f. apply in_app_or in Hf. destruct Hf as [Hf|Hf].
        -- apply en_fun_var. apply hoist_var_spec. exact Hf.
        -- apply en_fun_lex. apply hoist_lex_spec. exact Hf.
      * intros [f Hf]. apply Hne. exists f. apply en_fun_in. exact Hf.
  - (* Seq L *) cbn [resolve]. rewrite (IHa _ _ _ Href). split; intros [Hl Hne]; (split; [exact Hl|]); intros [f Hf]; apply Hne; exists f.
    + inversion Hf; subst. assumption.
    + apply en_seq_l. exact Hf.
  - (* Seq R *) cbn [resolve]. rewrite (IHb _ _ _ Href). split; intros [Hl Hne]; (split; [exact Hl|]); intros [f Hf]; apply Hne; exists f.
    + inversion Hf; subst. assumption.
    + apply en_seq_r. exact Hf.
  - (* PropKey *) cbn [resolve]. rewrite (IHe _ _ _ Href). split; intros [Hl Hne]; (split; [exact Hl|]); intros [f Hf]; apply Hne; exists f.
    + inversion Hf; subst. assumption.
    + apply en_propkey. exact Hf.
  - (* Member *) cbn [resolve]. rewrite (IHe _ _ _ Href). split; intros [Hl Hne]; (split; [exact Hl|]); intros [f Hf]; apply Hne; exists f.
    + inversion Hf; subst. assumption.
    + apply en_member. exact Hf.
  - (* Label *) cbn [resolve]. rewrite (IHb _ _ _ Href). split; intros [Hl Hne]; (split; [exact Hl|]); intros [f Hf]; apply Hne; exists f.
    + inversion Hf; subst. assumption.
    + apply en_label. exact Hf.
Qed.

(* C14, first half and second half at once: a reference is unresolved (= global for the rules) exactly when no
   enclosing declaration binds its name -- whatever the binding form, whatever the nesting depth. *)
Theorem unresolved_iff_unbound : forall t p x,
  ref_at t p = Some x ->
  (resolve_prog t p = Some Unresolved <-> ~ bound_at t p x).
Proof.
  intros t p x Href. unfold resolve_prog, bound_at.
  rewrite (resolve_unresolved_iff (Fun t) [] (In_ :: p) x); [|exact Href].
  cbn [lookup]. split; [intros [_ H]; exact H|intros H; split; [reflexivity|exact H]].
Qed.

Lemma resolve_defined t : forall env p x, ref_at t p = Some x -> exists v, resolve env t p = Some v.
Proof.
  induction t as [y|g y|g y b IHb|b IHb|b IHb|a IHa b IHb|k e IHe|e IHe m|l b IHb|]; intros env p x Href;
    destruct p as [|d p]; cbn [ref_at] in Href; try discriminate; try (destruct d; try discriminate); cbn [resolve]; eauto.
Qed.

(* the Bound side needs the witness: which declarations were found *)
Lemma lookup_bound_in x env fs : lookup x env = Bound fs ->
  fs <> [] /\ exists sc, In sc env /\ fs = lookup_scope x sc.
Proof.
  induction env as [|sc env IH]; cbn [lookup]; [discriminate|].
  destruct (lookup_scope x sc) as [|f fs'] eqn:E.
  - intros H. destruct (IH H) as [Hne [sc' [Hin Heq]]]. split; [exact Hne|]. exists sc'. split; [right; exact Hin|exact Heq].
  - intros H. inversion H; subst. split; [discriminate|]. exists sc. split; [left; reflexivity|]. symmetry. exact E.
Qed.

Lemma resolve_bound_witness t : forall env p x fs,
  ref_at t p = Some x -> resolve env t p = Some (Bound fs) ->
  fs <> [] /\ forall f, In f fs -> Encl t p x f \/ exists sc, In sc env /\ In (x, f) sc.
Proof.
  induction t as [y|g y|g y b IHb|b IHb|b IHb|a IHa b IHb|k e IHe|e IHe m|l b IHb|]; intros env p x fs Href Hres;
    destruct p as [|d p]; cbn [ref_at] in Href; try discriminate; try (destruct d; try discriminate); cbn [resolve] in Hres.
  - inversion Href; subst. inversion Hres as [Hl]. destruct (lookup_bound_in _ _ _ Hl) as [Hne [sc [Hin Heq]]].
    split; [exact Hne|]. intros f Hf. right. exists sc. split; [exact Hin|]. apply lookup_scope_In. rewrite <- Heq. exact Hf.
  - destruct (IHb _ _ _ _ Href Hres) as [Hne H]. split; [exact Hne|]. intros f Hf.
    destruct (H f Hf) as [He|[sc [[Hsc|Hsc] Hin]]].
    + left. apply en_bind_in. exact He.
    + subst sc. unfold bind_scope in Hin. destruct (type_only (fkind g)) eqn:Et; [destruct Hin|].
      destruct Hin as [Hin|[]]. inversion Hin; subst. left. apply en_bind_here. exact Et.
    + right. exists sc. split; assumption.
  - destruct (IHb _ _ _ _ Href Hres) as [Hne H]. split; [exact Hne|]. intros f Hf.
    destruct (H f Hf) as [He|[sc [[Hsc|Hsc] Hin]]].
    + left. apply en_block_in. exact He.
    + subst sc. left. apply en_block_here. apply hoist_lex_spec. exact Hin.
    + right. exists sc. split; assumption.
  - destruct (IHb _ _ _ _ Href Hres) as [Hne H]. split; [exact Hne|]. intros f Hf.
    destruct (H f Hf) as [He|[sc [[Hsc|Hsc] Hin]]].
    + left. apply en_fun_in. exact He.
    + subst sc. left. apply in_app_or in Hin. destruct Hin as [Hin|Hin].
      * apply en_fun_var. apply hoist_var_spec. exact Hin.
      * apply en_fun_lex. apply hoist_lex_spec. exact Hin.
    + right. exists sc. split; assumption.
  - destruct (IHa _ _ _ _ Href Hres) as [Hne H]. split; [exact Hne|]. intros f Hf.
    destruct (H f Hf) as [He|Hr]; [left; apply en_seq_l; exact He|right; exact Hr].
  - destruct (IHb _ _ _ _ Href Hres) as [Hne H]. split; [exact Hne|]. intros f Hf.
    destruct (H f Hf) as [He|Hr]; [left; apply en_seq_r; exact He|right; exact Hr].
  - destruct (IHe _ _ _ _ Href Hres) as [Hne H]. split; [exact Hne|]. intros f Hf.
    destruct (H f Hf) as [He|Hr]; [left; apply en_propkey; exact He|right; exact Hr].
  - destruct (IHe _ _ _ _ Href Hres) as [Hne H]. split; [exact Hne|]. intros f Hf.
    destruct (H f Hf) as [He|Hr]; [left; apply en_member; exact He|right; exact Hr].
  - destruct (IHb _ _ _ _ Href Hres) as [Hne H]. split; [exact Hne|]. intros f Hf.
    destruct (H f Hf) as [He|Hr]; [left; apply en_label; exact He|right; exact Hr].
Qed.

(* a Bound verdict names at least one enclosing declaration of that name, and only such declarations *)
Theorem bound_names_enclosing_declarations : forall t p x fs,
  ref_at t p = Some x -> resolve_prog t p = Some (Bound fs) ->
  fs <> [] /\ forall f, In f fs -> Encl (Fun t) (In_ :: p) x f.
Proof.
  intros t p x fs Href Hres. destruct (resolve_bound_witness (Fun t) [] (In_ :: p) x fs Href Hres) as [Hne H].
  split; [exact Hne|]. intros f Hf. destruct (H f Hf) as [He|[sc [[] _]]]. exact He.
Qed.

Corollary bound_iff_enclosed : forall t p x,
  ref_at t p = Some x -> ((exists fs, resolve_prog t p = Some (Bound fs)) <-> bound_at t p x).
Proof.
  intros t p x Href. split.
  - intros [fs Hres]. destruct (bound_names_enclosing_declarations t p x fs Href Hres) as [Hne H].
    destruct fs as [|f fs]; [congruence|]. exists f. apply H. left. reflexivity.
  - intros Hb. destruct (resolve_defined (Fun t) [] (In_ :: p) x Href) as [v Hv]. fold (resolve_prog t p) in Hv.
    destruct v as [|fs]; [|exists fs; exact Hv]. exfalso. apply (unresolved_iff_unbound t p x Href) in Hv. exact (Hv Hb).
Qed.

(* ---- all_refs enumerates exactly the reference positions ---- *)
Lemma in_under d l p x :
  In (p, x) (map (fun px : path * str => (d :: fst px, snd px)) l) <-> exists p', p = d :: p' /\ In (p', x) l.
Proof.
  rewrite in_map_iff. split.
  - intros [[q y] [Heq Hin]]. cbn [fst snd] in Heq. inversion Heq; subst. exists q. split; [reflexivity|exact Hin].
  - intros [p' [-> Hin]]. exists (p', x). split; [reflexivity|exact Hin].
Qed.

Lemma all_refs_spec t : forall p x, In (p, x) (all_refs t) <-> ref_at t p = Some x.
Proof.
  induction t as [y|g y|g y b IHb|b IHb|b IHb|a IHa b IHb|k e IHe|e IHe m|l b IHb|]; intros p x; cbn [all_refs].
  - split.
    + intros [H|[]]. inversion H; subst. reflexivity.
    + destruct p as [|d p]; cbn [ref_at]; [|discriminate]. intros H. inversion H; subst. left. reflexivity.
  - split; [intros []|destruct p as [|d p]; cbn [ref_at]; discriminate].
  - rewrite in_under. split.
    + intros [p' [-> H]]. cbn [ref_at]. apply IHb. exact H.
    + destruct p as [|[] p]; cbn [ref_at]; try discriminate. intros H. exists p. split; [reflexivity|apply IHb; exact H].
  - rewrite in_under. split.
    + intros [p' [-> H]]. cbn [ref_at]. apply IHb. exact H.
    + destruct p as [|[] p]; cbn [ref_at]; try discriminate. intros H. exists p. split; [reflexivity|apply IHb; exact H].
  - rewrite in_under. split.
    + intros [p' [-> H]]. cbn [ref_at]. apply IHb. exact H.
    + destruct p as [|[] p]; cbn [ref_at]; try discriminate. intros H. exists p. split; [reflexivity|apply IHb; exact H].
  - rewrite in_app_iff, !in_under. split.
    + intros [[p' [-> H]]|[p' [-> H]]]; cbn [ref_at]; [apply IHa|apply IHb]; exact H.
    + destruct p as [|[] p]; cbn [ref_at]; try discriminate; intros H.
      * left. exists p. split; [reflexivity|apply IHa; exact H].
      * right. exists p. split; [reflexivity|apply IHb; exact H].
  - rewrite in_under. split.
    + intros [p' [-> H]]. cbn [ref_at]. apply IHe. exact H.
    + destruct p as [|[] p]; cbn [ref_at]; try discriminate. intros H. exists p. split; [reflexivity|apply IHe; exact H].
  - rewrite in_under. split.
    + intros [p' [-> H]]. cbn [ref_at]. apply IHe. exact H.
    + destruct p as [|[] p]; cbn [ref_at]; try discriminate. intros H. exists p. split; [reflexivity|apply IHe; exact H].
  - rewrite in_under. split.
    + intros [p' [-> H]]. cbn [ref_at]. apply IHb. exact H.
    + destruct p as [|[] p]; cbn [ref_at]; try discriminate. intros H. exists p. split; [reflexivity|apply IHb; exact H].
  - split; [intros []|destruct p as [|d p]; cbn [ref_at]; discriminate].
Qed.

(* the rule scheme reports exactly the references to one of its global names that no enclosing declaration binds *)
Theorem report_iff : forall names t p,
  In p (reports names t) <-> exists x, ref_at t p = Some x /\ In x names /\ ~ bound_at t p x.
Proof.
  intros names t p. unfold reports. rewrite in_map_iff. split.
  - intros [[q x] [Hq Hin]]. cbn [fst] in Hq. subst q. apply filter_In in Hin. destruct Hin as [Hin Hc].
    cbn [fst snd] in Hc. apply andb_true_iff in Hc. destruct Hc as [Hm Hu].
    apply all_refs_spec in Hin. exists x. split; [exact Hin|]. split; [apply mem_In; exact Hm|].
    apply (unresolved_iff_unbound t p x Hin). unfold is_unresolved in Hu.
    destruct (resolve_prog t p) as [[|fs]|]; try discriminate. reflexivity.
  - intros [x [Href [Hn Hnb]]]. exists (p, x). split; [reflexivity|]. apply filter_In. split.
    + apply all_refs_spec. exact Href.
    + cbn [fst snd]. apply andb_true_iff. split; [apply mem_In; exact Hn|].
      apply (unresolved_iff_unbound t p x Href) in Hnb. rewrite Hnb. reflexivity.
Qed.

(* ---- property keys, member names and labels never bind ---- *)
Lemma binder_free_hoist t : binder_free t = true -> hoist_var t = [] /\ hoist_lex t = [].
Proof.
  induction t as [y|g y|g y b IHb|b IHb|b IHb|a IHa b IHb|k e IHe|e IHe m|l b IHb|]; cbn [binder_free hoist_var hoist_lex];
    intros H; try discriminate; try (split; reflexivity).
  - destruct (IHb H) as [E1 _]. rewrite E1. split; reflexivity.
  - apply andb_true_iff in H. destruct H as [Ha Hb]. destruct (IHa Ha) as [-> ->]. destruct (IHb Hb) as [-> ->]. split; reflexivity.
  - destruct (IHe H) as [E1 _]. rewrite E1. split; reflexivity.
  - destruct (IHe H) as [E1 _]. rewrite E1. split; reflexivity.
  - destruct (IHb H) as [E1 E2]. rewrite E1, E2. split; reflexivity.
Qed.

Lemma bf_no_lex t x f : binder_free t = true -> DeclLex t x f -> False.
Proof. intros H HL. apply hoist_lex_spec in HL. destruct (binder_free_hoist t H) as [_ E]. rewrite E in HL. exact HL. Qed.

Lemma bf_no_var t x f : binder_free t = true -> DeclVar t x f -> False.
Proof. intros H HV. apply hoist_var_spec in HV. destruct (binder_free_hoist t H) as [E _]. rewrite E in HV. exact HV. Qed.

Lemma binder_free_no_encl t : binder_free t = true -> forall p x f, ~ Encl t p x f.
Proof.
  intros H p x f He. revert H.
  induction He; cbn [binder_free]; intros Hbf; try discriminate;
    try (apply andb_true_iff in Hbf; destruct Hbf as [Ha Hb]); eauto using bf_no_lex, bf_no_var.
Qed.

(* in a program whose only occurrences of names are references, property keys, member names and labels,
   every reference is unresolved -- at any depth, under any scopes *)
Theorem prop_keys_never_bind : forall t p x,
  binder_free t = true -> ref_at t p = Some x -> resolve_prog t p = Some Unresolved.
Proof.
  intros t p x Hbf Href. apply (unresolved_iff_unbound t p x Href). intros [f He].
  apply (binder_free_no_encl (Fun t) Hbf _ _ _ He).
Qed.

(* ... and the name written as key / member / label is irrelevant for every resolution *)
Theorem key_member_label_names_irrelevant : forall env y z e p,
  resolve env (PropKey y e) p = resolve env (PropKey z e) p /\
  resolve env (Member e y) p = resolve env (Member e z) p /\
  resolve env (Label y e) p = resolve env (Label z e) p.
Proof. intros. destruct p as [|[] p]; cbn [resolve]; auto. Qed.

(* ---- the resolution of a reference to x only depends on what the environment says about x ---- *)
Lemma lookup_ext x env1 env2 : lookup x env1 = lookup x env2 ->
  forall inner, lookup x (inner ++ env1) = lookup x (inner ++ env2).
Proof.
  intros H inner. induction inner as [|sc inner IH]; [exact H|]. cbn [app lookup]. rewrite IH. reflexivity.
Qed.

Lemma resolve_ext t : forall env1 env2 p x, ref_at t p = Some x -> lookup x env1 = lookup x env2 ->
  resolve env1 t p = resolve env2 t p.
Proof.
  induction t as [y|g y|g y b IHb|b IHb|b IHb|a IHa b IHb|k e IHe|e IHe m|l b IHb|]; intros env1 env2 p x Href Hl;
    destruct p as [|d p]; cbn [ref_at] in Href; try discriminate; try (destruct d; try discriminate); cbn [resolve].
  - inversion Href; subst. rewrite Hl. reflexivity.
  - apply (IHb _ _ _ x Href). exact (lookup_ext x env1 env2 Hl [_]).
  - apply (IHb _ _ _ x Href). exact (lookup_ext x env1 env2 Hl [_]).
  - apply (IHb _ _ _ x Href). exact (lookup_ext x env1 env2 Hl [_]).
  - apply (IHa _ _ _ x Href Hl).
  - apply (IHb _ _ _ x Href Hl).
  - apply (IHe _ _ _ x Href Hl).
  - apply (IHe _ _ _ x Href Hl).
  - apply (IHb _ _ _ x Href Hl).
Qed.

(* ---- sibling scopes: whatever a sibling subterm s declares INSIDE its own scopes does not bind what stands beside
        it.  Only declarations that hoist out of s (a `var` not under a function, a lexical declaration among the
        statements of s itself) reach the sibling -- they are then declarations of the common enclosing scope. ---- *)
Theorem sibling_scopes_do_not_bind : forall s b p x,
  ref_at b p = Some x ->
  (forall f, ~ DeclVar s x f) -> (forall f, ~ DeclLex s x f) ->
  resolve_prog (Seq s b) (R :: p) = resolve_prog b p /\ resolve_prog (Seq b s) (L :: p) = resolve_prog b p.
Proof.
  intros s b p x Href Hv Hl. unfold resolve_prog. cbn [resolve hoist_var hoist_lex].
  assert (Es : lookup_scope x (hoist_var s) = [] /\ lookup_scope x (hoist_lex s) = []).
  { split; apply lookup_scope_nil; intros f Hin.
    - apply hoist_var_spec in Hin. exact (Hv f Hin).
    - apply hoist_lex_spec in Hin. exact (Hl f Hin). }
  destruct Es as [Ev El].
  split; apply (resolve_ext b _ _ p x Href); cbn [lookup];
    rewrite !lookup_scope_app, ?Ev, ?El, ?app_nil_r; cbn [app]; reflexivity.
Qed.

(* the three usual shapes: a sibling function, a sibling block, a sibling binder (parameter, catch, loop head, named
   function/class expression ...) *)
Corollary sibling_function_does_not_bind : forall a b p x, ref_at b p = Some x ->
  resolve_prog (Seq (Fun a) b) (R :: p) = resolve_prog b p.
Proof.
  intros a b p x Href. apply (sibling_scopes_do_not_bind (Fun a) b p x Href); intros f H; inversion H.
Qed.

Corollary sibling_block_does_not_bind : forall a b p x, ref_at b p = Some x ->
  (forall f, ~ DeclVar a x f) ->
  resolve_prog (Seq (Block a) b) (R :: p) = resolve_prog b p.
Proof.
  intros a b p x Href Hv. apply (sibling_scopes_do_not_bind (Block a) b p x Href); intros f H; inversion H; subst.
  match goal with HD : DeclVar a x f |- _ => exact (Hv f HD) end.
Qed.

Corollary sibling_binder_does_not_bind : forall f y inner rest p x, ref_at rest p = Some x ->
  (forall g, ~ DeclVar inner x g) ->
  resolve_prog (Sibling f y inner rest) (R :: p) = resolve_prog rest p.
Proof.
  intros f y inner rest p x Href Hv. unfold Sibling.
  apply (sibling_scopes_do_not_bind (Bind f y inner) rest p x Href); intros g H; inversion H; subst.
  match goal with HD : DeclVar inner x g |- _ => exact (Hv g HD) end.
Qed.

(* ---- the destructuring flag is irrelevant ---- *)
(* (the resolver never reads fpat: by definition; stated for the verdict class) *)

(* ---- rules that ask deno_ast's Scope ---- *)
Lemma scope_var_global_spec rec v :
  scope_var_global rec (Some v) = true <-> v = Unresolved \/ exists fs, v = Bound fs /\ forall f, In f fs -> rec f = false.
Proof.
  destruct v as [|fs]; cbn [scope_var_global].
  - split; [intros _; left; reflexivity|reflexivity].
  - rewrite negb_true_iff. split.
    + intros H. right. exists fs. split; [reflexivity|]. intros f Hf.
      destruct (rec f) eqn:E; [|reflexivity]. exfalso.
      assert (X : existsb rec fs = true) by (apply existsb_exists; exists f; split; assumption). congruence.
    + intros [H|[gs [H Hall]]]; [discriminate|]. inversion H; subst gs.
      destruct (existsb rec fs) eqn:E; [|reflexivity]. apply existsb_exists in E. destruct E as [f [Hf Hr]].
      rewrite (Hall f Hf) in Hr. discriminate.
Qed.

(* if deno_ast records every binding form that occurs in the program, asking its Scope is asking the resolver *)
Lemma encl_forms t p x f : Encl t p x f -> In f (forms_of t).
Proof.
  assert (HL : forall t x f, DeclLex t x f -> In f (forms_of t)).
  { intros t0 x0 f0 H. induction H; cbn [forms_of]; try (apply in_or_app); auto. left. reflexivity. }
  assert (HV : forall t x f, DeclVar t x f -> In f (forms_of t)).
  { intros t0 x0 f0 H. induction H; cbn [forms_of]; try (apply in_or_app); auto.
    - left. reflexivity. - right. exact IHDeclVar. }
  intros H. induction H; cbn [forms_of]; try (apply in_or_app); eauto.
  - left. reflexivity.
  - right. exact IHEncl.
Qed.

Theorem scope_var_exact_when_recorded : forall rec names t,
  (forall f, In f (forms_of t) -> rec f = true) ->
  reports_scope_var rec names t = reports names t.
Proof.
  intros rec names t Hall. unfold reports_scope_var, reports. f_equal. apply filter_ext_in.
  intros [p x] Hin. cbn [fst snd]. f_equal. apply all_refs_spec in Hin.
  destruct (resolve_defined (Fun t) [] (In_ :: p) x Hin) as [v Hv]. fold (resolve_prog t p) in Hv. rewrite Hv.
  destruct v as [|fs]; [reflexivity|]. cbn [scope_var_global is_unresolved].
  destruct (bound_names_enclosing_declarations t p x fs Hin Hv) as [Hne Hf].
  destruct fs as [|f fs]; [congruence|]. cbn [existsb]. rewrite (Hall f); [reflexivity|].
  apply (encl_forms (Fun t) (In_ :: p) x f). apply Hf. left. reflexivity.
Qed.

Theorem report_scope_var_iff : forall rec names t p,
  In p (reports_scope_var rec names t) <->
  exists x, ref_at t p = Some x /\ In x names /\
    (~ bound_at t p x \/ exists fs, resolve_prog t p = Some (Bound fs) /\ forall f, In f fs -> rec f = false).
Proof.
  intros rec names t p. unfold reports_scope_var. rewrite in_map_iff. split.
  - intros [[q x] [Hq Hin]]. cbn [fst] in Hq. subst q. apply filter_In in Hin. destruct Hin as [Hin Hc].
    cbn [fst snd] in Hc. apply andb_true_iff in Hc. destruct Hc as [Hm Hu]. apply all_refs_spec in Hin.
    exists x. split; [exact Hin|]. split; [apply mem_In; exact Hm|].
    destruct (resolve_prog t p) as [v|] eqn:Hv; [|discriminate].
    apply scope_var_global_spec in Hu. destruct Hu as [->|[fs [-> Hall]]].
    + left. apply (unresolved_iff_unbound t p x Hin). exact Hv.
    + right. exists fs. split; [reflexivity|exact Hall].
  - intros [x [Href [Hn Hd]]]. exists (p, x). split; [reflexivity|]. apply filter_In. split; [apply all_refs_spec; exact Href|].
    cbn [fst snd]. apply andb_true_iff. split; [apply mem_In; exact Hn|]. destruct Hd as [Hnb|[fs [Hv Hall]]].
    + apply (unresolved_iff_unbound t p x Href) in Hnb. rewrite Hnb. reflexivity.
    + rewrite Hv. apply scope_var_global_spec. right. exists fs. split; [reflexivity|exact Hall].
Qed.

(* ------------------------------------------------------------------------------------------------------------ *)
(* NON-VACUITY: a program exercising every constructor                                                            *)
(*   import w from "m"; function f(p) { { w.a; p; q } var q; } ({ k: g }); o.w; { let g } ; g ; L: g               *)
(* ------------------------------------------------------------------------------------------------------------ *)
Definition nW : str := [119]. Definition nP : str := [112]. Definition nQ : str := [113]. Definition nG : str := [103].
Definition nO : str := [111]. Definition nK : str := [107]. Definition nF : str := [102]. Definition nL : str := [76].

Definition example_prog : term :=
  Seq (Decl (mkForm KImport false) nW)
 (Seq (Decl (mkForm KFunction false) nF)
 (Seq (Fun (Bind (mkForm KParam false) nP
        (Seq (Block (Seq (Member (Ref nW) [97]) (Seq (Ref nP) (Ref nQ))))
             (Decl (mkForm KVar false) nQ))))
 (Seq (PropKey nK (Ref nG))
 (Seq (Member (Ref nO) nW)
 (Seq (Block (Decl (mkForm KLet false) nG))
 (Seq (Ref nG)
      (Label nL (Ref nG)))))))).

Example example_verdicts :
  map (fun px => (snd px, resolve_prog example_prog (fst px))) (all_refs example_prog) =
  [ (nW, Some (Bound [mkForm KImport false]));      (* w.a   : the import, three scopes up *)
    (nP, Some (Bound [mkForm KParam false]));       (* p     : the parameter *)
    (nQ, Some (Bound [mkForm KVar false]));         (* q     : the var declared AFTER the block, hoisted *)
    (nG, Some Unresolved);                          (* g in {k: g}: the `let g` lives in a sibling block *)
    (nO, Some Unresolved);                          (* o.w   : o is global; the member name w is not a reference *)
    (nG, Some Unresolved);
    (nG, Some Unresolved) ].
Proof. vm_compute. reflexivity. Qed.

Example example_reports :
  reports [nG; nW; nQ] example_prog
  = [ [R; R; R; L; In_]; [R; R; R; R; R; R; L]; [R; R; R; R; R; R; R; In_] ].
Proof. vm_compute. reflexivity. Qed.

(* deno_ast's Scope does not record a TS enum: `enum w {}; w.a` -- the reference is bound, the scope-var scheme reports it *)
Example scope_var_misses_unrecorded :
  let t := Seq (Decl (mkForm KTsEnum false) nW) (Member (Ref nW) [97]) in
  reports [nW] t = [] /\ reports_scope_var recorded_deno_ast [nW] t = [[R; In_]] /\ bound_at t [R; In_] nW.
Proof.
  split; [vm_compute; reflexivity|]. split; [vm_compute; reflexivity|].
  exists (mkForm KTsEnum false). apply en_fun_lex. apply dl_seq_l. apply dl_here; reflexivity.
Qed.
