(* Obligations about the GENERATED reader tables (coq/Gen/Readers.v is rewritten by translate/gen_readers.py from
   /repo/src/rules/*.rs on every check); closed by computation over the finite tables.

   C14: every place where a rule of the property compares an identifier with one of its global names also consults the
        scope analysis -- except the places listed in `known_unscoped` (handlers of prefer-primordials that the current
        code leaves unscoped; they are the known-finding classes "C14.prefer-primordials...").  A NEW unscoped comparison, a
        rule of the list in which no comparison is found any more, a place of `known_unscoped` that disappeared (the list
        went stale), or anything the scanner could not classify breaks these proofs.
   C20: no rule iterates a container keyed by a NAME (Id, Atom, String, &str): lookups and insertions only, so neither the
        order nor the choice of reports can depend on a hash/ordering of spellings. *)
From V Require Import Common.Str Gen.Readers.
Open Scope N_scope.

Definition key3 := (str * str * str)%type.

Definition key3_eqb (a b : key3) : bool :=
  str_eqb (fst (fst a)) (fst (fst b)) && str_eqb (snd (fst a)) (snd (fst b)) && str_eqb (snd a) (snd b).

Lemma key3_eqb_eq a b : key3_eqb a b = true <-> a = b.
Proof.
  destruct a as [[a1 a2] a3], b as [[b1 b2] b3]. unfold key3_eqb. cbn [fst snd].
  rewrite !andb_true_iff, !str_eqb_eq. split.
  - intros [[-> ->] ->]. reflexivity.
  - intros H. inversion H. auto.
Qed.

Definition site_key (s : site) : key3 := (s_rule s, s_fn s, s_what s).

Definition PP : str := [112; 114; 101; 102; 101; 114; 45; 112; 114; 105; 109; 111; 114; 100; 105; 97; 108; 115].   (* prefer-primordials *)

(* (rule, handler, what is compared) of the comparisons the CURRENT code performs without consulting the scope *)
Definition known_unscoped : list key3 :=
  [ (PP, [105; 100; 101; 110; 116],                                         (* ident *)
         [85; 78; 83; 65; 70; 69; 95; 67; 79; 78; 83; 84; 82; 85; 67; 84; 79; 82; 95; 84; 65; 82; 71; 69; 84; 83]);    (* UNSAFE_CONSTRUCTOR_TARGETS *)
    (PP, [105; 100; 101; 110; 116],                                         (* ident *)
         [85; 78; 83; 65; 70; 69; 95; 70; 85; 78; 67; 84; 73; 79; 78; 95; 84; 65; 82; 71; 69; 84; 83]);                (* UNSAFE_FUNCTION_TARGETS *)
    (PP, [109; 101; 109; 98; 101; 114; 95; 101; 120; 112; 114],             (* member_expr *)
         [71; 76; 79; 66; 65; 76; 95; 84; 65; 82; 71; 69; 84; 83]) ].       (* GLOBAL_TARGETS *)

Definition site_ok (s : site) : bool := s_consults s || existsb (key3_eqb (site_key s)) known_unscoped.

Theorem c14_nothing_unclassified : c14_unknown = [].
Proof. vm_compute. reflexivity. Qed.

Theorem c14_comparisons_consult_scope :
  forall s, In s c14_sites -> s_consults s = true \/ In (site_key s) known_unscoped.
Proof.
  assert (H : forallb site_ok c14_sites = true) by (vm_compute; reflexivity).
  intros s Hs. rewrite forallb_forall in H. specialize (H s Hs). unfold site_ok in H.
  apply orb_true_iff in H. destruct H as [H|H]; [left; exact H|right].
  apply existsb_exists in H. destruct H as [k [Hk He]]. apply key3_eqb_eq in He. rewrite He. exact Hk.
Qed.

(* non-vacuity: the scanner still finds a comparison in every rule of the property's list *)
Theorem c14_every_rule_has_a_comparison :
  forall r, In r c14_rules -> exists s, In s c14_sites /\ s_rule s = r.
Proof.
  assert (H : forallb (fun r => existsb (fun s => str_eqb (s_rule s) r) c14_sites) c14_rules = true) by (vm_compute; reflexivity).
  intros r Hr. rewrite forallb_forall in H. specialize (H r Hr). apply existsb_exists in H.
  destruct H as [s [Hs He]]. exists s. split; [exact Hs|]. apply str_eqb_eq. exact He.
Qed.

Theorem c14_rule_list_nonempty : c14_rules <> [] /\ c14_sites <> [].
Proof. split; vm_compute; discriminate. Qed.

(* the exception list is not stale: each listed place still exists and is still unscoped *)
Theorem c14_known_unscoped_still_present :
  forall k, In k known_unscoped -> exists s, In s c14_sites /\ site_key s = k /\ s_consults s = false.
Proof.
  assert (H : forallb (fun k => existsb (fun s => key3_eqb (site_key s) k && negb (s_consults s)) c14_sites) known_unscoped = true)
    by (vm_compute; reflexivity).
  intros k Hk. rewrite forallb_forall in H. specialize (H k Hk). apply existsb_exists in H.
  destruct H as [s [Hs He]]. apply andb_true_iff in He. destruct He as [He Hc].
  exists s. split; [exact Hs|]. split; [apply key3_eqb_eq; exact He|]. destruct (s_consults s); [discriminate|reflexivity].
Qed.

(* ---------------------------------------------------------------- C20 *)
Theorem c20_nothing_unclassified : c20_unknown = [].
Proof. vm_compute. reflexivity. Qed.

Theorem c20_no_iteration_over_name_keyed_tables :
  forall c, In c c20_containers -> c_keykind c = 1 -> c_iterated c = false.
Proof.
  assert (H : forallb (fun c => negb (c_keykind c =? 1) || negb (c_iterated c)) c20_containers = true) by (vm_compute; reflexivity).
  intros c Hc Hk. rewrite forallb_forall in H. specialize (H c Hc). rewrite Hk in H. cbn in H.
  destruct (c_iterated c); [discriminate|reflexivity].
Qed.

(* the key of every container is classified: position-like (0) or name-like (1) *)
Theorem c20_keys_classified : forall c, In c c20_containers -> c_keykind c = 0 \/ c_keykind c = 1.
Proof.
  assert (H : forallb (fun c => (c_keykind c =? 0) || (c_keykind c =? 1)) c20_containers = true) by (vm_compute; reflexivity).
  intros c Hc. rewrite forallb_forall in H. specialize (H c Hc). apply orb_true_iff in H.
  destruct H as [H|H]; apply N.eqb_eq in H; auto.
Qed.

(* non-vacuity: the binding-tracking rules of the property's list are among the scanned ones and do keep name-keyed tables *)
Theorem c20_listed_rules_scanned : c20_rules <> [] /\
  exists c, In c c20_containers /\ c_keykind c = 1 /\ In (c_rule c) c20_rules.
Proof.
  split; [vm_compute; discriminate|].
  assert (H : existsb (fun c => (c_keykind c =? 1) && mem (c_rule c) c20_rules) c20_containers = true) by (vm_compute; reflexivity).
  apply existsb_exists in H. destruct H as [c [Hc He]]. apply andb_true_iff in He. destruct He as [H1 H2].
  exists c. split; [exact Hc|]. split; [apply N.eqb_eq; exact H1|apply mem_In; exact H2].
Qed.
