(* C20 — diagnostics do not depend on how local bindings are spelled: the table discipline.

   The binding-tracking rules (no-redeclare, no-const/class/func/ex/import-assign, prefer-const, no-unused-vars,
   verbatim-module-syntax ...) keep per-file tables keyed by swc's `Id = (name, syntax context)` and do five things with
   them: insert, remove, look up, compare two Ids, iterate a table in a spelling-independent (insertion / position) order --
   plus tests of a name against a FIXED predicate on spellings (a finite set of reserved names, a `_` prefix, ...).
   `cmd` is the language of such "Id-table programs"; the Ids that occur in a program are the identifiers of the linted
   file (the program is the unfolding of the rule's visitor on that file, see the cores at the end).

   THEOREM rename_equivariant: renaming the names of a program by a function that is injective on the program's names and
   preserves the reserved predicate on them renames the reports and changes nothing else (codes, positions, order, number).

   What is NOT modelled: the rules' real visitors (they are related to this language only through the differential run of
   tools/props_c20.py and the generated obligation "no rule iterates a name-keyed container", Scope/ReaderFacts.v). *)
From V Require Import Common.Str.
Open Scope N_scope.

Definition Id := (str * N)%type.                       (* name, syntax context *)

Definition id_eqb (a b : Id) : bool := str_eqb (fst a) (fst b) && N.eqb (snd a) (snd b).

Lemma id_eqb_eq a b : id_eqb a b = true <-> a = b.
Proof.
  destruct a as [x c], b as [y d]. unfold id_eqb. cbn [fst snd]. rewrite andb_true_iff, str_eqb_eq, N.eqb_eq.
  split; [intros [-> ->]; reflexivity|intros H; inversion H; auto].
Qed.

(* insertion-ordered tables Id -> N *)
Definition table := list (Id * N).

Fixpoint tlookup (k : Id) (t : table) : option N :=
  match t with [] => None | (k', v) :: r => if id_eqb k k' then Some v else tlookup k r end.

Fixpoint tinsert (k : Id) (v : N) (t : table) : table :=       (* overwrite in place, else append *)
  match t with
  | [] => [(k, v)]
  | (k', v') :: r => if id_eqb k k' then (k', v) :: r else (k', v') :: tinsert k v r
  end.

Fixpoint tremove (k : Id) (t : table) : table :=
  match t with [] => [] | (k', v') :: r => if id_eqb k k' then r else (k', v') :: tremove k r end.

(* the rule's state: finitely many numbered tables *)
Definition state := list (N * table).

Fixpoint get (st : state) (n : N) : table :=
  match st with [] => [] | (m, t) :: r => if N.eqb n m then t else get r n end.

Fixpoint set (st : state) (n : N) (t : table) : state :=
  match st with
  | [] => [(n, t)]
  | (m, t') :: r => if N.eqb n m then (m, t) :: r else (m, t') :: set r n t
  end.

(* an Id operand: a literal of the program, or the key bound by the n-th enclosing ForEach *)
Inductive idx := Lit (i : Id) | Var (n : nat).
(* a position operand: a literal, or the value stored for a key *)
Inductive pexp := PLit (n : N) | PVal (t : N) (k : idx).

Inductive cmd :=
  | Skip
  | Seq (a b : cmd)
  | Insert (t : N) (k : idx) (v : pexp)
  | Remove (t : N) (k : idx)
  | IfMem (t : N) (k : idx) (a b : cmd)
  | IfVal (t : N) (k : idx) (v : N) (a b : cmd)        (* the table maps k to exactly v *)
  | IfSame (k1 k2 : idx) (a b : cmd)                   (* Id equality: name AND context *)
  | IfSameName (k1 k2 : idx) (a b : cmd)               (* two identifiers of the file spelled alike (context ignored) *)
  | IfReserved (k : idx) (a b : cmd)                   (* the name satisfies the fixed predicate on spellings *)
  | Report (code : N) (pos : pexp) (k : idx)           (* a diagnostic quoting the name of k *)
  | ForEach (t : N) (body : cmd).                      (* snapshot of table t, in insertion order; key = Var 0 in body *)

Definition report := (N * N * Id)%type.               (* code, position, quoted identifier *)

Definition dflt : Id := ([], 0).
Definition ev_idx (env : list Id) (k : idx) : Id := match k with Lit i => i | Var n => nth n env dflt end.
Definition ev_pos (env : list Id) (st : state) (p : pexp) : N :=
  match p with PLit n => n | PVal t k => match tlookup (ev_idx env k) (get st t) with Some v => v | None => 0 end end.

Fixpoint exec (reserved : str -> bool) (env : list Id) (c : cmd) (s : state * list report) : state * list report :=
  let (st, out) := s in
  match c with
  | Skip => s
  | Seq a b => exec reserved env b (exec reserved env a s)
  | Insert t k v => (set st t (tinsert (ev_idx env k) (ev_pos env st v) (get st t)), out)
  | Remove t k => (set st t (tremove (ev_idx env k) (get st t)), out)
  | IfMem t k a b =>
      match tlookup (ev_idx env k) (get st t) with Some _ => exec reserved env a s | None => exec reserved env b s end
  | IfVal t k v a b =>
      match tlookup (ev_idx env k) (get st t) with
      | Some w => if N.eqb w v then exec reserved env a s else exec reserved env b s
      | None => exec reserved env b s
      end
  | IfSame k1 k2 a b => if id_eqb (ev_idx env k1) (ev_idx env k2) then exec reserved env a s else exec reserved env b s
  | IfSameName k1 k2 a b =>
      if str_eqb (fst (ev_idx env k1)) (fst (ev_idx env k2)) then exec reserved env a s else exec reserved env b s
  | IfReserved k a b => if reserved (fst (ev_idx env k)) then exec reserved env a s else exec reserved env b s
  | Report code p k => (st, out ++ [(code, ev_pos env st p, ev_idx env k)])
  | ForEach t body => fold_left (fun acc kv => exec reserved (fst kv :: env) body acc) (get st t) s
  end.

Definition run (reserved : str -> bool) (p : cmd) : list report := snd (exec reserved [] p ([], [])).

(* ---------------------------------------------------------------- renaming *)
Definition rid (r : str -> str) (i : Id) : Id := (r (fst i), snd i).
Definition ridx (r : str -> str) (k : idx) : idx := match k with Lit i => Lit (rid r i) | Var n => Var n end.
Definition rpexp (r : str -> str) (p : pexp) : pexp := match p with PLit n => PLit n | PVal t k => PVal t (ridx r k) end.

Fixpoint rename (r : str -> str) (c : cmd) : cmd :=
  match c with
  | Skip => Skip
  | Seq a b => Seq (rename r a) (rename r b)
  | Insert t k v => Insert t (ridx r k) (rpexp r v)
  | Remove t k => Remove t (ridx r k)
  | IfMem t k a b => IfMem t (ridx r k) (rename r a) (rename r b)
  | IfVal t k v a b => IfVal t (ridx r k) v (rename r a) (rename r b)
  | IfSame k1 k2 a b => IfSame (ridx r k1) (ridx r k2) (rename r a) (rename r b)
  | IfSameName k1 k2 a b => IfSameName (ridx r k1) (ridx r k2) (rename r a) (rename r b)
  | IfReserved k a b => IfReserved (ridx r k) (rename r a) (rename r b)
  | Report code p k => Report code (rpexp r p) (ridx r k)
  | ForEach t body => ForEach t (rename r body)
  end.

Definition rename_out (r : str -> str) (out : list report) : list report :=
  map (fun x => (fst x, rid r (snd x))) out.

Definition rtable (r : str -> str) (t : table) : table := map (fun kv => (rid r (fst kv), snd kv)) t.
Definition rstate (r : str -> str) (st : state) : state := map (fun nt => (fst nt, rtable r (snd nt))) st.

(* the names occurring in a program *)
Definition names_idx (k : idx) : list str := match k with Lit i => [fst i] | Var _ => [] end.
Definition names_pexp (p : pexp) : list str := match p with PLit _ => [] | PVal _ k => names_idx k end.
Fixpoint names (c : cmd) : list str :=
  match c with
  | Skip => []
  | Seq a b => names a ++ names b
  | Insert _ k v => names_idx k ++ names_pexp v
  | Remove _ k => names_idx k
  | IfMem _ k a b | IfVal _ k _ a b | IfReserved k a b => names_idx k ++ names a ++ names b
  | IfSame k1 k2 a b | IfSameName k1 k2 a b => names_idx k1 ++ names_idx k2 ++ names a ++ names b
  | Report _ p k => names_pexp p ++ names_idx k
  | ForEach _ body => names body
  end.

Definition injective_on (r : str -> str) (l : list str) : Prop :=
  forall x y, In x l -> In y l -> r x = r y -> x = y.
Definition avoids (r : str -> str) (reserved : str -> bool) (l : list str) : Prop :=
  forall x, In x l -> reserved (r x) = reserved x.

(* ---------------------------------------------------------------- proofs *)
Section Equivariance.
  Variable r : str -> str.
  Variable reserved : str -> bool.
  Variable P : str -> Prop.                        (* the names of the program *)
  Hypothesis r_inj : forall x y, P x -> P y -> r x = r y -> x = y.
  Hypothesis r_avoids : forall x, P x -> reserved (r x) = reserved x.

  Definition okid (i : Id) : Prop := P (fst i).
  Definition oktable (t : table) : Prop := Forall (fun kv => okid (fst kv)) t.
  Definition okstate (st : state) : Prop := Forall (fun nt => oktable (snd nt)) st.
  Definition okenv (env : list Id) : Prop := Forall okid env.
  Definition okidx (k : idx) : Prop := forall x, In x (names_idx k) -> P x.
  Definition okcmd (c : cmd) : Prop := forall x, In x (names c) -> P x.

  Lemma id_eqb_rid a b : okid a -> okid b -> id_eqb (rid r a) (rid r b) = id_eqb a b.
  Proof.
    intros Ha Hb. destruct (id_eqb a b) eqn:E.
    - apply id_eqb_eq in E. subst b. apply id_eqb_eq. reflexivity.
    - destruct (id_eqb (rid r a) (rid r b)) eqn:E'; [|reflexivity].
      apply id_eqb_eq in E'. destruct a as [x c], b as [y d]. unfold rid in E'. cbn [fst snd] in E'.
      inversion E' as [[Hn Hc]]. apply (r_inj x y Ha Hb) in Hn. subst.
      assert (X : id_eqb (y, d) (y, d) = true) by (apply id_eqb_eq; reflexivity). congruence.
  Qed.

  Lemma name_eqb_rid a b : okid a -> okid b -> str_eqb (r (fst a)) (r (fst b)) = str_eqb (fst a) (fst b).
  Proof.
    intros Ha Hb. destruct (str_eqb_spec (fst a) (fst b)) as [E|E].
    - rewrite E. apply str_eqb_refl.
    - apply str_eqb_neq. intros E'. apply E. apply (r_inj _ _ Ha Hb E').
  Qed.

  Lemma tlookup_r k t : okid k -> oktable t -> tlookup (rid r k) (rtable r t) = tlookup k t.
  Proof.
    intros Hk Ht. induction Ht as [|[k' v] t Hk' Ht IH]; [reflexivity|].
    cbn [rtable map tlookup fst snd]. rewrite (id_eqb_rid k k' Hk Hk'). destruct (id_eqb k k'); [reflexivity|exact IH].
  Qed.

  Lemma tinsert_r k v t : okid k -> oktable t -> tinsert (rid r k) v (rtable r t) = rtable r (tinsert k v t).
  Proof.
    intros Hk Ht. induction Ht as [|[k' v'] t Hk' Ht IH]; [reflexivity|].
    cbn [rtable map tinsert fst snd]. rewrite (id_eqb_rid k k' Hk Hk'). destruct (id_eqb k k').
    - reflexivity.
    - cbn [map fst snd]. f_equal. exact IH.
  Qed.

  Lemma tremove_r k t : okid k -> oktable t -> tremove (rid r k) (rtable r t) = rtable r (tremove k t).
  Proof.
    intros Hk Ht. induction Ht as [|[k' v'] t Hk' Ht IH]; [reflexivity|].
    cbn [rtable map tremove fst snd]. rewrite (id_eqb_rid k k' Hk Hk'). destruct (id_eqb k k').
    - reflexivity.
    - cbn [map fst snd]. f_equal. exact IH.
  Qed.

  Lemma tinsert_ok k v t : okid k -> oktable t -> oktable (tinsert k v t).
  Proof.
    intros Hk Ht. induction Ht as [|[k' v'] t Hk' Ht IH]; cbn [tinsert].
    - constructor; [exact Hk|constructor].
    - destruct (id_eqb k k'); constructor; auto.
  Qed.

  Lemma tremove_ok k t : oktable t -> oktable (tremove k t).
  Proof.
    intros Ht. induction Ht as [|[k' v'] t Hk' Ht IH]; cbn [tremove]; [constructor|].
    destruct (id_eqb k k'); [exact Ht|constructor; auto].
  Qed.

  Lemma get_r st n : get (rstate r st) n = rtable r (get st n).
  Proof. induction st as [|[m t] st IH]; [reflexivity|]. cbn [rstate map get fst snd]. destruct (N.eqb n m); [reflexivity|exact IH]. Qed.

  Lemma set_r st n t : set (rstate r st) n (rtable r t) = rstate r (set st n t).
  Proof.
    induction st as [|[m t'] st IH]; [reflexivity|]. cbn [rstate map set fst snd].
    destruct (N.eqb n m); cbn [map fst snd]; [reflexivity|]. f_equal. exact IH.
  Qed.

  Lemma get_ok st n : okstate st -> oktable (get st n).
  Proof. intros H. induction H as [|[m t] st Ht Hs IH]; cbn [get]; [constructor|]. destruct (N.eqb n m); [exact Ht|exact IH]. Qed.

  Lemma set_ok st n t : okstate st -> oktable t -> okstate (set st n t).
  Proof.
    intros H Ht. induction H as [|[m t'] st Ht' Hs IH]; cbn [set]; [constructor; [exact Ht|constructor]|].
    destruct (N.eqb n m); constructor; auto.
  Qed.

  Lemma ev_idx_ok env k : okenv env -> okidx k -> (forall n, k = Var n -> (n < length env)%nat) -> okid (ev_idx env k).
  Proof.
    intros He Hk Hb. destruct k as [i|n]; cbn [ev_idx].
    - apply Hk. left. reflexivity.
    - apply Forall_nth; [exact He|apply Hb; reflexivity].
  Qed.

  (* de Bruijn indices are in range: closedness at depth d *)
  Definition cidx (d : nat) (k : idx) : Prop := match k with Lit _ => True | Var n => (n < d)%nat end.
  Definition cpexp (d : nat) (p : pexp) : Prop := match p with PLit _ => True | PVal _ k => cidx d k end.
  Fixpoint closed (d : nat) (c : cmd) : Prop :=
    match c with
    | Skip => True
    | Seq a b => closed d a /\ closed d b
    | Insert _ k v => cidx d k /\ cpexp d v
    | Remove _ k => cidx d k
    | IfMem _ k a b | IfVal _ k _ a b | IfReserved k a b => cidx d k /\ closed d a /\ closed d b
    | IfSame k1 k2 a b | IfSameName k1 k2 a b => cidx d k1 /\ cidx d k2 /\ closed d a /\ closed d b
    | Report _ p k => cpexp d p /\ cidx d k
    | ForEach _ body => closed (S d) body
    end.

  Lemma ev_idx_ok' env k : okenv env -> okidx k -> cidx (length env) k -> okid (ev_idx env k).
  Proof.
    intros He Hk Hc. apply ev_idx_ok; [exact He|exact Hk|]. intros n ->. exact Hc.
  Qed.

  Lemma ev_idx_r env k : cidx (length env) k -> ev_idx (map (rid r) env) (ridx r k) = rid r (ev_idx env k).
  Proof.
    destruct k as [i|n]; cbn [ev_idx ridx cidx]; [reflexivity|]. intros Hn.
    rewrite (nth_indep _ dflt (rid r dflt)) by (rewrite map_length; exact Hn). apply map_nth.
  Qed.

  Lemma ev_pos_r env st p : okenv env -> okstate st -> (forall x, In x (names_pexp p) -> P x) -> cpexp (length env) p ->
    ev_pos (map (rid r) env) (rstate r st) (rpexp r p) = ev_pos env st p.
  Proof.
    intros He Hs Hp Hc. destruct p as [n|t k]; cbn [ev_pos rpexp]; [reflexivity|].
    cbn [cpexp] in Hc. rewrite (ev_idx_r env k Hc), get_r, tlookup_r; [reflexivity| |apply get_ok; exact Hs].
    apply ev_idx_ok'; [exact He|exact Hp|exact Hc].
  Qed.

  (* the simulation: same control flow, renamed state, renamed output; the invariant "only names of P" is kept *)
  Lemma exec_sim c : forall env st out,
    okcmd c -> closed (length env) c -> okenv env -> okstate st ->
    exec reserved (map (rid r) env) (rename r c) (rstate r st, rename_out r out)
      = (rstate r (fst (exec reserved env c (st, out))), rename_out r (snd (exec reserved env c (st, out))))
    /\ okstate (fst (exec reserved env c (st, out))).
  Proof.
    induction c as [|a IHa b IHb|t k v|t k|t k a IHa b IHb|t k v a IHa b IHb|k1 k2 a IHa b IHb|k1 k2 a IHa b IHb|k a IHa b IHb|code p k|t body IHbody];
      intros env st out Hc Hcl He Hs.
    - (* Skip *) cbn [exec rename fst snd]. auto.
    - (* Seq *) cbn [rename]. cbn [closed] in Hcl. destruct Hcl as [Hcla Hclb].
      assert (Hca : okcmd a) by (intros x Hx; apply Hc; cbn [names]; apply in_or_app; left; exact Hx).
      assert (Hcb : okcmd b) by (intros x Hx; apply Hc; cbn [names]; apply in_or_app; right; exact Hx).
      destruct (IHa env st out Hca Hcla He Hs) as [Ea Oa].
      change (exec reserved (map (rid r) env) (Seq (rename r a) (rename r b)) (rstate r st, rename_out r out))
        with (exec reserved (map (rid r) env) (rename r b) (exec reserved (map (rid r) env) (rename r a) (rstate r st, rename_out r out))).
      rewrite Ea.
      change (exec reserved env (Seq a b) (st, out)) with (exec reserved env b (exec reserved env a (st, out))).
      destruct (exec reserved env a (st, out)) as [st1 out1] eqn:E1. cbn [fst snd] in *.
      exact (IHb env st1 out1 Hcb Hclb He Oa).
    - (* Insert *) cbn [closed] in Hcl. destruct Hcl as [Hk Hv].
      assert (Hok : okid (ev_idx env k)).
      { apply ev_idx_ok'; [exact He| |exact Hk]. intros x Hx. apply Hc. cbn [names]. apply in_or_app. left. exact Hx. }
      cbn [exec rename fst snd]. split.
      + rewrite (ev_idx_r env k Hk), ev_pos_r, get_r; [|exact He|exact Hs| |exact Hv].
        * rewrite tinsert_r; [|exact Hok|apply get_ok; exact Hs]. rewrite set_r. reflexivity.
        * intros x Hx. apply Hc. cbn [names]. apply in_or_app. right. exact Hx.
      + apply set_ok; [exact Hs|]. apply tinsert_ok; [exact Hok|apply get_ok; exact Hs].
    - (* Remove *) cbn [closed] in Hcl.
      assert (Hok : okid (ev_idx env k)).
      { apply ev_idx_ok'; [exact He| |exact Hcl]. intros x Hx. apply Hc. exact Hx. }
      cbn [exec rename fst snd]. split.
      + rewrite (ev_idx_r env k Hcl), get_r, tremove_r; [|exact Hok|apply get_ok; exact Hs]. rewrite set_r. reflexivity.
      + apply set_ok; [exact Hs|]. apply tremove_ok. apply get_ok. exact Hs.
    - (* IfMem *) cbn [closed] in Hcl. destruct Hcl as [Hk [Hcla Hclb]].
      assert (Hok : okid (ev_idx env k)).
      { apply ev_idx_ok'; [exact He| |exact Hk]. intros x Hx. apply Hc. cbn [names]. apply in_or_app. left. exact Hx. }
      assert (Hca : okcmd a) by (intros x Hx; apply Hc; cbn [names]; apply in_or_app; right; apply in_or_app; left; exact Hx).
      assert (Hcb : okcmd b) by (intros x Hx; apply Hc; cbn [names]; apply in_or_app; right; apply in_or_app; right; exact Hx).
      cbn [exec rename]. rewrite (ev_idx_r env k Hk), get_r, tlookup_r; [|exact Hok|apply get_ok; exact Hs].
      destruct (tlookup (ev_idx env k) (get st t)); [exact (IHa env st out Hca Hcla He Hs)|exact (IHb env st out Hcb Hclb He Hs)].
    - (* IfVal *) cbn [closed] in Hcl. destruct Hcl as [Hk [Hcla Hclb]].
      assert (Hok : okid (ev_idx env k)).
      { apply ev_idx_ok'; [exact He| |exact Hk]. intros x Hx. apply Hc. cbn [names]. apply in_or_app. left. exact Hx. }
      assert (Hca : okcmd a) by (intros x Hx; apply Hc; cbn [names]; apply in_or_app; right; apply in_or_app; left; exact Hx).
      assert (Hcb : okcmd b) by (intros x Hx; apply Hc; cbn [names]; apply in_or_app; right; apply in_or_app; right; exact Hx).
      cbn [exec rename]. rewrite (ev_idx_r env k Hk), get_r, tlookup_r; [|exact Hok|apply get_ok; exact Hs].
      destruct (tlookup (ev_idx env k) (get st t)) as [w|]; [|exact (IHb env st out Hcb Hclb He Hs)].
      destruct (N.eqb w v); [exact (IHa env st out Hca Hcla He Hs)|exact (IHb env st out Hcb Hclb He Hs)].
    - (* IfSame *) cbn [closed] in Hcl. destruct Hcl as [Hk1 [Hk2 [Hcla Hclb]]].
      assert (Hok1 : okid (ev_idx env k1)).
      { apply ev_idx_ok'; [exact He| |exact Hk1]. intros x Hx. apply Hc. cbn [names]. apply in_or_app. left. exact Hx. }
      assert (Hok2 : okid (ev_idx env k2)).
      { apply ev_idx_ok'; [exact He| |exact Hk2]. intros x Hx. apply Hc. cbn [names]. apply in_or_app. right. apply in_or_app. left. exact Hx. }
      assert (Hca : okcmd a) by (intros x Hx; apply Hc; cbn [names]; apply in_or_app; right; apply in_or_app; right; apply in_or_app; left; exact Hx).
      assert (Hcb : okcmd b) by (intros x Hx; apply Hc; cbn [names]; apply in_or_app; right; apply in_or_app; right; apply in_or_app; right; exact Hx).
      cbn [exec rename]. rewrite (ev_idx_r env k1 Hk1), (ev_idx_r env k2 Hk2), (id_eqb_rid _ _ Hok1 Hok2).
      destruct (id_eqb (ev_idx env k1) (ev_idx env k2)); [exact (IHa env st out Hca Hcla He Hs)|exact (IHb env st out Hcb Hclb He Hs)].
    - (* IfSameName *) cbn [closed] in Hcl. destruct Hcl as [Hk1 [Hk2 [Hcla Hclb]]].
      assert (Hok1 : okid (ev_idx env k1)).
      { apply ev_idx_ok'; [exact He| |exact Hk1]. intros x Hx. apply Hc. cbn [names]. apply in_or_app. left. exact Hx. }
      assert (Hok2 : okid (ev_idx env k2)).
      { apply ev_idx_ok'; [exact He| |exact Hk2]. intros x Hx. apply Hc. cbn [names]. apply in_or_app. right. apply in_or_app. left. exact Hx. }
      assert (Hca : okcmd a) by (intros x Hx; apply Hc; cbn [names]; apply in_or_app; right; apply in_or_app; right; apply in_or_app; left; exact Hx).
      assert (Hcb : okcmd b) by (intros x Hx; apply Hc; cbn [names]; apply in_or_app; right; apply in_or_app; right; apply in_or_app; right; exact Hx).
      cbn [exec rename]. rewrite (ev_idx_r env k1 Hk1), (ev_idx_r env k2 Hk2). unfold rid at 1 2. cbn [fst].
      rewrite (name_eqb_rid _ _ Hok1 Hok2).
      destruct (str_eqb (fst (ev_idx env k1)) (fst (ev_idx env k2))); [exact (IHa env st out Hca Hcla He Hs)|exact (IHb env st out Hcb Hclb He Hs)].
    - (* IfReserved *) cbn [closed] in Hcl. destruct Hcl as [Hk [Hcla Hclb]].
      assert (Hok : okid (ev_idx env k)).
      { apply ev_idx_ok'; [exact He| |exact Hk]. intros x Hx. apply Hc. cbn [names]. apply in_or_app. left. exact Hx. }
      assert (Hca : okcmd a) by (intros x Hx; apply Hc; cbn [names]; apply in_or_app; right; apply in_or_app; left; exact Hx).
      assert (Hcb : okcmd b) by (intros x Hx; apply Hc; cbn [names]; apply in_or_app; right; apply in_or_app; right; exact Hx).
      cbn [exec rename]. rewrite (ev_idx_r env k Hk). unfold rid at 1. cbn [fst]. rewrite (r_avoids _ Hok).
      destruct (reserved (fst (ev_idx env k))); [exact (IHa env st out Hca Hcla He Hs)|exact (IHb env st out Hcb Hclb He Hs)].
    - (* Report *) cbn [closed] in Hcl. destruct Hcl as [Hp Hk].
      cbn [exec rename fst snd]. split; [|exact Hs].
      rewrite (ev_idx_r env k Hk), ev_pos_r; [|exact He|exact Hs| |exact Hp].
      + unfold rename_out. rewrite map_app. reflexivity.
      + intros x Hx. apply Hc. cbn [names]. apply in_or_app. left. exact Hx.
    - (* ForEach *) cbn [closed] in Hcl.
      assert (Hcb : okcmd body) by (intros x Hx; apply Hc; exact Hx).
      cbn [exec rename]. rewrite get_r.
      pose proof (get_ok st t Hs) as Hl. revert Hl. generalize (get st t) as l.
      intros l. revert st out Hs.
      induction l as [|[k v] l IHl]; intros st out Hs Hl.
      + cbn [rtable map fold_left fst snd]. auto.
      + inversion Hl as [|? ? Hk Hl']; subst. cbn [rtable map fold_left fst snd].
        assert (He' : okenv (k :: env)) by (constructor; [exact Hk|exact He]).
        destruct (IHbody (k :: env) st out Hcb Hcl He' Hs) as [E O]. cbn [map] in E. rewrite E.
        destruct (exec reserved (k :: env) body (st, out)) as [st1 out1] eqn:E1. cbn [fst snd] in *.
        exact (IHl st1 out1 O Hl').
  Qed.
End Equivariance.

Lemma rename_out_nil r : rename_out r [] = [].
Proof. reflexivity. Qed.

(* C20 on the model *)
Theorem rename_equivariant : forall (reserved : str -> bool) (r : str -> str) (p : cmd),
  closed 0 p -> injective_on r (names p) -> avoids r reserved (names p) ->
  run reserved (rename r p) = rename_out r (run reserved p).
Proof.
  intros reserved r p Hcl Hinj Hav. unfold run.
  destruct (exec_sim r reserved (fun x => In x (names p)) Hinj Hav p [] [] []) as [E _].
  - intros x Hx. exact Hx.
  - exact Hcl.
  - constructor.
  - constructor.
  - replace (exec reserved [] (rename r p) ([], []))
      with (exec reserved (map (rid r) []) (rename r p) (rstate r [], rename_out r [])) by reflexivity.
    rewrite E. reflexivity.
Qed.

(* the number, the codes, the positions and the order of the reports do not change at all *)
Corollary rename_keeps_codes_and_positions : forall reserved r p,
  closed 0 p -> injective_on r (names p) -> avoids r reserved (names p) ->
  map fst (run reserved (rename r p)) = map fst (run reserved p).
Proof.
  intros reserved r p Hcl Hinj Hav. rewrite (rename_equivariant reserved r p Hcl Hinj Hav).
  unfold rename_out. rewrite map_map. reflexivity.
Qed.

(* ---------------------------------------------------------------- the binding-tracking cores as Id-table programs.
   A file is abstracted to the events its visitor sees, in source order. *)
Inductive event :=
  | EDeclare (kind : N) (i : Id) (pos : N)      (* kind: 0 var/let, 1 const, 2 class, 3 function, 4 catch, 5 import *)
  | EAssign (i : Id) (pos : N)
  | EUse (i : Id) (pos : N).

Definition rename_event (r : str -> str) (e : event) : event :=
  match e with
  | EDeclare k i p => EDeclare k (rid r i) p
  | EAssign i p => EAssign (rid r i) p
  | EUse i p => EUse (rid r i) p
  end.

Definition seqs (l : list cmd) : cmd := fold_right Seq Skip l.

(* tables *)
Definition T_BINDINGS : N := 0. Definition T_KIND : N := 1. Definition T_USED : N := 2. Definition T_POS : N := 3. Definition T_STATUS : N := 4.

(* no-redeclare: a second declaration of the same Id *)
Definition no_redeclare_core (evs : list event) : cmd :=
  seqs (map (fun e => match e with
                      | EDeclare _ i p => IfMem T_BINDINGS (Lit i) (Report 1 (PLit p) (Lit i)) (Insert T_BINDINGS (Lit i) (PLit p))
                      | _ => Skip end) evs).

(* no-const-assign / no-class-assign / no-func-assign / no-ex-assign / no-import-assign: first pass collects the
   declarations of one kind, second pass reports assignments to them *)
Definition no_assign_core (kind code : N) (evs : list event) : cmd :=
  Seq (seqs (map (fun e => match e with EDeclare k i p => if N.eqb k kind then Insert T_KIND (Lit i) (PLit k) else Skip | _ => Skip end) evs))
      (seqs (map (fun e => match e with EAssign i p => IfVal T_KIND (Lit i) kind (Report code (PLit p) (Lit i)) Skip | _ => Skip end) evs)).

(* no-unused-vars: declared minus used, reported in declaration order at the declaration, unless the spelling is exempt *)
Definition no_unused_core (evs : list event) : cmd :=
  Seq (seqs (map (fun e => match e with
                           | EDeclare _ i p => IfMem T_POS (Lit i) Skip (Insert T_POS (Lit i) (PLit p))
                           | EUse i _ => Insert T_USED (Lit i) (PLit 0)
                           | EAssign _ _ => Skip end) evs))
      (ForEach T_POS (IfMem T_USED (Var 0) Skip (IfReserved (Var 0) Skip (Report 3 (PVal T_POS (Var 0)) (Var 0))))).

(* prefer-const: status 0 declared, 1 initialised once, 2 reassigned; report the `let`s that end in status 1 *)
Definition prefer_const_core (evs : list event) : cmd :=
  Seq (seqs (map (fun e => match e with
                           | EDeclare 0 i p => Seq (Insert T_POS (Lit i) (PLit p)) (Insert T_STATUS (Lit i) (PLit 0))
                           | EAssign i _ => IfVal T_STATUS (Lit i) 0 (Insert T_STATUS (Lit i) (PLit 1))
                                              (IfVal T_STATUS (Lit i) 1 (Insert T_STATUS (Lit i) (PLit 2)) Skip)
                           | _ => Skip end) evs))
      (ForEach T_STATUS (IfVal T_STATUS (Var 0) 1 (Report 4 (PVal T_POS (Var 0)) (Var 0)) Skip)).

Lemma seqs_rename r l : rename r (seqs l) = seqs (map (rename r) l).
Proof. induction l as [|c l IH]; [reflexivity|]. cbn [seqs fold_right map rename]. f_equal. exact IH. Qed.

Lemma closed_seqs d l : (forall c, In c l -> closed d c) -> closed d (seqs l).
Proof.
  induction l as [|c l IH]; intros H; [exact I|]. cbn [seqs fold_right closed]. split.
  - apply H. left. reflexivity.
  - apply IH. intros c' Hc'. apply H. right. exact Hc'.
Qed.

(* the cores only copy the identifiers of the file into their tables: they commute with renaming *)
Lemma no_redeclare_parametric r evs : no_redeclare_core (map (rename_event r) evs) = rename r (no_redeclare_core evs).
Proof.
  unfold no_redeclare_core. rewrite seqs_rename, !map_map. f_equal. apply map_ext. intros [k i p|i p|i p]; reflexivity.
Qed.

Lemma no_assign_parametric r kind code evs :
  no_assign_core kind code (map (rename_event r) evs) = rename r (no_assign_core kind code evs).
Proof.
  unfold no_assign_core. cbn [rename]. rewrite !seqs_rename, !map_map. f_equal; f_equal; apply map_ext; intros [k i p|i p|i p]; try reflexivity.
  cbn [rename_event]. destruct (N.eqb k kind); reflexivity.
Qed.

Lemma no_unused_parametric r evs : no_unused_core (map (rename_event r) evs) = rename r (no_unused_core evs).
Proof.
  unfold no_unused_core. cbn [rename ridx rpexp]. rewrite seqs_rename, !map_map. f_equal. f_equal. apply map_ext.
  intros [k i p|i p|i p]; reflexivity.
Qed.

Lemma prefer_const_parametric r evs : prefer_const_core (map (rename_event r) evs) = rename r (prefer_const_core evs).
Proof.
  unfold prefer_const_core. cbn [rename ridx rpexp]. rewrite seqs_rename, !map_map. f_equal. f_equal. apply map_ext.
  intros [k i p|i p|i p]; try reflexivity. cbn [rename_event]. destruct k; reflexivity.
Qed.

Lemma cores_closed evs kind code :
  closed 0 (no_redeclare_core evs) /\ closed 0 (no_assign_core kind code evs) /\
  closed 0 (no_unused_core evs) /\ closed 0 (prefer_const_core evs).
Proof.
  assert (S1 : closed 0 (no_redeclare_core evs)).
  { apply closed_seqs. intros c Hc. apply in_map_iff in Hc. destruct Hc as [[k i p|i p|i p] [<- _]]; cbn; repeat split. }
  assert (S2 : closed 0 (no_assign_core kind code evs)).
  { split; apply closed_seqs; intros c Hc; apply in_map_iff in Hc; destruct Hc as [[k i p|i p|i p] [<- _]]; cbn; repeat split.
    destruct (N.eqb k kind); cbn; repeat split. }
  assert (S3 : closed 0 (no_unused_core evs)).
  { split; [|cbn; repeat split; lia]. apply closed_seqs. intros c Hc. apply in_map_iff in Hc. destruct Hc as [[k i p|i p|i p] [<- _]]; cbn; repeat split. }
  assert (S4 : closed 0 (prefer_const_core evs)).
  { split; [|cbn; repeat split; lia]. apply closed_seqs. intros c Hc. apply in_map_iff in Hc. destruct Hc as [[k i p|i p|i p] [<- _]]; cbn; repeat split.
    destruct k; cbn; repeat split. }
  auto.
Qed.

(* C20 for any core that commutes with renaming: lint the renamed file = rename the reports of the original file *)
Theorem core_rename_equivariant : forall (core : list event -> cmd) reserved r evs,
  core (map (rename_event r) evs) = rename r (core evs) -> closed 0 (core evs) ->
  injective_on r (names (core evs)) -> avoids r reserved (names (core evs)) ->
  run reserved (core (map (rename_event r) evs)) = rename_out r (run reserved (core evs)).
Proof.
  intros core reserved r evs Hpar Hcl Hinj Hav. rewrite Hpar. apply rename_equivariant; assumption.
Qed.

(* ---------------------------------------------------------------- non-vacuity and necessity of the hypotheses *)
Definition nA : str := [97]. Definition nB : str := [98]. Definition nU : str := [95; 117].   (* a, b, _u *)
Definition ex_events : list event :=
  [ EDeclare 0 (nA, 2) 4; EDeclare 0 (nB, 2) 11; EDeclare 0 (nA, 2) 18;       (* let a; let b; let a  -- redeclared *)
    EDeclare 0 (nA, 3) 30; EDeclare 0 (nU, 2) 37;                              (* an inner `a` (another context), and `_u` *)
    EAssign (nB, 2) 44; EUse (nA, 3) 50 ].

Definition underscore (x : str) : bool := match x with 95 :: _ => true | _ => false end.

Example ex_redeclare : run underscore (no_redeclare_core ex_events) = [ (1, 18, (nA, 2)) ].
Proof. vm_compute. reflexivity. Qed.

Example ex_unused : run underscore (no_unused_core ex_events) = [ (3, 4, (nA, 2)); (3, 11, (nB, 2)) ].
Proof. vm_compute. reflexivity. Qed.

Example ex_prefer_const : run underscore (prefer_const_core ex_events) = [ (4, 11, (nB, 2)) ].
Proof. vm_compute. reflexivity. Qed.

(* a shape-preserving fresh spelling: a -> q, everything else fixed *)
Definition ex_r (x : str) : str := if str_eqb x nA then [113] else x.

Example ex_renamed : run underscore (no_unused_core (map (rename_event ex_r) ex_events))
                     = [ (3, 4, ([113], 2)); (3, 11, (nB, 2)) ].
Proof. vm_compute. reflexivity. Qed.

(* without injectivity (a and b merged) the reports change ... *)
Example injectivity_needed :
  let r := fun x : str => if str_eqb x nA then nB else x in
  map fst (run underscore (no_redeclare_core (map (rename_event r) ex_events)))
  <> map fst (run underscore (no_redeclare_core ex_events)).
Proof. vm_compute. discriminate. Qed.

(* ... and so they do when the renaming moves a name into the reserved spellings (a -> _a) *)
Example avoidance_needed :
  let r := fun x : str => if str_eqb x nA then [95; 97] else x in
  map fst (run underscore (no_unused_core (map (rename_event r) ex_events)))
  <> map fst (run underscore (no_unused_core ex_events)).
Proof. vm_compute. discriminate. Qed.
