(* Obligations about the GENERATED registry (coq/Gen/Registry.v is rewritten from the running
   implementation on every check); closed by computation over the finite table. *)
From V Require Import Select.Select Select.SelectProofs Gen.Registry.
From Coq Require Import Permutation Sorted.
Open Scope N_scope.

Fixpoint nodupb (l : list str) : bool :=
  match l with [] => true | x :: t => negb (mem x t) && nodupb t end.
Lemma nodupb_NoDup l : nodupb l = true -> NoDup l.
Proof.
  induction l as [|x t IH]; cbn [nodupb]; [constructor|].
  intros H. apply andb_true_iff in H. destruct H as [H1 H2]. constructor; [|auto].
  apply mem_not_In. destruct (mem x t); [discriminate | reflexivity].
Qed.

Fixpoint sortedb (l : list rule) : bool :=
  match l with [] => true | x :: t => forallb (code_leb x) t && sortedb t end.
Lemma sortedb_sorted l : sortedb l = true -> StronglySorted (fun a b => code_leb a b = true) l.
Proof.
  induction l as [|x t IH]; cbn [sortedb]; [constructor|].
  intros H. apply andb_true_iff in H. destruct H as [H1 H2]. constructor; [auto|].
  apply Forall_forall. apply forallb_forall. exact H1.
Qed.

Definition U32_MAX : N := 4294967295.
Definition ACCOUNTING : list str :=
  [ [98;97;110;45;117;110;117;115;101;100;45;105;103;110;111;114;101];                      (* ban-unused-ignore *)
    [98;97;110;45;117;110;107;110;111;119;110;45;114;117;108;101;45;99;111;100;101] ].    (* ban-unknown-rule-code *)

Theorem registry_codes_nodup : NoDup (map r_code registry).
Proof. apply nodupb_NoDup. vm_compute. reflexivity. Qed.

Theorem registry_sorted : StronglySorted (fun a b => code_leb a b = true) registry.
Proof. apply sortedb_sorted. vm_compute. reflexivity. Qed.

Theorem registry_tags_known :
  forall r, In r registry -> forall t, In t (r_tags r) -> In t all_tags.
Proof.
  assert (H : forallb (fun r => forallb (fun t => mem t all_tags) (r_tags r)) registry = true) by (vm_compute; reflexivity).
  intros r Hr t Ht. rewrite forallb_forall in H. specialize (H r Hr). rewrite forallb_forall in H.
  apply mem_In. apply H. exact Ht.
Qed.

(* the directive-accounting rules, and only they, have a non-zero (huge) priority *)
Definition expected_prio (c : str) : N :=
  if str_eqb c (nth 0 ACCOUNTING []) then U32_MAX
  else if str_eqb c (nth 1 ACCOUNTING []) then U32_MAX - 1 else 0.

Theorem registry_priorities :
  forall r, In r registry -> r_prio r = expected_prio (r_code r).
Proof.
  assert (H : forallb (fun r => r_prio r =? expected_prio (r_code r)) registry = true) by (vm_compute; reflexivity).
  intros r Hr. rewrite forallb_forall in H. apply N.eqb_eq. apply H. exact Hr.
Qed.

Theorem registry_accounting_after_ordinary :
  forall a b, In a registry -> In b registry ->
  mem (r_code a) ACCOUNTING = false -> mem (r_code b) ACCOUNTING = true -> r_prio a < r_prio b.
Proof.
  assert (H : forallb (fun a => forallb (fun b =>
              if negb (mem (r_code a) ACCOUNTING) && mem (r_code b) ACCOUNTING then r_prio a <? r_prio b else true)
              registry) registry = true) by (vm_compute; reflexivity).
  intros a b Ha Hb Na Ab. rewrite forallb_forall in H. specialize (H a Ha). rewrite forallb_forall in H.
  specialize (H b Hb). rewrite Na, Ab in H. cbn in H. apply N.ltb_lt. exact H.
Qed.

Theorem registry_accounting_present : forall c, In c ACCOUNTING -> In c (map r_code registry).
Proof.
  assert (H : forallb (fun c => mem c (map r_code registry)) ACCOUNTING = true) by (vm_compute; reflexivity).
  intros c Hc. rewrite forallb_forall in H. apply mem_In. apply H. exact Hc.
Qed.

(* the model's recommended set is what the implementation's recommended_rules returned ... *)
Theorem registry_recommended_agrees : map r_code (recommended_rules registry) = impl_recommended.
Proof. vm_compute. reflexivity. Qed.

(* ... and is selection by the tag *)
Theorem registry_recommended_is_tag :
  recommended_rules registry = filtered_rules registry (Some [RECOMMENDED]) None None.
Proof. apply recommended_is_tag. exact registry_sorted. Qed.

Theorem registry_rules_determined_by_code :
  forall a b, In a registry -> In b registry -> r_code a = r_code b -> a = b.
Proof.
  intros a b Ha Hb E. pose proof registry_codes_nodup as Hnd.
  induction registry as [|x t IH]; [contradiction|].
  cbn [map] in Hnd. inversion Hnd as [|? ? Hnin Hnd']; subst.
  destruct Ha as [<-|Ha], Hb as [<-|Hb]; auto.
  - exfalso. apply Hnin. rewrite E. apply in_map. exact Hb.
  - exfalso. apply Hnin. rewrite <- E. apply in_map. exact Ha.
Qed.

Theorem filtered_nodup_on_registry T Exc Inc : NoDup (map r_code (filtered_rules registry T Exc Inc)).
Proof. apply filtered_nodup. exact registry_codes_nodup. Qed.
