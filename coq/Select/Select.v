(* Model of src/rules.rs: filtered_rules, recommended_rules, sort_rules_by_priority. *)
From V Require Export Common.Str Common.Sort.
Open Scope N_scope.

Record rule := mkRule { r_code : str; r_tags : list str; r_prio : N }.

Definition has_tag (T : list str) (r : rule) : bool := existsb (fun t => mem t T) (r_tags r).

(* the closure of `filtered_rules` *)
Definition passes (T Exc Inc : option (list str)) (r : rule) : bool :=
  let p := match T with Some T => has_tag T r | None => true end in
  let p := match Inc with Some Inc => if mem (r_code r) Inc then true else p | None => p end in
  match Exc with Some Exc => if mem (r_code r) Exc then false else p | None => p end.

Definition code_leb (a b : rule) : bool := str_leb (r_code a) (r_code b).

Definition filtered_rules (all : list rule) (T Exc Inc : option (list str)) : list rule :=
  ssort code_leb (filter (passes T Exc Inc) all).

Definition RECOMMENDED : str := [114; 101; 99; 111; 109; 109; 101; 110; 100; 101; 100].

Definition recommended_rules (all : list rule) : list rule :=
  filter (fun r => mem RECOMMENDED (r_tags r)) all.

(* sort_rules_by_priority: by priority, then code *)
Definition prio_leb (a b : rule) : bool :=
  match N.compare (r_prio a) (r_prio b) with
  | Lt => true | Gt => false | Eq => str_leb (r_code a) (r_code b)
  end.

Definition sort_rules_by_priority (rs : list rule) : list rule := ssort prio_leb rs.
