From V Require Import Select.Select.
From Coq Require Import Permutation Sorted.
Open Scope N_scope.

Lemma code_leb_total a b : code_leb a b = true \/ code_leb b a = true.
Proof. apply str_leb_total. Qed.
Lemma code_leb_trans a b c : code_leb a b = true -> code_leb b c = true -> code_leb a c = true.
Proof. apply str_leb_trans. Qed.

Lemma prio_leb_total a b : prio_leb a b = true \/ prio_leb b a = true.
Proof.
  unfold prio_leb. rewrite (N.compare_antisym (r_prio a) (r_prio b)).
  destruct (N.compare (r_prio a) (r_prio b)); cbn; auto. apply str_leb_total.
Qed.

Lemma prio_leb_trans a b c : prio_leb a b = true -> prio_leb b c = true -> prio_leb a c = true.
Proof.
  unfold prio_leb. intros H1 H2.
  destruct (N.compare_spec (r_prio a) (r_prio b)) as [E1|L1|G1]; [| |discriminate];
  (destruct (N.compare_spec (r_prio b) (r_prio c)) as [E2|L2|G2]; [| |discriminate]);
  destruct (N.compare_spec (r_prio a) (r_prio c)) as [E3|L3|G3]; try lia; try reflexivity.
  eapply str_leb_trans; eassumption.
Qed.

Definition tagged (T : option (list str)) (r : rule) : Prop :=
  match T with None => True | Some T => exists t, In t (r_tags r) /\ In t T end.
Definition listed (L : option (list str)) (r : rule) : Prop :=
  match L with None => False | Some L => In (r_code r) L end.

Lemma has_tag_iff T r : has_tag T r = true <-> exists t, In t (r_tags r) /\ In t T.
Proof.
  unfold has_tag. rewrite existsb_exists. split; intros [t [H1 H2]]; exists t; split; auto; apply mem_In; assumption.
Qed.

Lemma passes_iff T Exc Inc r :
  passes T Exc Inc r = true <-> (tagged T r \/ listed Inc r) /\ ~ listed Exc r.
Proof.
  unfold passes, tagged, listed.
  destruct Exc as [Exc|].
  - destruct (mem (r_code r) Exc) eqn:EX.
    + apply mem_In in EX. split; [discriminate | tauto].
    + apply mem_not_In in EX. destruct Inc as [Inc|].
      * destruct (mem (r_code r) Inc) eqn:EI.
        -- apply mem_In in EI. tauto.
        -- apply mem_not_In in EI. destruct T as [T|]; [rewrite has_tag_iff|]; tauto.
      * destruct T as [T|]; [rewrite has_tag_iff|]; tauto.
  - destruct Inc as [Inc|].
    + destruct (mem (r_code r) Inc) eqn:EI.
      * apply mem_In in EI. tauto.
      * apply mem_not_In in EI. destruct T as [T|]; [rewrite has_tag_iff|]; tauto.
    + destruct T as [T|]; [rewrite has_tag_iff|]; tauto.
Qed.

(* exactly the rules that (carry a tag in T, or T is absent, or are listed in Inc) and are not listed in Exc *)
Theorem filtered_spec all T Exc Inc r :
  In r (filtered_rules all T Exc Inc) <-> In r all /\ (tagged T r \/ listed Inc r) /\ ~ listed Exc r.
Proof.
  unfold filtered_rules. rewrite ssort_In, filter_In, passes_iff. tauto.
Qed.

(* each once: as many copies as in the registry (one, the registry has no duplicates) *)
Theorem filtered_perm all T Exc Inc :
  Permutation (filtered_rules all T Exc Inc) (filter (passes T Exc Inc) all).
Proof. apply ssort_perm. Qed.

Theorem filtered_nodup all T Exc Inc :
  NoDup (map r_code all) -> NoDup (map r_code (filtered_rules all T Exc Inc)).
Proof.
  intros H. eapply Permutation_NoDup; [apply Permutation_map, Permutation_sym, filtered_perm|].
  induction all as [|a t IH]; cbn [filter map]; [constructor|].
  inversion H as [|? ? Hnin Hnd]; subst. destruct (passes T Exc Inc a); cbn [map]; [|apply IH; assumption].
  constructor; [|apply IH; assumption].
  intros Hin. apply Hnin. apply in_map_iff in Hin. destruct Hin as [x [E Hx]]. apply filter_In in Hx.
  apply in_map_iff. exists x. tauto.
Qed.

Theorem filtered_sorted all T Exc Inc :
  StronglySorted (fun a b => str_leb (r_code a) (r_code b) = true) (filtered_rules all T Exc Inc).
Proof. apply (ssort_sorted _ code_leb code_leb_total code_leb_trans). Qed.

(* unknown names in the include / exclude lists are ignored *)
Definition known_in (all : list rule) (c : str) : bool := mem c (map r_code all).

Theorem unknown_names_ignored all T Exc Inc :
  filtered_rules all T (option_map (filter (known_in all)) Exc) (option_map (filter (known_in all)) Inc)
  = filtered_rules all T Exc Inc.
Proof.
  unfold filtered_rules. f_equal. apply filter_ext_in. intros r Hr.
  assert (K : known_in all (r_code r) = true) by (apply mem_In, in_map; exact Hr).
  assert (M : forall L, mem (r_code r) (filter (known_in all) L) = mem (r_code r) L).
  { intros L. destruct (mem (r_code r) L) eqn:E.
    - apply mem_In. apply filter_In. apply mem_In in E. auto.
    - apply mem_not_In. rewrite filter_In. apply mem_not_In in E. tauto. }
  unfold passes. destruct Exc as [Exc|], Inc as [Inc|]; cbn [option_map]; rewrite ?M; reflexivity.
Qed.

Theorem exclude_beats_include all T Exc Inc r :
  listed Exc r -> ~ In r (filtered_rules all T Exc Inc).
Proof. intros H Hin. apply filtered_spec in Hin. tauto. Qed.

Theorem empty_tags_select_nothing all r :
  ~ In r (filtered_rules all (Some []) None None).
Proof. intros H. apply filtered_spec in H. destruct H as [_ [[[t [_ []]]|[]] _]]. Qed.

(* the recommended set is exactly the rules tagged recommended (in registry order) *)
Theorem recommended_spec all r :
  In r (recommended_rules all) <-> In r all /\ In RECOMMENDED (r_tags r).
Proof. unfold recommended_rules. rewrite filter_In, mem_In. tauto. Qed.

(* when the registry is sorted by code, it coincides with selection by the tag *)
Theorem recommended_is_tag all :
  StronglySorted (fun a b => code_leb a b = true) all ->
  recommended_rules all = filtered_rules all (Some [RECOMMENDED]) None None.
Proof.
  intros Hs. unfold filtered_rules, recommended_rules.
  assert (E : forall r, passes (Some [RECOMMENDED]) None None r = mem RECOMMENDED (r_tags r)).
  { intros r. unfold passes, has_tag. unfold mem at 2.
    induction (r_tags r) as [|t ts IH]; cbn [existsb]; [reflexivity|].
    rewrite IH. f_equal. unfold mem. cbn [existsb]. rewrite orb_false_r. apply str_eqb_sym. }
  rewrite (filter_ext _ _ E). symmetry. apply ssort_sorted_id; [apply code_leb_total | apply code_leb_trans|].
  clear E. induction Hs as [|a t Hs IH Hall]; cbn [filter]; [constructor|].
  destruct (mem RECOMMENDED (r_tags a)); [|exact IH].
  constructor; [exact IH|]. rewrite Forall_forall in *. intros x Hx. apply filter_In in Hx. apply Hall. tauto.
Qed.

(* the linter runs exactly the selected rules, by priority then code *)
Theorem priority_sort_perm rs : Permutation (sort_rules_by_priority rs) rs.
Proof. apply ssort_perm. Qed.

Theorem priority_sort_sorted rs :
  StronglySorted (fun a b => prio_leb a b = true) (sort_rules_by_priority rs).
Proof. apply (ssort_sorted _ prio_leb prio_leb_total prio_leb_trans). Qed.

Lemma sorted_app_r {X} (R : X -> X -> Prop) l1 l2 : StronglySorted R (l1 ++ l2) -> StronglySorted R l2.
Proof. induction l1 as [|a t IH]; cbn [app]; [auto|]. intros H. inversion H; subst. apply IH. assumption. Qed.

(* hence a rule of strictly larger priority (the directive-accounting rules) never runs before
   one of smaller priority *)
Theorem accounting_rules_last rs pre a post b :
  sort_rules_by_priority rs = pre ++ a :: post -> In b post -> r_prio a <= r_prio b.
Proof.
  intros E Hb. pose proof (priority_sort_sorted rs) as S. rewrite E in S.
  apply sorted_app_r in S. inversion S as [|? ? _ Hall]; subst.
  rewrite Forall_forall in Hall. specialize (Hall b Hb). unfold prio_leb in Hall.
  destruct (N.compare_spec (r_prio a) (r_prio b)); try lia; discriminate.
Qed.

(* the order in which the rules were supplied is irrelevant *)
Theorem rule_order_irrelevant rs rs' :
  NoDup (map r_code rs) -> (forall a b, In a rs -> In b rs -> r_code a = r_code b -> a = b) ->
  Permutation rs rs' -> sort_rules_by_priority rs = sort_rules_by_priority rs'.
Proof.
  intros Hnd Hinj P. unfold sort_rules_by_priority.
  apply ssort_stable_perm; [apply prio_leb_total | apply prio_leb_trans | exact P|].
  intros x.
  (* every equivalence class has at most one element *)
  assert (K : forall l, Permutation rs l -> forall a b, In a (filter (eqv prio_leb x) l) -> In b (filter (eqv prio_leb x) l) -> a = b).
  { intros l Pl a b Ha Hb. apply filter_In in Ha, Hb. destruct Ha as [Ha Ea], Hb as [Hb Eb].
    apply Hinj; try (eapply Permutation_in; [apply Permutation_sym; exact Pl | assumption]).
    assert (Q : forall y, eqv prio_leb x y = true -> r_code y = r_code x).
    { intros y Hy. unfold eqv, prio_leb in Hy. rewrite (N.compare_antisym (r_prio x) (r_prio y)) in Hy.
      destruct (N.compare (r_prio x) (r_prio y)); cbn in Hy; try discriminate.
      apply andb_true_iff in Hy. destruct Hy. symmetry. apply str_leb_antisym; assumption. }
    rewrite (Q a Ea), (Q b Eb). reflexivity. }
  assert (Pf : Permutation (filter (eqv prio_leb x) rs) (filter (eqv prio_leb x) rs')).
  { clear K. induction P as [|a l l' P' IH|a b l|l l' l'' P1 IH1 P2 IH2]; cbn [filter].
    - reflexivity.
    - assert (NoDup (map r_code l)) by (inversion Hnd; assumption).
      assert (forall a b, In a l -> In b l -> r_code a = r_code b -> a = b) by (intros; apply Hinj; cbn; auto).
      destruct (eqv prio_leb x a); [constructor|]; apply IH; assumption.
    - destruct (eqv prio_leb x b), (eqv prio_leb x a); try reflexivity. apply perm_swap.
    - etransitivity; [apply IH1; assumption|]. apply IH2.
      + eapply Permutation_NoDup; [apply Permutation_map; exact P1 | exact Hnd].
      + intros a b Ha Hb. apply Hinj; eapply Permutation_in; try (apply Permutation_sym; exact P1); assumption. }
  pose proof (K rs (Permutation_refl _)) as K1. pose proof (K rs' P) as K2.
  assert (NoDup (filter (eqv prio_leb x) rs)) as N1.
  { apply NoDup_filter. eapply NoDup_map_inv. exact Hnd. }
  destruct (filter (eqv prio_leb x) rs) as [|a [|b t]] eqn:E1.
  - apply Permutation_nil in Pf. congruence.
  - apply Permutation_length_1_inv in Pf. congruence.
  - exfalso. inversion N1 as [|? ? Hnin _]; subst. apply Hnin. left. symmetry. apply K1; cbn; auto.
Qed.

(* ---------- dlint's two ways of selecting rules (examples/dlint/main.rs, config.rs) ---------- *)
Definition dlint_config_rules (all : list rule) (tags excl incl : list str) : list rule :=
  filtered_rules all (Some tags) (Some excl) (Some incl).
Definition dlint_rule_flag (all : list rule) (c : str) : list rule :=
  filtered_rules all (Some []) None (Some [c]).

(* `--rule c` runs exactly the rule whose code is c *)
Theorem rule_flag_selects_exactly all c r :
  In r (dlint_rule_flag all c) <-> In r all /\ r_code r = c.
Proof.
  unfold dlint_rule_flag. rewrite filtered_spec. unfold tagged, listed. cbn [In]. split.
  - intros [Ha [[[t [_ []]]|[H|[]]] _]]. auto.
  - intros [Ha E]. split; [exact Ha|]. split; [right; left; symmetry; exact E | tauto].
Qed.

(* a config file selects (tagged or included) and not excluded *)
Theorem config_selects all tags excl incl r :
  In r (dlint_config_rules all tags excl incl) <->
  In r all /\ ((exists t, In t (r_tags r) /\ In t tags) \/ In (r_code r) incl) /\ ~ In (r_code r) excl.
Proof. unfold dlint_config_rules. rewrite filtered_spec. reflexivity. Qed.
