(* Applying the changes of one quick fix to a text.

   REPRESENTATION.  `apply_fix` is polymorphic in the element type: a text is a `list A`, a change is
   `(start, end, new_text)` with offsets counted in ELEMENTS.  It is used at A = byte (`list N` holding
   the UTF-8 bytes, offsets = the 0-based byte offsets the implementation reports), which is what the
   python side of the C13 check implements; `apply_fix_utf8` links a byte-level change whose ends are
   char boundaries to the corresponding splice of the code-point list, so the builders can be stated
   over code points with byte offsets computed by `bytes`/`utf8_len`.

   `apply_fix text chs = None` iff the changes are not sorted by start, overlap, have start > end or
   reach beyond the text (deno_ast::apply_text_changes panics on the first three and silently
   truncates the fourth; C03 demands in-bounds, so the model refuses it).  The implementation sorts the
   changes by (start, end) first: `apply_sorted`. *)
From V Require Export Common.Utf.
From Coq Require Import PeanoNat.
Open Scope N_scope.

Section Apply.
Context {A : Type}.

Definition change : Type := N * N * list A.

(* `text` is the part of the original text that starts at absolute offset `pos` *)
Fixpoint apply_from (pos : N) (text : list A) (chs : list change) : option (list A) :=
  match chs with
  | [] => Some text
  | (s, e, n) :: r =>
      if (pos <=? s) && (s <=? e) && (e - pos <=? len text) then
        match apply_from e (skipn (N.to_nat (e - pos)) text) r with
        | Some t' => Some (firstn (N.to_nat (s - pos)) text ++ n ++ t')
        | None => None
        end
      else None
  end.

Definition apply_fix (text : list A) (chs : list change) : option (list A) := apply_from 0 text chs.

(* sorted by start, pairwise disjoint (touching allowed), start <= end, inside [pos, total] *)
Fixpoint valid_from (pos total : N) (chs : list change) : bool :=
  match chs with
  | [] => true
  | (s, e, _) :: r => (pos <=? s) && (s <=? e) && (e <=? total) && valid_from e total r
  end.

Definition valid_changes (total : N) (chs : list change) : bool := valid_from 0 total chs.

(* insertion sort by (start, end): the order deno_ast::apply_text_changes establishes first *)
Definition ch_leb (a b : change) : bool :=
  let '(s1, e1, _) := a in let '(s2, e2, _) := b in
  (s1 <? s2) || ((s1 =? s2) && (e1 <=? e2)).

Fixpoint ch_insert (c : change) (l : list change) : list change :=
  match l with
  | [] => [c]
  | d :: r => if ch_leb c d then c :: l else d :: ch_insert c r
  end.

Definition ch_sort (l : list change) : list change := fold_right ch_insert [] l.

Definition apply_sorted (text : list A) (chs : list change) : option (list A) :=
  apply_fix text (ch_sort chs).

(* removed / inserted element counts *)
Fixpoint removed (chs : list change) : N :=
  match chs with [] => 0 | (s, e, _) :: r => (e - s) + removed r end.
Fixpoint inserted (chs : list change) : N :=
  match chs with [] => 0 | (_, _, n) :: r => len n + inserted r end.

(* position i of the original text lies outside every change *)
Definition outside (chs : list change) (i : N) : Prop :=
  forall s e n, In (s, e, n) chs -> i < s \/ e <= i.

(* index, in the result of `apply_from pos text chs`, of the element at absolute offset i *)
Fixpoint newpos (pos : N) (chs : list change) (i : N) : N :=
  match chs with
  | [] => i - pos
  | (s, e, n) :: r => if i <? s then i - pos else (s - pos) + len n + newpos e r i
  end.

(* ------------------------------------------------------------------ helpers *)
Lemma len_firstn (k : N) (l : list A) : k <= len l -> len (firstn (N.to_nat k) l) = k.
Proof. unfold len. intros H. rewrite firstn_length. lia. Qed.

Lemma len_skipn (k : N) (l : list A) : len (skipn (N.to_nat k) l) = len l - k.
Proof. unfold len. rewrite skipn_length. lia. Qed.

Lemma nth_error_firstn_lt (k i : nat) (l : list A) : (i < k)%nat -> nth_error (firstn k l) i = nth_error l i.
Proof.
  revert i l. induction k as [|k IH]; intros i l H; [lia|].
  destruct l as [|x l]; [destruct i; reflexivity|].
  destruct i as [|i]; [reflexivity|]. cbn [firstn nth_error]. apply IH. lia.
Qed.

Lemma nth_error_skipn (k i : nat) (l : list A) : nth_error (skipn k l) i = nth_error l (k + i).
Proof.
  revert l. induction k as [|k IH]; intros l; [reflexivity|].
  destruct l as [|x l]; [destruct i; reflexivity|]. cbn [skipn Nat.add nth_error]. apply IH.
Qed.

(* ------------------------------------------------------------------ basic facts *)
Theorem apply_fix_nil text : apply_fix text [] = Some text.
Proof. reflexivity. Qed.

Theorem apply_fix_single text s e n :
  s <= e -> e <= len text ->
  apply_fix text [(s, e, n)] = Some (firstn (N.to_nat s) text ++ n ++ skipn (N.to_nat e) text).
Proof.
  intros Hse He. unfold apply_fix. cbn [apply_from].
  rewrite !N.sub_0_r.
  destruct (N.leb_spec 0 s); [|lia]. destruct (N.leb_spec s e); [|lia].
  destruct (N.leb_spec e (len text)); [|lia]. reflexivity.
Qed.

(* a single change written as a splice: text = pre ++ mid ++ post *)
Theorem apply_fix_splice pre mid post n :
  apply_fix (pre ++ mid ++ post) [(len pre, len pre + len mid, n)] = Some (pre ++ n ++ post).
Proof.
  rewrite apply_fix_single.
  - f_equal. f_equal.
    + unfold len. rewrite Nnat.Nat2N.id. rewrite firstn_app, firstn_all, Nat.sub_diag, firstn_O, app_nil_r. reflexivity.
    + f_equal. unfold len.
      replace (N.to_nat (N.of_nat (length pre) + N.of_nat (length mid))) with (length pre + length mid)%nat by lia.
      rewrite skipn_app. rewrite skipn_all2 by lia.
      replace (length pre + length mid - length pre)%nat with (length mid) by lia.
      rewrite skipn_app, skipn_all, Nat.sub_diag, skipn_O. reflexivity.
  - lia.
  - rewrite !len_app. lia.
Qed.

Theorem apply_from_defined pos text chs :
  apply_from pos text chs <> None <-> valid_from pos (pos + len text) chs = true.
Proof.
  revert pos text. induction chs as [|[[s e] n] r IH]; intros pos text; cbn [apply_from valid_from].
  - split; [reflexivity | discriminate].
  - destruct (N.leb_spec pos s) as [H1|H1]; cbn [andb]; [|split; [congruence | discriminate]].
    destruct (N.leb_spec s e) as [H2|H2]; cbn [andb]; [|split; [congruence | discriminate]].
    destruct (N.leb_spec (e - pos) (len text)) as [H3|H3]; destruct (N.leb_spec e (pos + len text)) as [H4|H4];
      try lia; cbn [andb]; [|split; [congruence | discriminate]].
    specialize (IH e (skipn (N.to_nat (e - pos)) text)).
    rewrite len_skipn in IH. replace (e + (len text - (e - pos))) with (pos + len text) in IH by lia.
    rewrite <- IH.
    destruct (apply_from e (skipn (N.to_nat (e - pos)) text) r); split; congruence.
Qed.

Theorem apply_fix_defined text chs :
  apply_fix text chs <> None <-> valid_changes (len text) chs = true.
Proof. unfold apply_fix, valid_changes. rewrite apply_from_defined. reflexivity. Qed.

(* length arithmetic: |result| + removed = |text| + inserted *)
Theorem apply_from_length pos text chs t' :
  apply_from pos text chs = Some t' -> len t' + removed chs = len text + inserted chs.
Proof.
  revert pos text t'. induction chs as [|[[s e] n] r IH]; intros pos text t'; cbn [apply_from removed inserted].
  - intros [= <-]. lia.
  - destruct (N.leb_spec pos s) as [H1|H1]; cbn [andb]; [|discriminate].
    destruct (N.leb_spec s e) as [H2|H2]; cbn [andb]; [|discriminate].
    destruct (N.leb_spec (e - pos) (len text)) as [H3|H3]; [|discriminate].
    destruct (apply_from e (skipn (N.to_nat (e - pos)) text) r) as [t''|] eqn:E; [|discriminate].
    intros [= <-]. apply IH in E. rewrite len_skipn in E.
    rewrite !len_app, len_firstn by lia. lia.
Qed.

Theorem apply_fix_length text chs t' :
  apply_fix text chs = Some t' -> len t' + removed chs = len text + inserted chs.
Proof. apply apply_from_length. Qed.

(* text outside the changes is preserved (and found at `newpos`) *)
Theorem apply_from_preserved pos text chs t' i :
  apply_from pos text chs = Some t' -> pos <= i -> outside chs i ->
  nth_error t' (N.to_nat (newpos pos chs i)) = nth_error text (N.to_nat (i - pos)).
Proof.
  revert pos text t'. induction chs as [|[[s e] n] r IH]; intros pos text t'; cbn [apply_from newpos].
  - intros [= <-] _ _. reflexivity.
  - destruct (N.leb_spec pos s) as [H1|H1]; cbn [andb]; [|discriminate].
    destruct (N.leb_spec s e) as [H2|H2]; cbn [andb]; [|discriminate].
    destruct (N.leb_spec (e - pos) (len text)) as [H3|H3]; [|discriminate].
    destruct (apply_from e (skipn (N.to_nat (e - pos)) text) r) as [t''|] eqn:E; [|discriminate].
    intros [= <-] Hi Hout.
    assert (Hlf : length (firstn (N.to_nat (s - pos)) text) = N.to_nat (s - pos)).
    { rewrite firstn_length. unfold len in H3. lia. }
    destruct (N.ltb_spec i s) as [Hlt|Hge].
    + rewrite nth_error_app1 by lia. apply nth_error_firstn_lt. lia.
    + assert (He : e <= i).
      { destruct (Hout s e n (or_introl eq_refl)) as [H|H]; [lia | assumption]. }
      rewrite nth_error_app2 by lia. rewrite Hlf.
      rewrite nth_error_app2 by (unfold len; lia).
      replace (N.to_nat (s - pos + len n + newpos e r i) - N.to_nat (s - pos) - length n)%nat
        with (N.to_nat (newpos e r i)) by (unfold len; lia).
      rewrite (IH e _ t'' E He).
      * rewrite nth_error_skipn. f_equal. lia.
      * intros s' e' n' Hin. apply (Hout s' e' n'). right. assumption.
Qed.

Theorem apply_fix_preserved text chs t' i :
  apply_fix text chs = Some t' -> outside chs i ->
  nth_error t' (N.to_nat (newpos 0 chs i)) = nth_error text (N.to_nat i).
Proof.
  intros H Hout. rewrite (apply_from_preserved 0 text chs t' i H) by (assumption || lia).
  rewrite N.sub_0_r. reflexivity.
Qed.

(* before the first change nothing moves *)
Corollary apply_fix_prefix_fixed text s e n r t' i :
  apply_fix text ((s, e, n) :: r) = Some t' -> i < s ->
  nth_error t' (N.to_nat i) = nth_error text (N.to_nat i).
Proof.
  unfold apply_fix. cbn [apply_from]. rewrite !N.sub_0_r. intros H Hi.
  destruct ((0 <=? s) && (s <=? e) && (e <=? len text)) eqn:C; [|discriminate].
  apply andb_true_iff in C as [C He]. apply andb_true_iff in C as [_ Hse].
  apply N.leb_le in He, Hse.
  destruct (apply_from e (skipn (N.to_nat e) text) r); [|discriminate].
  injection H as <-.
  rewrite nth_error_app1 by (rewrite firstn_length; unfold len in He; lia).
  apply nth_error_firstn_lt. lia.
Qed.

(* structural form of "outside the changes the text is preserved": a text cut into
   keep_0 old_0 keep_1 old_1 ... final, with old_i replaced by new_i *)
Definition seg : Type := list A * list A * list A.     (* keep, old, new *)

Fixpoint seg_text (segs : list seg) (fin : list A) : list A :=
  match segs with [] => fin | (k, o, _) :: r => k ++ o ++ seg_text r fin end.
Fixpoint seg_new (segs : list seg) (fin : list A) : list A :=
  match segs with [] => fin | (k, _, n) :: r => k ++ n ++ seg_new r fin end.
Fixpoint seg_changes (pos : N) (segs : list seg) : list change :=
  match segs with
  | [] => []
  | (k, o, n) :: r => (pos + len k, pos + len k + len o, n) :: seg_changes (pos + len k + len o) r
  end.

Theorem apply_from_segs pos segs fin :
  apply_from pos (seg_text segs fin) (seg_changes pos segs) = Some (seg_new segs fin).
Proof.
  revert pos. induction segs as [|[[k o] n] r IH]; intros pos; cbn [seg_text seg_changes seg_new apply_from]; [reflexivity|].
  destruct (N.leb_spec pos (pos + len k)); [|lia].
  destruct (N.leb_spec (pos + len k) (pos + len k + len o)); [|lia].
  rewrite !len_app.
  destruct (N.leb_spec (pos + len k + len o - pos) (len k + (len o + len (seg_text r fin)))); [|lia].
  cbn [andb].
  replace (N.to_nat (pos + len k + len o - pos)) with (length (k ++ o)) by (rewrite app_length; unfold len; lia).
  rewrite app_assoc, skipn_app, skipn_all, Nat.sub_diag, skipn_O. cbn [app].
  rewrite IH.
  replace (N.to_nat (pos + len k - pos)) with (length k) by (unfold len; lia).
  rewrite <- app_assoc, firstn_app, firstn_all, Nat.sub_diag, firstn_O, app_nil_r. reflexivity.
Qed.

Theorem apply_fix_segs segs fin :
  apply_fix (seg_text segs fin) (seg_changes 0 segs) = Some (seg_new segs fin).
Proof. apply apply_from_segs. Qed.

(* the implementation sorts first; on a list that is already valid the sort changes nothing *)
Lemma ch_sort_valid_id pos total chs : valid_from pos total chs = true -> ch_sort chs = chs.
Proof.
  revert pos. induction chs as [|[[s e] n] r IH]; intros pos; cbn [valid_from]; [reflexivity|].
  intros H. apply andb_true_iff in H as [H Hr]. apply andb_true_iff in H as [H _].
  apply andb_true_iff in H as [_ Hse]. apply N.leb_le in Hse.
  change (ch_sort ((s, e, n) :: r)) with (ch_insert (s, e, n) (ch_sort r)).
  rewrite (IH e Hr). destruct r as [|[[s2 e2] n2] r2]; [reflexivity|].
  cbn [ch_insert ch_leb]. cbn [valid_from] in Hr.
  apply andb_true_iff in Hr as [Hr _]. apply andb_true_iff in Hr as [Hr _].
  apply andb_true_iff in Hr as [H1 H2]. apply N.leb_le in H1, H2.
  destruct (N.ltb_spec s s2) as [Hlt|Hge]; cbn [orb]; [reflexivity|].
  destruct (N.eqb_spec s s2) as [E|E]; [|lia]. cbn [andb].
  destruct (N.leb_spec e e2); [reflexivity | lia].
Qed.

Theorem apply_sorted_valid text chs :
  valid_changes (len text) chs = true -> apply_sorted text chs = apply_fix text chs.
Proof. intros H. unfold apply_sorted. rewrite (ch_sort_valid_id 0 (len text) chs H). reflexivity. Qed.

End Apply.

Arguments change : clear implicits.

(* ------------------------------------------------------------------ bytes vs code points *)
(* a change whose ends are char boundaries = a splice of the code-point list *)
Theorem apply_fix_utf8 (pre mid post new : list N) :
  apply_fix (utf8 (pre ++ mid ++ post)) [(bytes pre, bytes pre + bytes mid, utf8 new)]
  = Some (utf8 (pre ++ new ++ post)).
Proof.
  rewrite !utf8_app. rewrite <- !utf8_length. apply apply_fix_splice.
Qed.

Lemma apply_fix_utf8_boundaries (pre mid post : list N) :
  boundary (pre ++ mid ++ post) (bytes pre) /\ boundary (pre ++ mid ++ post) (bytes pre + bytes mid).
Proof.
  split; [apply boundary_prefix|].
  rewrite app_assoc, <- bytes_app. apply boundary_prefix.
Qed.

(* several changes: segments of code points, byte offsets by `bytes` *)
Definition seg_utf8 (sg : @seg N) : @seg N := let '(k, o, n) := sg in (utf8 k, utf8 o, utf8 n).

Fixpoint seg_changes_bytes (pos : N) (segs : list (@seg N)) : list (change N) :=
  match segs with
  | [] => []
  | (k, o, n) :: r => (pos + bytes k, pos + bytes k + bytes o, utf8 n) :: seg_changes_bytes (pos + bytes k + bytes o) r
  end.

Lemma seg_text_utf8 segs fin : seg_text (map seg_utf8 segs) (utf8 fin) = utf8 (seg_text segs fin).
Proof.
  induction segs as [|[[k o] n] r IH]; cbn [map seg_utf8 seg_text]; [reflexivity|].
  rewrite IH, !utf8_app. reflexivity.
Qed.

Lemma seg_new_utf8 segs fin : seg_new (map seg_utf8 segs) (utf8 fin) = utf8 (seg_new segs fin).
Proof.
  induction segs as [|[[k o] n] r IH]; cbn [map seg_utf8 seg_new]; [reflexivity|].
  rewrite IH, !utf8_app. reflexivity.
Qed.

Lemma seg_changes_utf8 pos segs : seg_changes pos (map seg_utf8 segs) = seg_changes_bytes pos segs.
Proof.
  revert pos. induction segs as [|[[k o] n] r IH]; intros pos; cbn [map seg_utf8 seg_changes seg_changes_bytes]; [reflexivity|].
  rewrite IH, !utf8_length. reflexivity.
Qed.

Theorem apply_fix_utf8_segs segs fin :
  apply_fix (utf8 (seg_text segs fin)) (seg_changes_bytes 0 segs) = Some (utf8 (seg_new segs fin)).
Proof. rewrite <- seg_text_utf8, <- seg_new_utf8, <- seg_changes_utf8. apply apply_fix_segs. Qed.

(* every change of such a fix starts and ends on a char boundary *)
Lemma seg_changes_bytes_boundaries pre segs fin s e n :
  In (s, e, n) (seg_changes_bytes (bytes pre) segs) ->
  boundary (pre ++ seg_text segs fin) s /\ boundary (pre ++ seg_text segs fin) e.
Proof.
  revert pre. induction segs as [|[[k o] n'] r IH]; intros pre; cbn [seg_changes_bytes seg_text In]; [intros []|].
  assert (E1 : pre ++ k ++ o ++ seg_text r fin = (pre ++ k ++ o) ++ seg_text r fin) by (rewrite <- !app_assoc; reflexivity).
  assert (E2 : bytes pre + bytes k + bytes o = bytes (pre ++ k ++ o)) by (rewrite !bytes_app; lia).
  intros [H|H].
  - injection H as Hs He _. subst s e. split.
    + rewrite app_assoc, <- bytes_app. apply boundary_prefix.
    + rewrite E1, E2. apply boundary_prefix.
  - rewrite E1. rewrite E2 in H. apply IH. exact H.
Qed.

(* ------------------------------------------------------------------ "apply the first fix repeatedly" *)
(* Termination as a measure statement: GIVEN that one step (apply the first fix of the first fixable
   diagnostic) strictly decreases a natural-number measure (the number of the rule's fixable
   diagnostics), the loop stops after at most `m t` steps in a state where no step is possible. *)
Section FixLoop.
Context {T : Type} (step : T -> option T) (m : T -> nat).

Inductive outcome : Type := Done (t : T) (steps : nat) | OutOfFuel (t : T).

Fixpoint run (fuel : nat) (steps : nat) (t : T) : outcome :=
  match step t with
  | None => Done t steps
  | Some t' => match fuel with
               | O => OutOfFuel t
               | S f => run f (S steps) t'
               end
  end.

Theorem fix_loop_terminates :
  (forall t t', step t = Some t' -> (m t' < m t)%nat) ->
  forall t, exists t' k, run (m t) 0 t = Done t' k /\ step t' = None /\ (k <= m t)%nat.
Proof.
  intros Hdec.
  assert (G : forall fuel t k0, (m t <= fuel)%nat ->
              exists t' k, run fuel k0 t = Done t' k /\ step t' = None /\ (k <= k0 + m t)%nat).
  { induction fuel as [|f IH]; intros t k0 Hm.
    - cbn [run]. destruct (step t) as [t1|] eqn:E.
      + apply Hdec in E. lia.
      + exists t, k0. repeat split; [assumption | lia].
    - cbn [run]. destruct (step t) as [t1|] eqn:E.
      + pose proof (Hdec _ _ E) as Hlt.
        destruct (IH t1 (S k0)) as (t' & k & R & Hn & Hk); [lia|].
        exists t', k. repeat split; [assumption | assumption | lia].
      + exists t, k0. repeat split; [assumption | lia]. }
  intros t. destruct (G (m t) t 0%nat (Nat.le_refl _)) as (t' & k & R & Hn & Hk).
  exists t', k. repeat split; assumption.
Qed.

(* if moreover the measure counts exactly the fixable diagnostics (no step <-> measure 0), none is left *)
Corollary fix_loop_none_left :
  (forall t t', step t = Some t' -> (m t' < m t)%nat) ->
  (forall t, step t = None -> m t = 0%nat) ->
  forall t, exists t' k, run (m t) 0 t = Done t' k /\ m t' = 0%nat /\ (k <= m t)%nat.
Proof.
  intros Hdec Hz t. destruct (fix_loop_terminates Hdec t) as (t' & k & R & Hn & Hk).
  exists t', k. repeat split; [assumption | apply Hz; assumption | assumption].
Qed.
End FixLoop.
