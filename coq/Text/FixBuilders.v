(* The pure string / range builders of the nine fix-providing rules, ported from the rule files, and
   their lexical contracts.  Texts are code-point lists, offsets are 0-based UTF-8 byte offsets; a
   change is (start, end, new_text) with new_text as code points (`ch_bytes` turns it into the byte
   level change that `apply_fix` consumes).

   Still-parses is delegated to the real parser in the correspondence stage of the C13 check; here
   small lexical predicates stand in for it:
     jsx_attr_string s   s is ONE JSX attribute string token: q v q with q a quote that does not occur in v
     jsx_text s          no `{ } < >` (what ends / breaks a JSX text token)
     ident s             ASCII identifier that is not a reserved word
     import_line_ok      `import <ident | { ident }> from DQ<module>DQ;` on a line of its own

   The builders are those of the repaired tree (the six `fix:` commits of /repo for jsx-curly-braces,
   jsx-props-no-spread-multi, jsx-boolean-value, verbatim-module-syntax, no-process-global /
   no-node-globals).  The builders of the tree before those commits are kept as `*_before_fix`
   definitions with their `..._before_fix_refuted` lemmas (historic witnesses of the defects).

   Model first (extracted), theorems below. *)
From V Require Export Text.FixApply.
From V Require Import Common.Ws.
From Coq Require Import String.
Open Scope N_scope.

Definition chg : Type := N * N * str.                       (* start, end, new text (code points) *)
Definition ch_bytes (c : chg) : change N := let '(s, e, t) := c in (s, e, utf8 t).

Definition DQ : N := 34.
Definition SQ : N := 39.
Definition LBRACE : N := 123.
Definition RBRACE : N := 125.
Definition LT : N := 60.
Definition GT : N := 62.
Definition NL : N := 10.

Definition has (c : N) (s : str) : bool := existsb (N.eqb c) s.

(* ================================================================== jsx-curly-braces *)
(* IGNORE_CHARS = Regex [{}<>] *)
Definition ignore_chars (v : str) : bool :=
  existsb (fun c => (c =? LBRACE) || (c =? RBRACE) || (c =? LT) || (c =? GT)) v.

(* before the fix: format!(DQ {} DQ, lit_str.value()) over value.range() *)
Definition curly_attr_fix_before_fix (v : str) : str := DQ :: v ++ [DQ].

(* the quote that does not occur in the value, format!({q}{value}{q}); no fix (None) if both occur *)
Definition curly_attr_fix (v : str) : option str :=
  if has DQ v then (if has SQ v then None else Some (SQ :: v ++ [SQ])) else Some (DQ :: v ++ [DQ]).
Definition curly_attr_change (s e : N) (v : str) : option chg :=
  match curly_attr_fix v with Some t => Some (s, e, t) | None => None end.

(* lit_str.value() over child.range(), offered only if !IGNORE_CHARS.is_match(value) *)
Definition curly_child_fix (v : str) : option str := if ignore_chars v then None else Some v.

(* format!({{{}}}, jsx_el.text()) over value.range() *)
Definition missing_curly_fix (el : str) : str := LBRACE :: el ++ [RBRACE].

Definition jsx_attr_stringb (s : str) : bool :=
  match s with
  | q :: r =>
      ((q =? DQ) || (q =? SQ)) &&
      match rev r with
      | q' :: mid => (q' =? q) && negb (has q mid)
      | [] => false
      end
  | [] => false
  end.

Definition jsx_textb (s : str) : bool := negb (ignore_chars s).

(* ================================================================== jsx-no-unescaped-entities *)
Fixpoint replace_char (c : N) (rep : str) (s : str) : str :=
  match s with
  | [] => []
  | x :: r => (if x =? c then rep else [x]) ++ replace_char c rep r
  end.

Definition GT_ENT : str := [38; 103; 116; 59].              (* &gt; *)
Definition RBRACE_ENT : str := [38; 35; 49; 50; 53; 59].    (* &#125; *)

(* text.replace(GT, &gt;).replace(RBRACE, &#125;) *)
Definition escape (s : str) : str := replace_char RBRACE RBRACE_ENT (replace_char GT GT_ENT s).

(* `if text != new_text` *)
Definition entities_reported (s : str) : bool := negb (str_eqb s (escape s)).

(* ================================================================== jsx-boolean-value *)
(* before the fix: start = end of the token before `=` (else the start of `=`), end = end of the
   expression container, new text empty *)
Definition boolean_change_before_fix (prev_tok_end : option N) (eq_start expr_end : N) : chg :=
  (match prev_tok_end with Some p => p | None => eq_start end, expr_end, []).

(* same range; a blank instead of nothing if the next character would be glued to the name
   (`next` = the character behind the container, None at the end of the text):
   !c.is_whitespace() && !matches!(c, '/' | '>' | '{') *)
Definition glued_next (next : option N) : bool :=
  match next with
  | None => false
  | Some c => negb (is_ws c) && negb ((c =? 47) || (c =? GT) || (c =? LBRACE))
  end.
Definition boolean_change (prev_tok_end : option N) (eq_start expr_end : N) (next : option N) : chg :=
  (match prev_tok_end with Some p => p | None => eq_start end, expr_end, if glued_next next then [32] else []).

(* ================================================================== jsx-props-no-spread-multi *)
(* before the fix: SourceRange { start: attr.range().start - 2, end: attr.range().end + 1 };
   None = the subtraction panics *)
Definition spread_change_before_fix (s e : N) : option chg :=
  if s <? 2 then None else Some (s - 2, e + 1, []).

(* Tokens are inputs: `open` = the token in front of the spread node, `close` = the token behind it,
   each given as (is it the expected brace, start, end); `prev_tok_end` = end of the token in front of
   `open`.  A fix is offered only if open is `{` and close is `}`; its range goes from the end of the
   token before `{` (else the start of `{`) to the end of `}`. *)
Definition spread_change (open close : option (bool * N * N)) (prev_tok_end : option N) : option chg :=
  match open, close with
  | Some (true, open_start, _), Some (true, _, close_end) =>
      Some (match prev_tok_end with Some p => p | None => open_start end, close_end, [])
  | _, _ => None
  end.

Fixpoint count (c : N) (s : str) : N :=
  match s with [] => 0 | x :: r => (if x =? c then 1 else 0) + count c r end.
Definition braces_balanced (s : str) : bool := count LBRACE s =? count RBRACE s.

(* ================================================================== no-window / no-window-prefix / no-node-globals(global) *)
Definition GLOBAL_THIS : str := [103; 108; 111; 98; 97; 108; 84; 104; 105; 115].
Definition WINDOW : str := [119; 105; 110; 100; 111; 119].
Definition rename_change (s e : N) : chg := (s, e, GLOBAL_THIS).

Definition ident_start (c : N) : bool :=
  ((65 <=? c) && (c <=? 90)) || ((97 <=? c) && (c <=? 122)) || (c =? 95) || (c =? 36).
Definition ident_part (c : N) : bool := ident_start c || ((48 <=? c) && (c <=? 57)).
Definition identb (s : str) : bool :=
  match s with c :: r => ident_start c && forallb ident_part r | [] => false end.

(* ================================================================== no-process-global / no-node-globals *)
Inductive newline : Type := NlLeading | NlTrailing | NlNone | NlInline.   (* NlInline: a leading blank, same line *)
Inductive fix_kind : Type := FkImport (module imp : str) | FkReplace (new : str).

Definition IMPORT_ : str := [105; 109; 112; 111; 114; 116; 32].    (* import + blank *)
Definition FROM_Q : str := [32; 102; 114; 111; 109; 32; 34].        (* blank from blank DQ *)
Definition Q_SEMI : str := [34; 59].                                 (* DQ ; *)

(* format!({leading}import {import} from DQ{module}DQ;{trailing}) *)
Definition import_text (imp module : str) (nl : newline) : str :=
  (match nl with NlLeading => [NL] | NlInline => [32] | _ => [] end)
  ++ IMPORT_ ++ imp ++ FROM_Q ++ module ++ Q_SEMI
  ++ (match nl with NlTrailing => [NL] | _ => [] end).

Definition to_text (fk : fix_kind) (nl : newline) : str :=
  match fk with FkImport m i => import_text i m nl | FkReplace n => n end.

Definition PROCESS : str := [112; 114; 111; 99; 101; 115; 115].
Definition FK_PROCESS : fix_kind := FkImport [110; 111; 100; 101; 58; 112; 114; 111; 99; 101; 115; 115] PROCESS.
Definition FK_BUFFER : fix_kind :=
  FkImport [110; 111; 100; 101; 58; 98; 117; 102; 102; 101; 114] [123; 32; 66; 117; 102; 102; 101; 114; 32; 125].
Definition FK_SET_IMMEDIATE : fix_kind :=
  FkImport [110; 111; 100; 101; 58; 116; 105; 109; 101; 114; 115]
           [123; 32; 115; 101; 116; 73; 109; 109; 101; 100; 105; 97; 116; 101; 32; 125].
Definition FK_CLEAR_IMMEDIATE : fix_kind :=
  FkImport [110; 111; 100; 101; 58; 116; 105; 109; 101; 114; 115]
           [123; 32; 99; 108; 101; 97; 114; 73; 109; 109; 101; 100; 105; 97; 116; 101; 32; 125].
Definition FK_GLOBAL : fix_kind := FkReplace GLOBAL_THIS.

(* NODE_GLOBALS *)
Definition node_globals : list (str * fix_kind) :=
  [ ([66; 117; 102; 102; 101; 114], FK_BUFFER);
    ([103; 108; 111; 98; 97; 108], FK_GLOBAL);
    ([115; 101; 116; 73; 109; 109; 101; 100; 105; 97; 116; 101], FK_SET_IMMEDIATE);
    ([99; 108; 101; 97; 114; 73; 109; 109; 101; 100; 105; 97; 116; 101], FK_CLEAR_IMMEDIATE) ].

Fixpoint lookup (k : str) (l : list (str * fix_kind)) : option fix_kind :=
  match l with [] => None | (k', v) :: r => if str_eqb k k' then Some v else lookup k r end.

(* fix_change: after the most recent TOP-LEVEL import declaration seen so far -- on a new line (leading newline), or on
   the same line behind a blank when another TOKEN (not a comment) follows the import on its line (`inline`: that code must stay on the line a
   line-level ignore directive above it covers) --, else at `code_start` (trailing newline): the start of the first statement,
   or of a line-level ignore directive on the line right above it; a Replace goes over the identifier itself.
   (Before the fixes `last_import_end` was the most recent import declaration at any depth, the text always had a leading
   newline, and code_start was always the first statement.) *)
Definition global_change_before_fix (last_import_end : option (N * bool)) (code_start : N) (s e : N) (fk : fix_kind) : chg :=
  match fk with
  | FkImport _ _ =>
      match last_import_end with
      | Some (p, inline) => (p, p, to_text fk (if inline then NlInline else NlLeading))
      | None => (code_start, code_start, to_text fk NlTrailing)
      end
  | FkReplace _ => (s, e, to_text fk NlNone)
  end.

(* no import fix in a CommonJS file (None = the diagnostic carries no fix) *)
Definition global_change (is_cjs : bool) (last_import_end : option (N * bool)) (code_start : N) (s e : N) (fk : fix_kind) : option chg :=
  match fk with
  | FkImport _ _ => if is_cjs then None else Some (global_change_before_fix last_import_end code_start s e fk)
  | FkReplace _ => Some (global_change_before_fix last_import_end code_start s e fk)
  end.

Definition process_change (is_cjs : bool) (last_import_end : option (N * bool)) (code_start : N) : option chg :=
  global_change is_cjs last_import_end code_start 0 0 FK_PROCESS.

(* outer None = the name is not in NODE_GLOBALS (no diagnostic); inner None = diagnostic without fix *)
Definition node_global_change (is_cjs : bool) (name : str) (last_import_end : option (N * bool)) (code_start s e : N) : option (option chg) :=
  match lookup name node_globals with
  | Some fk => Some (global_change is_cjs last_import_end code_start s e fk)
  | None => None
  end.

(* lexical check of one inserted import line *)
Definition module_char (c : N) : bool := ((97 <=? c) && (c <=? 122)) || (c =? 58).
Definition import_clauseb (s : str) : bool :=
  identb s ||
  match strip_prefix [123; 32] s with
  | Some r => match rev r with
              | 125 :: 32 :: mid => identb (rev mid)
              | _ => false
              end
  | None => false
  end.

Fixpoint split_on (pat : str) (fuel : nat) (acc s : str) : option (str * str) :=
  match strip_prefix pat s with
  | Some r => Some (rev acc, r)
  | None => match fuel, s with
            | S f, c :: r => split_on pat f (c :: acc) r
            | _, _ => None
            end
  end.

Definition import_stmtb (s : str) : bool :=
  match strip_prefix IMPORT_ s with
  | Some r =>
      match split_on FROM_Q (List.length r) [] r with
      | Some (clause, r2) =>
          import_clauseb clause &&
          match rev r2 with
          | 59 :: 34 :: m => negb (match m with [] => true | _ => false end) && forallb module_char m
          | _ => false
          end
      | None => false
      end
  | None => false
  end.

Definition import_line_ok (nl : newline) (s : str) : bool :=
  match nl with
  | NlLeading => match s with c :: r => (c =? NL) && import_stmtb r | [] => false end
  | NlTrailing => match rev s with c :: r => (c =? NL) && import_stmtb (rev r) | [] => false end
  | NlNone => import_stmtb s
  | NlInline => match s with c :: r => (c =? 32) && import_stmtb r | [] => false end
  end.

(* ================================================================== verbatim-module-syntax *)
Definition TYPE_LEAD : str := [32; 116; 121; 112; 101].     (* blank type *)
Definition TYPE_TRAIL : str := [116; 121; 112; 101; 32].    (* type blank *)

(* all specifiers type-only: ` type` after the import/export keyword, delete `type ` (first token start
   .. second token start) of every inline type specifier *)
Definition vms_all_changes_spans (kw_end : N) (type_spans : list (N * N)) : list chg :=
  (kw_end, kw_end, TYPE_LEAD) :: map (fun ab : N * N => (fst ab, snd ab, [])) type_spans.

(* a span is None if the specifier's token range has fewer than two tokens (`type as as B`): then no
   fix is offered at all *)
Fixpoint all_some {A : Type} (l : list (option A)) : option (list A) :=
  match l with
  | [] => Some []
  | None :: _ => None
  | Some x :: r => match all_some r with Some r' => Some (x :: r') | None => None end
  end.
Definition vms_all_changes (kw_end : N) (type_spans : list (option (N * N))) : option (list chg) :=
  match all_some type_spans with
  | Some spans => Some (vms_all_changes_spans kw_end spans)
  | None => None
  end.

(* before the fix: `type ` in front of ANY type-only specifier *)
Definition vms_spec_change_before_fix (spec_start : N) : chg := (spec_start, spec_start, TYPE_TRAIL).

(* one specifier type-only: `type ` in front of it - offered only for a NAMED specifier whose imported
   name is an identifier (not for default / namespace / string-named specifiers) *)
Definition vms_spec_change (named_with_ident_name : bool) (spec_start : N) : option chg :=
  if named_with_ident_name then Some (vms_spec_change_before_fix spec_start) else None.

Fixpoint spans_sorted (pos total : N) (spans : list (N * N)) : bool :=
  match spans with
  | [] => pos <=? total
  | (a, b) :: r => (pos <=? a) && (a <=? b) && spans_sorted b total r
  end.

(* ================================================================== THEOREMS *)

(* ---- lexical predicates as propositions *)
Definition jsx_attr_string (s : str) : Prop :=
  exists q v, (q = DQ \/ q = SQ) /\ s = q :: v ++ [q] /\ ~ In q v.
Definition jsx_text (s : str) : Prop := ignore_chars s = false.
Definition reserved : list str :=
  map s2l ["break"; "case"; "catch"; "class"; "const"; "continue"; "debugger"; "default"; "delete"; "do"; "else";
           "enum"; "export"; "extends"; "false"; "finally"; "for"; "function"; "if"; "import"; "in"; "instanceof";
           "new"; "null"; "return"; "super"; "switch"; "this"; "throw"; "true"; "try"; "typeof"; "var"; "void";
           "while"; "with"; "yield"; "let"; "static"; "await"; "implements"; "interface"; "package"; "private";
           "protected"; "public"]%string.
Definition ident (s : str) : Prop := identb s = true /\ mem s reserved = false.

Lemma has_In c s : has c s = true <-> In c s.
Proof.
  unfold has. rewrite existsb_exists. split.
  - intros (x & Hx & E). apply N.eqb_eq in E. subst. assumption.
  - intros H. exists c. split; [assumption | apply N.eqb_refl].
Qed.

Lemma has_not_In c s : has c s = false <-> ~ In c s.
Proof. rewrite <- has_In. destruct (has c s); split; congruence. Qed.

Lemma jsx_attr_stringb_spec s : jsx_attr_stringb s = true <-> jsx_attr_string s.
Proof.
  unfold jsx_attr_stringb, jsx_attr_string. split.
  - destruct s as [|q r]; [discriminate|]. intros H. apply andb_true_iff in H as [Hq H].
    destruct (rev r) as [|q' mid] eqn:E; [discriminate|].
    apply andb_true_iff in H as [Hq' Hm]. apply N.eqb_eq in Hq'. subst q'.
    apply negb_true_iff, has_not_In in Hm.
    exists q, (rev mid). repeat split.
    + apply orb_true_iff in Hq as [Hq|Hq]; apply N.eqb_eq in Hq; auto.
    + f_equal. rewrite <- (rev_involutive r), E. reflexivity.
    + rewrite <- in_rev. assumption.
  - intros (q & v & Hq & -> & Hv). apply andb_true_iff. split.
    + destruct Hq as [->| ->]; reflexivity.
    + rewrite rev_app_distr. cbn [rev app]. rewrite N.eqb_refl. cbn [andb].
      apply negb_true_iff, has_not_In. rewrite <- in_rev. assumption.
Qed.

(* ---- jsx-curly-braces *)
(* every offered attribute fix is ONE attribute string - unconditionally *)
Theorem curly_attr_fix_wellformed v s : curly_attr_fix v = Some s -> jsx_attr_string s.
Proof.
  unfold curly_attr_fix. destruct (has DQ v) eqn:Hd.
  - destruct (has SQ v) eqn:Hs; [discriminate|]. intros [= <-].
    exists SQ, v. repeat split; [right; reflexivity | apply has_not_In; assumption].
  - intros [= <-]. exists DQ, v. repeat split; [left; reflexivity | apply has_not_In; assumption].
Qed.

(* no fix is offered exactly when the value contains both kinds of quote (no attribute string can
   hold it, JSX attribute strings have no escapes) *)
Theorem curly_attr_fix_none_iff v : curly_attr_fix v = None <-> In DQ v /\ In SQ v.
Proof.
  unfold curly_attr_fix. rewrite <- !has_In.
  destruct (has DQ v), (has SQ v); split; try discriminate; try tauto; intros [H1 H2]; discriminate.
Qed.

Theorem curly_attr_change_range s e v c : curly_attr_change s e v = Some c -> fst c = (s, e).
Proof. unfold curly_attr_change. destruct (curly_attr_fix v); [|discriminate]. intros [= <-]. reflexivity. Qed.

(* a value without double quote gets what the old code offered *)
Theorem curly_attr_fix_agrees_before_fix v : ~ In DQ v -> curly_attr_fix v = Some (curly_attr_fix_before_fix v).
Proof. intros H. apply has_not_In in H. unfold curly_attr_fix. rewrite H. reflexivity. Qed.

(* HISTORIC (before the fix): the old text is one attribute string iff the value has no double quote;
   the value a DQ b, i.e. <a b={'aDQb'} />, became <a b=DQaDQbDQ /> *)
Theorem curly_attr_fix_before_fix_wellformed_iff v : jsx_attr_string (curly_attr_fix_before_fix v) <-> ~ In DQ v.
Proof.
  split.
  - intros (q & w & Hq & E & Hw). unfold curly_attr_fix_before_fix in E. injection E as <- E.
    apply app_inj_tail in E as [<- _]. assumption.
  - intros H. exists DQ, v. repeat split; [left; reflexivity | assumption].
Qed.

Theorem curly_attr_fix_before_fix_refuted : exists v, ~ jsx_attr_string (curly_attr_fix_before_fix v).
Proof.
  exists [97; 34; 98]. rewrite curly_attr_fix_before_fix_wellformed_iff. intros H. apply H. right. left. reflexivity.
Qed.

Theorem curly_child_fix_wellformed v s : curly_child_fix v = Some s -> jsx_text s.
Proof. unfold curly_child_fix, jsx_text. destruct (ignore_chars v) eqn:E; [discriminate|]. intros [= <-]. assumption. Qed.

Theorem missing_curly_fix_braced el : exists body, missing_curly_fix el = LBRACE :: body ++ [RBRACE] /\ body = el.
Proof. exists el. split; reflexivity. Qed.

(* ---- jsx-no-unescaped-entities *)
Lemma replace_char_In c rep s x :
  In x (replace_char c rep s) <-> (In x s /\ x <> c) \/ (In c s /\ In x rep).
Proof.
  induction s as [|y r IH]; cbn [replace_char In].
  - split; [intros [] | intros [[[] _]|[[] _]]].
  - rewrite in_app_iff, IH. destruct (N.eqb_spec y c) as [->|Hne].
    + split.
      * intros [H|[[H1 H2]|[H1 H2]]]; [right; split; [left; reflexivity | assumption] | left; split; [right|]; assumption | right; split; [right|]; assumption].
      * intros [[[H|H] H2]|[_ H2]]; [congruence | right; left; split; assumption | left; assumption].
    + cbn [In]. split.
      * intros [[H|[]]|[[H1 H2]|[H1 H2]]]; [left; split; [left; assumption | congruence] | left; split; [right|]; assumption | right; split; [right|]; assumption].
      * intros [[[H|H] H2]|[[H|H] H2]]; [left; left; assumption | right; left; split; assumption | congruence | right; right; split; assumption].
Qed.

Lemma replace_char_id c rep s : ~ In c s -> replace_char c rep s = s.
Proof.
  induction s as [|y r IH]; cbn [replace_char In]; [reflexivity|]. intros H.
  destruct (N.eqb_spec y c) as [->|Hne]; [exfalso; apply H; left; reflexivity|].
  cbn [app]. rewrite IH; [reflexivity | intros Hin; apply H; right; assumption].
Qed.

Lemma escape_In x s :
  In x (escape s) -> (In x s /\ x <> GT /\ x <> RBRACE) \/ In x GT_ENT \/ In x RBRACE_ENT.
Proof.
  unfold escape. rewrite !replace_char_In. intros [[[[H1 H2]|[H1 H2]] H3]|[_ H]]; auto.
Qed.

Lemma escape_no_gt s : ~ In GT (escape s).
Proof.
  intros H. apply escape_In in H as [(_ & H & _)|[H|H]]; [congruence | |];
    cbn in H; repeat (destruct H as [H|H]; [discriminate H|]); assumption.
Qed.

Lemma escape_no_rbrace s : ~ In RBRACE (escape s).
Proof.
  intros H. apply escape_In in H as [(_ & _ & H)|[H|H]]; [congruence | |];
    cbn in H; repeat (destruct H as [H|H]; [discriminate H|]); assumption.
Qed.

Lemma escape_fixed s : ~ In GT s -> ~ In RBRACE s -> escape s = s.
Proof. intros H1 H2. unfold escape. rewrite (replace_char_id GT GT_ENT s H1). apply replace_char_id. assumption. Qed.

(* a JSX text token cannot contain `{` or `<` (the lexer would have ended it); after the fix it
   contains none of `{ } < >` *)
Theorem entities_fix_clean s : ~ In LBRACE s -> ~ In LT s -> jsx_text (escape s).
Proof.
  intros Hl Ht. unfold jsx_text, ignore_chars.
  destruct (existsb _ (escape s)) eqn:E; [|reflexivity]. exfalso.
  apply existsb_exists in E as (x & Hx & Hc).
  assert (Hcases : x = LBRACE \/ x = RBRACE \/ x = LT \/ x = GT).
  { repeat (apply orb_true_iff in Hc as [Hc|Hc]); apply N.eqb_eq in Hc; auto. }
  destruct Hcases as [->|[->|[->| ->]]].
  - apply escape_In in Hx as [(H & _)|[H|H]]; [contradiction | |];
      cbn in H; repeat (destruct H as [H|H]; [discriminate H|]); assumption.
  - exact (escape_no_rbrace s Hx).
  - apply escape_In in Hx as [(H & _)|[H|H]]; [contradiction | |];
      cbn in H; repeat (destruct H as [H|H]; [discriminate H|]); assumption.
  - exact (escape_no_gt s Hx).
Qed.

Theorem escape_idempotent s : escape (escape s) = escape s.
Proof. apply escape_fixed; [apply escape_no_gt | apply escape_no_rbrace]. Qed.

(* the rule does not report the fixed text again *)
Theorem entities_fix_removes s : entities_reported (escape s) = false.
Proof. unfold entities_reported. rewrite escape_idempotent, str_eqb_refl. reflexivity. Qed.

Theorem entities_reported_iff s : entities_reported s = true <-> In GT s \/ In RBRACE s.
Proof.
  unfold entities_reported. rewrite negb_true_iff, str_eqb_neq. split.
  - intros H. destruct (has GT s) eqn:H1; [left; apply has_In; assumption|].
    destruct (has RBRACE s) eqn:H2; [right; apply has_In; assumption|].
    exfalso. apply H. symmetry. apply escape_fixed; apply has_not_In; assumption.
  - intros [H|H] E; rewrite E in H; [exact (escape_no_gt s H) | exact (escape_no_rbrace s H)].
Qed.

(* ---- results of applying a one-change fix, as splices of the text *)
Lemma apply_one pre mid post new :
  apply_fix (utf8 (pre ++ mid ++ post)) [ch_bytes (bytes pre, bytes pre + bytes mid, new)] = Some (utf8 (pre ++ new ++ post)).
Proof. apply apply_fix_utf8. Qed.

(* jsx-boolean-value: `name gap = gap {true}` -> `name`, followed by a blank if the next character would
   otherwise be glued to the name (everything between the attribute name and the end of the container
   goes, including comments in the gaps) *)
Theorem boolean_fix_result pre name rest post :
  apply_fix (utf8 (pre ++ name ++ rest ++ post))
            [ch_bytes (boolean_change (Some (bytes (pre ++ name))) (bytes (pre ++ name)) (bytes (pre ++ name) + bytes rest) (hd_error post))]
  = Some (utf8 (pre ++ name ++ (if glued_next (hd_error post) then [32] else []) ++ post)).
Proof.
  unfold boolean_change.
  pose proof (apply_one (pre ++ name) rest post (if glued_next (hd_error post) then [32] else [])) as H.
  rewrite <- !app_assoc in H. exact H.
Qed.

(* the name stays apart from a following character that could continue it *)
Theorem boolean_fix_separated pre name rest c post :
  glued_next (Some c) = true ->
  apply_fix (utf8 (pre ++ name ++ rest ++ c :: post))
            [ch_bytes (boolean_change (Some (bytes (pre ++ name))) (bytes (pre ++ name)) (bytes (pre ++ name) + bytes rest) (Some c))]
  = Some (utf8 (pre ++ name ++ 32 :: c :: post)).
Proof.
  intros H. pose proof (boolean_fix_result pre name rest (c :: post)) as R.
  cbn [hd_error] in R. rewrite H in R. exact R.
Qed.

(* the only characters that may follow the name directly are white space, `/`, `>`, `{` or the end *)
Theorem boolean_fix_next_char pre name rest post :
  exists tail,
    apply_fix (utf8 (pre ++ name ++ rest ++ post))
              [ch_bytes (boolean_change (Some (bytes (pre ++ name))) (bytes (pre ++ name)) (bytes (pre ++ name) + bytes rest) (hd_error post))]
    = Some (utf8 (pre ++ name ++ tail)) /\ glued_next (hd_error tail) = false.
Proof.
  exists ((if glued_next (hd_error post) then [32] else []) ++ post). split; [apply boolean_fix_result|].
  destruct (glued_next (hd_error post)) eqn:G; [reflexivity | exact G].
Qed.

(* HISTORIC (before the fix): nothing separated the name from what follows: `<Foo a:b={true}c:d />`
   became `<Foo a:bc:d />` (parse error), `<Foo foo={true}bar />` became `<Foo foobar />` *)
Theorem boolean_fix_before_fix_refuted :
  exists pre name rest post,
    pre ++ name ++ rest ++ post = s2l "<Foo a:b={true}c:d />" /\
    apply_fix (utf8 (pre ++ name ++ rest ++ post))
      [ch_bytes (boolean_change_before_fix (Some (bytes (pre ++ name))) (bytes (pre ++ name)) (bytes (pre ++ name) + bytes rest))]
    = Some (utf8 (s2l "<Foo a:bc:d />")).
Proof.
  exists (s2l "<Foo "), (s2l "a:b"), (s2l "={true}"), (s2l "c:d />").
  split; vm_compute; reflexivity.
Qed.

(* jsx-props-no-spread-multi.  Text = pre gap `{` inner `}` post where pre ends with the token in front of
   the attribute (gap: white space / comments) and inner contains the spread node; tokens as the parser
   gives them.  No assumption on gap or inner: the whole attribute and the gap go, nothing else. *)
Theorem spread_fix_range_ok pre gap inner post oe cs :
  let text := pre ++ (gap ++ [LBRACE] ++ inner ++ [RBRACE]) ++ post in
  let open := Some (true, bytes (pre ++ gap), oe) in
  let close := Some (true, cs, bytes pre + bytes (gap ++ [LBRACE] ++ inner ++ [RBRACE])) in
  exists c, spread_change open close (Some (bytes pre)) = Some c /\
    apply_fix (utf8 text) [ch_bytes c] = Some (utf8 (pre ++ post)) /\
    boundary text (fst (fst c)) /\ boundary text (snd (fst c)).
Proof.
  cbv zeta. unfold spread_change. eexists. split; [reflexivity|]. cbn [fst snd]. split.
  - exact (apply_one pre (gap ++ [LBRACE] ++ inner ++ [RBRACE]) post []).
  - apply apply_fix_utf8_boundaries.
Qed.

(* first attribute directly behind the start of the text (no token in front of `{`): from `{` on *)
Theorem spread_fix_range_ok_no_prev pre inner post oe cs :
  let text := pre ++ ([LBRACE] ++ inner ++ [RBRACE]) ++ post in
  exists c, spread_change (Some (true, bytes pre, oe)) (Some (true, cs, bytes pre + bytes ([LBRACE] ++ inner ++ [RBRACE]))) None = Some c /\
    apply_fix (utf8 text) [ch_bytes c] = Some (utf8 (pre ++ post)) /\
    boundary text (fst (fst c)) /\ boundary text (snd (fst c)).
Proof.
  cbv zeta. unfold spread_change. eexists. split; [reflexivity|]. cbn [fst snd]. split.
  - exact (apply_one pre ([LBRACE] ++ inner ++ [RBRACE]) post []).
  - apply apply_fix_utf8_boundaries.
Qed.

(* no fix unless the neighbouring tokens are the braces *)
Theorem spread_fix_needs_braces open close prev c :
  spread_change open close prev = Some c ->
  exists os oe cs ce, open = Some (true, os, oe) /\ close = Some (true, cs, ce) /\ snd (fst c) = ce /\ snd c = [].
Proof.
  unfold spread_change. destruct open as [[[[] os] oe]|]; try discriminate.
  destruct close as [[[[] cs] ce]|]; try discriminate.
  intros [= <-]. exists os, oe, cs, ce. repeat split.
Qed.

(* HISTORIC (before the fix): the range [start-2, end+1) was right only if exactly one single-byte
   character and `{` preceded the spread and `}` followed it directly ... *)
Theorem spread_fix_range_before_fix_ok pre w spread post :
  is_ascii w = true ->
  let text := pre ++ [w; LBRACE] ++ spread ++ [RBRACE] ++ post in
  let s := bytes pre + 2 in let e := s + bytes spread in
  exists c, spread_change_before_fix s e = Some c /\
    apply_fix (utf8 text) [ch_bytes c] = Some (utf8 (pre ++ post)) /\
    boundary text (fst (fst c)) /\ boundary text (snd (fst c)).
Proof.
  intros Hw text s e. subst text s e. unfold spread_change_before_fix.
  destruct (N.ltb_spec (bytes pre + 2) 2) as [H|_]; [lia|].
  eexists. split; [reflexivity|].
  assert (Hb : bytes ([w; LBRACE] ++ spread ++ [RBRACE]) = 2 + bytes spread + 1).
  { rewrite !bytes_app. cbn [bytes]. apply utf8_len_ascii in Hw. rewrite Hw.
    change (utf8_len LBRACE) with 1. change (utf8_len RBRACE) with 1. lia. }
  replace (bytes pre + 2 - 2) with (bytes pre) by lia.
  replace (bytes pre + 2 + bytes spread + 1) with (bytes pre + bytes ([w; LBRACE] ++ spread ++ [RBRACE])) by lia.
  replace (pre ++ [w; LBRACE] ++ spread ++ [RBRACE] ++ post) with (pre ++ ([w; LBRACE] ++ spread ++ [RBRACE]) ++ post)
    by (rewrite <- !app_assoc; reflexivity).
  cbn [fst snd]. split; [|apply apply_fix_utf8_boundaries].
  exact (apply_one pre ([w; LBRACE] ++ spread ++ [RBRACE]) post []).
Qed.

(* ... (1) directly after another attribute it swallowed the `}` of the previous attribute and the
   result was unbalanced; (2) after a multi-byte white space it started inside that character. *)
Theorem spread_fix_before_fix_refuted :
  (exists pre spread post c r,
      let text := pre ++ [LBRACE] ++ spread ++ [RBRACE] ++ post in
      braces_balanced text = true /\
      spread_change_before_fix (bytes pre + 1) (bytes pre + 1 + bytes spread) = Some c /\
      apply_fix (utf8 text) [ch_bytes c] = Some (utf8 r) /\ braces_balanced r = false) /\
  (exists pre spread post c,
      let text := pre ++ [LBRACE] ++ spread ++ [RBRACE] ++ post in
      spread_change_before_fix (bytes pre + 1) (bytes pre + 1 + bytes spread) = Some c /\
      ~ boundary text (fst (fst c))).
Proof.
  split.
  - (* <a {...x}{...x}/>  ->  <a {...x/> *)
    exists (s2l "<a {...x}"), (s2l "...x"), (s2l "/>"), (8, 15, []), (s2l "<a {...x/>").
    cbv zeta. repeat split; vm_compute; reflexivity.
  - (* <a {...x}U+3000{...x}/> *)
    exists (s2l "<a {...x}" ++ [12288]), (s2l "...x"), (s2l "/>"), (11, 18, []).
    cbv zeta. split; [vm_compute; reflexivity|].
    intros H. vm_compute in H. discriminate H.
Qed.

Corollary spread_fix_range_before_fix_refuted :
  exists pre spread post c,
      let text := pre ++ [LBRACE] ++ spread ++ [RBRACE] ++ post in
      spread_change_before_fix (bytes pre + 1) (bytes pre + 1 + bytes spread) = Some c /\
      ~ boundary text (fst (fst c)).
Proof. exact (proj2 spread_fix_before_fix_refuted). Qed.

(* the same two texts with the token-based range: the attribute goes, the rest stays *)
Theorem spread_fix_witnesses_now_ok :
  (exists c, spread_change (Some (true, 9, 10)) (Some (true, 14, 15)) (Some 9) = Some c /\
     apply_fix (utf8 (s2l "<a {...x}{...x}/>")) [ch_bytes c] = Some (utf8 (s2l "<a {...x}/>"))) /\
  (exists c, spread_change (Some (true, 12, 13)) (Some (true, 17, 18)) (Some 9) = Some c /\
     apply_fix (utf8 (s2l "<a {...x}" ++ [12288] ++ s2l "{...x}/>")) [ch_bytes c] = Some (utf8 (s2l "<a {...x}/>"))).
Proof. split; eexists; split; try reflexivity; vm_compute; reflexivity. Qed.

(* ---- globalThis *)
Theorem global_this_ident : ident GLOBAL_THIS.
Proof. split; vm_compute; reflexivity. Qed.

(* the replacement is none of the names the three rules look for *)
Theorem global_this_not_flagged :
  str_eqb GLOBAL_THIS WINDOW = false /\ lookup GLOBAL_THIS node_globals = None /\ str_eqb GLOBAL_THIS PROCESS = false.
Proof. repeat split; vm_compute; reflexivity. Qed.

Theorem rename_fix_result pre name post :
  apply_fix (utf8 (pre ++ name ++ post)) [ch_bytes (rename_change (bytes pre) (bytes pre + bytes name))]
  = Some (utf8 (pre ++ GLOBAL_THIS ++ post)).
Proof. apply apply_one. Qed.

(* ---- import lines *)
Definition import_kinds : list fix_kind := [FK_PROCESS; FK_BUFFER; FK_SET_IMMEDIATE; FK_CLEAR_IMMEDIATE].

Theorem import_line_wellformed fk nl :
  In fk import_kinds -> import_line_ok nl (to_text fk nl) = true /\ count NL (to_text fk NlNone) = 0.
Proof.
  intros H. cbn [import_kinds In] in H.
  destruct H as [<-|[<-|[<-|[<-|[]]]]]; destruct nl; split; vm_compute; reflexivity.
Qed.

(* every import entry of NODE_GLOBALS is covered by the theorem above *)
Theorem node_globals_kinds name fk :
  lookup name node_globals = Some fk -> In fk import_kinds \/ fk = FK_GLOBAL.
Proof.
  unfold node_globals. cbn [lookup].
  repeat (match goal with |- context [if ?b then _ else _] => destruct b end;
          [intros [= <-]; cbn [import_kinds In]; auto 10|]).
  discriminate.
Qed.

(* placement: an insertion (start = end) with the newline on the side of the neighbouring code;
   never in a CommonJS file *)
Theorem global_change_shape last code_start s e fk :
  In fk import_kinds ->
  global_change true last code_start s e fk = None /\
  exists a t, global_change false last code_start s e fk = Some (a, a, t) /\
    match last with
    | Some (p, inline) => a = p /\ t = to_text fk (if inline then NlInline else NlLeading)
    | None => a = code_start /\ t = to_text fk NlTrailing
    end.
Proof.
  intros H. cbn [import_kinds In] in H.
  destruct H as [<-|[<-|[<-|[<-|[]]]]]; (split; [reflexivity|]); destruct last as [[p inline]|];
    cbn [global_change global_change_before_fix FK_PROCESS FK_BUFFER FK_SET_IMMEDIATE FK_CLEAR_IMMEDIATE];
    eexists _, _; repeat split.
Qed.

(* `global` is renamed in every kind of file *)
Theorem global_change_rename cjs last code_start s e :
  global_change cjs last code_start s e FK_GLOBAL = Some (rename_change s e).
Proof. reflexivity. Qed.

Theorem import_fix_result pre post fk nl :
  apply_fix (utf8 (pre ++ post)) [ch_bytes (bytes pre, bytes pre, to_text fk nl)] = Some (utf8 (pre ++ to_text fk nl ++ post)).
Proof.
  pose proof (apply_one pre [] post (to_text fk nl)) as H. cbn [app bytes] in H. rewrite N.add_0_r in H. exact H.
Qed.

(* ---- verbatim-module-syntax *)
Lemma vms_spans_valid pos total spans :
  spans_sorted pos total spans = true ->
  valid_from pos total (map ch_bytes (map (fun ab : N * N => (fst ab, snd ab, [])) spans)) = true /\ pos <= total.
Proof.
  revert pos. induction spans as [|[a b] r IH]; intros pos; cbn [spans_sorted map ch_bytes valid_from fst snd].
  - intros H. apply N.leb_le in H. split; [reflexivity | assumption].
  - intros H. apply andb_true_iff in H as [H Hr]. apply andb_true_iff in H as [H1 H2].
    apply IH in Hr as [Hr Hb]. apply N.leb_le in H1, H2. split; [|lia].
    rewrite Hr. destruct (N.leb_spec pos a); [|lia]. destruct (N.leb_spec a b); [|lia].
    destruct (N.leb_spec b total); [|lia]. reflexivity.
Qed.

Lemma all_some_map_Some {A} (l : list A) : all_some (map Some l) = Some l.
Proof. induction l as [|x l IH]; cbn [map all_some]; [reflexivity | rewrite IH; reflexivity]. Qed.

(* the changes of the all-specifiers-are-types fix are sorted, disjoint and in bounds as soon as the
   inline `type ` spans come in source order behind the keyword *)
Theorem vms_all_changes_valid kw_end total spans chs :
  vms_all_changes kw_end (map Some spans) = Some chs ->
  spans_sorted kw_end total spans = true ->
  valid_changes total (map ch_bytes chs) = true.
Proof.
  unfold vms_all_changes. rewrite all_some_map_Some. intros [= <-] H.
  apply vms_spans_valid in H as [H Hb].
  unfold valid_changes, vms_all_changes_spans. cbn [map ch_bytes valid_from].
  rewrite H. destruct (N.leb_spec 0 kw_end); [|lia]. rewrite N.leb_refl.
  destruct (N.leb_spec kw_end total); [|lia]. reflexivity.
Qed.

(* no fix at all if the `type` keyword of one inline specifier cannot be located *)
Theorem vms_all_changes_none kw_end spans : In None spans -> vms_all_changes kw_end spans = None.
Proof.
  intros H. unfold vms_all_changes.
  assert (E : all_some spans = None).
  { induction spans as [|[x|] r IH]; cbn [all_some]; [destruct H | | reflexivity].
    destruct H as [H|H]; [discriminate|]. rewrite (IH H). reflexivity. }
  rewrite E. reflexivity.
Qed.

(* result for one inline span:  pre import mid `type ` post  ->  pre import ` type` mid post *)
Theorem vms_all_fix_result pre kw mid tyspan post :
  exists chs,
    vms_all_changes (bytes (pre ++ kw))
       [Some (bytes (pre ++ kw) + bytes mid, bytes (pre ++ kw) + bytes mid + bytes tyspan)] = Some chs /\
    apply_fix (utf8 (pre ++ kw ++ mid ++ tyspan ++ post)) (map ch_bytes chs)
    = Some (utf8 (pre ++ kw ++ TYPE_LEAD ++ mid ++ post)).
Proof.
  eexists. split; [reflexivity|].
  pose proof (apply_fix_utf8_segs [(pre ++ kw, [], TYPE_LEAD); (mid, tyspan, [])] post) as H.
  cbn [seg_text seg_new seg_changes_bytes app bytes] in H.
  rewrite <- !app_assoc in H. rewrite !N.add_0_l, !N.add_0_r in H.
  unfold vms_all_changes_spans. cbn [map ch_bytes fst snd]. exact H.
Qed.

Theorem vms_spec_fix_result pre spec post c :
  vms_spec_change true (bytes pre) = Some c ->
  apply_fix (utf8 (pre ++ spec ++ post)) [ch_bytes c] = Some (utf8 (pre ++ TYPE_TRAIL ++ spec ++ post)).
Proof.
  intros [= <-].
  pose proof (apply_one pre [] (spec ++ post) TYPE_TRAIL) as H. cbn [app bytes] in H. rewrite N.add_0_r in H. exact H.
Qed.

(* default / namespace / string-named specifiers get no inline `type` *)
Theorem vms_spec_change_only_named start : vms_spec_change false start = None.
Proof. reflexivity. Qed.

(* the keyword and the inserted word stay separate words: ` type` starts, `type ` ends with a blank *)
Theorem vms_keyword_separated :
  (exists r, TYPE_LEAD = 32 :: r /\ identb r = true) /\ (exists r, TYPE_TRAIL = r ++ [32] /\ identb r = true).
Proof.
  split.
  - exists [116; 121; 112; 101]. split; reflexivity.
  - exists [116; 121; 112; 101]. split; reflexivity.
Qed.

(* ---- string literals used above are what the Rust source says *)
Lemma literals_ok :
  GT_ENT = s2l "&gt;" /\ RBRACE_ENT = s2l "&#125;" /\ GLOBAL_THIS = s2l "globalThis" /\ WINDOW = s2l "window" /\
  IMPORT_ = s2l "import " /\ TYPE_LEAD = s2l " type" /\ TYPE_TRAIL = s2l "type " /\
  to_text FK_PROCESS NlNone = s2l "import process from ""node:process"";" /\
  to_text FK_BUFFER NlLeading = NL :: s2l "import { Buffer } from ""node:buffer"";" /\
  to_text FK_SET_IMMEDIATE NlTrailing = s2l "import { setImmediate } from ""node:timers"";" ++ [NL] /\
  to_text FK_CLEAR_IMMEDIATE NlNone = s2l "import { clearImmediate } from ""node:timers"";" /\
  map fst node_globals = map s2l ["Buffer"; "global"; "setImmediate"; "clearImmediate"]%string.
Proof. repeat split; vm_compute; reflexivity. Qed.
