(* no-irregular-whitespace (src/rules/no_irregular_whitespace.rs): executable model of the gap scan.

     let mut last_end = file_start;
     for token in tokens { check_range(last_end .. token.start()); last_end = token.end(); }
     check_range(last_end .. file_end);
     check_range(r): text = r.text_fast(..)                       (slice of the source; panics off a boundary / start > end)
                     for m in IRREGULAR_WHITESPACE.find_iter(text)      -- regex `[class]+`  = maximal runs
                     then for m in IRREGULAR_LINE_TERMINATORS.find_iter(text) -- `[  ]` = single characters
                       report [r.start + m.start, r.start + m.end)

   Inputs of the model: the text as code points and swc's token ranges (byte offsets) - comments are
   not tokens, so a gap contains white space AND comments; string/template/regex/JSX-text contents are
   tokens and therefore skipped.  The regex crate's `find_iter` is modelled by its documented
   leftmost-longest-run semantics.  ban-untagged-todo does no index arithmetic (it reports the comment
   span unchanged), so there is nothing to model for it here.

   Model first (extracted), theorems below. *)
From V Require Export Common.Utf.
From Coq Require Import Permutation.
Open Scope N_scope.

Definition irr_ws (c : N) : bool :=
  (c =? 12) || (c =? 11) || (c =? 133) || (c =? 65279) || (c =? 160) || (c =? 5760) || (c =? 6158)
  || ((8192 <=? c) && (c <=? 8203)) || (c =? 8239) || (c =? 8287) || (c =? 12288).

Definition irr_lt (c : N) : bool := (c =? 8232) || (c =? 8233).

Definition rng : Type := N * N.

Definition close (cur : option N) (off : N) : list rng :=
  match cur with Some s => [(s, off)] | None => [] end.

(* maximal runs of class characters; `cur` = start of the run that is open at `off` *)
Fixpoint runs (cls : N -> bool) (off : N) (cur : option N) (cs : list N) : list rng :=
  match cs with
  | [] => close cur off
  | c :: r =>
      if cls c then runs cls (off + utf8_len c) (Some (match cur with Some s => s | None => off end)) r
      else close cur off ++ runs cls (off + utf8_len c) None r
  end.

Fixpoint singles (cls : N -> bool) (off : N) (cs : list N) : list rng :=
  match cs with
  | [] => []
  | c :: r => (if cls c then [(off, off + utf8_len c)] else []) ++ singles cls (off + utf8_len c) r
  end.

Definition scan_gap (base : N) (g : list N) : list rng :=
  runs irr_ws base None g ++ singles irr_lt base g.

(* `&text[..n]` / `&text[n..]`: None = not a char boundary or beyond the end (Rust panics) *)
Fixpoint split_at (cs : list N) (n : N) : option (list N * list N) :=
  match cs with
  | [] => if n =? 0 then Some ([], []) else None
  | c :: r =>
      if n =? 0 then Some ([], cs)
      else if utf8_len c <=? n then
        match split_at r (n - utf8_len c) with
        | Some (a, b) => Some (c :: a, b)
        | None => None
        end
      else None
  end.

Inductive irr_outcome : Type := IrrOk (ds : list rng) | IrrPanic.

(* `rest` = the text from absolute byte offset `pos` (= last_end) on *)
Fixpoint irr_loop (pos : N) (rest : list N) (toks : list rng) : irr_outcome :=
  match toks with
  | [] => IrrOk (scan_gap pos rest)
  | (s, e) :: r =>
      if (s <? pos) || (e <? s) then IrrPanic
      else match split_at rest (s - pos) with
           | None => IrrPanic
           | Some (gap, after) =>
               match split_at after (e - s) with
               | None => IrrPanic
               | Some (_, rest') =>
                   match irr_loop e rest' r with
                   | IrrOk ds => IrrOk (scan_gap pos gap ++ ds)
                   | IrrPanic => IrrPanic
                   end
               end
           end
  end.

Definition irregular (cs : list N) (toks : list rng) : irr_outcome := irr_loop 0 cs toks.

Definition rng_shift (k : N) (r : rng) : rng := let '(s, e) := r in (k + s, k + e).

(* a text laid out as gap0 tok0 gap1 tok1 ... final-gap *)
Definition layout : Type := list (list N * list N).

Fixpoint lay_text (l : layout) (fin : list N) : list N :=
  match l with [] => fin | (g, t) :: r => g ++ t ++ lay_text r fin end.

Fixpoint lay_toks (pos : N) (l : layout) : list rng :=
  match l with
  | [] => []
  | (g, t) :: r => (pos + bytes g, pos + bytes g + bytes t) :: lay_toks (pos + bytes g + bytes t) r
  end.

Fixpoint lay_scan (pos : N) (l : layout) (fin : list N) : list rng :=
  match l with
  | [] => scan_gap pos fin
  | (g, t) :: r => scan_gap pos g ++ lay_scan (pos + bytes g + bytes t) r fin
  end.

Definition first_gap (l : layout) (fin : list N) : list N :=
  match l with [] => fin | (g, _) :: _ => g end.

Definition with_prefix (p : list N) (l : layout) (fin : list N) : layout * list N :=
  match l with [] => ([], p ++ fin) | (g, t) :: r => ((p ++ g, t) :: r, fin) end.

Definition head_is (cls : N -> bool) (g : list N) : bool :=
  match g with c :: _ => cls c | [] => false end.
Definition last_is (cls : N -> bool) (p : list N) : bool := head_is cls (rev p).

(* ------------------------------------------------------------------ split_at *)
Lemma split_at_app a b : split_at (a ++ b) (bytes a) = Some (a, b).
Proof.
  induction a as [|c a IH]; cbn [app bytes split_at].
  - destruct b; reflexivity.
  - pose proof (utf8_len_pos c) as Hc.
    destruct (N.eqb_spec (utf8_len c + bytes a) 0); [lia|].
    destruct (N.leb_spec (utf8_len c) (utf8_len c + bytes a)); [|lia].
    replace (utf8_len c + bytes a - utf8_len c) with (bytes a) by lia.
    rewrite IH. reflexivity.
Qed.

Lemma split_at_spec cs n a b : split_at cs n = Some (a, b) -> cs = a ++ b /\ bytes a = n.
Proof.
  revert n a b. induction cs as [|c r IH]; intros n a b; cbn [split_at].
  - destruct (N.eqb_spec n 0) as [->|]; [|discriminate]. intros [= <- <-]. split; reflexivity.
  - destruct (N.eqb_spec n 0) as [->|Hn].
    + intros [= <- <-]. split; reflexivity.
    + destruct (N.leb_spec (utf8_len c) n) as [Hle|]; [|discriminate].
      destruct (split_at r (n - utf8_len c)) as [[a' b']|] eqn:E; [|discriminate].
      intros [= <- <-]. apply IH in E as [-> Hb]. split; [reflexivity|]. cbn [bytes]. lia.
Qed.

(* ------------------------------------------------------------------ where the ranges are *)
Lemma bytes_pos m : m <> [] -> 0 < bytes m.
Proof. destruct m as [|c m]; [contradiction|]. intros _. cbn [bytes]. pose proof (utf8_len_pos c). lia. Qed.

Lemma runs_ranges cls off cur g s e :
  In (s, e) (runs cls off cur g) ->
  (exists a m b, g = a ++ m ++ b /\ m <> [] /\ forallb cls m = true /\ s = off + bytes a /\ e = s + bytes m)
  \/ (exists m b, cur = Some s /\ g = m ++ b /\ forallb cls m = true /\ e = off + bytes m).
Proof.
  revert off cur. induction g as [|c r IH]; intros off cur; cbn [runs].
  - destruct cur as [s0|]; cbn [close In]; [|intros []].
    intros [[= <- <-]|[]]. right. exists [], []. cbn [bytes]. repeat split. lia.
  - destruct (cls c) eqn:Hc.
    + intros H. apply IH in H as [(a & m & b & -> & Hm & Hall & -> & ->)|(m & b & Hcur & -> & Hall & ->)].
      * left. exists (c :: a), m, b. cbn [app bytes]. repeat split; try assumption; lia.
      * destruct cur as [s0|]; injection Hcur as <-.
        -- right. exists (c :: m), b. cbn [app bytes forallb]. rewrite Hc, Hall. repeat split. lia.
        -- left. exists [], (c :: m), b. cbn [app bytes forallb]. rewrite Hc, Hall.
           repeat split; [discriminate | lia | lia].
    + rewrite in_app_iff. intros [H|H].
      * destruct cur as [s0|]; cbn [close In] in H; [|contradiction].
        destruct H as [[= <- <-]|[]]. right. exists [], (c :: r). cbn [bytes]. repeat split. lia.
      * apply IH in H as [(a & m & b & -> & Hm & Hall & -> & ->)|(m & b & Hcur & _)]; [|discriminate].
        left. exists (c :: a), m, b. cbn [app bytes]. repeat split; try assumption; lia.
Qed.

Lemma singles_ranges cls off g s e :
  In (s, e) (singles cls off g) ->
  exists a c b, g = a ++ c :: b /\ cls c = true /\ s = off + bytes a /\ e = s + utf8_len c.
Proof.
  revert off. induction g as [|c r IH]; intros off; cbn [singles]; [intros []|].
  rewrite in_app_iff. intros [H|H].
  - destruct (cls c) eqn:Hc; cbn [In] in H; [|contradiction].
    destruct H as [[= <- <-]|[]]. exists [], c, r. cbn [app bytes]. repeat split; [assumption | lia].
  - apply IH in H as (a & x & b & -> & Hx & -> & ->).
    exists (c :: a), x, b. cbn [app bytes]. repeat split; [assumption | lia].
Qed.

Lemma scan_gap_ranges base g s e :
  In (s, e) (scan_gap base g) ->
  exists a m b, g = a ++ m ++ b /\ m <> [] /\ s = base + bytes a /\ e = s + bytes m.
Proof.
  unfold scan_gap. rewrite in_app_iff. intros [H|H].
  - apply runs_ranges in H as [(a & m & b & -> & Hm & _ & -> & ->)|(m & b & Hcur & _)]; [|discriminate].
    exists a, m, b. repeat split; assumption.
  - apply singles_ranges in H as (a & c & b & -> & _ & -> & ->).
    exists a, [c], b. cbn [app bytes]. repeat split; [discriminate | lia].
Qed.

(* ------------------------------------------------------------------ the loop = scan of each gap of a layout *)
Theorem irr_loop_layout pos l fin :
  irr_loop pos (lay_text l fin) (lay_toks pos l) = IrrOk (lay_scan pos l fin).
Proof.
  revert pos. induction l as [|[g t] r IH]; intros pos; cbn [lay_text lay_toks lay_scan irr_loop]; [reflexivity|].
  destruct (N.ltb_spec (pos + bytes g) pos); [lia|].
  destruct (N.ltb_spec (pos + bytes g + bytes t) (pos + bytes g)); [lia|]. cbn [orb].
  replace (pos + bytes g - pos) with (bytes g) by lia.
  rewrite split_at_app.
  replace (pos + bytes g + bytes t - (pos + bytes g)) with (bytes t) by lia.
  rewrite split_at_app, IH. reflexivity.
Qed.

Theorem irr_loop_ok_layout pos rest toks ds :
  irr_loop pos rest toks = IrrOk ds ->
  exists l fin, rest = lay_text l fin /\ toks = lay_toks pos l /\ ds = lay_scan pos l fin.
Proof.
  revert pos rest ds. induction toks as [|[s e] r IH]; intros pos rest ds; cbn [irr_loop].
  - intros [= <-]. exists [], rest. repeat split.
  - destruct (N.ltb_spec s pos) as [|H1]; [discriminate|].
    destruct (N.ltb_spec e s) as [|H2]; [discriminate|]. cbn [orb].
    destruct (split_at rest (s - pos)) as [[gap after]|] eqn:E1; [|discriminate].
    destruct (split_at after (e - s)) as [[tok rest']|] eqn:E2; [|discriminate].
    destruct (irr_loop e rest' r) as [ds'|] eqn:E3; [|discriminate].
    intros [= <-].
    apply split_at_spec in E1 as [-> Hg]. apply split_at_spec in E2 as [-> Ht].
    apply IH in E3 as (l & fin & -> & -> & ->).
    exists ((gap, tok) :: l), fin. cbn [lay_text lay_toks lay_scan].
    replace (pos + bytes gap) with s by lia. replace (s + bytes tok) with e by lia.
    repeat split.
Qed.

Lemma lay_scan_ranges pos l fin s e :
  In (s, e) (lay_scan pos l fin) ->
  exists a m b, lay_text l fin = a ++ m ++ b /\ m <> [] /\ s = pos + bytes a /\ e = s + bytes m.
Proof.
  revert pos. induction l as [|[g t] r IH]; intros pos; cbn [lay_scan lay_text].
  - apply scan_gap_ranges.
  - rewrite in_app_iff. intros [H|H].
    + apply scan_gap_ranges in H as (a & m & b & -> & Hm & -> & ->).
      exists a, m, (b ++ t ++ lay_text r fin). rewrite <- !app_assoc. repeat split; assumption.
    + apply IH in H as (a & m & b & E & Hm & -> & ->).
      exists (g ++ t ++ a), m, b. rewrite E, <- !app_assoc, !bytes_app. repeat split; [assumption | lia].
Qed.

(* C03: every reported range lies inside the text, on char boundaries, and is not empty *)
Theorem irregular_ranges cs toks ds s e :
  irregular cs toks = IrrOk ds -> In (s, e) ds ->
  s < e /\ e <= bytes cs /\ boundary cs s /\ boundary cs e.
Proof.
  unfold irregular. intros H Hin. apply irr_loop_ok_layout in H as (l & fin & -> & -> & ->).
  apply lay_scan_ranges in Hin as (a & m & b & -> & Hm & -> & ->).
  apply bytes_pos in Hm. rewrite N.add_0_l. repeat split.
  - lia.
  - rewrite !bytes_app. lia.
  - apply boundary_prefix.
  - rewrite app_assoc, <- bytes_app. apply boundary_prefix.
Qed.

(* it never panics on a token list that is consistent with the text *)
Theorem irregular_total l fin : irregular (lay_text l fin) (lay_toks 0 l) = IrrOk (lay_scan 0 l fin).
Proof. apply irr_loop_layout. Qed.

(* ------------------------------------------------------------------ C09: translation and prefixes *)
Lemma close_shift k cur off : close (option_map (N.add k) cur) (k + off) = map (rng_shift k) (close cur off).
Proof. destruct cur; reflexivity. Qed.

Lemma runs_shift cls k off cur g :
  runs cls (k + off) (option_map (N.add k) cur) g = map (rng_shift k) (runs cls off cur g).
Proof.
  revert off cur. induction g as [|c r IH]; intros off cur; cbn [runs].
  - apply close_shift.
  - replace (k + off + utf8_len c) with (k + (off + utf8_len c)) by lia.
    destruct (cls c).
    + rewrite <- IH. f_equal. destruct cur; reflexivity.
    + rewrite map_app, <- close_shift, <- (IH (off + utf8_len c) None). reflexivity.
Qed.

Lemma singles_shift cls k off g : singles cls (k + off) g = map (rng_shift k) (singles cls off g).
Proof.
  revert off. induction g as [|c r IH]; intros off; cbn [singles]; [reflexivity|].
  replace (k + off + utf8_len c) with (k + (off + utf8_len c)) by lia.
  rewrite map_app, <- IH. f_equal. destruct (cls c); [|reflexivity].
  cbn [map rng_shift]. rewrite N.add_assoc. reflexivity.
Qed.

Lemma scan_gap_shift k base g : scan_gap (k + base) g = map (rng_shift k) (scan_gap base g).
Proof.
  unfold scan_gap. rewrite map_app, <- singles_shift, <- (runs_shift irr_ws k base None). reflexivity.
Qed.

Lemma lay_toks_shift k pos l : lay_toks (k + pos) l = map (rng_shift k) (lay_toks pos l).
Proof.
  revert pos. induction l as [|[g t] r IH]; intros pos; cbn [lay_toks map rng_shift]; [reflexivity|].
  rewrite <- IH, !N.add_assoc. reflexivity.
Qed.

Lemma lay_scan_shift k pos l fin : lay_scan (k + pos) l fin = map (rng_shift k) (lay_scan pos l fin).
Proof.
  revert pos. induction l as [|[g t] r IH]; intros pos; cbn [lay_scan].
  - apply scan_gap_shift.
  - rewrite map_app, <- scan_gap_shift, <- IH, !N.add_assoc. reflexivity.
Qed.

(* a run cannot continue across the border if the next character is not in the class ... *)
Lemma runs_app_head cls off cur p g :
  head_is cls g = false ->
  runs cls off cur (p ++ g) = runs cls off cur p ++ runs cls (off + bytes p) None g.
Proof.
  intros Hg. revert off cur. induction p as [|c p IH]; intros off cur; cbn [app runs bytes].
  - rewrite N.add_0_r. destruct g as [|x g]; cbn [runs]; [rewrite app_nil_r; reflexivity|].
    cbn [head_is] in Hg. rewrite Hg. reflexivity.
  - rewrite N.add_assoc. destruct (cls c); [apply IH|]. rewrite IH, app_assoc. reflexivity.
Qed.

(* ... or if the previous one is not *)
Lemma runs_app_last cls off cur p x g :
  cls x = false ->
  runs cls off cur ((p ++ [x]) ++ g) = runs cls off cur (p ++ [x]) ++ runs cls (off + bytes (p ++ [x])) None g.
Proof.
  intros Hx. revert off cur. induction p as [|c p IH]; intros off cur; cbn [app runs bytes].
  - rewrite Hx. cbn [runs close]. rewrite N.add_0_r, app_nil_r. reflexivity.
  - rewrite N.add_assoc. destruct (cls c); [apply IH|]. rewrite IH, app_assoc. reflexivity.
Qed.

Lemma runs_app_clean cls off p g :
  last_is cls p && head_is cls g = false ->
  runs cls off None (p ++ g) = runs cls off None p ++ runs cls (off + bytes p) None g.
Proof.
  intros H. apply andb_false_iff in H as [H|H]; [|apply runs_app_head; assumption].
  unfold last_is in H. destruct (rev p) as [|x q] eqn:E.
  - assert (p = []) as -> by (rewrite <- (rev_involutive p), E; reflexivity).
    cbn [app bytes runs close]. rewrite N.add_0_r. reflexivity.
  - assert (p = rev q ++ [x]) as -> by (rewrite <- (rev_involutive p), E; reflexivity).
    cbn [head_is] in H. apply runs_app_last. assumption.
Qed.

Lemma singles_app cls off p g :
  singles cls off (p ++ g) = singles cls off p ++ singles cls (off + bytes p) g.
Proof.
  revert off. induction p as [|c p IH]; intros off; cbn [app singles bytes].
  - rewrite N.add_0_r. reflexivity.
  - rewrite IH, <- app_assoc, N.add_assoc. reflexivity.
Qed.

Lemma scan_gap_app_perm off p g :
  last_is irr_ws p && head_is irr_ws g = false ->
  Permutation (scan_gap off (p ++ g)) (scan_gap off p ++ scan_gap (off + bytes p) g).
Proof.
  intros H. unfold scan_gap. rewrite (runs_app_clean irr_ws off p g H), singles_app.
  rewrite <- !app_assoc. apply Permutation_app_head.
  rewrite !app_assoc. apply Permutation_app_tail. apply Permutation_app_comm.
Qed.

Lemma scan_gap_app_eq off p g :
  last_is irr_ws p && head_is irr_ws g = false -> singles irr_lt off p = [] ->
  scan_gap off (p ++ g) = scan_gap off p ++ scan_gap (off + bytes p) g.
Proof.
  intros H Hs. unfold scan_gap. rewrite (runs_app_clean irr_ws off p g H), singles_app, Hs.
  rewrite app_nil_r, <- app_assoc. reflexivity.
Qed.

Lemma with_prefix_text p l fin :
  let '(l', fin') := with_prefix p l fin in lay_text l' fin' = p ++ lay_text l fin.
Proof. destruct l as [|[g t] r]; cbn [with_prefix lay_text]; [reflexivity | rewrite <- app_assoc; reflexivity]. Qed.

Lemma with_prefix_toks p l fin :
  let '(l', _) := with_prefix p l fin in lay_toks 0 l' = map (rng_shift (bytes p)) (lay_toks 0 l).
Proof.
  destruct l as [|[g t] r]; cbn [with_prefix lay_toks map]; [reflexivity|].
  rewrite bytes_app, !N.add_0_l. cbn [rng_shift].
  replace (bytes p + bytes g + bytes t) with (bytes p + (0 + bytes g + bytes t)) by lia.
  rewrite lay_toks_shift, !N.add_0_l. reflexivity.
Qed.

(* C09.  A token-free prefix p (white space, comments) in front of a text whose tokens move with it:
   the diagnostics are those inside p plus the translated diagnostics of the text alone - PROVIDED no
   run of irregular white space spans the border (p does not end, or the first gap does not start,
   with such a character).  Exact list equality needs p free of U+2028/U+2029 (their diagnostics are
   emitted after the runs of the same gap); otherwise the lists are permutations of each other (the
   pipeline sorts by position afterwards). *)
Theorem irregular_prefix_perm p l fin :
  last_is irr_ws p && head_is irr_ws (first_gap l fin) = false ->
  exists ds', irregular (p ++ lay_text l fin) (map (rng_shift (bytes p)) (lay_toks 0 l)) = IrrOk ds' /\
    irregular (lay_text l fin) (lay_toks 0 l) = IrrOk (lay_scan 0 l fin) /\
    Permutation ds' (scan_gap 0 p ++ map (rng_shift (bytes p)) (lay_scan 0 l fin)).
Proof.
  intros H.
  pose proof (with_prefix_text p l fin) as Ht. pose proof (with_prefix_toks p l fin) as Hk.
  destruct (with_prefix p l fin) as [l' fin'] eqn:E.
  exists (lay_scan 0 l' fin'). rewrite <- Ht, <- Hk. split; [apply irregular_total|]. split; [apply irregular_total|].
  destruct l as [|[g t] r]; cbn [with_prefix] in E; injection E as <- <-; cbn [lay_scan first_gap] in *.
  - rewrite <- scan_gap_shift, N.add_0_r. apply (scan_gap_app_perm 0 p fin H).
  - rewrite map_app, <- scan_gap_shift, <- lay_scan_shift, bytes_app, N.add_0_r.
    replace (bytes p + (0 + bytes g + bytes t)) with (0 + (bytes p + bytes g) + bytes t) by lia.
    rewrite app_assoc. apply Permutation_app_tail. apply (scan_gap_app_perm 0 p g H).
Qed.

Theorem irregular_prefix_eq p l fin :
  last_is irr_ws p && head_is irr_ws (first_gap l fin) = false -> singles irr_lt 0 p = [] ->
  irregular (p ++ lay_text l fin) (map (rng_shift (bytes p)) (lay_toks 0 l))
  = IrrOk (scan_gap 0 p ++ map (rng_shift (bytes p)) (lay_scan 0 l fin)).
Proof.
  intros H Hs.
  pose proof (with_prefix_text p l fin) as Ht. pose proof (with_prefix_toks p l fin) as Hk.
  destruct (with_prefix p l fin) as [l' fin'] eqn:E.
  rewrite <- Ht, <- Hk, irregular_total. f_equal.
  destruct l as [|[g t] r]; cbn [with_prefix] in E; injection E as <- <-; cbn [lay_scan first_gap] in *.
  - rewrite <- scan_gap_shift, N.add_0_r. apply (scan_gap_app_eq 0 p fin H Hs).
  - rewrite map_app, <- scan_gap_shift, <- lay_scan_shift, bytes_app, N.add_0_r.
    replace (bytes p + (0 + bytes g + bytes t)) with (0 + (bytes p + bytes g) + bytes t) by lia.
    rewrite app_assoc. f_equal. apply (scan_gap_app_eq 0 p g H Hs).
Qed.

(* the diagnostics contributed by the prefix lie inside the prefix *)
Lemma scan_gap_inside p s e : In (s, e) (scan_gap 0 p) -> e <= bytes p.
Proof.
  intros H. apply scan_gap_ranges in H as (a & m & b & -> & _ & -> & ->). rewrite !bytes_app. lia.
Qed.

(* without the side condition the law fails: a run spanning the border is reported once *)
Theorem irregular_prefix_border_refuted :
  exists p l fin ds',
    irregular (p ++ lay_text l fin) (map (rng_shift (bytes p)) (lay_toks 0 l)) = IrrOk ds' /\
    ~ Permutation ds' (scan_gap 0 p ++ map (rng_shift (bytes p)) (lay_scan 0 l fin)).
Proof.
  exists [160], [([160], [97])], [], [(0, 4)]. split; [reflexivity|].
  intros H. apply Permutation_length in H. discriminate H.
Qed.
