(* prefer-ascii (src/rules/prefer_ascii.rs): executable model of the scanning loop and its range theorems.

     let mut src_chars = text.char_indices().peekable();
     while let Some((i, c)) = src_chars.next() {
       if let Some(&(pi, _)) = src_chars.peek() {
         if (pi > i + 1) || !c.is_ascii() { push (c, [start_pos + i, start_pos + pi)) } } }

   The text is a list of code points; byte offsets are computed with utf8_len.  A diagnostic is
   (char, start, end) in 0-based byte offsets.  NOTE the `peek`: the LAST character of the file is
   never examined (`prefer_ascii_misses_last`), so the prefix law needs `t <> []`.

   Model first (extracted), theorems below. *)
From V Require Export Common.Utf.
Open Scope N_scope.

Definition pa_diag : Type := N * N * N.

Definition pa_flag (off : N) (c : N) : list pa_diag :=
  let pi := off + utf8_len c in
  if (off + 1 <? pi) || negb (is_ascii c) then [(c, off, pi)] else [].

Fixpoint pa_scan (off : N) (cs : list N) : list pa_diag :=
  match cs with
  | [] => []
  | c :: rest =>
      match rest with
      | [] => []                                   (* peek() = None *)
      | _ :: _ => pa_flag off c ++ pa_scan (off + utf8_len c) rest
      end
  end.

Definition prefer_ascii (cs : list N) : list pa_diag := pa_scan 0 cs.

(* every character, including the last one (what the loop does for a prefix that is followed by text) *)
Fixpoint pa_all (off : N) (cs : list N) : list pa_diag :=
  match cs with
  | [] => []
  | c :: rest => pa_flag off c ++ pa_all (off + utf8_len c) rest
  end.

Definition pa_shift (k : N) (d : pa_diag) : pa_diag := let '(c, s, e) := d in (c, k + s, k + e).

(* ------------------------------------------------------------------ theorems *)
Lemma pa_flag_spec off c d :
  In d (pa_flag off c) <-> is_ascii c = false /\ d = (c, off, off + utf8_len c).
Proof.
  unfold pa_flag.
  replace (off + 1 <? off + utf8_len c) with (1 <? utf8_len c).
  2:{ destruct (N.ltb_spec 1 (utf8_len c)), (N.ltb_spec (off + 1) (off + utf8_len c)); try reflexivity; lia. }
  rewrite utf8_len_gt1, orb_diag.
  destruct (is_ascii c); cbn [negb In]; split.
  - intros [].
  - intros [H _]; discriminate.
  - intros [<-|[]]. split; reflexivity.
  - intros [_ ->]. left. reflexivity.
Qed.

Lemma pa_scan_sub off cs d : In d (pa_scan off cs) -> In d (pa_all off cs).
Proof.
  revert off. induction cs as [|c rest IH]; intros off; [intros []|].
  cbn [pa_scan pa_all]. destruct rest as [|c2 rest2]; [intros []|].
  rewrite !in_app_iff. intros [H|H]; [left; assumption | right; apply IH; assumption].
Qed.

(* each reported range is exactly one non-ASCII character of the text *)
Lemma pa_all_char off cs c s e :
  In (c, s, e) (pa_all off cs) ->
  exists pre post, cs = pre ++ c :: post /\ s = off + bytes pre /\ e = s + utf8_len c /\ is_ascii c = false.
Proof.
  revert off. induction cs as [|x rest IH]; intros off; [intros []|].
  cbn [pa_all]. rewrite in_app_iff. intros [H|H].
  - apply pa_flag_spec in H as [Hx E]. injection E as -> -> ->.
    exists [], rest. cbn [app bytes]. repeat split; [lia | assumption].
  - apply IH in H as (pre & post & -> & -> & -> & Hc).
    exists (x :: pre), post. cbn [app bytes]. repeat split; [lia | assumption].
Qed.

Theorem prefer_ascii_char cs c s e :
  In (c, s, e) (prefer_ascii cs) ->
  exists pre post, cs = pre ++ c :: post /\ s = bytes pre /\ e = s + utf8_len c /\ is_ascii c = false.
Proof.
  intros H. apply pa_scan_sub, pa_all_char in H as (pre & post & E & Hs & He & Hc).
  exists pre, post. repeat split; [assumption | lia | assumption | assumption].
Qed.

(* C03: inside the text, start < end *)
Theorem prefer_ascii_ranges_in_text cs c s e :
  In (c, s, e) (prefer_ascii cs) -> s < e /\ e <= bytes cs.
Proof.
  intros H. apply prefer_ascii_char in H as (pre & post & -> & -> & -> & _).
  pose proof (utf8_len_pos c). rewrite bytes_app. cbn [bytes]. lia.
Qed.

(* C03: on char boundaries *)
Theorem prefer_ascii_ranges_on_boundaries cs c s e :
  In (c, s, e) (prefer_ascii cs) -> boundary cs s /\ boundary cs e.
Proof.
  intros H. apply prefer_ascii_char in H as (pre & post & -> & -> & -> & _). split.
  - apply boundary_prefix.
  - apply boundary_after_char.
Qed.

(* C09: translating the base offset translates every range *)
Lemma pa_flag_shift k off c : pa_flag (k + off) c = map (pa_shift k) (pa_flag off c).
Proof.
  unfold pa_flag.
  replace (k + off + 1 <? k + off + utf8_len c) with (off + 1 <? off + utf8_len c).
  2:{ destruct (N.ltb_spec (off + 1) (off + utf8_len c)), (N.ltb_spec (k + off + 1) (k + off + utf8_len c)); try reflexivity; lia. }
  destruct ((off + 1 <? off + utf8_len c) || negb (is_ascii c)); [|reflexivity].
  cbn [map pa_shift]. rewrite N.add_assoc. reflexivity.
Qed.

Lemma pa_scan_shift k off cs : pa_scan (k + off) cs = map (pa_shift k) (pa_scan off cs).
Proof.
  revert off. induction cs as [|c rest IH]; intros off; [reflexivity|].
  cbn [pa_scan]. destruct rest as [|c2 rest2]; [reflexivity|].
  rewrite map_app, <- pa_flag_shift. f_equal.
  replace (k + off + utf8_len c) with (k + (off + utf8_len c)) by lia. apply IH.
Qed.

(* C09: a prefix p in front of a NON-EMPTY text t: every non-ASCII character of p is reported, and the
   diagnostics of t are those of t alone, translated by the byte length of p *)
Lemma pa_scan_cons off c r :
  r <> [] -> pa_scan off (c :: r) = pa_flag off c ++ pa_scan (off + utf8_len c) r.
Proof. destruct r as [|x y]; [contradiction | reflexivity]. Qed.

Lemma pa_scan_app off p t :
  t <> [] -> pa_scan off (p ++ t) = pa_all off p ++ pa_scan (off + bytes p) t.
Proof.
  intros Ht. revert off. induction p as [|c rest IH]; intros off.
  - cbn [app pa_all bytes]. rewrite N.add_0_r. reflexivity.
  - change ((c :: rest) ++ t) with (c :: (rest ++ t)).
    rewrite pa_scan_cons.
    + cbn [pa_all bytes]. rewrite IH, <- app_assoc, N.add_assoc. reflexivity.
    + intros E. apply app_eq_nil in E as [_ E]. contradiction.
Qed.

Theorem prefer_ascii_prefix p t :
  t <> [] -> prefer_ascii (p ++ t) = pa_all 0 p ++ map (pa_shift (bytes p)) (prefer_ascii t).
Proof.
  intros Ht. unfold prefer_ascii. rewrite (pa_scan_app 0 p t Ht). f_equal.
  rewrite <- pa_scan_shift, N.add_0_r, N.add_0_l. reflexivity.
Qed.

(* the diagnostics contributed by the prefix lie inside the prefix *)
Lemma pa_all_inside p c s e : In (c, s, e) (pa_all 0 p) -> e <= bytes p.
Proof.
  intros H. apply pa_all_char in H as (pre & post & -> & -> & -> & _).
  rewrite bytes_app. cbn [bytes]. lia.
Qed.

Lemma pa_all_ascii off p : forallb is_ascii p = true -> pa_all off p = [].
Proof.
  revert off. induction p as [|c rest IH]; intros off; [reflexivity|].
  cbn [forallb pa_all]. intros H. apply andb_true_iff in H as [Hc Hr].
  rewrite (IH _ Hr), app_nil_r.
  destruct (pa_flag off c) as [|d l] eqn:E; [reflexivity|].
  assert (Hin : In d (pa_flag off c)) by (rewrite E; left; reflexivity).
  apply pa_flag_spec in Hin as [Hf _]. congruence.
Qed.

(* C09, ASCII prefix (blank lines, spaces, ASCII comments): pure translation by the prefix length *)
Theorem prefer_ascii_prefix_ascii p t :
  forallb is_ascii p = true -> t <> [] ->
  prefer_ascii (p ++ t) = map (pa_shift (len p)) (prefer_ascii t).
Proof.
  intros Hp Ht. rewrite (prefer_ascii_prefix p t Ht), (pa_all_ascii 0 p Hp), (bytes_ascii p Hp). reflexivity.
Qed.

(* the peek: the last character is never reported, so `t <> []` cannot be dropped from the prefix law
   if one wants "all of p's characters", and a non-ASCII file can be clean *)
Theorem prefer_ascii_misses_last :
  exists cs c, In c cs /\ is_ascii c = false /\ prefer_ascii cs = [].
Proof. exists [960], 960. repeat split. left. reflexivity. Qed.

Theorem prefer_ascii_last_not_reported cs x c s e :
  In (c, s, e) (prefer_ascii (cs ++ [x])) -> e <= bytes cs.
Proof.
  unfold prefer_ascii. destruct cs as [|c0 rest].
  - intros [].
  - rewrite (pa_scan_app 0 (c0 :: rest) [x]) by discriminate. cbn [pa_scan]. rewrite app_nil_r.
    apply pa_all_inside.
Qed.
