(* C08 -- rules that decide by WALKING UP the tree until they meet a function boundary.

   Several rules (`no-await-in-loop`, `no-top-level-await`, `no-this-before-super`, `no-setter-return`, ...) answer
   "what is the nearest enclosing function-like construct of this occurrence" with a loop over `node.parent()` and a
   `match` on the kinds they regard as function boundaries.  If the enumeration misses a kind, the walk leaves the
   construct the occurrence sits in and the verdict is decided by the code AROUND it: wrapping the same text in a
   method instead of a function expression hides / creates the diagnostic (seven defects of this kind were repaired in
   /repo: cec743a, bdd2d16, 04571d2, d178f68, b57256e and the earlier no-setter-return / no-unsafe-finally ones).

   Model: a path is the list of the kinds of the ancestors of an occurrence, innermost first.  `chain c` is the part of
   such a path contributed by the function-like construct c: the kinds met from a statement (expression) of its body up
   to and including the outermost node of the construct, exactly as the view (dprint-swc-ext's generated.rs,
   re-exported as deno_ast::view) links parents.  `walk boundary path` is the first kind of the path the rule regards
   as a boundary.

   Part 1: if the boundary set of a rule meets the chain of every construct of a required set R, the walk started
   anywhere inside a construct of R stops inside it -- whatever encloses the construct (walk_never_escapes,
   walk_stops_inside); a boundary set that misses the whole chain of some construct is decided by the enclosing code
   (walk_escapes, missed_construct_escapes).
   Part 2: obligations on the table coq/Gen/AncestorWalks.v, regenerated from the sources on every check
   (translate/gen_ancestor_walks.py), closed by computation: every ancestor walk of the sources is classified and
   unchanged since it was read; every function-boundary walk meets the chain of every construct its category requires;
   the chains and the list of function-like kinds agree with the view's struct definitions. *)
From Coq Require Import String.
From V Require Import Common.Str Gen.AncestorWalks.
Open Scope N_scope.
Local Open Scope string_scope.

Definition kind := str.
Definition K (s : string) : kind := s2l s.

(* ------------------------------------------------------------------------------------------------------------------ *)
(* constructs and their chains *)

Inductive construct : Type :=
  | CFnDecl            (* function f() { HERE } *)
  | CFnExpr            (* (function () { HERE }) *)
  | CArrowBlock        (* () => { HERE } *)
  | CArrowExpr         (* () => HERE *)
  | CClassMethod       (* class A { m() { HERE } } *)
  | CClassStaticMethod (* class A { static m() { HERE } } *)
  | CClassGetter       (* class A { get x() { HERE } }      -- a ClassMethod of kind getter *)
  | CClassSetter       (* class A { set x(v) { HERE } }     -- a ClassMethod of kind setter *)
  | CPrivateMethod     (* class A { #m() { HERE } } *)
  | CObjectMethod      (* ({ m() { HERE } }) *)
  | CObjectGetter      (* ({ get x() { HERE } }) *)
  | CObjectSetter      (* ({ set x(v) { HERE } }) *)
  | CConstructor       (* class A { constructor() { HERE } } *)
  | CStaticBlock       (* class A { static { HERE } } *)
  | CClassField        (* class A { x = HERE } *)
  | CPrivateField      (* class A { #x = HERE } *)
  | CAutoAccessor.     (* class A { accessor x = HERE } *)

Definition all_constructs : list construct :=
  [CFnDecl; CFnExpr; CArrowBlock; CArrowExpr; CClassMethod; CClassStaticMethod; CClassGetter; CClassSetter; CPrivateMethod;
   CObjectMethod; CObjectGetter; CObjectSetter; CConstructor; CStaticBlock; CClassField; CPrivateField; CAutoAccessor].

Lemma all_constructs_complete : forall c, In c all_constructs.
Proof. intros c. destruct c; cbn [all_constructs In]; tauto. Qed.

Definition construct_eqb (a b : construct) : bool :=
  match a, b with
  | CFnDecl, CFnDecl | CFnExpr, CFnExpr | CArrowBlock, CArrowBlock | CArrowExpr, CArrowExpr | CClassMethod, CClassMethod
  | CClassStaticMethod, CClassStaticMethod | CClassGetter, CClassGetter | CClassSetter, CClassSetter
  | CPrivateMethod, CPrivateMethod | CObjectMethod, CObjectMethod | CObjectGetter, CObjectGetter | CObjectSetter, CObjectSetter
  | CConstructor, CConstructor | CStaticBlock, CStaticBlock | CClassField, CClassField | CPrivateField, CPrivateField
  | CAutoAccessor, CAutoAccessor => true
  | _, _ => false
  end.

Lemma construct_eqb_eq a b : construct_eqb a b = true <-> a = b.
Proof. destruct a, b; cbn [construct_eqb]; split; intros H; try reflexivity; try discriminate. Qed.

Definition cmem (c : construct) (l : list construct) : bool := existsb (construct_eqb c) l.

Lemma cmem_In c l : cmem c l = true <-> In c l.
Proof.
  unfold cmem. rewrite existsb_exists. split.
  - intros [x [Hx He]]. apply construct_eqb_eq in He. subst. exact Hx.
  - intros H. exists c. split; [exact H | apply construct_eqb_eq; reflexivity].
Qed.

(* the names the translator uses *)
Definition construct_name (c : construct) : str :=
  K match c with
    | CFnDecl => "fn-decl" | CFnExpr => "fn-expr" | CArrowBlock => "arrow-block" | CArrowExpr => "arrow-expr"
    | CClassMethod => "class-method" | CClassStaticMethod => "class-static-method" | CClassGetter => "class-getter"
    | CClassSetter => "class-setter" | CPrivateMethod => "private-method" | CObjectMethod => "object-method"
    | CObjectGetter => "object-getter" | CObjectSetter => "object-setter" | CConstructor => "constructor"
    | CStaticBlock => "static-block" | CClassField => "class-field" | CPrivateField => "private-field"
    | CAutoAccessor => "auto-accessor"
    end.

Definition construct_of_name (n : str) : option construct :=
  find (fun c => str_eqb (construct_name c) n) all_constructs.

(* the kinds met walking up from a statement / expression of the body to the outermost node of the construct, innermost
   first.  (view: Function { body: Option<&BlockStmt> }, FnDecl/FnExpr/ClassMethod/PrivateMethod/MethodProp { function: &Function },
   ArrowExpr { body: BlockStmtOrExpr }, GetterProp/SetterProp/Constructor { body: Option<&BlockStmt> } -- NO Function
   in between --, StaticBlock { body: &BlockStmt }, ClassProp/PrivateProp/AutoAccessor { value: Option<Expr> }.)
   A walk started in a parameter default meets the same kinds without the BlockStmt. *)
Definition chain (c : construct) : list kind :=
  map K match c with
        | CFnDecl => ["BlockStmt"; "Function"; "FnDecl"]
        | CFnExpr => ["BlockStmt"; "Function"; "FnExpr"]
        | CArrowBlock => ["BlockStmt"; "ArrowExpr"]
        | CArrowExpr => ["ArrowExpr"]
        | CClassMethod | CClassStaticMethod | CClassGetter | CClassSetter => ["BlockStmt"; "Function"; "ClassMethod"]
        | CPrivateMethod => ["BlockStmt"; "Function"; "PrivateMethod"]
        | CObjectMethod => ["BlockStmt"; "Function"; "MethodProp"]
        | CObjectGetter => ["BlockStmt"; "GetterProp"]
        | CObjectSetter => ["BlockStmt"; "SetterProp"]
        | CConstructor => ["BlockStmt"; "Constructor"]
        | CStaticBlock => ["BlockStmt"; "StaticBlock"]
        | CClassField => ["ClassProp"]
        | CPrivateField => ["PrivateProp"]
        | CAutoAccessor => ["AutoAccessor"]
        end.

(* what the innermost node of the chain holds: the type of the occurrence's own outermost ancestor below the chain *)
Definition entry (c : construct) : kind :=
  K match c with
    | CArrowExpr | CClassField | CPrivateField | CAutoAccessor => "Expr"
    | _ => "Stmt"
    end.

(* the kinds of the view that are function-like or bind `this`; only these count as boundaries of a function-boundary
   walk (a walk that mentions BlockStmt or a loop kind for another reason does not thereby stop at every function) *)
Definition function_like_kinds : list kind :=
  map K ["FnDecl"; "FnExpr"; "Function"; "ArrowExpr"; "ClassMethod"; "PrivateMethod"; "MethodProp"; "GetterProp"; "SetterProp";
         "Constructor"; "StaticBlock"; "ClassProp"; "PrivateProp"; "AutoAccessor"].

(* ------------------------------------------------------------------------------------------------------------------ *)
(* Part 1: the walk *)

Fixpoint walk (boundary : kind -> bool) (path : list kind) : option kind :=
  match path with
  | [] => None
  | k :: rest => if boundary k then Some k else walk boundary rest
  end.

(* the number of parent steps after which the walk stops *)
Fixpoint stop_index (boundary : kind -> bool) (path : list kind) : option nat :=
  match path with
  | [] => None
  | k :: rest => if boundary k then Some O else option_map S (stop_index boundary rest)
  end.

Definition hits (boundary : kind -> bool) (c : construct) : bool := existsb boundary (chain c).
Definition covers (boundary : kind -> bool) (R : list construct) : bool := forallb (hits boundary) R.

Lemma walk_app b p q : walk b (p ++ q) = match walk b p with Some k => Some k | None => walk b q end.
Proof.
  induction p as [|k p IH]; cbn [walk app]; [reflexivity|]. destruct (b k); [reflexivity | exact IH].
Qed.

Lemma walk_none b p : walk b p = None <-> existsb b p = false.
Proof.
  induction p as [|k p IH]; cbn [walk existsb]; [tauto|]. destruct (b k); cbn [orb]; [split; discriminate | exact IH].
Qed.

Lemma walk_some b p k : walk b p = Some k -> In k p /\ b k = true.
Proof.
  induction p as [|x p IH]; cbn [walk]; [discriminate|]. destruct (b x) eqn:E.
  - intros H. injection H as H. subst. split; [left; reflexivity | exact E].
  - intros H. destruct (IH H) as [Hin Hb]. split; [right; exact Hin | exact Hb].
Qed.

Lemma walk_hit b p : existsb b p = true -> exists k, walk b p = Some k.
Proof.
  intros H. destruct (walk b p) as [k|] eqn:E; [exists k; reflexivity|]. apply walk_none in E. congruence.
Qed.

Lemma stop_index_app_l b p q n : stop_index b p = Some n -> stop_index b (p ++ q) = Some n.
Proof.
  revert n. induction p as [|k p IH]; intros n; cbn [stop_index app]; [discriminate|]. destruct (b k); [tauto|].
  destruct (stop_index b p) as [m|] eqn:E; cbn [option_map]; [|discriminate]. intros H. rewrite (IH m eq_refl). exact H.
Qed.

Lemma stop_index_lt b p n : stop_index b p = Some n -> (n < length p)%nat /\ exists k, nth_error p n = Some k /\ b k = true /\ walk b p = Some k.
Proof.
  revert n. induction p as [|x p IH]; intros n; cbn [stop_index walk]; [discriminate|]. destruct (b x) eqn:E.
  - intros H. injection H as H. subst n. cbn [length nth_error]. split; [lia|]. exists x. auto.
  - destruct (stop_index b p) as [m|] eqn:Es; cbn [option_map]; [|discriminate]. intros H. injection H as H. subst n.
    destruct (IH m eq_refl) as [Hlt [k [Hn [Hb Hw]]]]. cbn [length nth_error]. split; [lia|]. exists k. auto.
Qed.

Lemma stop_index_some b p : existsb b p = true -> exists n, stop_index b p = Some n.
Proof.
  induction p as [|x p IH]; cbn [existsb stop_index]; [discriminate|]. destruct (b x); cbn [orb].
  - intros _. exists O. reflexivity.
  - intros H. destruct (IH H) as [n Hn]. rewrite Hn. exists (S n). reflexivity.
Qed.

Lemma covers_hits b R c : covers b R = true -> In c R -> hits b c = true.
Proof. unfold covers. rewrite forallb_forall. intros H Hin. exact (H c Hin). Qed.

(* THE theorem, general form: wherever the occurrence sits inside a construct of R (`inner` is arbitrary: containers,
   loops, even nested functions), the walk stops after fewer steps than it takes to leave the construct, and its
   result is the same whatever encloses the construct *)
Theorem walk_never_escapes : forall b R, covers b R = true -> forall c, In c R -> forall inner outer,
  exists n k, stop_index b (inner ++ chain c ++ outer) = Some n /\ (n < length inner + length (chain c))%nat /\
              walk b (inner ++ chain c ++ outer) = Some k /\
              walk b (inner ++ chain c ++ outer) = walk b (inner ++ chain c).
Proof.
  intros b R Hcov c Hin inner outer. pose proof (covers_hits b R c Hcov Hin) as Hh. unfold hits in Hh.
  assert (He : existsb b (inner ++ chain c) = true) by (rewrite existsb_app, Hh; apply orb_true_r).
  destruct (stop_index_some b _ He) as [n Hn]. destruct (stop_index_lt b _ n Hn) as [Hlt [k [_ [_ Hw]]]].
  exists n, k. rewrite app_assoc. rewrite (stop_index_app_l b _ outer n Hn). rewrite app_length in Hlt.
  split; [reflexivity|]. split; [exact Hlt|]. rewrite walk_app, Hw. split; reflexivity.
Qed.

(* ... and when nothing between the occurrence and the construct's own nodes is a boundary (plain containers: blocks,
   loops, expressions), the walk stops AT the first boundary kind of the construct's chain *)
Theorem walk_stops_inside : forall b R, covers b R = true -> forall c, In c R -> forall inner outer,
  existsb b inner = false ->
  exists k, In k (chain c) /\ b k = true /\
            walk b (chain c) = Some k /\
            walk b (inner ++ chain c ++ outer) = Some k.
Proof.
  intros b R Hcov c Hin inner outer Hinner. pose proof (covers_hits b R c Hcov Hin) as Hh. unfold hits in Hh.
  destruct (walk_hit b _ Hh) as [k Hk]. destruct (walk_some b _ k Hk) as [Hkin Hkb].
  exists k. split; [exact Hkin|]. split; [exact Hkb|]. split; [exact Hk|].
  rewrite walk_app. apply walk_none in Hinner. rewrite Hinner. rewrite walk_app, Hk. reflexivity.
Qed.

(* converse: a boundary set that misses the whole chain of a construct lets the enclosing code decide *)
Theorem walk_escapes : forall b c, hits b c = false -> forall inner outer, existsb b inner = false ->
  walk b (inner ++ chain c ++ outer) = walk b outer.
Proof.
  intros b c Hh inner outer Hinner. unfold hits in Hh. rewrite walk_app. apply walk_none in Hinner. rewrite Hinner.
  rewrite walk_app. apply walk_none in Hh. rewrite Hh. reflexivity.
Qed.

Lemma covers_false b R : covers b R = false -> exists c, In c R /\ hits b c = false.
Proof.
  unfold covers. induction R as [|c R IH]; cbn [forallb]; [discriminate|]. destruct (hits b c) eqn:E; cbn [andb].
  - intros H. destruct (IH H) as [c' [Hin Hc']]. exists c'. split; [right; exact Hin | exact Hc'].
  - intros _. exists c. split; [left; reflexivity | exact E].
Qed.

(* the witness: the same occurrence in the same construct gets two different answers in two enclosing programs *)
Theorem missed_construct_escapes : forall b R, covers b R = false ->
  exists c, In c R /\
    (forall inner outer, existsb b inner = false -> walk b (inner ++ chain c ++ outer) = walk b outer) /\
    walk b (chain c ++ []) = None /\
    (forall k, b k = true -> walk b (chain c ++ [k]) = Some k /\ ~ In k (chain c)).
Proof.
  intros b R H. destruct (covers_false b R H) as [c [Hin Hc]]. exists c. split; [exact Hin|].
  split; [exact (walk_escapes b c Hc)|]. split.
  - exact (walk_escapes b c Hc [] [] eq_refl).
  - intros k Hk. split.
    + pose proof (walk_escapes b c Hc [] [k] eq_refl) as E. cbn [app] in E. rewrite E. cbn [walk]. rewrite Hk. reflexivity.
    + intros Hkin. unfold hits in Hc. assert (existsb b (chain c) = true) as Ht by (apply existsb_exists; exists k; auto). congruence.
Qed.

(* ------------------------------------------------------------------------------------------------------------------ *)
(* Part 2: the generated table *)

(* what each category of rule has to stop at.  Independent copy of CATEGORIES of the translator: the obligation
   required_is_category_minus_known_gaps below makes the two agree, so that a construct cannot be dropped from
   `required` on one side only *)
Definition methods : list construct := [CClassMethod; CClassStaticMethod; CClassGetter; CClassSetter; CPrivateMethod; CObjectMethod].

Definition category_constructs (cat : str) : option (list construct) :=
  if str_eqb cat (K "async") then          (* every construct that can be `async` *)
    Some [CFnDecl; CFnExpr; CArrowBlock; CArrowExpr; CClassMethod; CClassStaticMethod; CPrivateMethod; CObjectMethod]
  else if str_eqb cat (K "function-root") then   (* every construct whose body is the body of a function of its own *)
    Some ([CFnDecl; CFnExpr; CArrowBlock; CArrowExpr] ++ methods ++ [CObjectGetter; CObjectSetter; CConstructor; CStaticBlock])%list
  else if str_eqb cat (K "this") then      (* every construct that binds its own `this` (arrows do not) *)
    Some ([CFnDecl; CFnExpr] ++ methods ++ [CObjectGetter; CObjectSetter; CConstructor; CStaticBlock; CClassField; CPrivateField; CAutoAccessor])%list
  else if str_eqb cat (K "return") then    (* every construct that can contain a `return` statement of its own *)
    Some ([CFnDecl; CFnExpr; CArrowBlock] ++ methods ++ [CObjectGetter; CObjectSetter; CConstructor])%list
  else None.

(* (rule, construct) pairs a walk of today's tree is KNOWN to miss -- findings confirmed on the linter, reported, not
   repaired yet.  When one is repaired the translator prints a "stale gap" note; remove the pair here and there.
   AW-1  no-this-before-super: the initializer of an auto-accessor field binds `this`, AutoAccessor is not a boundary:
         class B {}; class A extends B { constructor() { class C { accessor x = this.y }; super(); } }   reports `this`
         (the same program with a plain field `x = this.y` is silent).
   AW-2  no-await-in-sync-fn: Constructor / GetterProp / SetterProp / StaticBlock are not boundaries (its mirror image
         no-sync-fn-in-async-fn lists them since 04571d2):
         async function f() { class A { constructor() { await x; } } }     silent, the walk escapes to the async `f`
         async function f() { ({ get a() { await x; return 1 } }) }        silent *)
(* both findings were repaired in /repo (the walks now list AutoAccessor, resp. the four kinds): no gap is left *)
Definition known_gaps : list (str * construct) := [].

Definition gap_mem (r : str) (c : construct) : bool :=
  existsb (fun g => str_eqb (fst g) r && construct_eqb (snd g) c) known_gaps.

Definition is_function_boundary (w : awalk) : bool :=
  match aw_purpose w with FunctionBoundary _ _ => true | _ => false end.
Definition is_unclassified (w : awalk) : bool :=
  match aw_purpose w with Unclassified => true | _ => false end.
Definition required_names (w : awalk) : list str :=
  match aw_purpose w with FunctionBoundary _ r => r | _ => [] end.
Definition category_of (w : awalk) : str :=
  match aw_purpose w with FunctionBoundary cat _ => cat | _ => [] end.

Definition required (w : awalk) : list construct :=
  flat_map (fun n => match construct_of_name n with Some c => [c] | None => [] end) (required_names w).
Definition names_resolve (w : awalk) : bool :=
  forallb (fun n => match construct_of_name n with Some _ => true | None => false end) (required_names w).

(* the boundary set of a walk: the function-like kinds its CURRENT text mentions *)
Definition boundary_of_walk (w : awalk) (k : kind) : bool := mem k (aw_kinds w) && mem k function_like_kinds.

Definition function_boundary_walks : list awalk := filter is_function_boundary ancestor_walks.

(* ---- 1. every ancestor walk of the sources was read: classified, and its text is the one that was read.  A new walk
   or an edit of an existing one makes this false (the translator says which). *)
Theorem all_walks_classified_and_pinned :
  forallb (fun w => aw_pinned w && negb (is_unclassified w)) ancestor_walks = true /\ vanished_walks = [].
Proof. split; vm_compute; reflexivity. Qed.

(* ---- 2. THE obligation: every function-boundary walk meets the chain of every construct it is required to stop at *)
Theorem function_boundary_walks_cover :
  forallb (fun w => names_resolve w && forallb (fun c => existsb (boundary_of_walk w) (chain c)) (required w))
          function_boundary_walks = true.
Proof. vm_compute. reflexivity. Qed.

(* ---- 3. `required` is the whole category of the rule, except for the known gaps listed above *)
Theorem required_is_category_minus_known_gaps :
  forallb (fun w => match category_constructs (category_of w) with
                    | Some cs => forallb (fun c => cmem c (required w) || gap_mem (aw_rule w) c) cs
                    | None => false
                    end) function_boundary_walks = true.
Proof. vm_compute. reflexivity. Qed.

(* ---- 4. which rules these are (guards against a scanner that silently finds nothing) *)
Definition function_boundary_rules : list str := map aw_rule function_boundary_walks.
Definition expected_function_boundary_rules : list str :=
  map K ["no-await-in-loop"; "no-await-in-sync-fn"; "no-setter-return"; "no-sync-fn-in-async-fn"; "no-this-before-super";
         "no-top-level-await"; "no-unsafe-finally"].
Theorem function_boundary_rules_are : function_boundary_rules = expected_function_boundary_rules.
Proof. vm_compute. reflexivity. Qed.

(* ---- 5. the chains are the parent structure of the view: every step of a chain is a (child field type, owner)
   pair of the struct definitions, and the innermost node owns statements / an expression *)
Definition edge_mem (a b : kind) : bool := existsb (fun e => str_eqb (fst e) a && str_eqb (snd e) b) view_edges.
Fixpoint linked (child : kind) (l : list kind) : bool :=
  match l with
  | [] => true
  | k :: rest => edge_mem child k && linked k rest
  end.
Theorem chains_follow_view : view_found = true /\ forallb (fun c => linked (entry c) (chain c)) all_constructs = true.
Proof. split; vm_compute; reflexivity. Qed.

(* ... and the list of function-like kinds misses nothing the view has: every struct that owns a Function, every
   struct that owns a BlockStmt (other than try / catch), every member of a class body and of an object literal is a
   function-like kind, the outermost kind of a chain, or visibly holds no code of its own *)
Definition block_owners_that_are_statements : list kind := map K ["TryStmt"; "CatchClause"].
Definition class_members_without_code : list kind := map K ["EmptyStmt"; "TsIndexSignature"].
Definition object_props_without_body : list kind := map K ["Ident"; "KeyValueProp"; "AssignProp"].
Definition kFunction : kind := K "Function".
Definition chain_tops : list kind := flat_map (fun c => match rev (chain c) with k :: _ => [k] | [] => [] end) all_constructs.
Definition accounted (others : list kind) (k : kind) : bool := mem k function_like_kinds || mem k others.
Theorem function_like_kinds_complete :
  forallb (fun k => mem k chain_tops) view_function_owners = true /\
  forallb (accounted block_owners_that_are_statements) view_block_owners = true /\
  forallb (fun k => mem k chain_tops || mem k class_members_without_code) view_class_members = true /\
  forallb (fun k => mem k chain_tops || mem k object_props_without_body) view_object_props = true /\
  forallb (fun k => mem k function_like_kinds) chain_tops = true /\
  forallb (fun k => mem k chain_tops || str_eqb k kFunction) function_like_kinds = true.
Proof. repeat split; vm_compute; reflexivity. Qed.

(* ---- the combination: for every function-boundary walk of the repository, every construct it is required to stop
   at and every path through such a construct *)
Lemma walk_covers_required : forall w, In w ancestor_walks -> is_function_boundary w = true ->
  covers (boundary_of_walk w) (required w) = true.
Proof.
  intros w Hin Hfb. pose proof function_boundary_walks_cover as H. rewrite forallb_forall in H.
  assert (Hw : In w function_boundary_walks) by (unfold function_boundary_walks; apply filter_In; split; assumption).
  specialize (H w Hw). apply andb_true_iff in H. destruct H as [_ H]. exact H.
Qed.

Theorem ancestor_walks_never_escape : forall w c inner outer,
  In w ancestor_walks -> is_function_boundary w = true -> In c (required w) ->
  exists n k, stop_index (boundary_of_walk w) (inner ++ chain c ++ outer) = Some n /\
              (n < length inner + length (chain c))%nat /\
              walk (boundary_of_walk w) (inner ++ chain c ++ outer) = Some k /\
              walk (boundary_of_walk w) (inner ++ chain c ++ outer) = walk (boundary_of_walk w) (inner ++ chain c).
Proof.
  intros w c inner outer Hin Hfb Hc.
  exact (walk_never_escapes (boundary_of_walk w) (required w) (walk_covers_required w Hin Hfb) c Hc inner outer).
Qed.

Theorem ancestor_walks_stop_inside : forall w c inner outer,
  In w ancestor_walks -> is_function_boundary w = true -> In c (required w) ->
  existsb (boundary_of_walk w) inner = false ->
  exists k, In k (chain c) /\ boundary_of_walk w k = true /\
            walk (boundary_of_walk w) (inner ++ chain c ++ outer) = Some k.
Proof.
  intros w c inner outer Hin Hfb Hc Hinner.
  destruct (walk_stops_inside (boundary_of_walk w) (required w) (walk_covers_required w Hin Hfb) c Hc inner outer Hinner)
    as [k [H1 [H2 [_ H4]]]].
  exists k. auto.
Qed.

(* the same, reading `required` through the categories: every construct of the rule's category that is not a known gap *)
Lemma required_of_category : forall w cs c, In w ancestor_walks -> is_function_boundary w = true ->
  category_constructs (category_of w) = Some cs -> In c cs -> gap_mem (aw_rule w) c = false -> In c (required w).
Proof.
  intros w cs c Hin Hfb Hcat Hc Hgap. pose proof required_is_category_minus_known_gaps as H. rewrite forallb_forall in H.
  assert (Hw : In w function_boundary_walks) by (unfold function_boundary_walks; apply filter_In; split; assumption).
  specialize (H w Hw). rewrite Hcat in H. rewrite forallb_forall in H. specialize (H c Hc). rewrite Hgap in H.
  rewrite orb_false_r in H. apply cmem_In. exact H.
Qed.

Theorem ancestor_walks_stop_at_every_function_kind_spec : forall rule w cs c inner,
  In w ancestor_walks -> aw_rule w = rule -> is_function_boundary w = true ->
  category_constructs (category_of w) = Some cs -> In c cs -> gap_mem rule c = false ->
  existsb (boundary_of_walk w) inner = false ->
  exists k, In k (chain c) /\ boundary_of_walk w k = true /\
            forall outer, walk (boundary_of_walk w) (inner ++ chain c ++ outer) = Some k.
Proof.
  intros rule w cs c inner Hin Hr Hfb Hcat Hc Hgap Hinner. subst rule.
  pose proof (required_of_category w cs c Hin Hfb Hcat Hc Hgap) as Hreq.
  destruct (walk_stops_inside (boundary_of_walk w) (required w) (walk_covers_required w Hin Hfb) c Hreq inner [] Hinner)
    as [k [H1 [H2 [H3 _]]]].
  exists k. split; [exact H1|]. split; [exact H2|]. intros outer.
  rewrite walk_app. apply walk_none in Hinner. rewrite Hinner. rewrite walk_app, H3. reflexivity.
Qed.

(* ------------------------------------------------------------------------------------------------------------------ *)
(* non-vacuity and the defects of yesterday *)

Definition walk_of (rule : string) : option awalk := find (fun w => is_function_boundary w && str_eqb (aw_rule w) (K rule)) ancestor_walks.

(* a concrete rule, construct and path: `await x` in a loop in an object-literal method which itself sits in a loop of
   an async function.  AwaitExpr > ExprStmt > BlockStmt > ForStmt | BlockStmt > Function > MethodProp | ObjectLit >
   ... > ForStmt > BlockStmt > Function > FnDecl.  no-top-level-await stops at the MethodProp (the repair of bdd2d16) *)
Definition example_inner : list kind := map K ["ExprStmt"; "BlockStmt"; "ForStmt"].
Definition example_outer : list kind := map K ["ObjectLit"; "ParenExpr"; "ExprStmt"; "BlockStmt"; "ForStmt"; "BlockStmt"; "Function"; "FnDecl"; "Module"].

Definition no_top_level_await_walk : option awalk := walk_of "no-top-level-await".
Definition no_this_before_super_walk : option awalk := walk_of "no-this-before-super".
Definition kMethodProp : kind := K "MethodProp".
Definition kConstructor : kind := K "Constructor".

Example no_top_level_await_stops_at_the_object_method :
  option_map (fun w => (cmem CObjectMethod (required w),
                        walk (boundary_of_walk w) (example_inner ++ chain CObjectMethod ++ example_outer),
                        stop_index (boundary_of_walk w) (example_inner ++ chain CObjectMethod ++ example_outer)))
             no_top_level_await_walk
  = Some (true, Some kMethodProp, Some 5%nat).
Proof. vm_compute. reflexivity. Qed.

(* the same path for no-await-in-loop: stops one step earlier, at the method's Function (the repair of d178f68) *)
Example no_await_in_loop_stops_at_the_method_function :
  option_map (fun w => walk (boundary_of_walk w) (map K ["BlockStmt"] ++ chain CObjectMethod ++ example_outer)) (walk_of "no-await-in-loop")
  = Some (Some (K "Function")).
Proof. vm_compute. reflexivity. Qed.

(* `required` is not small for any function-boundary walk *)
Example every_function_boundary_walk_requires_something :
  forallb (fun w => Nat.leb 8 (length (required w))) function_boundary_walks = true.
Proof. vm_compute. reflexivity. Qed.

(* the boundary set of no-this-before-super BEFORE cec743a: matches!(cur_node, Function(_) | ArrowExpr(_)) *)
Definition no_this_before_super_boundary_before_cec743a (k : kind) : bool := mem k (map K ["Function"; "ArrowExpr"]).
Definition this_category : str := K "this".
(* this.x; in the constructor of `class C` declared in the body of a function expression *)
Definition nested_ctor_inner : list kind := map K ["MemberExpr"; "ExprStmt"].
Definition nested_ctor_outer : list kind := map K ["Class"; "ClassDecl"; "BlockStmt"; "Function"; "FnExpr"].

(* ... fails the obligation for the constructor (and for accessors, static blocks and field initializers): `this` in
   the constructor of a class nested in a function expression inside the checked constructor was attributed to the
   function expression's surroundings *)
Theorem no_this_before_super_refuted_before_fixes :
  hits no_this_before_super_boundary_before_cec743a CConstructor = false /\
  (match category_constructs this_category with
   | Some cs => (covers no_this_before_super_boundary_before_cec743a cs,
                 filter (fun c => negb (hits no_this_before_super_boundary_before_cec743a c)) cs)
   | None => (true, [])
   end) = (false, [CObjectGetter; CObjectSetter; CConstructor; CStaticBlock; CClassField; CPrivateField; CAutoAccessor]) /\
  walk no_this_before_super_boundary_before_cec743a
       (nested_ctor_inner ++ chain CConstructor ++ nested_ctor_outer)
    = Some kFunction /\
  stop_index no_this_before_super_boundary_before_cec743a
       (nested_ctor_inner ++ chain CConstructor ++ nested_ctor_outer)
    = Some 7%nat /\            (* 2 + 2 = 4 steps would still be inside the nested constructor *)
  (forall outer, walk no_this_before_super_boundary_before_cec743a (nested_ctor_inner ++ chain CConstructor ++ outer)
                 = walk no_this_before_super_boundary_before_cec743a outer).
Proof.
  split; [vm_compute; reflexivity|]. split; [vm_compute; reflexivity|]. split; [vm_compute; reflexivity|].
  split; [vm_compute; reflexivity|].
  intros outer. apply (walk_escapes no_this_before_super_boundary_before_cec743a CConstructor); vm_compute; reflexivity.
Qed.

(* today's walk of the same rule passes for the constructor, on the same path *)
Example no_this_before_super_today :
  option_map (fun w => (hits (boundary_of_walk w) CConstructor,
                        walk (boundary_of_walk w) (nested_ctor_inner ++ chain CConstructor ++ nested_ctor_outer)))
             no_this_before_super_walk
  = Some (true, Some kConstructor).
Proof. vm_compute. reflexivity. Qed.

(* the known gaps are real: today's walks do miss those constructs (AW-1, AW-2) *)
Example known_gaps_are_missed :
  map (fun g => existsb (fun w => str_eqb (aw_rule w) (fst g) && hits (boundary_of_walk w) (snd g)) function_boundary_walks) known_gaps
  = [].
Proof. vm_compute. reflexivity. Qed.
