(* C08 -- model of the generic `Traverse` driver of /repo/src/handler.rs (lines 535-734) together
   with the stop flag `TraverseFlow` of /repo/src/context.rs (lines 517-540).

     fn traverse(&mut self, node, ctx) {
       ctx.assert_traverse_init();            // assert!(!flag)          -- PANICS if the flag is set
       self.on_enter_node(node, ctx);
       match node { Kind(n) => self.kind(n, ctx), ... }   // the node handler of the rule
       if !ctx.should_stop_traverse() {       // reads the flag AND resets it
         for child in node.children() { self.traverse(child, ctx); }
       }
       self.on_exit_node(node, ctx);
     }

   `ctx.stop_traverse()` (callable from any of the three handler methods) sets the flag.  The flag
   lives in the `Context`, which is shared by all rules that lint one file.

   A handler is modelled by its own state `St` (fields of the rule struct + the diagnostics it
   pushed) and three callbacks that return the new state and whether they called `stop_traverse`.
   A callback cannot read or reset the flag (only handler.rs calls `should_stop_traverse` /
   `assert_traverse_init`; the translator re-checks that on every run).  A nested
   `other_handler.traverse(child, ctx)` performed inside a node handler (require-await,
   no-this-before-super) is, by `traverse_flag_invariant` below, a state transformer that finds the
   flag clear and leaves it clear, hence is part of that callback's `St -> St` effect. *)
From V Require Import Traverse.Tree Traverse.VisitTraverse.
Open Scope N_scope.

Inductive event : Type := EEnter (t : tree) | ENode (t : tree) | EExit (t : tree).

Section Handler.
  Variable St : Type.

  Record handler : Type := mkHandler {
    on_enter : tree -> St -> St * bool;   (* on_enter_node;  bool = called ctx.stop_traverse() *)
    on_node  : tree -> St -> St * bool;   (* the method selected by the node's kind *)
    on_exit  : tree -> St -> St * bool    (* on_exit_node *)
  }.

  Inductive outcome : Type :=
  | Panic                                        (* assert_traverse_init failed *)
  | Done (st : St) (flag : bool) (log : list event).

  Definition seq_outcome (a : outcome) (k : St -> bool -> outcome) : outcome :=
    match a with
    | Panic => Panic
    | Done st fl log =>
        match k st fl with Panic => Panic | Done st' fl' log' => Done st' fl' (log ++ log') end
    end.

  Fixpoint traverse (h : handler) (t : tree) (st : St) (flag : bool) : outcome :=
    match t with
    | Node k s cs =>
        if flag then Panic else                                  (* assert_traverse_init *)
        let (st1, f1) := on_enter h t st in
        let (st2, f2) := on_node h t st1 in
        let below :=
          if orb f1 f2                                            (* should_stop_traverse: read ... *)
          then Done st2 false []                                  (* ... and reset; children skipped *)
          else (fix go (l : list tree) (st : St) (fl : bool) : outcome :=
                  match l with
                  | [] => Done st fl []
                  | c :: r => seq_outcome (traverse h c st fl) (go r)
                  end) cs st2 false in
        match below with
        | Panic => Panic
        | Done st3 fl3 log =>
            let (st4, f4) := on_exit h t st3 in
            Done st4 (orb fl3 f4) (EEnter t :: ENode t :: log ++ [EExit t])
        end
    end.

  Fixpoint traverse_list (h : handler) (l : list tree) (st : St) (fl : bool) : outcome :=
    match l with
    | [] => Done st fl []
    | c :: r => seq_outcome (traverse h c st fl) (traverse_list h r)
    end.

  (* ------------------------------------------------------------ reference: structured skipping,
     no flag at all *)
  Definition stops_at (h : handler) (t : tree) (st : St) : bool :=
    orb (snd (on_enter h t st)) (snd (on_node h t (fst (on_enter h t st)))).
  Definition after_node (h : handler) (t : tree) (st : St) : St :=
    fst (on_node h t (fst (on_enter h t st))).

  Fixpoint spec (h : handler) (t : tree) (st : St) : St * list event :=
    match t with
    | Node k s cs =>
        let below :=
          if stops_at h t st then (after_node h t st, [])
          else (fix go (l : list tree) (st : St) : St * list event :=
                  match l with
                  | [] => (st, [])
                  | c :: r => let (st', log) := spec h c st in let (st'', log') := go r st' in (st'', log ++ log')
                  end) cs (after_node h t st) in
        (fst (on_exit h t (fst below)), EEnter t :: ENode t :: snd below ++ [EExit t])
    end.

  Fixpoint spec_list (h : handler) (l : list tree) (st : St) : St * list event :=
    match l with
    | [] => (st, [])
    | c :: r => let (st', log) := spec h c st in let (st'', log') := spec_list h r st' in (st'', log ++ log')
    end.

  (* hypotheses on handlers *)
  Definition exit_clean (h : handler) : Prop := forall t st, snd (on_exit h t st) = false.
  Definition never_stops (h : handler) : Prop :=
    forall t st, snd (on_enter h t st) = false /\ snd (on_node h t st) = false /\ snd (on_exit h t st) = false.
  Definition stops_by (h : handler) (p : tree -> bool) : Prop := forall t st, stops_at h t st = p t.

  (* the full event sequence and what a handler does with a sequence of events *)
  Fixpoint events (t : tree) : list event :=
    match t with Node _ _ cs => EEnter t :: ENode t :: flat_map events cs ++ [EExit t] end.

  Definition step (h : handler) (st : St) (e : event) : St :=
    match e with
    | EEnter t => fst (on_enter h t st)
    | ENode t => fst (on_node h t st)
    | EExit t => fst (on_exit h t st)
    end.
  Definition run (h : handler) (log : list event) (st : St) : St := fold_left (step h) log st.

  Definition nodes_of (log : list event) : list tree :=
    flat_map (fun e => match e with ENode t => [t] | _ => [] end) log.

  (* pre-order with the subtrees below stopping nodes pruned *)
  Fixpoint pruned (p : tree -> bool) (t : tree) : list tree :=
    match t with Node _ _ cs => t :: (if p t then [] else flat_map (pruned p) cs) end.
End Handler.

Arguments mkHandler {St}.
Arguments on_enter {St}. Arguments on_node {St}. Arguments on_exit {St}.
Arguments Panic {St}. Arguments Done {St}.
Arguments traverse {St}. Arguments traverse_list {St}. Arguments spec {St}. Arguments spec_list {St}.
Arguments stops_at {St}. Arguments after_node {St}. Arguments exit_clean {St}. Arguments never_stops {St}.
Arguments stops_by {St}. Arguments step {St}. Arguments run {St}. Arguments seq_outcome {St}.

Definition label (t : tree) : N * (N * N) := (kind t, span t).

(* spine predicates for the characterisation of `pruned` *)
Fixpoint spine_clear (p : tree -> bool) (c : ctx) (x : tree) : Prop :=
  match c with
  | Hole _ => True
  | CNode k s l c' r => p (Node k s (l ++ plug_raw c' x :: r)) = false /\ spine_clear p c' x
  end.
Fixpoint spine_stops (p : tree -> bool) (c : ctx) (x : tree) : Prop :=
  match c with
  | Hole _ => False
  | CNode k s l c' r => p (Node k s (l ++ plug_raw c' x :: r)) = true \/ spine_stops p c' x
  end.
(* the decisions taken on the spine do not depend on which of two fillings is in the hole *)
Fixpoint spine_same (p : tree -> bool) (c : ctx) (x y : tree) : Prop :=
  match c with
  | Hole _ => True
  | CNode k s l c' r =>
      p (Node k s (l ++ plug_raw c' x :: r)) = p (Node k s (l ++ plug_raw c' y :: r)) /\ spine_same p c' x y
  end.

(* ---------------------------------------------------------------- proofs *)
Section Proofs.
  Variable St : Type.
  Implicit Types (h : handler St) (st : St).

  Lemma traverse_unfold h k s cs st :
    traverse h (Node k s cs) st false =
    match (if stops_at h (Node k s cs) st then Done (after_node h (Node k s cs) st) false []
           else traverse_list h cs (after_node h (Node k s cs) st) false) with
    | Panic => Panic
    | Done st3 fl3 log =>
        Done (fst (on_exit h (Node k s cs) st3)) (orb fl3 (snd (on_exit h (Node k s cs) st3)))
             (EEnter (Node k s cs) :: ENode (Node k s cs) :: log ++ [EExit (Node k s cs)])
    end.
  Proof.
    unfold stops_at, after_node. cbn [traverse].
    destruct (on_enter h (Node k s cs) st) as [st1 f1]. cbn [fst snd].
    destruct (on_node h (Node k s cs) st1) as [st2 f2]. cbn [fst snd].
    assert (E : forall l st' fl,
      (fix go (l : list tree) (st0 : St) (fl0 : bool) : outcome St :=
         match l with [] => Done st0 fl0 [] | c :: r => seq_outcome (traverse h c st0 fl0) (go r) end) l st' fl
      = traverse_list h l st' fl).
    { induction l as [|c r IH]; intros st' fl; [reflexivity|]. cbn [traverse_list].
      unfold seq_outcome. destruct (traverse h c st' fl) as [|sa fa la]; [reflexivity|]. rewrite IH. reflexivity. }
    rewrite E.
    destruct (if f1 || f2 then Done st2 false [] else traverse_list h cs st2 false) as [|st3 fl3 log]; [reflexivity|].
    destruct (on_exit h (Node k s cs) st3) as [st4 f4]. reflexivity.
  Qed.

  Lemma traverse_flag_set h t st : traverse h t st true = Panic.
  Proof. destruct t; reflexivity. Qed.

  Lemma spec_unfold h k s cs st :
    spec h (Node k s cs) st =
    let below := if stops_at h (Node k s cs) st then (after_node h (Node k s cs) st, [])
                 else spec_list h cs (after_node h (Node k s cs) st) in
    (fst (on_exit h (Node k s cs) (fst below)),
     EEnter (Node k s cs) :: ENode (Node k s cs) :: snd below ++ [EExit (Node k s cs)]).
  Proof.
    cbn [spec].
    assert (E : forall l st',
      (fix go (l : list tree) (st0 : St) : St * list event :=
         match l with [] => (st0, [])
         | c :: r => let (st', log) := spec h c st0 in let (st'', log') := go r st' in (st'', log ++ log') end) l st'
      = spec_list h l st').
    { induction l as [|c r IH]; intros st'; [reflexivity|]. cbn [spec_list].
      destruct (spec h c st') as [sa la]. rewrite IH. reflexivity. }
    rewrite E. reflexivity.
  Qed.

  (* FLAG INVARIANT.  If the flag is clear on entry and the handler never calls stop_traverse from
     on_exit_node (the only place after which the flag is not consumed), then no assertion fires,
     the flag is clear again on exit, and the traversal is the structured one: the children of a
     node are skipped iff on_enter_node or the node handler asked to stop AT THAT NODE. *)
  Theorem traverse_flag_invariant h : exit_clean h ->
    forall t st, traverse h t st false = Done (fst (spec h t st)) false (snd (spec h t st)).
  Proof.
    intros Hx t. induction t as [k s cs IH] using tree_ind'. intros st.
    rewrite traverse_unfold, spec_unfold. cbv zeta.
    destruct (stops_at h (Node k s cs) st).
    - cbn [fst snd]. rewrite Hx. reflexivity.
    - assert (L : forall st', traverse_list h cs st' false = Done (fst (spec_list h cs st')) false (snd (spec_list h cs st'))).
      { clear st. induction cs as [|c r IHr]; intros st'; [reflexivity|]. cbn [traverse_list spec_list].
        rewrite IH by (left; reflexivity). unfold seq_outcome.
        rewrite IHr by (intros x Hx'; apply IH; right; exact Hx').
        destruct (spec h c st') as [sa la]. cbn [fst snd]. destruct (spec_list h r sa) as [sb lb]. reflexivity. }
      rewrite L. rewrite Hx. reflexivity.
  Qed.

  Corollary traverse_no_panic h : exit_clean h -> forall t st, traverse h t st false <> Panic.
  Proof. intros Hx t st. rewrite traverse_flag_invariant by exact Hx. discriminate. Qed.

  Corollary traverse_list_flag_invariant h : exit_clean h ->
    forall l st, traverse_list h l st false = Done (fst (spec_list h l st)) false (snd (spec_list h l st)).
  Proof.
    intros Hx l. induction l as [|c r IH]; intros st; [reflexivity|]. cbn [traverse_list spec_list].
    rewrite traverse_flag_invariant by exact Hx. unfold seq_outcome. rewrite IH.
    destruct (spec h c st) as [sa la]. cbn [fst snd]. destruct (spec_list h r sa) as [sb lb]. reflexivity.
  Qed.

  (* COMPLETENESS.  A handler that never stops is called on every node exactly once, in pre-order
     (on_enter, node handler, then the children, then on_exit). *)
  Lemma spec_never_stops h : never_stops h -> forall t st, spec h t st = (run h (events t) st, events t).
  Proof.
    intros Hn t. induction t as [k s cs IH] using tree_ind'. intros st.
    rewrite spec_unfold. cbv zeta.
    assert (Hs : stops_at h (Node k s cs) st = false).
    { unfold stops_at. destruct (Hn (Node k s cs) st) as [H1 _]. rewrite H1.
      destruct (Hn (Node k s cs) (fst (on_enter h (Node k s cs) st))) as [_ [H2 _]]. rewrite H2. reflexivity. }
    rewrite Hs.
    assert (L : forall st', spec_list h cs st' = (run h (flat_map events cs) st', flat_map events cs)).
    { clear st Hs. induction cs as [|c r IHr]; intros st'; [reflexivity|]. cbn [spec_list flat_map].
      rewrite IH by (left; reflexivity). rewrite IHr by (intros x Hx'; apply IH; right; exact Hx').
      unfold run. rewrite fold_left_app. reflexivity. }
    rewrite L. cbn [fst snd events]. f_equal.
    unfold run, after_node. cbn [fold_left step]. rewrite fold_left_app. reflexivity.
  Qed.

  Theorem handler_complete h : never_stops h ->
    forall t st, traverse h t st false = Done (run h (events t) st) false (events t).
  Proof.
    intros Hn t st. rewrite traverse_flag_invariant by (intros t' st'; apply Hn).
    rewrite spec_never_stops by exact Hn. reflexivity.
  Qed.

  Lemma nodes_of_app a b : nodes_of (a ++ b) = nodes_of a ++ nodes_of b.
  Proof. unfold nodes_of. apply flat_map_app. Qed.

  Lemma nodes_of_events t : nodes_of (events t) = preorder t.
  Proof.
    induction t as [k s cs IH] using tree_ind'. cbn [events preorder].
    change (nodes_of (EEnter (Node k s cs) :: ENode (Node k s cs) :: flat_map events cs ++ [EExit (Node k s cs)]))
      with (Node k s cs :: nodes_of (flat_map events cs ++ [EExit (Node k s cs)])).
    f_equal. rewrite nodes_of_app. cbn [nodes_of flat_map app]. rewrite app_nil_r.
    induction cs as [|c r IHr]; [reflexivity|]. cbn [flat_map]. rewrite nodes_of_app.
    rewrite IH by (left; reflexivity). rewrite IHr by (intros x Hx'; apply IH; right; exact Hx'). reflexivity.
  Qed.

  (* the node handler is called on the nodes of the tree, each exactly once, in pre-order *)
  Corollary handler_sees_preorder h : never_stops h ->
    forall t st, exists st', traverse h t st false = Done st' false (events t) /\ nodes_of (events t) = preorder t.
  Proof. intros Hn t st. eexists. split; [apply handler_complete; exact Hn | apply nodes_of_events]. Qed.

  (* STOP.  Stopping at a node skips exactly the descendants of that node: its own three callbacks
     run, nothing beneath it does, the flag is consumed, and the following siblings are traversed
     as if nothing had happened. *)
  Theorem stop_skips_exactly_children h : exit_clean h ->
    forall t rest st, stops_at h t st = true ->
      traverse h t st false =
        Done (fst (on_exit h t (after_node h t st))) false [EEnter t; ENode t; EExit t] /\
      traverse_list h (t :: rest) st false =
        seq_outcome (Done (fst (on_exit h t (after_node h t st))) false [EEnter t; ENode t; EExit t])
                    (traverse_list h rest).
  Proof.
    intros Hx t rest st Hs.
    assert (E : traverse h t st false = Done (fst (on_exit h t (after_node h t st))) false [EEnter t; ENode t; EExit t]).
    { destruct t as [k s cs]. rewrite traverse_unfold, Hs, Hx. reflexivity. }
    split; [exact E|]. cbn [traverse_list]. rewrite E. reflexivity.
  Qed.

  (* ... and a node at which the handler does not stop has all its children traversed *)
  Theorem no_stop_visits_children h : exit_clean h ->
    forall k s cs st, stops_at h (Node k s cs) st = false ->
      snd (spec h (Node k s cs) st) =
        EEnter (Node k s cs) :: ENode (Node k s cs) ::
        snd (spec_list h cs (after_node h (Node k s cs) st)) ++ [EExit (Node k s cs)].
  Proof. intros _ k s cs st Hs. rewrite spec_unfold, Hs. reflexivity. Qed.

  (* When the decision to stop is a function of the node alone, the nodes seen are the pruned
     pre-order ... *)
  Theorem stop_visits_pruned h p : exit_clean h -> stops_by h p ->
    forall t st, exists st', traverse h t st false = Done st' false (snd (spec h t st)) /\
                             nodes_of (snd (spec h t st)) = pruned p t.
  Proof.
    intros Hx Hp t st. eexists. split; [apply traverse_flag_invariant; exact Hx|].
    revert st. induction t as [k s cs IH] using tree_ind'. intros st.
    rewrite spec_unfold. cbv zeta. cbn [snd pruned]. rewrite (Hp (Node k s cs) st).
    change (nodes_of (EEnter (Node k s cs) :: ENode (Node k s cs) :: ?l)) with (Node k s cs :: nodes_of l).
    f_equal. rewrite nodes_of_app. cbn [nodes_of flat_map app]. rewrite app_nil_r.
    destruct (p (Node k s cs)); [reflexivity|].
    generalize (after_node h (Node k s cs) st). clear st.
    induction cs as [|c r IHr]; intros st'; [reflexivity|]. cbn [spec_list flat_map].
    specialize (IH c (or_introl eq_refl)) as IHc. specialize (IHc st').
    destruct (spec h c st') as [sa la]. cbn [snd] in IHc.
    specialize (IHr (fun x Hx' => IH x (or_intror Hx')) sa).
    destruct (spec_list h r sa) as [sb lb]. cbn [snd] in IHr |- *.
    rewrite nodes_of_app, IHc, IHr. reflexivity.
  Qed.
End Proofs.

(* ... and the pruned pre-order is characterised position by position through one-hole contexts:
   the content of a hole is seen (completely, up to its own stops) iff no node on the spine above
   it stops, *)
Theorem pruned_hole_visited p c x : spine_clear p c x ->
  exists pre post, pruned p (plug_raw c x) = pre ++ pruned p x ++ post.
Proof.
  induction c as [off|k s l c IH r]; intros H.
  - exists [], []. cbn [plug_raw app]. rewrite app_nil_r. reflexivity.
  - cbn [spine_clear] in H. destruct H as [Hk Hc]. destruct (IH Hc) as [pre [post E]].
    cbn [plug_raw pruned]. rewrite Hk. rewrite flat_map_app. cbn [flat_map]. rewrite E.
    exists (Node k s (l ++ plug_raw c x :: r) :: flat_map (pruned p) l ++ pre), (post ++ flat_map (pruned p) r).
    cbn [app]. f_equal. rewrite <- !app_assoc. reflexivity.
Qed.

(* and it contributes nothing at all as soon as one node of the spine stops: the sequence of visited
   positions is the same whatever is in the hole *)
Theorem pruned_hole_skipped p c x y : spine_stops p c x -> spine_same p c x y ->
  map label (pruned p (plug_raw c x)) = map label (pruned p (plug_raw c y)).
Proof.
  induction c as [off|k s l c IH r]; intros Hs Hsame; [destruct Hs|].
  cbn [spine_same] in Hsame. destruct Hsame as [Hk Hsame]. cbn [plug_raw pruned]. rewrite <- Hk.
  cbn [map]. f_equal.
  destruct (p (Node k s (l ++ plug_raw c x :: r))) eqn:E; [reflexivity|].
  cbn [spine_stops] in Hs. destruct Hs as [Hs|Hs]; [congruence|].
  rewrite !flat_map_app. cbn [flat_map]. rewrite !map_app. rewrite (IH Hs Hsame). reflexivity.
Qed.

(* ---------------------------------------------------------------- why on_exit must not stop *)
Definition exit_stopper : handler unit :=
  mkHandler (fun _ st => (st, false)) (fun _ st => (st, false)) (fun t st => (st, N.eqb (kind t) 1)).

(* the flag set in on_exit_node of a first child is still set when the second child is entered *)
Theorem exit_stop_panics : traverse exit_stopper (Node 0 (0, 9) [Node 1 (0, 1) []; Node 2 (2, 3) []]) tt false = Panic.
Proof. vm_compute. reflexivity. Qed.

(* ... and if there is no later node it is still set when the traversal returns, i.e. when the next
   rule starts traversing with the same Context *)
Theorem exit_stop_leaks : exists log, traverse exit_stopper (Node 0 (0, 9) [Node 1 (0, 1) []]) tt false = Done tt true log.
Proof. eexists. vm_compute. reflexivity. Qed.

(* ---------------------------------------------------------------- Handler-based rules report like a complete visitor *)

(* A context-free rule written against `Handler`: each node handler pushes the diagnostics it
   derives from its own node; it never stops the traversal. *)
Definition report_handler (f : tree -> list report) : handler (list report) :=
  mkHandler (fun _ st => (st, false)) (fun t st => (st ++ f t, false)) (fun _ st => (st, false)).
Definition as_visitor (f : tree -> list report) : visitor := mkVisitor (fun _ => Overridden true) f.

Lemma report_handler_never_stops f : never_stops (report_handler f).
Proof. intros t st. repeat split. Qed.

Lemma run_report_handler f log st : run (report_handler f) log st = st ++ flat_map f (nodes_of log).
Proof.
  revert st. induction log as [|e log IH]; intros st; [cbn; rewrite app_nil_r; reflexivity|].
  unfold run. cbn [fold_left]. fold (run (report_handler f) log (step (report_handler f) st e)). rewrite IH.
  destruct e as [t|t|t]; cbn [step report_handler on_enter on_node on_exit fst nodes_of flat_map app]; try reflexivity.
  rewrite <- app_assoc. reflexivity.
Qed.

Lemma as_visitor_complete f : complete (as_visitor f).
Proof. intros k _. reflexivity. Qed.

Theorem handler_reports f t st :
  traverse (report_handler f) t st false = Done (st ++ visit (as_visitor f) t) false (events t).
Proof.
  rewrite handler_complete by apply report_handler_never_stops.
  rewrite run_report_handler, nodes_of_events.
  rewrite (visit_complete (as_visitor f) (as_visitor_complete f)). reflexivity.
Qed.

(* the embedding theorem for the generic driver *)
Theorem handler_embedding f cs t st :
  equivariant (as_visitor f) -> Forall (neutral (as_visitor f)) cs ->
  exists log,
    traverse (report_handler f) (plug (comp_all cs) t) st false =
    Done (st ++ map (shift_report (offset (comp_all cs))) (visit (as_visitor f) t)) false log.
Proof.
  intros He Hn. eexists. rewrite handler_reports.
  rewrite (embedding_composed _ cs t (as_visitor_complete f) He Hn). reflexivity.
Qed.
