(* C08 -- obligations about the GENERATED tables of coq/Gen/VisitTable.v (rewritten from
   /repo/src/rules/*.rs, /repo/src/handler.rs, /repo/src/context.rs, /repo/src/control_flow/mod.rs
   and deno_ast's scopes.rs on every check); closed by computation over the finite tables.

   They instantiate the hypotheses of the traversal theorems for the rules of the repository:
   `complete` (Traverse/VisitTraverse.v) for the swc-Visit based rules, `never_stops` / `exit_clean`
   (Traverse/HandlerTraverse.v) for the Handler based ones. *)
From Coq Require Import String.
From V Require Import Common.Str Gen.VisitTable.
Open Scope N_scope.
Local Open Scope string_scope.

Definition codes (l : list string) : list str := map s2l l.

(* The rules claimed CONTEXT-FREE: their verdict on a construct depends only on that piece of
   syntax (for the scope-consulting ones: given that the surrounding program neither binds nor
   mentions the names involved).  This is the list the nesting differential exercises
   (tools/props_c08.py checks that the two lists are equal). *)
Definition context_free_rules : list str := codes [
  "ban-types"; "constructor-super"; "default-param-last"; "eqeqeq"; "for-direction"; "getter-return";
  "guard-for-in"; "jsx-boolean-value"; "jsx-button-has-type"; "jsx-key"; "jsx-no-children-prop";
  "jsx-no-duplicate-props"; "jsx-no-useless-fragment"; "jsx-props-no-spread-multi";
  "jsx-void-dom-elements-no-children"; "no-array-constructor"; "no-async-promise-executor";
  "no-boolean-literal-for-arguments"; "no-case-declarations"; "no-class-assign"; "no-compare-neg-zero";
  "no-cond-assign"; "no-const-assign"; "no-constant-condition"; "no-control-regex"; "no-debugger";
  "no-delete-var"; "no-dupe-args"; "no-dupe-class-members"; "no-dupe-else-if"; "no-dupe-keys";
  "no-duplicate-case"; "no-empty"; "no-empty-character-class"; "no-empty-enum"; "no-empty-interface";
  "no-empty-pattern"; "no-eval"; "no-ex-assign"; "no-explicit-any"; "no-extra-boolean-cast";
  "no-extra-non-null-assertion"; "no-fallthrough"; "no-func-assign"; "no-global-assign";
  "no-import-assertions"; "no-inferrable-types"; "no-invalid-regexp"; "no-misused-new"; "no-new-symbol";
  "no-non-null-asserted-optional-chain"; "no-non-null-assertion"; "no-obj-calls"; "no-octal";
  "no-prototype-builtins"; "no-redeclare"; "no-regex-spaces"; "no-self-assign"; "no-self-compare";
  "no-setter-return"; "no-shadow-restricted-names"; "no-sparse-arrays"; "no-this-alias";
  "no-this-before-super"; "no-throw-literal"; "no-unsafe-finally"; "no-unsafe-negation";
  "no-unused-labels"; "no-useless-rename"; "no-var"; "no-with"; "prefer-as-const"; "prefer-primordials";
  "react-no-danger";
  "require-yield"; "single-var-declarator"; "use-isnan"; "valid-typeof" ].

(* The two whole-program analyses rules consult are Visit implementations too (pseudo rules
   "scope-analysis" = deno_ast's scopes.rs, "control-flow-analysis" = src/control_flow/mod.rs).  Their
   non-recursing overrides: visit_param of the scope analysis hides everything inside the parameter
   defaults of `function`s from the scope-consulting rules -- a defect of the dependency, not
   repairable in /repo, observed by the differential as the four known classes
   C08.hidden:{no-class-assign,no-const-assign,no-ex-assign,no-func-assign}:scope-analysis.visit_param;
   the others are leaves (labels, import specifiers) or pure type declarations. *)
Definition known_analysis_non_recursing : list (str * str) :=
  map (fun p => (s2l (fst p), s2l (snd p))) [
    ("scope-analysis", "visit_param");
    ("scope-analysis", "visit_import_named_specifier"); ("scope-analysis", "visit_import_default_specifier");
    ("scope-analysis", "visit_import_star_as_specifier");
    ("scope-analysis", "visit_ts_type_alias_decl"); ("scope-analysis", "visit_ts_interface_decl");
    ("control-flow-analysis", "visit_break_stmt"); ("control-flow-analysis", "visit_continue_stmt") ].

Definition pair_mem (p : str * str) (l : list (str * str)) : bool :=
  existsb (fun q => str_eqb (fst p) (fst q) && str_eqb (snd p) (snd q)) l.

Lemma pair_mem_In p l : pair_mem p l = true -> In p l.
Proof.
  unfold pair_mem. rewrite existsb_exists. intros [q [Hq He]]. apply andb_true_iff in He. destruct He as [H1 H2].
  apply str_eqb_eq in H1. apply str_eqb_eq in H2. destruct p as [a b], q as [c d]. cbn [fst snd] in *. subst. exact Hq.
Qed.

Definition entries_of (r : str) : list ventry := filter (fun e => str_eqb (v_rule e) r) visit_table.

(* every child is visited (or what is skipped is skipped by design, see the translator) *)
Definition recurses_all (e : ventry) : bool :=
  match v_class e with RecAll | RecByDesign => true | RecNone | RecUnknown => false end.

Lemma entries_of_In r e : In e visit_table -> v_rule e = r -> In e (entries_of r).
Proof. intros Hin He. unfold entries_of. apply filter_In. split; [exact Hin|]. rewrite He. apply str_eqb_refl. Qed.

(* ---- 1. complete visitors: the hypothesis `complete` of visit_complete / embedding holds for EVERY
   claimed context-free rule: each overridden visit method recurses into all children (or skips only
   what the translator's commented allow-list marks as skipped by design).  A new non-recursing or
   unclassifiable (RecUnknown) override of any of these rules makes this computation yield false. *)
Theorem context_free_rules_recurse :
  forallb (fun r => forallb recurses_all (entries_of r)) context_free_rules = true.
Proof. vm_compute. reflexivity. Qed.

Theorem context_free_rules_recurse_spec : forall r e,
  In r context_free_rules -> In e visit_table -> v_rule e = r ->
  v_class e = RecAll \/ v_class e = RecByDesign.
Proof.
  intros r e Hr Hin He. pose proof context_free_rules_recurse as H. rewrite forallb_forall in H.
  specialize (H r Hr). rewrite forallb_forall in H. specialize (H e (entries_of_In r e Hin He)).
  unfold recurses_all in H. destruct (v_class e); try discriminate; auto.
Qed.

(* no row of a context-free rule is RecNone / RecUnknown, stated on the table directly *)
Theorem no_non_recursing_override_in_context_free_rules :
  filter (fun e => mem (v_rule e) context_free_rules && negb (recurses_all e)) visit_table = [].
Proof. vm_compute. reflexivity. Qed.

(* the analyses: their non-recursing overrides are the listed ones (unknown = partial recursion
   is frequent there and not judged) *)
Definition analysis_rows : list ventry :=
  filter (fun e => str_eqb (v_rule e) (s2l "scope-analysis") || str_eqb (v_rule e) (s2l "control-flow-analysis")) visit_table.

Theorem analysis_non_recursing_known :
  forallb (fun e => match v_class e with RecNone => pair_mem (v_rule e, v_method e) known_analysis_non_recursing | _ => true end)
          analysis_rows = true.
Proof. vm_compute. reflexivity. Qed.

(* ---- 3. the claimed rules exist and are traversal based *)
Definition traversal_based (r : str) : bool :=
  existsb (fun e => str_eqb (v_rule e) r) visit_table || existsb (fun e => str_eqb (h_rule e) r) handler_table.

Theorem context_free_rules_exist :
  forallb (fun r => mem r rule_files && traversal_based r) context_free_rules = true.
Proof. vm_compute. reflexivity. Qed.

(* ---- 4. Handler based rules: hypotheses of handler_complete / traverse_flag_invariant *)

(* no context-free rule ever calls stop_traverse: `never_stops` *)
Theorem context_free_rules_never_stop :
  forallb (fun e => negb (mem (h_rule e) context_free_rules) || match h_stops e with [] => true | _ => false end)
          handler_table = true.
Proof. vm_compute. reflexivity. Qed.

Theorem context_free_rules_never_stop_spec : forall e,
  In e handler_table -> In (h_rule e) context_free_rules -> h_stops e = [].
Proof.
  intros e Hin Hr. pose proof context_free_rules_never_stop as H. rewrite forallb_forall in H.
  specialize (H e Hin). apply mem_In in Hr. rewrite Hr in H. cbn [negb orb] in H.
  destruct (h_stops e); [reflexivity | discriminate].
Qed.

(* NO handler of the repository calls stop_traverse from on_exit_node (`exit_clean`), stop_traverse is
   called only inside `impl Handler` blocks, nobody but the driver reads/asserts the flag, a handler
   that stops does not re-enter the driver (so a nested traversal always starts with a clear flag),
   and the text of the driver and of TraverseFlow have the modelled shape *)
Theorem handlers_respect_flag_protocol :
  forallb (fun e => negb (h_exit_stop e) &&
                    (match h_stops e with [] => true | _ => negb (h_reenters e) end)) handler_table = true /\
  stop_calls_outside_handler_impls = [] /\
  flag_protocol_users_outside_driver = [] /\
  driver_shape_as_modelled = true /\ traverse_flow_as_modelled = true.
Proof. repeat split; vm_compute; reflexivity. Qed.

Theorem handlers_exit_clean : forall e, In e handler_table -> h_exit_stop e = false.
Proof.
  intros e Hin. destruct handlers_respect_flag_protocol as [H _]. rewrite forallb_forall in H.
  specialize (H e Hin). apply andb_true_iff in H. destruct H as [H _]. destruct (h_exit_stop e); [discriminate | reflexivity].
Qed.

(* who stops: exactly the two rules the design names *)
Definition stopping_rules : list str :=
  map h_rule (filter (fun e => match h_stops e with [] => false | _ => true end) handler_table).

Definition expected_stopping_rules : list str := codes ["camelcase"; "require-await"].
Theorem stopping_rules_are : stopping_rules = expected_stopping_rules.
Proof. vm_compute. reflexivity. Qed.
