(* C08 -- syntax trees as seen by a traversal.

   A node carries a kind (which `visit_*` method / `Handler` method it is dispatched to), its
   source span (0-based byte offsets, half open) and the ordered list of its child nodes.  Payloads
   (operators, identifier names, ...) are not represented separately: whatever a rule reads locally
   is a function of the subtree, and the models below give rules the whole subtree.

   Also: pre-order, shifting of all spans by an offset (= the effect on positions of plugging a
   program fragment into a text context at that offset), one-hole contexts and `plug`. *)
From Coq Require Export List NArith Bool Lia.
Export ListNotations.
Open Scope N_scope.

Inductive tree : Type := Node (kind : N) (span : N * N) (children : list tree).

Definition kind (t : tree) : N := match t with Node k _ _ => k end.
Definition span (t : tree) : N * N := match t with Node _ s _ => s end.
Definition children (t : tree) : list tree := match t with Node _ _ cs => cs end.

(* induction principle with the hypothesis for every child *)
Section TreeInd.
  Variable P : tree -> Prop.
  Hypothesis step : forall k s cs, (forall c, In c cs -> P c) -> P (Node k s cs).
  Fixpoint tree_ind' (t : tree) : P t :=
    match t with
    | Node k s cs =>
        step k s cs
          ((fix go (l : list tree) : forall c, In c l -> P c :=
              match l with
              | [] => fun c (H : In c []) => match H with end
              | x :: r => fun c (H : In c (x :: r)) =>
                  match H with
                  | or_introl e => eq_ind x P (tree_ind' x) c e
                  | or_intror i => go r c i
                  end
              end) cs)
    end.
End TreeInd.

(* every node, parents before children, children left to right *)
Fixpoint preorder (t : tree) : list tree :=
  match t with Node _ _ cs => t :: flat_map preorder cs end.

Fixpoint size (t : tree) : nat :=
  match t with Node _ _ cs => S (list_sum (map size cs)) end.

(* positions *)
Definition shift_span (d : N) (s : N * N) : N * N := (fst s + d, snd s + d).

Fixpoint shift_tree (d : N) (t : tree) : tree :=
  match t with Node k s cs => Node k (shift_span d s) (map (shift_tree d) cs) end.

(* a diagnostic as far as traversal is concerned: an opaque tag (code, message, hint ...) and a range *)
Definition report : Type := N * (N * N).
Definition shift_report (d : N) (r : report) : report := (fst r, shift_span d (snd r)).

(* one-hole contexts.  The hole records the offset at which the plugged fragment starts in the
   text of the context: plugging shifts the fragment (whose own positions start at 0) there. *)
Inductive ctx : Type :=
| Hole (off : N)
| CNode (kind : N) (span : N * N) (left : list tree) (inner : ctx) (right : list tree).

Fixpoint offset (c : ctx) : N :=
  match c with Hole off => off | CNode _ _ _ c' _ => offset c' end.

(* raw plugging (no shift) and plugging of a fragment at the hole's offset *)
Fixpoint plug_raw (c : ctx) (t : tree) : tree :=
  match c with
  | Hole _ => t
  | CNode k s l c' r => Node k s (l ++ plug_raw c' t :: r)
  end.

Definition plug (c : ctx) (t : tree) : tree := plug_raw c (shift_tree (offset c) t).

(* composition of contexts: [comp c1 c2] puts c2 into the hole of c1; offsets add up because c2's
   positions are relative to its own start *)
Fixpoint shift_ctx (d : N) (c : ctx) : ctx :=
  match c with
  | Hole off => Hole (off + d)
  | CNode k s l c' r => CNode k (shift_span d s) (map (shift_tree d) l) (shift_ctx d c') (map (shift_tree d) r)
  end.

Fixpoint comp_raw (c1 c2 : ctx) : ctx :=
  match c1 with
  | Hole _ => c2
  | CNode k s l c' r => CNode k s l (comp_raw c' c2) r
  end.

Definition comp (c1 c2 : ctx) : ctx := comp_raw c1 (shift_ctx (offset c1) c2).

Fixpoint depth (c : ctx) : nat :=
  match c with Hole _ => O | CNode _ _ _ c' _ => S (depth c') end.

(* ---------------------------------------------------------------- basic facts *)

Lemma shift_span_0 s : shift_span 0 s = s.
Proof. destruct s as [a b]. unfold shift_span. cbn [fst snd]. rewrite !N.add_0_r. reflexivity. Qed.

Lemma shift_span_add d e s : shift_span e (shift_span d s) = shift_span (d + e) s.
Proof. destruct s as [a b]. unfold shift_span. cbn [fst snd]. rewrite !N.add_assoc. reflexivity. Qed.

Lemma kind_shift d t : kind (shift_tree d t) = kind t.
Proof. destruct t; reflexivity. Qed.

Lemma shift_tree_0 t : shift_tree 0 t = t.
Proof.
  induction t as [k s cs IH] using tree_ind'. cbn [shift_tree]. rewrite shift_span_0. f_equal.
  rewrite <- (map_id cs) at 2. apply map_ext_in. exact IH.
Qed.

Lemma shift_tree_add d e t : shift_tree e (shift_tree d t) = shift_tree (d + e) t.
Proof.
  induction t as [k s cs IH] using tree_ind'. cbn [shift_tree]. rewrite shift_span_add. f_equal.
  rewrite map_map. apply map_ext_in. exact IH.
Qed.

Lemma shift_report_add d e r : shift_report e (shift_report d r) = shift_report (d + e) r.
Proof. destruct r as [c s]. unfold shift_report. cbn [fst snd]. rewrite shift_span_add. reflexivity. Qed.

Lemma shift_report_0 r : shift_report 0 r = r.
Proof. destruct r as [c s]. unfold shift_report. cbn [fst snd]. rewrite shift_span_0. reflexivity. Qed.

Lemma preorder_shift d t : preorder (shift_tree d t) = map (shift_tree d) (preorder t).
Proof.
  induction t as [k s cs IH] using tree_ind'. cbn [shift_tree preorder map]. f_equal.
  induction cs as [|c cs IHcs]; [reflexivity|].
  cbn [map flat_map]. rewrite map_app. rewrite IH by (left; reflexivity).
  rewrite IHcs by (intros x Hx; apply IH; right; exact Hx). reflexivity.
Qed.

Lemma preorder_length t : length (preorder t) = size t.
Proof.
  induction t as [k s cs IH] using tree_ind'. cbn [preorder size length]. f_equal.
  induction cs as [|c cs IHcs]; [reflexivity|].
  cbn [flat_map map list_sum]. rewrite app_length. rewrite IH by (left; reflexivity).
  rewrite IHcs by (intros x Hx; apply IH; right; exact Hx). reflexivity.
Qed.

Lemma offset_shift_ctx d c : offset (shift_ctx d c) = offset c + d.
Proof. induction c as [off|k s l c IH r]; cbn [shift_ctx offset]; [reflexivity | exact IH]. Qed.

Lemma offset_comp_raw c1 c2 : offset (comp_raw c1 c2) = offset c2.
Proof. induction c1 as [off|k s l c IH r]; cbn [comp_raw offset]; [reflexivity | exact IH]. Qed.

Lemma offset_comp c1 c2 : offset (comp c1 c2) = offset c2 + offset c1.
Proof. unfold comp. rewrite offset_comp_raw, offset_shift_ctx. reflexivity. Qed.

Lemma plug_raw_comp_raw c1 c2 t : plug_raw (comp_raw c1 c2) t = plug_raw c1 (plug_raw c2 t).
Proof.
  induction c1 as [off|k s l c IH r]; cbn [comp_raw plug_raw]; [reflexivity|]. rewrite IH. reflexivity.
Qed.

Lemma shift_plug_raw d c t : shift_tree d (plug_raw c t) = plug_raw (shift_ctx d c) (shift_tree d t).
Proof.
  induction c as [off|k s l c IH r]; cbn [shift_ctx plug_raw shift_tree]; [reflexivity|].
  rewrite map_app. cbn [map]. rewrite IH. reflexivity.
Qed.

(* plugging into a composed context = plugging twice *)
Lemma plug_comp c1 c2 t : plug (comp c1 c2) t = plug c1 (plug c2 t).
Proof.
  unfold plug. rewrite offset_comp. unfold comp. rewrite plug_raw_comp_raw. f_equal.
  rewrite shift_plug_raw. rewrite shift_tree_add. reflexivity.
Qed.

Lemma depth_comp_raw c1 c2 : depth (comp_raw c1 c2) = (depth c1 + depth c2)%nat.
Proof. induction c1 as [off|k s l c IH r]; cbn [comp_raw depth]; [reflexivity|]. rewrite IH. reflexivity. Qed.
