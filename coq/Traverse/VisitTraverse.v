(* C08 -- model of a rule written as an implementation of swc's `Visit` trait.

   swc generates, for every node type, a method `visit_<kind>(&mut self, n)` whose DEFAULT body is
   `n.visit_children_with(self)`: it visits every child, in order.  A rule overrides some of these
   methods; the override runs the rule's local code for that node and then either calls
   `n.visit_children_with(self)` (recurses) or forgets to / decides not to (does not recurse), in
   which case nothing beneath that node is ever looked at.

   The model: a table  kind -> NotOverridden | Overridden recurses  and the local code of the
   overridden methods as a function from the node (the whole subtree: local code may inspect as
   much of it as it likes) to the reports it makes at that node.  `coq/Gen/VisitTable.v`
   (regenerated from /repo/src/rules/*.rs on every run) instantiates the table per rule.

   Order: the model reports at a node before descending.  Some rules report after descending;
   the pipeline sorts diagnostics by position afterwards, so the order is not observable and the
   model fixes pre-order. *)
From V Require Import Traverse.Tree.
Open Scope N_scope.

Inductive override : Type := NotOverridden | Overridden (recurses : bool).

Record visitor : Type := mkVisitor {
  table : N -> override;
  body  : tree -> list report      (* local code of the overridden methods *)
}.

Definition overridden (v : visitor) (k : N) : Prop := exists r, table v k = Overridden r.
Definition recurses (v : visitor) (k : N) : bool :=
  match table v k with NotOverridden => true | Overridden r => r end.

(* what the visitor reports AT a node (not beneath it): nothing unless the kind is overridden *)
Definition local (v : visitor) (t : tree) : list report :=
  match table v (kind t) with NotOverridden => [] | Overridden _ => body v t end.

Fixpoint visit (v : visitor) (t : tree) : list report :=
  match t with
  | Node k s cs =>
      match table v k with
      | NotOverridden => flat_map (visit v) cs                      (* swc's default method *)
      | Overridden r => body v t ++ (if r then flat_map (visit v) cs else [])
      end
  end.

(* every override recurses *)
Definition complete (v : visitor) : Prop := forall k, overridden v k -> recurses v k = true.

(* the rule's local verdict depends only on the local piece of syntax: the same subtree at
   another position gives the same reports at the shifted position *)
Definition equivariant (v : visitor) : Prop :=
  forall d t, body v (shift_tree d t) = map (shift_report d) (body v t).

(* a context is neutral for a visitor if the visitor reports nothing AT the nodes on the spine,
   whatever is plugged, and nothing in the subtrees hanging off the spine *)
Fixpoint neutral (v : visitor) (c : ctx) : Prop :=
  match c with
  | Hole _ => True
  | CNode k s l c' r =>
      (forall x, local v (Node k s (l ++ x :: r)) = []) /\
      (forall x, In x l -> visit v x = []) /\ (forall x, In x r -> visit v x = []) /\
      neutral v c'
  end.

(* the spine of the context never stops the descent *)
Fixpoint spine_recurses (v : visitor) (c : ctx) : Prop :=
  match c with
  | Hole _ => True
  | CNode k _ _ c' _ => recurses v k = true /\ spine_recurses v c'
  end.

(* ---------------------------------------------------------------- proofs *)

Lemma visit_unfold v k s cs :
  visit v (Node k s cs) = local v (Node k s cs) ++ (if recurses v k then flat_map (visit v) cs else []).
Proof.
  unfold local, recurses. cbn [visit kind]. destruct (table v k) as [|r]; reflexivity.
Qed.

Lemma flat_map_ext_in {A B} (f g : A -> list B) l : (forall x, In x l -> f x = g x) -> flat_map f l = flat_map g l.
Proof.
  induction l as [|a l IH]; intros H; [reflexivity|]. cbn [flat_map].
  rewrite H by (left; reflexivity). rewrite IH by (intros x Hx; apply H; right; exact Hx). reflexivity.
Qed.

Lemma flat_map_flat_map {A B C} (f : A -> list B) (g : B -> list C) l :
  flat_map g (flat_map f l) = flat_map (fun x => flat_map g (f x)) l.
Proof. induction l as [|a l IH]; [reflexivity|]. cbn [flat_map]. rewrite flat_map_app, IH. reflexivity. Qed.

Lemma flat_map_nil {A B} (f : A -> list B) l : (forall x, In x l -> f x = []) -> flat_map f l = [].
Proof.
  induction l as [|a l IH]; intros H; [reflexivity|]. cbn [flat_map].
  rewrite H by (left; reflexivity). rewrite IH by (intros x Hx; apply H; right; exact Hx). reflexivity.
Qed.

(* A visitor all of whose overrides recurse reports exactly the local reports of every node of the
   tree, each node once, in pre-order. *)
Theorem visit_complete v : complete v -> forall t, visit v t = flat_map (local v) (preorder t).
Proof.
  intros Hc t. induction t as [k s cs IH] using tree_ind'.
  rewrite visit_unfold. cbn [preorder flat_map]. f_equal.
  assert (Hr : recurses v k = true).
  { unfold recurses. destruct (table v k) as [|r] eqn:E; [reflexivity|].
    specialize (Hc k (ex_intro _ r E)). unfold recurses in Hc. rewrite E in Hc. exact Hc. }
  rewrite Hr. rewrite flat_map_flat_map. apply flat_map_ext_in. exact IH.
Qed.

(* ... conversely one non-recursing override suffices to hide everything beneath a node of that kind *)
Theorem non_recursing_override_hides v k s cs :
  table v k = Overridden false -> visit v (Node k s cs) = local v (Node k s cs).
Proof. intros H. rewrite visit_unfold. unfold recurses. rewrite H. apply app_nil_r. Qed.

Lemma local_shift v : equivariant v -> forall d t, local v (shift_tree d t) = map (shift_report d) (local v t).
Proof.
  intros He d t. unfold local. rewrite kind_shift. destruct (table v (kind t)); [reflexivity | apply He].
Qed.

(* position independence of the whole visit *)
Theorem visit_shift v : equivariant v -> forall d t, visit v (shift_tree d t) = map (shift_report d) (visit v t).
Proof.
  intros He d t. induction t as [k s cs IH] using tree_ind'.
  change (shift_tree d (Node k s cs)) with (Node k (shift_span d s) (map (shift_tree d) cs)).
  rewrite !visit_unfold. rewrite map_app. f_equal.
  - change (Node k (shift_span d s) (map (shift_tree d) cs)) with (shift_tree d (Node k s cs)).
    apply local_shift. exact He.
  - destruct (recurses v k); [|reflexivity].
    rewrite flat_map_concat_map, map_map, <- flat_map_concat_map.
    rewrite (flat_map_ext_in _ (fun x => map (shift_report d) (visit v x))) by exact IH.
    clear IH. induction cs as [|c cs IHcs]; [reflexivity|]. cbn [flat_map]. rewrite map_app, IHcs. reflexivity.
Qed.

Lemma visit_plug_raw v c t : spine_recurses v c -> neutral v c -> visit v (plug_raw c t) = visit v t.
Proof.
  induction c as [off|k s l c IH r]; intros Hs Hn; [reflexivity|].
  cbn [spine_recurses] in Hs. destruct Hs as [Hk Hs].
  cbn [neutral] in Hn. destruct Hn as [Hloc [Hl [Hr Hn]]].
  cbn [plug_raw]. rewrite visit_unfold, Hk, Hloc. cbn [app].
  rewrite flat_map_app. cbn [flat_map].
  rewrite (flat_map_nil _ l Hl), (flat_map_nil _ r Hr), app_nil_r. cbn [app]. apply IH; assumption.
Qed.

(* EMBEDDING.  Plugging a fragment into a context that is neutral for the visitor, and whose spine
   the visitor descends through, neither hides a report nor creates one: the reports are those of
   the fragment alone, each once, at positions shifted by the offset of the hole. *)
Theorem embedding v c t :
  equivariant v -> spine_recurses v c -> neutral v c ->
  visit v (plug c t) = map (shift_report (offset c)) (visit v t).
Proof.
  intros He Hs Hn. unfold plug. rewrite visit_plug_raw by assumption. apply visit_shift. exact He.
Qed.

Lemma complete_spine_recurses v c : complete v -> spine_recurses v c.
Proof.
  intros Hc. induction c as [off|k s l c IH r]; cbn [spine_recurses]; [exact I|]. split; [|exact IH].
  unfold recurses. destruct (table v k) as [|b] eqn:E; [reflexivity|].
  specialize (Hc k (ex_intro _ b E)). unfold recurses in Hc. rewrite E in Hc. exact Hc.
Qed.

(* the form used by the nesting differential: complete visitor, neutral context *)
Corollary embedding_complete v c t :
  complete v -> equivariant v -> neutral v c ->
  visit v (plug c t) = map (shift_report (offset c)) (visit v t).
Proof. intros Hc He Hn. apply embedding; [exact He | apply complete_spine_recurses; exact Hc | exact Hn]. Qed.

(* a silent fragment (the "neutral twin") stays silent: this is how the differential detects a
   context that is NOT neutral for a rule *)
Corollary embedding_silent v c t :
  complete v -> equivariant v -> neutral v c -> visit v t = [] -> visit v (plug c t) = [].
Proof. intros Hc He Hn H0. rewrite embedding_complete by assumption. rewrite H0. reflexivity. Qed.

Corollary not_neutral_detected v c t :
  complete v -> equivariant v -> visit v t = [] -> visit v (plug c t) <> [] -> ~ neutral v c.
Proof. intros Hc He H0 Hne Hn. apply Hne. apply embedding_silent; assumption. Qed.

(* contexts compose: the differential builds contexts of depth 1..4 by composing one-hole contexts
   that are individually neutral; the prediction at any depth follows from the depth-1 facts *)
Fixpoint comp_all (cs : list ctx) : ctx :=
  match cs with [] => Hole 0 | c :: r => comp c (comp_all r) end.

Theorem embedding_composed v cs t :
  complete v -> equivariant v -> Forall (neutral v) cs ->
  visit v (plug (comp_all cs) t) = map (shift_report (offset (comp_all cs))) (visit v t).
Proof.
  intros Hc He Hn. induction Hn as [|c r Hcn Hr IH]; cbn [comp_all].
  - unfold plug. cbn [offset plug_raw]. rewrite shift_tree_0.
    rewrite <- (map_id (visit v t)) at 1. apply map_ext. intros x. symmetry. apply shift_report_0.
  - rewrite plug_comp. rewrite embedding_complete by assumption. rewrite IH, map_map.
    rewrite offset_comp. apply map_ext. intros x. apply shift_report_add.
Qed.

(* ---------------------------------------------------------------- refutation witness *)

(* kinds of the witness: 1 = call expression, 2 = regex literal.  The visitor overrides both;
   the call override inspects only its own callee and does not recurse (the shape of the
   missing-recursion defects repaired in /repo in round 1). *)
Definition w_visitor : visitor :=
  mkVisitor (fun k => if N.eqb k 1 then Overridden false else if N.eqb k 2 then Overridden true else NotOverridden)
            (fun t => if N.eqb (kind t) 2 then [(7, span t)] else []).
Definition w_ctx : ctx := CNode 1 (0, 10) [Node 3 (0, 1) []] (Hole 2) [].
Definition w_tree : tree := Node 2 (0, 3) [].

Theorem visit_incomplete_hides :
  exists v c t, equivariant v /\ neutral v c /\ visit v t <> [] /\ visit v (plug c t) = [].
Proof.
  exists w_visitor, w_ctx, w_tree. split; [|split; [|split]].
  - intros d t. unfold w_visitor. cbn [body]. rewrite kind_shift.
    destruct (N.eqb (kind t) 2); [|reflexivity]. destruct t as [k [a b] cs]. reflexivity.
  - cbn [w_ctx neutral]. repeat split.
    + intros x [H|[]]. subst x. reflexivity.
    + intros x [].
  - vm_compute. discriminate.
  - vm_compute. reflexivity.
Qed.
