// vh — implementation-side runner of the verification harness.
//
// Protocol: `vh <subcommand> [args]` reads one JSON case per line on stdin and
// writes, for every case, a marker line `#CASE <n>` *before* running it and a
// JSON result line after it.  A hard crash (stack overflow, abort) is therefore
// attributable to the case whose marker was printed last; the python
// orchestrator resumes the batch after it.  Ordinary panics are caught and
// reported as {"panic": "..."}.

use deno_ast::diagnostics::Diagnostic;
use deno_ast::{MediaType, ModuleSpecifier, ParsedSource, SourceRange, SourceRanged, SourceRangedForSpanned};
use deno_lint::diagnostic::{
  LintDiagnostic, LintDiagnosticDetails, LintDiagnosticRange, LintDocsUrl,
};
use deno_lint::linter::{
  ExternalLinterCb, ExternalLinterResult, LintConfig, LintFileOptions, Linter,
  LinterOptions,
};
use deno_lint::rules::{
  filtered_rules, get_all_rules, recommended_rules, LintRule,
};
use serde_json::{json, Value};
use std::borrow::Cow;
use std::collections::HashSet;
use std::io::{BufRead, Write};
use std::panic::{catch_unwind, AssertUnwindSafe};
use std::sync::Arc;

fn media(s: &str) -> MediaType {
  match s {
    "js" => MediaType::JavaScript,
    "mjs" => MediaType::Mjs,
    "cjs" => MediaType::Cjs,
    "jsx" => MediaType::Jsx,
    "ts" => MediaType::TypeScript,
    "mts" => MediaType::Mts,
    "cts" => MediaType::Cts,
    "dts" => MediaType::Dts,
    "tsx" => MediaType::Tsx,
    "unknown" => MediaType::Unknown,
    "json" => MediaType::Json,
    _ => MediaType::TypeScript,
  }
}

fn ext_of(m: MediaType) -> &'static str {
  match m {
    MediaType::JavaScript => "js",
    MediaType::Mjs => "mjs",
    MediaType::Cjs => "cjs",
    MediaType::Jsx => "jsx",
    MediaType::TypeScript => "ts",
    MediaType::Mts => "mts",
    MediaType::Cts => "cts",
    MediaType::Dts => "d.ts",
    MediaType::Tsx => "tsx",
    _ => "ts",
  }
}

fn leak(s: &str) -> &'static str {
  Box::leak(s.to_string().into_boxed_str())
}

fn select_rules(v: &Value) -> Vec<Box<dyn LintRule>> {
  match v {
    Value::String(s) if s == "all" => get_all_rules(),
    Value::String(s) if s == "recommended" => {
      recommended_rules(get_all_rules())
    }
    Value::Array(codes) => {
      // in the SUPPLIED order (duplicates dropped)
      let mut pool: Vec<Option<Box<dyn LintRule>>> =
        get_all_rules().into_iter().map(Some).collect();
      let mut out = Vec::new();
      for c in codes {
        let c = c.as_str().unwrap_or("");
        for slot in pool.iter_mut() {
          if slot.as_ref().map(|r| r.code() == c).unwrap_or(false) {
            out.push(slot.take().unwrap());
          }
        }
      }
      out
    }
    // through the public selection function: {"tags": [..]?, "include": [..]?, "exclude": [..]?}
    Value::Object(o) => {
      let list = |k: &str| -> Option<Vec<String>> {
        o.get(k).and_then(|x| x.as_array()).map(|a| {
          a.iter()
            .map(|s| s.as_str().unwrap_or("").to_string())
            .collect()
        })
      };
      filtered_rules(
        get_all_rules(),
        list("tags"),
        list("exclude"),
        list("include"),
      )
    }
    _ => vec![],
  }
}

fn all_builtin_codes() -> HashSet<Cow<'static, str>> {
  get_all_rules()
    .into_iter()
    .map(|r| Cow::Borrowed(r.code()))
    .collect()
}

fn mk_linter(case: &Value) -> Linter {
  let rules = select_rules(&case["rules"]);
  let all_rule_codes: HashSet<Cow<'static, str>> = match &case["all_codes"] {
    Value::Array(a) => a
      .iter()
      .map(|c| Cow::Owned(c.as_str().unwrap_or("").to_string()))
      .collect(),
    _ => all_builtin_codes(),
  };
  Linter::new(LinterOptions {
    rules,
    all_rule_codes,
    custom_ignore_file_directive: case["fw"].as_str().map(leak),
    custom_ignore_diagnostic_directive: case["lw"].as_str().map(leak),
  })
}

fn mk_external(case: &Value) -> Option<ExternalLinterCb> {
  let ext = &case["ext"];
  if ext.is_null() {
    return None;
  }
  let ext = ext.clone();
  Some(Arc::new(move |ps: ParsedSource| {
    if ext["decline"].as_bool().unwrap_or(false) {
      return None;
    }
    let ti = ps.text_info_lazy().clone();
    let base = ti.range().start;
    let mut diagnostics = Vec::new();
    if let Some(ds) = ext["diags"].as_array() {
      for d in ds {
        let range = match (d["start"].as_u64(), d["end"].as_u64()) {
          // "foreign": the diagnostic points into ANOTHER (longer) text, e.g. the document the script was cut out of
          (Some(s), Some(e)) if d["foreign"].as_bool().unwrap_or(false) => {
            let pad = d["foreign_pad"].as_u64().unwrap_or(64) as usize;
            let other = deno_ast::SourceTextInfo::from_string(format!(
              "{}\n{}",
              "x\n".repeat(pad),
              ti.text_str()
            ));
            let b2 = other.range().start;
            let off = 2 * pad + 1;
            Some(LintDiagnosticRange {
              text_info: other,
              range: SourceRange::new(b2 + off + s as usize, b2 + off + e as usize),
              description: None,
            })
          }
          (Some(s), Some(e)) => Some(LintDiagnosticRange {
            text_info: ti.clone(),
            range: SourceRange::new(base + s as usize, base + e as usize),
            description: None,
          }),
          _ => None,
        };
        diagnostics.push(LintDiagnostic {
          specifier: ps.specifier().clone(),
          range,
          details: LintDiagnosticDetails {
            message: d["msg"].as_str().unwrap_or("").to_string(),
            code: d["code"].as_str().unwrap_or("").to_string(),
            hint: None,
            fixes: vec![],
            custom_docs_url: LintDocsUrl::Default,
            info: vec![],
          },
        });
      }
    }
    let rules = ext["rules"]
      .as_array()
      .map(|a| {
        a.iter()
          .map(|c| Cow::Owned(c.as_str().unwrap_or("").to_string()))
          .collect()
      })
      .unwrap_or_default();
    Some(ExternalLinterResult { diagnostics, rules })
  }))
}

fn diag_json(d: &LintDiagnostic, src_len: usize, display: bool) -> Value {
  let (start, end, same_text) = match &d.range {
    Some(r) => {
      let base = r.text_info.range().start;
      (
        Value::from(r.range.start.as_byte_index(base)),
        Value::from(r.range.end.as_byte_index(base)),
        r.text_info.text_str().len() == src_len,
      )
    }
    None => (Value::Null, Value::Null, true),
  };
  let fixes: Vec<Value> = d
    .details
    .fixes
    .iter()
    .map(|f| {
      let ch: Vec<Value> = f
        .changes
        .iter()
        .map(|c| {
          // fix ranges are relative to the same text as the diagnostic
          let (cs, ce) = match d.range.as_ref() {
            Some(r) => {
              let base = r.text_info.range().start;
              (c.range.start.as_byte_index(base), c.range.end.as_byte_index(base))
            }
            // no diagnostic range: BytePos is 1-based for a parsed source
            None => (
              (c.range.start.as_byte_pos().0 as usize).saturating_sub(1),
              (c.range.end.as_byte_pos().0 as usize).saturating_sub(1),
            ),
          };
          json!({"s": cs, "e": ce, "t": c.new_text})
        })
        .collect();
      json!({"desc": f.description, "changes": ch})
    })
    .collect();
  let mut v = json!({
    "code": d.details.code, "start": start, "end": end,
    "msg": d.details.message, "hint": d.details.hint, "fixes": fixes,
    "spec": d.specifier.as_str(), "same_text": same_text,
  });
  if display {
    let shown = catch_unwind(AssertUnwindSafe(|| format!("{}", d.display())));
    v["display_ok"] = Value::from(shown.is_ok());
    if let Ok(s) = shown {
      v["display_len"] = Value::from(s.len());
    }
  }
  v
}

fn lint_case_with(linter: &Linter, case: &Value) -> Value {
  let src = case["src"].as_str().unwrap_or("").to_string();
  let mt = media(case["media"].as_str().unwrap_or("ts"));
  let spec = case["spec"]
    .as_str()
    .and_then(|s| ModuleSpecifier::parse(s).ok())
    .unwrap_or_else(|| {
      ModuleSpecifier::parse(&format!("file:///v/case.{}", ext_of(mt))).unwrap()
    });
  let config = LintConfig {
    default_jsx_factory: case["jsx"].as_str().map(|s| s.to_string()),
    default_jsx_fragment_factory: case["jsxfrag"]
      .as_str()
      .map(|s| s.to_string()),
  };
  let display = case["display"].as_bool().unwrap_or(false);
  let entry_ast = case["entry"].as_str() == Some("ast");
  let src_len = src.len();
  let mut bounds: Option<Vec<usize>> = None;
  let mut parse_diags: Option<usize> = None;
  let result: Result<Vec<LintDiagnostic>, String> = if entry_ast {
    match deno_ast::parse_program(deno_ast::ParseParams {
      specifier: spec,
      media_type: mt,
      text: src.into(),
      capture_tokens: true,
      // "jsx_syntax": the embedder parses a non-JSX media type with JSX switched on (only possible through lint_with_ast)
      maybe_syntax: Some(if case["jsx_syntax"].as_bool().unwrap_or(false) {
        deno_ast::swc::parser::Syntax::Es(deno_ast::swc::parser::EsSyntax {
          jsx: true,
          ..Default::default()
        })
      } else {
        deno_ast::get_syntax(mt)
      }),
      scope_analysis: true,
    }) {
      Ok(ps) => Ok(linter.lint_with_ast(&ps, config, mk_external(case))),
      Err(e) => Err(format!("{}", e.message())),
    }
  } else {
    match linter.lint_file(LintFileOptions {
      specifier: spec,
      source_code: src,
      media_type: mt,
      config,
      external_linter: mk_external(case),
    }) {
      Ok((ps, ds)) => {
        if case["bounds"].as_bool().unwrap_or(false) {
          let base = ps.text_info_lazy().range().start;
          let mut b: Vec<usize> = vec![0, src_len];
          for t in ps.tokens() {
            let r = t.range();
            b.push(r.start.as_byte_index(base));
            b.push(r.end.as_byte_index(base));
          }
          for c in ps.comments().get_vec() {
            let r = c.range();
            b.push(r.start.as_byte_index(base));
            b.push(r.end.as_byte_index(base));
          }
          b.sort();
          b.dedup();
          bounds = Some(b);
        }
        parse_diags = Some(ps.diagnostics().len());
        Ok(ds)
      }
      Err(e) => Err(format!("{}", e.message())),
    }
  };
  match result {
    Ok(ds) => {
      let out: Vec<Value> =
        ds.iter().map(|d| diag_json(d, src_len, display)).collect();
      let mut v = match bounds {
        Some(b) => json!({ "ok": out, "bounds": b }),
        None => json!({ "ok": out }),
      };
      if let Some(n) = parse_diags {
        v["parse_diags"] = Value::from(n);
      }
      v
    }
    Err(m) => json!({ "parse_error": m }),
  }
}

fn lint_case(case: &Value) -> Value {
  let linter = mk_linter(case);
  lint_case_with(&linter, case)
}

// One Linter shared by a sequence of files, optionally across threads.
// case: {linter: <case-like options>, files: [<case>...], threads: n, order: [idx...]}
// The external-linter callback type is not Send, so thread runs use no callback.
fn multi_case(case: &Value) -> Value {
  let linter = Arc::new(mk_linter(&case["linter"]));
  let files: Vec<Value> = case["files"].as_array().cloned().unwrap_or_default();
  let order: Vec<usize> = case["order"]
    .as_array()
    .map(|a| a.iter().map(|x| x.as_u64().unwrap_or(0) as usize).collect())
    .unwrap_or_else(|| (0..files.len()).collect());
  let threads = case["threads"].as_u64().unwrap_or(0) as usize;
  if threads <= 1 {
    let mut out = vec![Value::Null; order.len()];
    for (k, &i) in order.iter().enumerate() {
      out[k] = json!({"file": i, "res": lint_case_with(&linter, &files[i])});
    }
    return json!({ "seq": out });
  }
  // `Linter` holds `Box<dyn LintRule>`; LintRule: Send + Sync in this crate.
  let files = Arc::new(files);
  let order = Arc::new(order);
  let mut handles = Vec::new();
  for t in 0..threads {
    let linter = linter.clone();
    let files = files.clone();
    let order = order.clone();
    handles.push(
      std::thread::Builder::new()
        .stack_size(64 << 20)
        .spawn(move || {
          let mut out = Vec::new();
          // every thread lints every file, starting at a different offset
          let n = order.len();
          for k in 0..n {
            let i = order[(k + t * 7) % n];
            let mut c = files[i].clone();
            c["ext"] = Value::Null;
            out.push(json!({"file": i, "res": lint_case_with(&linter, &c)}));
          }
          out
        })
        .unwrap(),
    );
  }
  let mut all = Vec::new();
  for h in handles {
    match h.join() {
      Ok(v) => all.push(Value::Array(v)),
      Err(_) => all.push(json!({"panic": "thread"})),
    }
  }
  json!({ "threads": all })
}

fn registry() -> Value {
  let rules: Vec<Value> = get_all_rules()
    .iter()
    .map(|r| {
      let tags: Vec<String> = r.tags().iter().map(|t| t.to_string()).collect();
      json!({"code": r.code(), "tags": tags, "priority": r.priority()})
    })
    .collect();
  let rec: Vec<&'static str> = recommended_rules(get_all_rules())
    .iter()
    .map(|r| r.code())
    .collect();
  let all_tags: Vec<String> =
    deno_lint::tags::ALL_TAGS.iter().map(|t| t.to_string()).collect();
  json!({"rules": rules, "recommended": rec, "all_tags": all_tags})
}

fn opt_strs(v: &Value) -> Option<Vec<String>> {
  v.as_array().map(|a| {
    a.iter()
      .map(|x| x.as_str().unwrap_or("").to_string())
      .collect()
  })
}

// case: {tags: null|[..], exclude: null|[..], include: null|[..]}
fn select_case(case: &Value) -> Value {
  // "perm": the caller's rule vector need not come in the order of get_all_rules(): "rev" / "rot<k>"
  let mut all = get_all_rules();
  match case["perm"].as_str() {
    Some("rev") => all.reverse(),
    Some(p) if p.starts_with("rot") => {
      let k = p[3..].parse::<usize>().unwrap_or(1) % all.len().max(1);
      all.rotate_left(k);
    }
    _ => {}
  }
  let rs = filtered_rules(
    all,
    opt_strs(&case["tags"]),
    opt_strs(&case["exclude"]),
    opt_strs(&case["include"]),
  );
  let codes: Vec<&'static str> = rs.iter().map(|r| r.code()).collect();
  let linter = Linter::new(LinterOptions {
    rules: rs,
    all_rule_codes: all_builtin_codes(),
    custom_ignore_file_directive: None,
    custom_ignore_diagnostic_directive: None,
  });
  json!({"selected": codes, "run_order": deno_lint::verif_hooks::rule_run_order(&linter)})
}

// case: {rules: [...]} in supplied order -> run order
fn runorder_case(case: &Value) -> Value {
  let linter = mk_linter(case);
  json!({"run_order": deno_lint::verif_hooks::rule_run_order(&linter)})
}

// case: {word, text, line}
fn dirparse_case(case: &Value) -> Value {
  let r = deno_lint::verif_hooks::parse_ignore_comment_text(
    case["word"].as_str().unwrap_or(""),
    case["text"].as_str().unwrap_or(""),
    case["line"].as_bool().unwrap_or(true),
  );
  match r {
    None => json!({ "dir": Value::Null }),
    Some(mut codes) => {
      let raw = codes.clone();
      codes.sort();
      json!({"dir": codes, "iter_order": raw})
    }
  }
}

// case: {src, media}
fn cf_case(case: &Value) -> Value {
  let src = case["src"].as_str().unwrap_or("").to_string();
  let mt = media(case["media"].as_str().unwrap_or("js"));
  let spec = ModuleSpecifier::parse(&format!("file:///v/case.{}", ext_of(mt)))
    .unwrap();
  match deno_ast::parse_program(deno_ast::ParseParams {
    specifier: spec,
    media_type: mt,
    text: src.into(),
    capture_tokens: true,
    maybe_syntax: Some(deno_ast::get_syntax(mt)),
    scope_analysis: true,
  }) {
    Ok(ps) => {
      let base = ps.text_info_lazy().range().start;
      let _ = base;
      let dump: Vec<Value> = deno_lint::verif_hooks::control_flow_dump(&ps)
        .into_iter()
        .map(|(pos, unreachable, tag, f)| {
          // BytePos is 1-based for a parsed source
          json!([pos.saturating_sub(1), unreachable, tag, f[0], f[1], f[2]])
        })
        .collect();
      json!({ "cf": dump })
    }
    Err(e) => json!({ "parse_error": format!("{}", e.message()) }),
  }
}

// case: {src, media}: deno_ast::parse_program alone (no deno_lint code involved)
fn parse_case(case: &Value) -> Value {
  let src = case["src"].as_str().unwrap_or("").trim_start_matches('\u{FEFF}').to_string();
  let mt = media(case["media"].as_str().unwrap_or("ts"));
  let spec = ModuleSpecifier::parse(&format!("file:///v/case.{}", ext_of(mt)))
    .unwrap();
  match deno_ast::parse_program(deno_ast::ParseParams {
    specifier: spec,
    media_type: mt,
    text: src.into(),
    capture_tokens: true,
    maybe_syntax: Some(deno_ast::get_syntax(mt)),
    scope_analysis: true,
  }) {
    Ok(ps) => json!({"ok": [], "parse_diags": ps.diagnostics().len()}),
    Err(e) => json!({ "parse_error": format!("{}", e.message()) }),
  }
}

// case: {seq: [[pattern, u], ...]}  |  {flags: "..."}
fn regex_case(case: &Value) -> Value {
  if let Some(f) = case["flags"].as_str() {
    return json!({"flags_ok": deno_lint::verif_hooks::regex_validate_flags(f).is_ok()});
  }
  let items: Vec<(String, bool)> = case["seq"]
    .as_array()
    .map(|a| {
      a.iter()
        .map(|x| {
          (
            x[0].as_str().unwrap_or("").to_string(),
            x[1].as_bool().unwrap_or(false),
          )
        })
        .collect()
    })
    .unwrap_or_default();
  let res: Vec<Value> = deno_lint::verif_hooks::regex_validate_seq(&items)
    .into_iter()
    .map(|r| match r {
      Ok(()) => Value::Null,
      Err(m) => Value::String(m),
    })
    .collect();
  json!({ "verdicts": res })
}

// case: {src, media} -> every identifier occurrence of the resolved program (C14/C20):
// {"idents": [[start, end, symbol, syntax-context id, kind, declared-in-deno_ast-Scope, ambient], ...],
//  "unresolved": ctxt id, "exported": [[symbol, ctxt], ...]}
// kind: ref | bind | import | import_ext | export | label | prop | shorthand | jsx
fn idents_case(case: &Value) -> Value {
  use deno_ast::swc::ast as sw;
  use deno_ast::swc::ecma_visit::{Visit, VisitWith};
  struct V {
    out: Vec<(u32, u32, String, u32, &'static str, bool)>,
    exported: Vec<(String, u32)>,
    kind: &'static str,
    ambient: u32,
  }
  impl V {
    fn put(&mut self, i: &sw::Ident, kind: &'static str) {
      self.out.push((i.span.lo.0, i.span.hi.0, i.sym.to_string(), i.ctxt.as_u32(), kind, self.ambient > 0));
    }
    fn put_name(&mut self, i: &sw::IdentName, kind: &'static str) {
      self.out.push((i.span.lo.0, i.span.hi.0, i.sym.to_string(), 0, kind, self.ambient > 0));
    }
    fn with_kind<F: FnOnce(&mut V)>(&mut self, kind: &'static str, f: F) {
      let old = std::mem::replace(&mut self.kind, kind);
      f(self);
      self.kind = old;
    }
    fn key_expr(&mut self, computed: bool, key: &sw::Expr) {
      match key {
        sw::Expr::Ident(i) if !computed => self.put(i, "prop"),
        _ => key.visit_with(self),
      }
    }
    fn export_id(&mut self, i: &sw::Ident) {
      self.exported.push((i.sym.to_string(), i.ctxt.as_u32()));
    }
  }
  impl Visit for V {
    fn visit_ident(&mut self, n: &sw::Ident) {
      let k = self.kind;
      self.put(n, k);
    }
    fn visit_ident_name(&mut self, n: &sw::IdentName) {
      self.put_name(n, "prop");
    }
    fn visit_binding_ident(&mut self, n: &sw::BindingIdent) {
      self.put(&n.id, "bind");
      self.with_kind("ref", |v| n.type_ann.visit_with(v));
    }
    fn visit_fn_decl(&mut self, n: &sw::FnDecl) {
      self.put(&n.ident, "bind");
      n.function.visit_with(self);
    }
    fn visit_fn_expr(&mut self, n: &sw::FnExpr) {
      if let Some(i) = &n.ident {
        self.put(i, "bind");
      }
      n.function.visit_with(self);
    }
    fn visit_class_decl(&mut self, n: &sw::ClassDecl) {
      self.put(&n.ident, "bind");
      n.class.visit_with(self);
    }
    fn visit_class_expr(&mut self, n: &sw::ClassExpr) {
      if let Some(i) = &n.ident {
        self.put(i, "bind");
      }
      n.class.visit_with(self);
    }
    fn visit_ts_enum_decl(&mut self, n: &sw::TsEnumDecl) {
      self.put(&n.id, "bind");
      n.members.visit_with(self);
    }
    fn visit_ts_enum_member(&mut self, n: &sw::TsEnumMember) {
      if let sw::TsEnumMemberId::Ident(i) = &n.id {
        self.put(i, "prop");
      }
      n.init.visit_with(self);
    }
    fn visit_ts_interface_decl(&mut self, n: &sw::TsInterfaceDecl) {
      self.put(&n.id, "bind");
      n.type_params.visit_with(self);
      n.extends.visit_with(self);
      n.body.visit_with(self);
    }
    fn visit_ts_type_alias_decl(&mut self, n: &sw::TsTypeAliasDecl) {
      self.put(&n.id, "bind");
      n.type_params.visit_with(self);
      n.type_ann.visit_with(self);
    }
    fn visit_ts_type_param(&mut self, n: &sw::TsTypeParam) {
      self.put(&n.name, "bind");
      n.constraint.visit_with(self);
      n.default.visit_with(self);
    }
    fn visit_ts_module_decl(&mut self, n: &sw::TsModuleDecl) {
      let amb = n.global || matches!(n.id, sw::TsModuleName::Str(_));
      if let sw::TsModuleName::Ident(i) = &n.id {
        self.put(i, "bind");
      }
      if amb {
        self.ambient += 1;
      }
      n.body.visit_with(self);
      if amb {
        self.ambient -= 1;
      }
    }
    fn visit_ts_namespace_decl(&mut self, n: &sw::TsNamespaceDecl) {
      self.put(&n.id, "prop");
      n.body.visit_with(self);
    }
    fn visit_ts_import_equals_decl(&mut self, n: &sw::TsImportEqualsDecl) {
      self.put(&n.id, "import");
      if n.is_export {
        self.export_id(&n.id);
      }
      n.module_ref.visit_with(self);
    }
    fn visit_ts_namespace_export_decl(&mut self, n: &sw::TsNamespaceExportDecl) {
      self.put(&n.id, "export");
    }
    fn visit_ts_property_signature(&mut self, n: &sw::TsPropertySignature) {
      self.key_expr(n.computed, &n.key);
      n.type_ann.visit_with(self);
    }
    fn visit_ts_method_signature(&mut self, n: &sw::TsMethodSignature) {
      self.key_expr(n.computed, &n.key);
      n.type_params.visit_with(self);
      n.params.visit_with(self);
      n.type_ann.visit_with(self);
    }
    fn visit_ts_getter_signature(&mut self, n: &sw::TsGetterSignature) {
      self.key_expr(n.computed, &n.key);
      n.type_ann.visit_with(self);
    }
    fn visit_ts_setter_signature(&mut self, n: &sw::TsSetterSignature) {
      self.key_expr(n.computed, &n.key);
      n.param.visit_with(self);
    }
    fn visit_labeled_stmt(&mut self, n: &sw::LabeledStmt) {
      self.put(&n.label, "label");
      n.body.visit_with(self);
    }
    fn visit_break_stmt(&mut self, n: &sw::BreakStmt) {
      if let Some(l) = &n.label {
        self.put(l, "label");
      }
    }
    fn visit_continue_stmt(&mut self, n: &sw::ContinueStmt) {
      if let Some(l) = &n.label {
        self.put(l, "label");
      }
    }
    fn visit_prop(&mut self, n: &sw::Prop) {
      match n {
        sw::Prop::Shorthand(i) => self.put(i, "shorthand"),
        _ => n.visit_children_with(self),
      }
    }
    fn visit_assign_pat_prop(&mut self, n: &sw::AssignPatProp) {
      self.put(&n.key.id, "shorthand");
      n.value.visit_with(self);
    }
    fn visit_jsx_element_name(&mut self, n: &sw::JSXElementName) {
      self.with_kind("jsx", |v| n.visit_children_with(v));
    }
    fn visit_import_decl(&mut self, n: &sw::ImportDecl) {
      self.with_kind("import", |v| n.specifiers.visit_with(v));
    }
    fn visit_import_named_specifier(&mut self, n: &sw::ImportNamedSpecifier) {
      self.put(&n.local, "import");
      if let Some(sw::ModuleExportName::Ident(i)) = &n.imported {
        self.put(i, "import_ext");
      }
    }
    fn visit_named_export(&mut self, n: &sw::NamedExport) {
      self.with_kind("export", |v| n.specifiers.visit_with(v));
    }
    fn visit_export_named_specifier(&mut self, n: &sw::ExportNamedSpecifier) {
      if let sw::ModuleExportName::Ident(i) = &n.orig {
        self.put(i, "export");
        self.export_id(i);
      }
      if let Some(sw::ModuleExportName::Ident(i)) = &n.exported {
        self.put(i, "export");
      }
    }
    fn visit_export_decl(&mut self, n: &sw::ExportDecl) {
      match &n.decl {
        sw::Decl::Class(d) => self.export_id(&d.ident),
        sw::Decl::Fn(d) => self.export_id(&d.ident),
        sw::Decl::Var(d) => {
          let ids: Vec<sw::Ident> = deno_ast::swc::utils::find_pat_ids(&d.decls);
          for i in &ids {
            self.export_id(i);
          }
        }
        sw::Decl::Using(d) => {
          let ids: Vec<sw::Ident> = deno_ast::swc::utils::find_pat_ids(&d.decls);
          for i in &ids {
            self.export_id(i);
          }
        }
        sw::Decl::TsInterface(d) => self.export_id(&d.id),
        sw::Decl::TsTypeAlias(d) => self.export_id(&d.id),
        sw::Decl::TsEnum(d) => self.export_id(&d.id),
        sw::Decl::TsModule(d) => {
          if let sw::TsModuleName::Ident(i) = &d.id {
            self.export_id(i);
          }
        }
      }
      n.decl.visit_with(self);
    }
    fn visit_export_default_decl(&mut self, n: &sw::ExportDefaultDecl) {
      match &n.decl {
        sw::DefaultDecl::Class(c) => {
          if let Some(i) = &c.ident {
            self.export_id(i);
          }
        }
        sw::DefaultDecl::Fn(f) => {
          if let Some(i) = &f.ident {
            self.export_id(i);
          }
        }
        sw::DefaultDecl::TsInterfaceDecl(d) => self.export_id(&d.id),
      }
      n.decl.visit_with(self);
    }
    fn visit_export_default_expr(&mut self, n: &sw::ExportDefaultExpr) {
      if let sw::Expr::Ident(i) = &*n.expr {
        self.export_id(i);
      }
      n.expr.visit_with(self);
    }
    fn visit_ts_export_assignment(&mut self, n: &sw::TsExportAssignment) {
      if let sw::Expr::Ident(i) = &*n.expr {
        self.export_id(i);
      }
      n.expr.visit_with(self);
    }
  }
  let src = case["src"].as_str().unwrap_or("").to_string();
  let mt = media(case["media"].as_str().unwrap_or("ts"));
  let spec = ModuleSpecifier::parse(&format!("file:///v/case.{}", ext_of(mt))).unwrap();
  match deno_ast::parse_program(deno_ast::ParseParams {
    specifier: spec,
    media_type: mt,
    text: src.into(),
    capture_tokens: true,
    maybe_syntax: Some(deno_ast::get_syntax(mt)),
    scope_analysis: true,
  }) {
    Ok(ps) => {
      let scope = ps.with_view(|pg| deno_ast::Scope::analyze(pg));
      let mut v = V { out: vec![], exported: vec![], kind: "ref", ambient: 0 };
      ps.program_ref().visit_with(&mut v);
      // BytePos is 1-based for a parsed source
      let ids: Vec<Value> = v
        .out
        .iter()
        .map(|(lo, hi, sym, ctxt, kind, amb)| {
          let declared = *kind != "prop"
            && scope
              .var(&(sym.as_str().into(), deno_ast::swc::common::SyntaxContext::from_u32(*ctxt)))
              .is_some();
          json!([lo.saturating_sub(1), hi.saturating_sub(1), sym, ctxt, kind, declared, amb])
        })
        .collect();
      let exported: Vec<Value> = v.exported.iter().map(|(s, c)| json!([s, c])).collect();
      json!({"idents": ids, "unresolved": ps.unresolved_context().as_u32(), "exported": exported,
             "parse_diags": ps.diagnostics().len()})
    }
    Err(e) => json!({ "parse_error": format!("{}", e.message()) }),
  }
}

thread_local! {
  static LAST_PANIC_LOC: std::cell::RefCell<String> = std::cell::RefCell::new(String::new());
}

// case: {src, media}: byte ranges of swc's tokens and comments (input of the no-irregular-whitespace model)
fn tokens_case(case: &Value) -> Value {
  let src = case["src"].as_str().unwrap_or("").trim_start_matches('\u{FEFF}').to_string();
  let mt = media(case["media"].as_str().unwrap_or("ts"));
  let spec = ModuleSpecifier::parse(&format!("file:///v/case.{}", ext_of(mt)))
    .unwrap();
  match deno_ast::parse_program(deno_ast::ParseParams {
    specifier: spec,
    media_type: mt,
    text: src.into(),
    capture_tokens: true,
    maybe_syntax: Some(deno_ast::get_syntax(mt)),
    scope_analysis: false,
  }) {
    Ok(ps) => {
      let base = ps.text_info_lazy().range().start;
      let toks: Vec<Value> = ps
        .tokens()
        .iter()
        .map(|t| {
          let r = t.range();
          json!([r.start.as_byte_index(base), r.end.as_byte_index(base)])
        })
        .collect();
      let mut cms: Vec<(usize, usize)> = ps
        .comments()
        .get_vec()
        .iter()
        .map(|c| {
          let r = c.range();
          (r.start.as_byte_index(base), r.end.as_byte_index(base))
        })
        .collect();
      cms.sort();
      json!({"tokens": toks, "comments": cms.iter().map(|(a, b)| json!([a, b])).collect::<Vec<_>>()})
    }
    Err(e) => json!({ "parse_error": format!("{}", e.message()) }),
  }
}

thread_local! { static WATCHDOG_T0: std::cell::Cell<Option<std::time::Instant>> = const { std::cell::Cell::new(None) }; }

fn main() {
  std::env::set_var("RUST_BACKTRACE", "0");
  let args: Vec<String> = std::env::args().collect();
  let sub = args.get(1).map(|s| s.as_str()).unwrap_or("");
  if sub == "registry" {
    println!("{}", registry());
    return;
  }
  // silence the default panic message (the orchestrator gets it as JSON) but remember where it was
  std::panic::set_hook(Box::new(|info| {
    let loc = info
      .location()
      .map(|l| format!("{}:{}", l.file(), l.line()))
      .unwrap_or_default();
    LAST_PANIC_LOC.with(|c| *c.borrow_mut() = loc);
  }));
  let f: fn(&Value) -> Value = match sub {
    "lint" => lint_case,
    "multi" => multi_case,
    "select" => select_case,
    "runorder" => runorder_case,
    "dirparse" => dirparse_case,
    "cf" => cf_case,
    "parse" => parse_case,
    "tokens" => tokens_case,
    "regex" => regex_case,
    "idents" => idents_case,
    _ => {
      eprintln!("unknown subcommand {sub}");
      std::process::exit(2);
    }
  };
  let sub = sub.to_string();
  // big stack: deeply nested inputs recurse deeply in swc's visitors
  let child = std::thread::Builder::new()
    .stack_size(
      // VH_STACK_KB (exact) wins over VH_STACK_MB; default 256 MiB
      std::env::var("VH_STACK_KB")
        .ok()
        .and_then(|v| v.parse::<usize>().ok())
        .map(|kb| kb << 10)
        .unwrap_or_else(|| {
          std::env::var("VH_STACK_MB")
            .ok()
            .and_then(|v| v.parse::<usize>().ok())
            .unwrap_or(256)
            << 20
        }),
    )
    .spawn(move || {
      let stdin = std::io::stdin();
      let stdout = std::io::stdout();
      let mut n = 0usize;
      // per-case watchdog (VH_CASE_TIMEOUT_MS): a case that does not return in time ends the process with exit code 97,
      // the orchestrator attributes it to the case whose marker came last and resumes with the next one
      static CASE_STARTED_MS: std::sync::atomic::AtomicU64 = std::sync::atomic::AtomicU64::new(0);
      if let Some(limit) = std::env::var("VH_CASE_TIMEOUT_MS").ok().and_then(|v| v.parse::<u64>().ok()) {
        let t0 = std::time::Instant::now();
        CASE_STARTED_MS.store(0, std::sync::atomic::Ordering::SeqCst);
        std::thread::spawn(move || loop {
          std::thread::sleep(std::time::Duration::from_millis(50));
          let started = CASE_STARTED_MS.load(std::sync::atomic::Ordering::SeqCst);
          if started != 0 && t0.elapsed().as_millis() as u64 > started + limit {
            std::process::exit(97);
          }
        });
        WATCHDOG_T0.with(|c| c.set(Some(t0)));
      }
      for line in stdin.lock().lines() {
        let line = match line {
          Ok(l) => l,
          Err(_) => break,
        };
        if line.trim().is_empty() {
          continue;
        }
        {
          let mut o = stdout.lock();
          let _ = writeln!(o, "#CASE {}", n);
          let _ = o.flush();
        }
        WATCHDOG_T0.with(|c| {
          if let Some(t0) = c.get() {
            CASE_STARTED_MS.store(t0.elapsed().as_millis() as u64 + 1, std::sync::atomic::Ordering::SeqCst);
          }
        });
        let res = match serde_json::from_str::<Value>(&line) {
          Ok(case) => {
            match catch_unwind(AssertUnwindSafe(|| f(&case))) {
              Ok(v) => v,
              Err(e) => {
                let msg = if let Some(s) = e.downcast_ref::<&str>() {
                  s.to_string()
                } else if let Some(s) = e.downcast_ref::<String>() {
                  s.clone()
                } else {
                  "panic".to_string()
                };
                let loc = LAST_PANIC_LOC.with(|c| c.borrow().clone());
                // keep only the path below the cargo registry root (crate-version/src/file.rs:line)
                let loc = match loc.find("/registry/src/") {
                  Some(i) => loc[i + 14..].splitn(2, '/').nth(1).unwrap_or("").to_string(),
                  None => loc,
                };
                json!({ "panic": msg, "at": loc })
              }
            }
          }
          Err(e) => json!({"bad_case": format!("{e}"), "sub": sub}),
        };
        {
          let mut o = stdout.lock();
          let _ = writeln!(o, "{}", res);
          let _ = o.flush();
        }
        n += 1;
      }
    })
    .unwrap();
  let _ = child.join();
}
