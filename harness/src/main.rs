// vh — implementation-side runner of the verification harness.
//
// Protocol: `vh <subcommand> [args]` reads one JSON case per line on stdin and
// writes, for every case, a marker line `#CASE <n>` *before* running it and a
// JSON result line after it.  A hard crash (stack overflow, abort) is therefore
// attributable to the case whose marker was printed last; the python
// orchestrator resumes the batch after it.  Ordinary panics are caught and
// reported as {"panic": "..."}.

use deno_ast::diagnostics::Diagnostic;
use deno_ast::{MediaType, ModuleSpecifier, ParsedSource, SourceRange, SourceRanged, SourceRangedForSpanned};
use deno_lint::diagnostic::{
  LintDiagnostic, LintDiagnosticDetails, LintDiagnosticRange, LintDocsUrl,
};
use deno_lint::linter::{
  ExternalLinterCb, ExternalLinterResult, LintConfig, LintFileOptions, Linter,
  LinterOptions,
};
use deno_lint::rules::{
  filtered_rules, get_all_rules, recommended_rules, LintRule,
};
use serde_json::{json, Value};
use std::borrow::Cow;
use std::collections::HashSet;
use std::io::{BufRead, Write};
use std::panic::{catch_unwind, AssertUnwindSafe};
use std::sync::Arc;

fn media(s: &str) -> MediaType {
  match s {
    "js" => MediaType::JavaScript,
    "mjs" => MediaType::Mjs,
    "cjs" => MediaType::Cjs,
    "jsx" => MediaType::Jsx,
    "ts" => MediaType::TypeScript,
    "mts" => MediaType::Mts,
    "cts" => MediaType::Cts,
    "dts" => MediaType::Dts,
    "tsx" => MediaType::Tsx,
    _ => MediaType::TypeScript,
  }
}

fn ext_of(m: MediaType) -> &'static str {
  match m {
    MediaType::JavaScript => "js",
    MediaType::Mjs => "mjs",
    MediaType::Cjs => "cjs",
    MediaType::Jsx => "jsx",
    MediaType::TypeScript => "ts",
    MediaType::Mts => "mts",
    MediaType::Cts => "cts",
    MediaType::Dts => "d.ts",
    MediaType::Tsx => "tsx",
    _ => "ts",
  }
}

fn leak(s: &str) -> &'static str {
  Box::leak(s.to_string().into_boxed_str())
}

fn select_rules(v: &Value) -> Vec<Box<dyn LintRule>> {
  match v {
    Value::String(s) if s == "all" => get_all_rules(),
    Value::String(s) if s == "recommended" => {
      recommended_rules(get_all_rules())
    }
    Value::Array(codes) => {
      // in the SUPPLIED order (duplicates dropped)
      let mut pool: Vec<Option<Box<dyn LintRule>>> =
        get_all_rules().into_iter().map(Some).collect();
      let mut out = Vec::new();
      for c in codes {
        let c = c.as_str().unwrap_or("");
        for slot in pool.iter_mut() {
          if slot.as_ref().map(|r| r.code() == c).unwrap_or(false) {
            out.push(slot.take().unwrap());
          }
        }
      }
      out
    }
    _ => vec![],
  }
}

fn all_builtin_codes() -> HashSet<Cow<'static, str>> {
  get_all_rules()
    .into_iter()
    .map(|r| Cow::Borrowed(r.code()))
    .collect()
}

fn mk_linter(case: &Value) -> Linter {
  let rules = select_rules(&case["rules"]);
  let all_rule_codes: HashSet<Cow<'static, str>> = match &case["all_codes"] {
    Value::Array(a) => a
      .iter()
      .map(|c| Cow::Owned(c.as_str().unwrap_or("").to_string()))
      .collect(),
    _ => all_builtin_codes(),
  };
  Linter::new(LinterOptions {
    rules,
    all_rule_codes,
    custom_ignore_file_directive: case["fw"].as_str().map(leak),
    custom_ignore_diagnostic_directive: case["lw"].as_str().map(leak),
  })
}

fn mk_external(case: &Value) -> Option<ExternalLinterCb> {
  let ext = &case["ext"];
  if ext.is_null() {
    return None;
  }
  let ext = ext.clone();
  Some(Arc::new(move |ps: ParsedSource| {
    if ext["decline"].as_bool().unwrap_or(false) {
      return None;
    }
    let ti = ps.text_info_lazy().clone();
    let base = ti.range().start;
    let mut diagnostics = Vec::new();
    if let Some(ds) = ext["diags"].as_array() {
      for d in ds {
        let range = match (d["start"].as_u64(), d["end"].as_u64()) {
          (Some(s), Some(e)) => Some(LintDiagnosticRange {
            text_info: ti.clone(),
            range: SourceRange::new(base + s as usize, base + e as usize),
            description: None,
          }),
          _ => None,
        };
        diagnostics.push(LintDiagnostic {
          specifier: ps.specifier().clone(),
          range,
          details: LintDiagnosticDetails {
            message: d["msg"].as_str().unwrap_or("").to_string(),
            code: d["code"].as_str().unwrap_or("").to_string(),
            hint: None,
            fixes: vec![],
            custom_docs_url: LintDocsUrl::Default,
            info: vec![],
          },
        });
      }
    }
    let rules = ext["rules"]
      .as_array()
      .map(|a| {
        a.iter()
          .map(|c| Cow::Owned(c.as_str().unwrap_or("").to_string()))
          .collect()
      })
      .unwrap_or_default();
    Some(ExternalLinterResult { diagnostics, rules })
  }))
}

fn diag_json(d: &LintDiagnostic, src_len: usize, display: bool) -> Value {
  let (start, end, same_text) = match &d.range {
    Some(r) => {
      let base = r.text_info.range().start;
      (
        Value::from(r.range.start.as_byte_index(base)),
        Value::from(r.range.end.as_byte_index(base)),
        r.text_info.text_str().len() == src_len,
      )
    }
    None => (Value::Null, Value::Null, true),
  };
  let fixes: Vec<Value> = d
    .details
    .fixes
    .iter()
    .map(|f| {
      let ch: Vec<Value> = f
        .changes
        .iter()
        .map(|c| {
          // fix ranges are relative to the same text as the diagnostic
          let (cs, ce) = match d.range.as_ref() {
            Some(r) => {
              let base = r.text_info.range().start;
              (c.range.start.as_byte_index(base), c.range.end.as_byte_index(base))
            }
            // no diagnostic range: BytePos is 1-based for a parsed source
            None => (
              (c.range.start.as_byte_pos().0 as usize).saturating_sub(1),
              (c.range.end.as_byte_pos().0 as usize).saturating_sub(1),
            ),
          };
          json!({"s": cs, "e": ce, "t": c.new_text})
        })
        .collect();
      json!({"desc": f.description, "changes": ch})
    })
    .collect();
  let mut v = json!({
    "code": d.details.code, "start": start, "end": end,
    "msg": d.details.message, "hint": d.details.hint, "fixes": fixes,
    "spec": d.specifier.as_str(), "same_text": same_text,
  });
  if display {
    let shown = catch_unwind(AssertUnwindSafe(|| format!("{}", d.display())));
    v["display_ok"] = Value::from(shown.is_ok());
    if let Ok(s) = shown {
      v["display_len"] = Value::from(s.len());
    }
  }
  v
}

fn lint_case_with(linter: &Linter, case: &Value) -> Value {
  let src = case["src"].as_str().unwrap_or("").to_string();
  let mt = media(case["media"].as_str().unwrap_or("ts"));
  let spec = ModuleSpecifier::parse(&format!("file:///v/case.{}", ext_of(mt)))
    .unwrap();
  let config = LintConfig {
    default_jsx_factory: case["jsx"].as_str().map(|s| s.to_string()),
    default_jsx_fragment_factory: case["jsxfrag"]
      .as_str()
      .map(|s| s.to_string()),
  };
  let display = case["display"].as_bool().unwrap_or(false);
  let entry_ast = case["entry"].as_str() == Some("ast");
  let src_len = src.len();
  let mut bounds: Option<Vec<usize>> = None;
  let mut parse_diags: Option<usize> = None;
  let result: Result<Vec<LintDiagnostic>, String> = if entry_ast {
    match deno_ast::parse_program(deno_ast::ParseParams {
      specifier: spec,
      media_type: mt,
      text: src.into(),
      capture_tokens: true,
      maybe_syntax: Some(deno_ast::get_syntax(mt)),
      scope_analysis: true,
    }) {
      Ok(ps) => Ok(linter.lint_with_ast(&ps, config, mk_external(case))),
      Err(e) => Err(format!("{}", e.message())),
    }
  } else {
    match linter.lint_file(LintFileOptions {
      specifier: spec,
      source_code: src,
      media_type: mt,
      config,
      external_linter: mk_external(case),
    }) {
      Ok((ps, ds)) => {
        if case["bounds"].as_bool().unwrap_or(false) {
          let base = ps.text_info_lazy().range().start;
          let mut b: Vec<usize> = vec![0, src_len];
          for t in ps.tokens() {
            let r = t.range();
            b.push(r.start.as_byte_index(base));
            b.push(r.end.as_byte_index(base));
          }
          for c in ps.comments().get_vec() {
            let r = c.range();
            b.push(r.start.as_byte_index(base));
            b.push(r.end.as_byte_index(base));
          }
          b.sort();
          b.dedup();
          bounds = Some(b);
        }
        parse_diags = Some(ps.diagnostics().len());
        Ok(ds)
      }
      Err(e) => Err(format!("{}", e.message())),
    }
  };
  match result {
    Ok(ds) => {
      let out: Vec<Value> =
        ds.iter().map(|d| diag_json(d, src_len, display)).collect();
      let mut v = match bounds {
        Some(b) => json!({ "ok": out, "bounds": b }),
        None => json!({ "ok": out }),
      };
      if let Some(n) = parse_diags {
        v["parse_diags"] = Value::from(n);
      }
      v
    }
    Err(m) => json!({ "parse_error": m }),
  }
}

fn lint_case(case: &Value) -> Value {
  let linter = mk_linter(case);
  lint_case_with(&linter, case)
}

// One Linter shared by a sequence of files, optionally across threads.
// case: {linter: <case-like options>, files: [<case>...], threads: n, order: [idx...]}
// The external-linter callback type is not Send, so thread runs use no callback.
fn multi_case(case: &Value) -> Value {
  let linter = Arc::new(mk_linter(&case["linter"]));
  let files: Vec<Value> = case["files"].as_array().cloned().unwrap_or_default();
  let order: Vec<usize> = case["order"]
    .as_array()
    .map(|a| a.iter().map(|x| x.as_u64().unwrap_or(0) as usize).collect())
    .unwrap_or_else(|| (0..files.len()).collect());
  let threads = case["threads"].as_u64().unwrap_or(0) as usize;
  if threads <= 1 {
    let mut out = vec![Value::Null; order.len()];
    for (k, &i) in order.iter().enumerate() {
      out[k] = json!({"file": i, "res": lint_case_with(&linter, &files[i])});
    }
    return json!({ "seq": out });
  }
  // `Linter` holds `Box<dyn LintRule>`; LintRule: Send + Sync in this crate.
  let files = Arc::new(files);
  let order = Arc::new(order);
  let mut handles = Vec::new();
  for t in 0..threads {
    let linter = linter.clone();
    let files = files.clone();
    let order = order.clone();
    handles.push(
      std::thread::Builder::new()
        .stack_size(64 << 20)
        .spawn(move || {
          let mut out = Vec::new();
          // every thread lints every file, starting at a different offset
          let n = order.len();
          for k in 0..n {
            let i = order[(k + t * 7) % n];
            let mut c = files[i].clone();
            c["ext"] = Value::Null;
            out.push(json!({"file": i, "res": lint_case_with(&linter, &c)}));
          }
          out
        })
        .unwrap(),
    );
  }
  let mut all = Vec::new();
  for h in handles {
    match h.join() {
      Ok(v) => all.push(Value::Array(v)),
      Err(_) => all.push(json!({"panic": "thread"})),
    }
  }
  json!({ "threads": all })
}

fn registry() -> Value {
  let rules: Vec<Value> = get_all_rules()
    .iter()
    .map(|r| {
      let tags: Vec<String> = r.tags().iter().map(|t| t.to_string()).collect();
      json!({"code": r.code(), "tags": tags, "priority": r.priority()})
    })
    .collect();
  let rec: Vec<&'static str> = recommended_rules(get_all_rules())
    .iter()
    .map(|r| r.code())
    .collect();
  let all_tags: Vec<String> =
    deno_lint::tags::ALL_TAGS.iter().map(|t| t.to_string()).collect();
  json!({"rules": rules, "recommended": rec, "all_tags": all_tags})
}

fn opt_strs(v: &Value) -> Option<Vec<String>> {
  v.as_array().map(|a| {
    a.iter()
      .map(|x| x.as_str().unwrap_or("").to_string())
      .collect()
  })
}

// case: {tags: null|[..], exclude: null|[..], include: null|[..]}
fn select_case(case: &Value) -> Value {
  let rs = filtered_rules(
    get_all_rules(),
    opt_strs(&case["tags"]),
    opt_strs(&case["exclude"]),
    opt_strs(&case["include"]),
  );
  let codes: Vec<&'static str> = rs.iter().map(|r| r.code()).collect();
  let linter = Linter::new(LinterOptions {
    rules: rs,
    all_rule_codes: all_builtin_codes(),
    custom_ignore_file_directive: None,
    custom_ignore_diagnostic_directive: None,
  });
  json!({"selected": codes, "run_order": deno_lint::verif_hooks::rule_run_order(&linter)})
}

// case: {rules: [...]} in supplied order -> run order
fn runorder_case(case: &Value) -> Value {
  let linter = mk_linter(case);
  json!({"run_order": deno_lint::verif_hooks::rule_run_order(&linter)})
}

// case: {word, text, line}
fn dirparse_case(case: &Value) -> Value {
  let r = deno_lint::verif_hooks::parse_ignore_comment_text(
    case["word"].as_str().unwrap_or(""),
    case["text"].as_str().unwrap_or(""),
    case["line"].as_bool().unwrap_or(true),
  );
  match r {
    None => json!({ "dir": Value::Null }),
    Some(mut codes) => {
      let raw = codes.clone();
      codes.sort();
      json!({"dir": codes, "iter_order": raw})
    }
  }
}

// case: {src, media}
fn cf_case(case: &Value) -> Value {
  let src = case["src"].as_str().unwrap_or("").to_string();
  let mt = media(case["media"].as_str().unwrap_or("js"));
  let spec = ModuleSpecifier::parse(&format!("file:///v/case.{}", ext_of(mt)))
    .unwrap();
  match deno_ast::parse_program(deno_ast::ParseParams {
    specifier: spec,
    media_type: mt,
    text: src.into(),
    capture_tokens: true,
    maybe_syntax: Some(deno_ast::get_syntax(mt)),
    scope_analysis: true,
  }) {
    Ok(ps) => {
      let base = ps.text_info_lazy().range().start;
      let _ = base;
      let dump: Vec<Value> = deno_lint::verif_hooks::control_flow_dump(&ps)
        .into_iter()
        .map(|(pos, unreachable, tag, f)| {
          // BytePos is 1-based for a parsed source
          json!([pos.saturating_sub(1), unreachable, tag, f[0], f[1], f[2]])
        })
        .collect();
      json!({ "cf": dump })
    }
    Err(e) => json!({ "parse_error": format!("{}", e.message()) }),
  }
}

// case: {src, media}: deno_ast::parse_program alone (no deno_lint code involved)
fn parse_case(case: &Value) -> Value {
  let src = case["src"].as_str().unwrap_or("").trim_start_matches('\u{FEFF}').to_string();
  let mt = media(case["media"].as_str().unwrap_or("ts"));
  let spec = ModuleSpecifier::parse(&format!("file:///v/case.{}", ext_of(mt)))
    .unwrap();
  match deno_ast::parse_program(deno_ast::ParseParams {
    specifier: spec,
    media_type: mt,
    text: src.into(),
    capture_tokens: true,
    maybe_syntax: Some(deno_ast::get_syntax(mt)),
    scope_analysis: true,
  }) {
    Ok(ps) => json!({"ok": [], "parse_diags": ps.diagnostics().len()}),
    Err(e) => json!({ "parse_error": format!("{}", e.message()) }),
  }
}

// case: {seq: [[pattern, u], ...]}  |  {flags: "..."}
fn regex_case(case: &Value) -> Value {
  if let Some(f) = case["flags"].as_str() {
    return json!({"flags_ok": deno_lint::verif_hooks::regex_validate_flags(f).is_ok()});
  }
  let items: Vec<(String, bool)> = case["seq"]
    .as_array()
    .map(|a| {
      a.iter()
        .map(|x| {
          (
            x[0].as_str().unwrap_or("").to_string(),
            x[1].as_bool().unwrap_or(false),
          )
        })
        .collect()
    })
    .unwrap_or_default();
  let res: Vec<Value> = deno_lint::verif_hooks::regex_validate_seq(&items)
    .into_iter()
    .map(|r| match r {
      Ok(()) => Value::Null,
      Err(m) => Value::String(m),
    })
    .collect();
  json!({ "verdicts": res })
}

thread_local! {
  static LAST_PANIC_LOC: std::cell::RefCell<String> = std::cell::RefCell::new(String::new());
}

fn main() {
  std::env::set_var("RUST_BACKTRACE", "0");
  let args: Vec<String> = std::env::args().collect();
  let sub = args.get(1).map(|s| s.as_str()).unwrap_or("");
  if sub == "registry" {
    println!("{}", registry());
    return;
  }
  // silence the default panic message (the orchestrator gets it as JSON) but remember where it was
  std::panic::set_hook(Box::new(|info| {
    let loc = info
      .location()
      .map(|l| format!("{}:{}", l.file(), l.line()))
      .unwrap_or_default();
    LAST_PANIC_LOC.with(|c| *c.borrow_mut() = loc);
  }));
  let f: fn(&Value) -> Value = match sub {
    "lint" => lint_case,
    "multi" => multi_case,
    "select" => select_case,
    "runorder" => runorder_case,
    "dirparse" => dirparse_case,
    "cf" => cf_case,
    "parse" => parse_case,
    "regex" => regex_case,
    _ => {
      eprintln!("unknown subcommand {sub}");
      std::process::exit(2);
    }
  };
  let sub = sub.to_string();
  // big stack: deeply nested inputs recurse deeply in swc's visitors
  let child = std::thread::Builder::new()
    .stack_size(256 << 20)
    .spawn(move || {
      let stdin = std::io::stdin();
      let stdout = std::io::stdout();
      let mut n = 0usize;
      for line in stdin.lock().lines() {
        let line = match line {
          Ok(l) => l,
          Err(_) => break,
        };
        if line.trim().is_empty() {
          continue;
        }
        {
          let mut o = stdout.lock();
          let _ = writeln!(o, "#CASE {}", n);
          let _ = o.flush();
        }
        let res = match serde_json::from_str::<Value>(&line) {
          Ok(case) => {
            match catch_unwind(AssertUnwindSafe(|| f(&case))) {
              Ok(v) => v,
              Err(e) => {
                let msg = if let Some(s) = e.downcast_ref::<&str>() {
                  s.to_string()
                } else if let Some(s) = e.downcast_ref::<String>() {
                  s.clone()
                } else {
                  "panic".to_string()
                };
                let loc = LAST_PANIC_LOC.with(|c| c.borrow().clone());
                // keep only the path below the cargo registry root (crate-version/src/file.rs:line)
                let loc = match loc.find("/registry/src/") {
                  Some(i) => loc[i + 14..].splitn(2, '/').nth(1).unwrap_or("").to_string(),
                  None => loc,
                };
                json!({ "panic": msg, "at": loc })
              }
            }
          }
          Err(e) => json!({"bad_case": format!("{e}"), "sub": sub}),
        };
        {
          let mut o = stdout.lock();
          let _ = writeln!(o, "{}", res);
          let _ = o.flush();
        }
        n += 1;
      }
    })
    .unwrap();
  let _ = child.join();
}
