open Common
(* ---------------- control-flow analyzer model (C10/C11) ----------------
   Input line:  FIXMASK PROGRAM
     FIXMASK  = 1*fixA + 2*fixB + 4*fixC + 8*fixD + 16*fixE + 32*fixF   (0 = the faithful model)
     PROGRAM  = getter(0/1) p_start p_pb STMTS
     STMTS    = count STMT*
     EXPR     = 0 id | 1 id | 2 | 3 | 4 id | 5 id  (ident | call | literal | this | `[...id]` | `({[id]: 1})`)
     COND     = 0 | 1 | 2 EXPR | 3 EXPR b(0/1) | 4   (true | false | opaque | `(EXPR, b)` | truthy but unknown to swc)
     STMT     = 0 p EXPR | 1 p | 2 p is_var OPT(EXPR) | 3 p name pb STMTS | 4 p pb STMTS
              | 5 p OPT(EXPR) | 6 p EXPR | 7 p OPT(label) | 8 p OPT(label) | 9 p STMTS
              | 10 p COND STMT | 11 p COND STMT STMT | 12 p COND STMT | 13 p STMT COND
              | 14 p OPT(EXPR) OPT(COND) OPT(EXPR) STMT (init, test, update) | 15 p STMT | 16 p STMT | 17 p CASES | 18 p label STMT
              | 19 p bp STMTS OPT(cp hbp) STMTS OPT(fp) STMTS
              | 20 p gp pb STMTS                   (`({get a() {..}});`)
              | 21 p getter(0/1) fp pb STMTS STMT  (`for (const [k = FN] of o) STMT`)
     CASES    = count (cp OPT(EXPR) ft_comment STMTS)*     (test expression; none = default)                                  *)
let read_expr () =
  match next_int () with
  | 0 -> Syntax.EIdent (read_n ())
  | 1 -> Syntax.ECall (read_n ())
  | 2 -> Syntax.ELit
  | 3 -> Syntax.EThis
  | 4 -> Syntax.ESpread (read_n ())
  | 5 -> Syntax.EComputed (read_n ())
  | _ -> failwith "expr"
let read_cond () =
  match next_int () with
  | 0 -> Syntax.CTrue
  | 1 -> Syntax.CFalse
  | 2 -> Syntax.COpaque (read_expr ())
  | 3 -> let e = read_expr () in let b = read_bool () in Syntax.CSeq (e, b)
  | 4 -> Syntax.CUnkTrue
  | _ -> failwith "cond"
let rec stmts_of = function [] -> Syntax.SNil | s :: r -> Syntax.SCons (s, stmts_of r)
let rec read_stmt () : Syntax.stmt =
  let tag = next_int () in
  let p = read_n () in
  match tag with
  | 0 -> let e = read_expr () in Syntax.SExpr (p, e)
  | 1 -> Syntax.SEmpty p
  | 2 -> let v = read_bool () in let i = read_opt read_expr in Syntax.SVar (p, v, i)
  | 3 -> let n = read_n () in let pb = read_n () in let b = read_stmts () in Syntax.SFnDecl (p, n, pb, b)
  | 4 -> let pb = read_n () in let b = read_stmts () in Syntax.SArrowStmt (p, pb, b)
  | 5 -> let a = read_opt read_expr in Syntax.SRet (p, a)
  | 6 -> let e = read_expr () in Syntax.SThrow (p, e)
  | 7 -> let l = read_opt read_n in Syntax.SBrk (p, l)
  | 8 -> let l = read_opt read_n in Syntax.SCont (p, l)
  | 9 -> let b = read_stmts () in Syntax.SBlock (p, b)
  | 10 -> let c = read_cond () in let a = read_stmt () in Syntax.SIf (p, c, a)
  | 11 -> let c = read_cond () in let a = read_stmt () in let b = read_stmt () in Syntax.SIfElse (p, c, a, b)
  | 12 -> let c = read_cond () in let b = read_stmt () in Syntax.SWhile (p, c, b)
  | 13 -> let b = read_stmt () in let c = read_cond () in Syntax.SDoWhile (p, b, c)
  | 14 ->
      let i = read_opt read_expr in let c = read_opt read_cond in let u = read_opt read_expr in
      let b = read_stmt () in Syntax.SFor (p, i, c, u, b)
  | 15 -> let b = read_stmt () in Syntax.SForIn (p, b)
  | 16 -> let b = read_stmt () in Syntax.SForOf (p, b)
  | 17 -> let cs = read_cases () in Syntax.SSwitch (p, cs)
  | 18 -> let l = read_n () in let b = read_stmt () in Syntax.SLabel (p, l, b)
  | 19 ->
      let bp = read_n () in
      let blk = read_stmts () in
      let h = read_opt (fun () -> let cp = read_n () in let hbp = read_n () in (cp, hbp)) in
      let hb = read_stmts () in
      let f = read_opt read_n in
      let fb = read_stmts () in
      Syntax.STry (p, bp, blk, h, hb, f, fb)
  | 20 -> let gp = read_n () in let pb = read_n () in let b = read_stmts () in Syntax.SGetterStmt (p, gp, pb, b)
  | 21 ->
      let g = read_bool () in let fp = read_n () in let pb = read_n () in
      let hb = read_stmts () in let b = read_stmt () in
      Syntax.SForHead (p, g, fp, pb, hb, b)
  | _ -> failwith "stmt"
and read_stmts () : Syntax.stmts = stmts_of (read_list read_stmt)
and read_cases () : Syntax.cases =
  let l = read_list (fun () ->
    let cp = read_n () in let d = read_opt read_expr in let ft = read_bool () in let b = read_stmts () in (cp, d, ft, b)) in
  L.fold_right (fun (cp, d, ft, b) r -> Syntax.CCons (cp, d, ft, b, r)) l Syntax.CNil

let read_fixes () =
  let m = next_int () in
  { Analyzer.fixA = m land 1 <> 0; fixB = m land 2 <> 0; fixC = m land 4 <> 0; fixD = m land 8 <> 0; fixE = m land 16 <> 0; fixF = m land 32 <> 0 }
let read_program () =
  let g = read_bool () in let ps = read_n () in let pb = read_n () in let b = read_stmts () in
  { Syntax.p_getter = g; p_start = ps; p_pb = pb; p_body = b }

let sorted_ns l = L.sort compare (L.map int_of_n l)

(* output: wf panic INFO no-unreachable getter-return no-fallthrough getter-return-panics, where INFO = count
   followed by offset unreachable tag ret throw inf for each entry *)
let run_analyze () =
  let fx = read_fixes () in
  let p = read_program () in
  let st = Analyzer.analyze_st fx p in
  let i = st.Analyzer.info in
  out_bool (Syntax.wfb p);
  out_bool st.Analyzer.panic;
  let entries = L.sort compare (L.map (fun (k, m) ->
    let (tag, r, t, f) = match m.Analyzer.m_end with
      | None -> (0, false, false, false)
      | Some (Analyzer.Forced (r, t, f)) -> (1, r, t, f)
      | Some Analyzer.EBreak -> (2, false, false, false)
      | Some Analyzer.EContinue -> (3, false, false, false) in
    (int_of_n k, m.Analyzer.m_unreach, tag, r, t, f)) i) in
  out_list (fun (k, u, tag, r, t, f) -> out_int k; out_bool u; out_int tag; out_bool r; out_bool t; out_bool f) entries;
  out_list out_int (sorted_ns (Analyzer.no_unreachable_on i p));
  out_list out_int (sorted_ns (Analyzer.getter_return_on i p));
  out_list out_int (sorted_ns (Analyzer.no_fallthrough_on i p));
  out_bool (Analyzer.getter_return_panics_on i p)

(* wf  C10-violations  C11-getter-violation  C11-case-violations  can_fall_off  reach  C11-getter-violations(all getters) *)
let run_oracle () =
  let fx = read_fixes () in
  let p = read_program () in
  out_bool (Syntax.wfb p);
  out_list out_int (sorted_ns (Oracle.c10_violations fx p));
  out_bool (Oracle.c11_getter_violation fx p);
  out_list out_int (sorted_ns (Oracle.c11_case_violations fx p));
  out_bool (SemDecide.prog_can_fall_off p);
  out_list out_int (sorted_ns (SemDecide.prog_reach p));
  out_list out_int (sorted_ns (Oracle.c11_getter_violations_all fx p))

(* ghost analyzer against the map-based one: states equal, logged flags / list-element reasons = map entries,
   reason of the body block = entry of the body *)
let run_ghost () =
  let fx = read_fixes () in
  let p = read_program () in
  let st = Analyzer.analyze_st fx p in
  let ((stg, r), lg) = AnalyzerG.analyzeG fx p in
  let i = st.Analyzer.info in
  let find k = try Some (L.assoc k i) with Not_found -> None in
  out_bool (st = stg);
  out_bool (L.for_all (function
    | AnalyzerG.GStmt (k, d, b) -> (match find k with Some m -> m.Analyzer.m_unreach = b | None -> false) && (d || not b)
    | AnalyzerG.GCase (b, lv, stops) -> Analyzer.any_stops i b = stops) lg);
  out_bool ((match find p.Syntax.p_pb with Some m -> m.Analyzer.m_end | None -> None) = r)

(* purely semantic facts (the analyzer model is not involved; the fix mask is read and ignored):
   wf  no_fn_stmt  reach  falls  fall-through-able cases  getters that can fall off their end  fn_stmt_safe *)
let run_sem () =
  let _ = read_fixes () in
  let p = read_program () in
  out_bool (Syntax.wfb p);
  out_bool (Syntax.no_fn_stmtb p);
  out_list out_int (sorted_ns (SemDecide.prog_reach p));
  out_bool (SemDecide.prog_can_fall_off p);
  out_list out_int (sorted_ns (Oracle.sem_fallthrough_cases p));
  out_list out_int (sorted_ns (Oracle.sem_falling_getters p));
  out_bool (Syntax.fn_stmt_safeb p)

let () = main [("analyze", run_analyze); ("oracle", run_oracle); ("ghost", run_ghost); ("sem", run_sem)]
