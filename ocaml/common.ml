(* Driver for the extracted Coq models: one case per input line, one result per
   output line.  Tokens are space-separated non-negative integers (a leading '-'
   is allowed where Z is read).  Strings: length followed by code points; lists:
   count followed by items; options/bools: 0/1 [item]. *)
module L = Stdlib.List
module S = Stdlib.String

let toks : string array ref = ref [||]
let pos = ref 0
let set_line (l : string) =
  toks := Array.of_list (L.filter (fun s -> s <> "") (S.split_on_char ' ' l)); pos := 0
let next_int () : int =
  let t = !toks.(!pos) in incr pos; int_of_string t
let at_end () = !pos >= Array.length !toks

(* int <-> Coq N / positive / nat / Z *)
let rec pos_of_int (n : int) : BinNums.positive =
  if n = 1 then BinNums.Coq_xH
  else if n land 1 = 0 then BinNums.Coq_xO (pos_of_int (n lsr 1))
  else BinNums.Coq_xI (pos_of_int (n lsr 1))
let n_of_int (n : int) : BinNums.coq_N = if n = 0 then BinNums.N0 else BinNums.Npos (pos_of_int n)
let rec int_of_pos (p : BinNums.positive) : int =
  match p with BinNums.Coq_xH -> 1 | BinNums.Coq_xO q -> 2 * int_of_pos q | BinNums.Coq_xI q -> 2 * int_of_pos q + 1
let int_of_n (n : BinNums.coq_N) : int = match n with BinNums.N0 -> 0 | BinNums.Npos p -> int_of_pos p

let read_n () = n_of_int (next_int ())
let read_bool () = next_int () <> 0
let read_list (f : unit -> 'a) : 'a list =
  let n = next_int () in
  let rec go k acc = if k = 0 then L.rev acc else let x = f () in go (k - 1) (x :: acc) in
  go n []
let read_opt (f : unit -> 'a) : 'a option = if next_int () = 0 then None else Some (f ())
let read_str () = read_list read_n

let buf = Buffer.create 4096
let out_int (n : int) = Buffer.add_string buf (string_of_int n); Buffer.add_char buf ' '
let out_n n = out_int (int_of_n n)
let out_bool b = out_int (if b then 1 else 0)
let out_list (f : 'a -> unit) (l : 'a list) = out_int (L.length l); L.iter f l
let out_opt (f : 'a -> unit) (o : 'a option) = match o with None -> out_int 0 | Some x -> out_int 1; f x
let out_str s = out_list out_n s
let flush_line () = print_string (Buffer.contents buf); print_newline (); Buffer.clear buf


(* main loop: dispatch on argv.(1) over a table of (name, handler) *)
let main (table : (string * (unit -> unit)) list) =
  let sub = Sys.argv.(1) in
  let f = try L.assoc sub table with Not_found -> (prerr_endline ("unknown model " ^ sub); exit 2) in
  try
    while true do
      let l = input_line stdin in
      set_line l;
      (try f () with
       | Stack_overflow -> Buffer.clear buf; Buffer.add_string buf "STACK_OVERFLOW"
       | Invalid_argument m -> Buffer.clear buf; Buffer.add_string buf ("BAD_CASE " ^ m)
       | Failure m -> Buffer.clear buf; Buffer.add_string buf ("BAD_CASE " ^ m));
      flush_line ()
    done
  with End_of_file -> ()
