open Common
(* input: list of files (name:str, fatal:0/1, nparse:int, nlint:int).
   output: fatal(0/1) exit-code count key-order(list str) same-under-3-schedules(0/1) *)
let rec mk n tag = if n = 0 then [] else (tag @ [n_of_int n]) :: mk (n - 1) tag
let read_file () =
  let name = read_str () in let fatal = read_bool () in let np = next_int () in let nl = next_int () in
  { Dlint.fr_path = name; fr_fatal = fatal; fr_parse = mk np (n_of_int 80 :: name); fr_lint = mk nl (n_of_int 76 :: name) }
let run () =
  let files = read_list read_file in
  let workers = L.map Dlint.worker files in
  let sched1 = L.concat workers in
  let sched2 = L.concat (L.rev workers) in
  (* all first actions (Add), then all second actions (Insert) in reverse thread order *)
  let firsts = L.concat (L.map (fun w -> match w with a :: _ -> [a] | [] -> []) workers) in
  let seconds = L.concat (L.rev (L.map (fun w -> match w with _ :: t -> t | [] -> []) workers)) in
  let sched3 = firsts @ seconds in
  let r1 = Dlint.dlint_run files sched1 in
  let r2 = Dlint.dlint_run files sched2 in
  let r3 = Dlint.dlint_run files sched3 in
  let (out, code) = r1 in
  let st = Dlint.run_actions sched1 in
  (match out with None -> out_int 1 | Some _ -> out_int 0);
  out_n code;
  out_n st.Dlint.counter;
  out_list (fun (k, _) -> out_str k) st.Dlint.fmap;
  out_bool (r1 = r2 && r2 = r3)
let () = main [("run", run)]
