open Common
(* input: opt(list str) default_factory, opt(list str) default_fragment, opt pragma_factory, opt pragma_fragment,
          has_element, has_fragment, list str declared, list str used  -> list str unused *)
let run () =
  let ol () = read_opt (fun () -> read_list read_str) in
  let df = ol () in let dg = ol () in let pf = ol () in let pg = ol () in
  let he = read_bool () in let hf = read_bool () in
  let decl = read_list read_str in let used = read_list read_str in
  let c = { Factory.default_factory = df; default_fragment = dg } in
  let f = { Factory.pragma_factory = pf; pragma_fragment = pg; has_element = he; has_fragment = hf; declared = decl; used = used } in
  out_list out_str (Factory.unused c f)
let () = main [("unused", run)]
