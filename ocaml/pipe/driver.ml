open Common
(* ---------------- pipeline ---------------- *)
let read_comment () =
  let line = read_bool () in let text = read_str () in let s = read_n () in let e = read_n () in
  { Directive.c_line = line; c_text = text; c_start = s; c_end = e }
let read_diag () =
  let code = read_str () in
  let range = read_opt (fun () -> let s = read_n () in let e = read_n () in (s, e)) in
  let msg = read_str () in
  { Pipeline.d_code = code; d_range = range; d_msg = msg }
let out_diag (d : Pipeline.diag) =
  out_str d.Pipeline.d_code;
  out_opt (fun (s, e) -> out_n s; out_n e) d.Pipeline.d_range;
  out_str d.Pipeline.d_msg

let run_pipe () =
  let fw = read_opt read_str in
  let lw = read_opt read_str in
  let rules = read_list read_str in
  let all_codes = read_list read_str in
  let leading = read_list read_comment in
  let comments = read_list read_comment in
  let nls = read_list read_n in
  let rule_diags = read_list read_diag in
  let ext = (match next_int () with
    | 0 -> Pipeline.NoCallback
    | 1 -> Pipeline.Declined
    | _ -> let ds = read_list read_diag in let cs = read_list read_str in Pipeline.ExtResult (ds, cs)) in
  let orc = if next_int () = 0 then Pipeline.id_oracle else Pipeline.rev_oracle in
  let o = { Pipeline.o_file_word = fw; o_line_word = lw; o_rules = rules; o_all_codes = all_codes } in
  let f = { Pipeline.f_leading = leading; f_comments = comments; f_nls = nls } in
  let res = Pipeline.lint_inner o orc f rule_diags ext in
  out_list out_diag res

(* word text is_line -> 0 (not a directive) | 1 codes | 2 (panic) *)
let run_dirparse () =
  let w = read_str () in
  let text = read_str () in
  let line = read_bool () in
  match Directive.parse_comment w { Directive.c_line = line; c_text = text; c_start = BinNums.N0; c_end = BinNums.N0 } with
  | Directive.PPanic -> out_int 2
  | Directive.POk None -> out_int 0
  | Directive.POk (Some d) -> out_int 1; out_list out_str d.Directive.dir_codes

let () = main [("pipe", run_pipe); ("dirparse", run_dirparse)]
