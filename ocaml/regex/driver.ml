open Common
(* Driver of the extracted regex-validator model.
   (the leading token of seq/rule/dirty is the former debug_build flag: still read, ignored since the digit
   accumulators saturate identically in debug and release builds)
   seq  : _  n (pattern:str u:0/1)*n     -> per item: 0 | 1 <msgclass> | 2 <site> | 3 | 4 (not reached after a panic)
   rule : _  n (pattern:str flags:opt str)*n   (flags absent = not a string literal) -> per item: 0 no report | 1 report | 2 panic | 3 fuel | 4 not reached
   flags: flags:str                      -> 0 ok | 1 <msgclass>
   dirty: _  pattern:str flags:opt str   -> like rule for one regex, starting from RuleDecision.dirty_vst *)
let out_decision (d : RuleDecision.decision option) =
  match d with
  | None -> out_int 4
  | Some RuleDecision.NoReport -> out_int 0
  | Some RuleDecision.Report -> out_int 1
  | Some (RuleDecision.RulePanic _) -> out_int 2
  | Some RuleDecision.RuleFuel -> out_int 3

let run_seq () =
  let _ = read_bool () in
  let items = read_list (fun () -> let p = read_str () in let u = read_bool () in (p, u)) in
  L.iter (fun o ->
      match o with
      | RuleDecision.SOk -> out_int 0
      | RuleDecision.SErr m -> out_int 1; out_n m
      | RuleDecision.SPanic p -> out_int 2; out_n p
      | RuleDecision.SFuel -> out_int 3
      | RuleDecision.SNotReached -> out_int 4)
    (RuleDecision.validate_seq Validator.init_vst items)

let run_rule () =
  let _ = read_bool () in
  let items = read_list (fun () -> let p = read_str () in let f = read_opt read_str in (p, f)) in
  L.iter out_decision (RuleDecision.check_file Validator.init_vst items)

let run_flags () =
  let f = read_str () in
  match RuleDecision.validate_flags f with
  | None -> out_int 0
  | Some m -> out_int 1; out_n m

let run_dirty () =
  let _ = read_bool () in
  let p = read_str () in
  let f = read_opt read_str in
  let (d, _) = RuleDecision.check_regex RuleDecision.dirty_vst p f in
  out_decision (Some d)

(* frag: pattern:str (code points) -> <in_fragment without u> <in_fragment with u> <recognises without u> <recognises with u> <in_grammar without u> <in_grammar with u>  (0/1 each)
   (the recogniser of the grammar fragment, Regex/FragParser.v) *)
let run_frag () =
  let s = read_str () in
  (* the units the validator reads: code points with u, UTF-16 code units without *)
  let sn = Reader.visible_units s false and su = Reader.visible_units s true in
  out_bool (FragParser.in_fragment false sn); out_bool (FragParser.in_fragment true su);
  out_bool (FragParser.recognises false sn); out_bool (FragParser.recognises true su);
  out_bool (FragParser.in_grammar false sn); out_bool (FragParser.in_grammar true su)

let () = main [("seq", run_seq); ("rule", run_rule); ("flags", run_flags); ("dirty", run_dirty); ("frag", run_frag)]
