open Common
(* input: registry (list of rule = code tags prio), opt tags, opt exclude, opt include
   output: selected codes; run order of the selected rules *)
let read_rule () =
  let code = read_str () in let tags = read_list read_str in let prio = read_n () in
  { Select.r_code = code; r_tags = tags; r_prio = prio }
let run_select () =
  let all = read_list read_rule in
  let t = read_opt (fun () -> read_list read_str) in
  let x = read_opt (fun () -> read_list read_str) in
  let i = read_opt (fun () -> read_list read_str) in
  let sel = Select.filtered_rules all t x i in
  out_list (fun r -> out_str r.Select.r_code) sel;
  out_list (fun r -> out_str r.Select.r_code) (Select.sort_rules_by_priority sel)
(* input: list of rules in supplied order -> run order *)
let run_order () =
  let rs = read_list read_rule in
  out_list (fun r -> out_str r.Select.r_code) (Select.sort_rules_by_priority rs)
let run_recommended () =
  let all = read_list read_rule in
  out_list (fun r -> out_str r.Select.r_code) (Select.recommended_rules all)
let () = main [("select", run_select); ("order", run_order); ("recommended", run_recommended)]
