open Common
(* ---------------- text-rule models (C03/C09) and fix builders / application (C13) ----------------
   Strings are code-point lists (count followed by items); byte strings likewise (items 0..255).
   Sub-commands (one case per line):
     prefer_ascii  STR                      -> count (char start end)*
     irregular     STR count (s e)*         -> 0 (slice panic) | 1 count (s e)*
     offsets       STR                      -> count offsets*            (char boundaries = prefix sums)
     apply         BYTES count (s e BYTES)* -> valid(0/1) OPT(BYTES)      (changes are sorted by (s,e) first)
     build         TAG args                 -> see below; a change is printed as  s e STR   (builders of the repaired tree)
        1 curly_attr s e V           -> OPT(CHANGE)     2 curly_child s e V      -> OPT(CHANGE)
        3 missing_curly s e EL       -> CHANGE          4 entities s e TEXT      -> reported(0/1) CHANGE
        5 boolean OPT(prev_end) eq_start expr_end OPT(next char) -> CHANGE
        6 spread OPT(open: is_lbrace start end) OPT(close: is_rbrace start end) OPT(prev_tok_end) -> OPT(CHANGE)
        7 rename s e                 -> CHANGE
        8 process is_cjs OPT(last_import_end) code_start  -> OPT(CHANGE)
        9 node_global is_cjs NAME OPT(last_import_end) code_start s e -> OPT(OPT(CHANGE))  (outer: name known)
       10 vms_all kw_end count (OPT(a b))* -> OPT(count CHANGE* )
       11 vms_spec named_with_ident_name start -> OPT(CHANGE)
       historic builders (before the fix commits):
       21 curly_attr_before_fix s e V -> CHANGE         25 boolean_before_fix OPT(prev_end) eq_start expr_end -> CHANGE
       26 spread_before_fix s e       -> OPT(CHANGE)
     pred          TAG STR                  -> 0/1
        1 jsx_attr_string  2 jsx_text  3 ident  4 import line (leading nl)  5 import line (trailing nl)  6 import line (no nl)
        7 braces balanced                                                                                   *)
let read_rng () = let s = read_n () in let e = read_n () in (s, e)
let out_rng (s, e) = out_n s; out_n e
let out_change ((s, e), t) = out_n s; out_n e; out_str t

let run_prefer_ascii () =
  let cs = read_str () in
  out_list (fun ((c, s), e) -> out_n c; out_n s; out_n e) (PreferAscii.prefer_ascii cs)

let run_irregular () =
  let cs = read_str () in
  let toks = read_list read_rng in
  match Irregular.irregular cs toks with
  | Irregular.IrrPanic -> out_int 0
  | Irregular.IrrOk ds -> out_int 1; out_list out_rng ds

let run_offsets () = let cs = read_str () in out_list out_n (Utf.utf8_offsets cs)

let run_apply () =
  let text = read_str () in
  let chs = read_list (fun () -> let s = read_n () in let e = read_n () in let t = read_str () in ((s, e), t)) in
  let sorted = FixApply.ch_sort chs in
  out_bool (FixApply.valid_changes (Utf.len text) sorted);
  out_opt out_str (FixApply.apply_sorted text chs)

let read_tok () = let b = read_bool () in let s = read_n () in let e = read_n () in ((b, s), e)
let run_build () =
  match next_int () with
  | 1 -> let s = read_n () in let e = read_n () in let v = read_str () in out_opt out_change (FixBuilders.curly_attr_change s e v)
  | 2 -> let s = read_n () in let e = read_n () in let v = read_str () in
         out_opt (fun t -> out_change ((s, e), t)) (FixBuilders.curly_child_fix v)
  | 3 -> let s = read_n () in let e = read_n () in let el = read_str () in out_change ((s, e), FixBuilders.missing_curly_fix el)
  | 4 -> let s = read_n () in let e = read_n () in let t = read_str () in
         out_bool (FixBuilders.entities_reported t); out_change ((s, e), FixBuilders.escape t)
  | 5 -> let p = read_opt read_n in let q = read_n () in let e = read_n () in let nx = read_opt read_n in
         out_change (FixBuilders.boolean_change p q e nx)
  | 6 -> let o = read_opt read_tok in let c = read_opt read_tok in let p = read_opt read_n in
         out_opt out_change (FixBuilders.spread_change o c p)
  | 7 -> let s = read_n () in let e = read_n () in out_change (FixBuilders.rename_change s e)
  | 8 -> let cjs = read_bool () in let l = read_opt (fun () -> let p = read_n () in let i = read_bool () in (p, i)) in let c = read_n () in
         out_opt out_change (FixBuilders.process_change cjs l c)
  | 9 -> let cjs = read_bool () in let name = read_str () in let l = read_opt (fun () -> let p = read_n () in let i = read_bool () in (p, i)) in let c = read_n () in
         let s = read_n () in let e = read_n () in
         out_opt (out_opt out_change) (FixBuilders.node_global_change cjs name l c s e)
  | 10 -> let k = read_n () in let spans = read_list (fun () -> read_opt read_rng) in
          out_opt (out_list out_change) (FixBuilders.vms_all_changes k spans)
  | 11 -> let b = read_bool () in let s = read_n () in out_opt out_change (FixBuilders.vms_spec_change b s)
  | 21 -> let s = read_n () in let e = read_n () in let v = read_str () in
          out_change ((s, e), FixBuilders.curly_attr_fix_before_fix v)
  | 25 -> let p = read_opt read_n in let q = read_n () in let e = read_n () in
          out_change (FixBuilders.boolean_change_before_fix p q e)
  | 26 -> let s = read_n () in let e = read_n () in out_opt out_change (FixBuilders.spread_change_before_fix s e)
  | _ -> failwith "build tag"

let run_pred () =
  let tag = next_int () in
  let s = read_str () in
  out_bool (match tag with
    | 1 -> FixBuilders.jsx_attr_stringb s
    | 2 -> FixBuilders.jsx_textb s
    | 3 -> FixBuilders.identb s
    | 4 -> FixBuilders.import_line_ok FixBuilders.NlLeading s
    | 5 -> FixBuilders.import_line_ok FixBuilders.NlTrailing s
    | 6 -> FixBuilders.import_line_ok FixBuilders.NlNone s
    | 7 -> FixBuilders.braces_balanced s
    | 8 -> FixBuilders.import_line_ok FixBuilders.NlInline s
    | _ -> failwith "pred tag")

let () = main [("prefer_ascii", run_prefer_ascii); ("irregular", run_irregular); ("offsets", run_offsets);
               ("apply", run_apply); ("build", run_build); ("pred", run_pred)]
