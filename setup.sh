#!/bin/bash
# One-time build after a fresh restore (offline): harness, Coq development, extracted model drivers.
set -e
cd "$(dirname "$0")"
export CARGO_NET_OFFLINE=true RUST_BACKTRACE=0
[ -f harness/Cargo.lock ] || cp /repo/Cargo.lock harness/Cargo.lock
(cd harness && cargo build --release --offline --quiet)
python3 tools/coqbuild all || echo "WARNING: some Coq files did not build (each check rebuilds what it needs)"
(cd /repo && cargo build --release --example dlint --offline --quiet --target-dir /verif/work/target-dlint)
(cd ocaml && make -s -k -j4) || echo "WARNING: some model drivers did not build"
echo setup done
