# C10/C11 - control-flow analyzer: generators, printer, model/implementation comparison, property oracles.
#
#   python3 tools/cf.py            -> compare_all("quick", 1) and a summary
#
# Programs are python tuples:
#   stmt := ('expr', E) | ('empty',) | ('var', is_var, E|None) | ('fn', name, [stmt]) | ('arrow', [stmt])
#         | ('ret', E|None) | ('throw', E) | ('brk', label|None) | ('cont', label|None) | ('block', [stmt])
#         | ('if', C, stmt) | ('ifelse', C, stmt, stmt) | ('while', C, stmt) | ('dowhile', stmt, C)
#         | ('for', C|None, stmt[, E|None, E|None])   `for (init; test; update) stmt` (init / update optional 4th / 5th component) | ('forin', stmt) | ('forof', stmt) | ('switch', [(test, ft_comment, [stmt])])   test := E | None (= default)
#         | ('label', l, stmt) | ('try', [stmt], [stmt]|None, [stmt]|None)
#         | ('gstmt', [stmt])                         `({get a() {...}});`  an object literal with a getter, as a statement
#         | ('forhead', is_getter, [stmt], stmt)      `for (const [k = FN] of o) stmt`, FN = `() => {...}` / `{get a() {...}}`
#   E := ('id', n) | ('call', n) | ('lit',) | ('this',) | ('spread', n)  `[...vN]` | ('computed', n)  `({[vN]: 1})`
#   C := ('T',) | ('F',) | ('O', E) | ('S', E, bool)  `(E, true)` / `E || true` / `(E, false)` / `E && false`
#      | ('U',)  always truthy, swc's cast_to_bool says Unknown (`` `a` ``, `!!!!1`)
#      | ('G', text)  only in the fixed dependency corpus: NaN-valued arithmetic (falsy; swc says Known(true))
#   program := (wrapper, [stmt])   wrapper in 'fn' | 'getter' | 'switch'
# The printer produces the JS source, and - in the same pass - the token line for the extracted Coq model
# (see ocaml/cf/driver.ml for the format), with the byte offsets swc gives to each node.
import sys, os, time, random, itertools, json
sys.path.insert(0, os.path.dirname(os.path.abspath(__file__)))
from lib import *

RULES = ["no-unreachable", "getter-return", "no-fallthrough"]
# repairs switched on in the model = the code as it is now: fix commits A (1), B (2), D (8), E (16) and F (32); C (4) is a known finding
DEFAULT_MASK = 59
T_CALL = 999   # `v999();` - the statement of the second case of the switch wrapper

# ----------------------------------------------------------------------------
# printer
# ----------------------------------------------------------------------------
# spellings for which swc's cast_to_bool answers Known(true) and that are visited like a literal (pure, no map entries)
TRUE_SP = ["true", "1", "!0", "true", '"a"', "!null", "((1))", "[]", "1n", "/a/", "({})", "!!1", "!!!0", "1 - 2", "1 / 0", '"" + "a"',
           "!undefined", "true", "1"]
# always falsy (Known(false) or Unknown - mod.rs only asks for Known(true))
FALSE_SP = ["false", "0", "!1", "null", "void 0", '""', "``", "!!!!0", "0n", "false"]
# always truthy, but cast_to_bool = Unknown (template literal, nesting deeper than swc's remaining_depth, conditional)
UNK_TRUE_SP = ["`a`", "!!!!1", "1 ? 1 : 1", "`a${1}`"]
# (before E, after E): evaluates E, value is the constant
SEQ_TRUE_SP = [("(", ", true)"), ("", " || true"), ("(", ", 1)"), ("", " || 1")]
SEQ_FALSE_SP = [("(", ", false)"), ("", " && false"), ("(", ", 0)")]
# a call whose value decides: cast_to_bool = Unknown, visited like the call itself
OPAQUE_CALL_SP = [("", ""), ("", ""), ("true && ", ""), ("", " && 1"), ("!", ""), ("0 || ", "")]
LIT_SP = ["1", "0", "null", "2.5", "[1]", "({a: 1})", "1"]
# heads of a for-in/of with a default value FN: (text before FN, text after FN up to the `in`/`of` keyword)
HEAD_SP = [("const [k = ", "]"), ("const {k = ", "}"), ("var [k = ", "]"), ("let [, k = ", "]"), ("[k = ", "]"), ("const {a: [k = ", "]}")]


class Printer:
    def __init__(self, rng=None):
        self.buf = []
        self.n = 0
        self.toks = []
        self.rng = rng
        self.nvar = 0

    def pick(self, xs):
        return xs[0] if self.rng is None else xs[self.rng.randrange(len(xs))]

    def w(self, s):
        self.buf.append(s)
        self.n += len(s)

    def t(self, *xs):
        self.toks.extend(int(x) for x in xs)

    def sep(self):
        self.w(self.pick([" ", " ", "\n", "  "]))

    def expr(self, e):
        if e[0] == 'id':
            self.t(0, e[1]); self.w("v%d" % e[1])
        elif e[0] == 'call':
            self.t(1, e[1]); self.w("v%d()" % e[1])
        elif e[0] == 'this':
            self.t(3); self.w("this")
        elif e[0] == 'spread':
            self.t(4, e[1]); self.w("[...v%d]" % e[1])
        elif e[0] == 'computed':
            self.t(5, e[1]); self.w("({[v%d]: 1})" % e[1])
        else:
            self.t(2); self.w(self.pick(LIT_SP))

    def oexpr(self, e):
        if e is None:
            self.t(0)
        else:
            self.t(1); self.expr(e)

    def cond(self, c):
        if c[0] == 'T':
            self.t(0); self.w(self.pick(TRUE_SP))
        elif c[0] == 'F':
            self.t(1); self.w(self.pick(FALSE_SP))
        elif c[0] == 'S':
            pre, post = self.pick(SEQ_TRUE_SP if c[2] else SEQ_FALSE_SP)
            self.t(3); self.w(pre); self.expr(c[1]); self.w(post); self.t(1 if c[2] else 0)
        elif c[0] == 'U':
            self.t(4); self.w(self.pick(UNK_TRUE_SP))
        elif c[0] == 'G':
            # dependency corpus only: the value is NaN (falsy) - for the semantics this is CFalse
            self.t(1); self.w(c[1])
        else:
            # opaque: an identifier, or a call possibly under operators that keep the value unknown to swc
            pre, post = self.pick(OPAQUE_CALL_SP) if c[1][0] == 'call' else ("", "")
            self.t(2); self.w(pre); self.expr(c[1]); self.w(post)

    def stmts(self, l):
        self.t(len(l))
        for s in l:
            self.stmt(s)
            self.sep()

    def block(self, l):
        """`{ ... }` ; returns nothing, the caller records the offset of `{` before calling"""
        self.w("{"); self.sep(); self.stmts(l); self.w("}")

    def stmt(self, s):
        k = s[0]
        p = self.n
        if k == 'expr':
            self.t(0, p); self.expr(s[1]); self.w(";")
        elif k == 'empty':
            self.t(1, p); self.w(";")
        elif k == 'var':
            self.nvar += 1
            self.t(2, p, 1 if s[1] else 0)
            self.w("%s w%d" % ("var" if s[1] else "let", self.nvar))
            if s[2] is None:
                self.t(0)
            else:
                self.t(1); self.w(" = "); self.expr(s[2])
            self.w(";")
        elif k == 'fn':
            self.w("function v%d() " % s[1])
            self.t(3, p, s[1], self.n); self.block(s[2])
        elif k == 'arrow':
            self.w("() => ")
            self.t(4, p, self.n); self.block(s[1]); self.w(";")
        elif k == 'ret':
            self.t(5, p); self.w("return")
            if s[1] is None:
                self.t(0)
            else:
                self.t(1); self.w(" "); self.expr(s[1])
            self.w(";")
        elif k == 'throw':
            self.t(6, p); self.w("throw "); self.expr(s[1]); self.w(";")
        elif k in ('brk', 'cont'):
            self.t(7 if k == 'brk' else 8, p)
            self.w("break" if k == 'brk' else "continue")
            if s[1] is None:
                self.t(0)
            else:
                self.t(1, s[1]); self.w(" L%d" % s[1])
            self.w(";")
        elif k == 'block':
            self.t(9, p); self.block(s[1])
        elif k == 'if':
            self.t(10, p); self.w("if ("); self.cond(s[1]); self.w(") "); self.stmt(s[2])
        elif k == 'ifelse':
            self.t(11, p); self.w("if ("); self.cond(s[1]); self.w(") "); self.stmt(s[2])
            self.sep(); self.w("else "); self.stmt(s[3])
        elif k == 'while':
            self.t(12, p); self.w("while ("); self.cond(s[1]); self.w(") "); self.stmt(s[2])
        elif k == 'dowhile':
            self.t(13, p); self.w("do "); self.stmt(s[1]); self.w(" while ("); self.cond(s[2]); self.w(");")
        elif k == 'for':
            init = s[3] if len(s) > 3 else None
            upd = s[4] if len(s) > 4 else None
            self.t(14, p); self.w("for (")
            self.oexpr(init)
            self.w(";")
            if s[1] is None:
                self.t(0)
            else:
                self.t(1); self.w(" "); self.cond(s[1])
            self.w(";")
            if upd is not None:
                self.w(" ")
            self.oexpr(upd)
            self.w(") "); self.stmt(s[2])
        elif k in ('forin', 'forof'):
            self.t(15 if k == 'forin' else 16, p)
            self.w("for (var k %s o) " % ("in" if k == 'forin' else "of")); self.stmt(s[1])
        elif k == 'gstmt':
            self.w("({")
            gp = self.n
            self.w("get a() ")
            self.t(20, p, gp, self.n); self.block(s[1]); self.w("});")
        elif k == 'forhead':
            pre, post = self.pick(HEAD_SP)
            self.w("for (" + pre)
            if s[1]:
                self.w("{")
                fp = self.n
                self.w("get a() ")
            else:
                fp = self.n
                self.w("() => ")
            self.t(21, p, 1 if s[1] else 0, fp, self.n); self.block(s[2])
            if s[1]:
                self.w("}")
            self.w(post + self.pick([" of o) ", " in o) ", " of o) "])); self.stmt(s[3])
        elif k == 'switch':
            self.t(17, p); self.w("switch (d) {"); self.sep()
            self.cases(s[1])
            self.w("}")
        elif k == 'label':
            self.t(18, p, s[1]); self.w("L%d: " % s[1]); self.stmt(s[2])
        elif k == 'try':
            self.w("try ")
            self.t(19, p, self.n); self.block(s[1])
            if s[2] is None:
                self.t(0, 0)
            else:
                self.w(" ")
                cp = self.n
                self.w(self.pick(["catch (e) ", "catch "]))
                self.t(1, cp, self.n); self.block(s[2])
            if s[3] is None:
                self.t(0, 0)
            else:
                self.w(" finally ")
                self.t(1, self.n); self.block(s[3])
        else:
            raise ValueError(k)

    def cases(self, cs):
        self.t(len(cs))
        for idx, (test, ft, body) in enumerate(cs):
            self.t(self.n)
            if test is None:
                self.t(0); self.w("default:")
            else:
                self.w("case ")
                self.t(1)
                if test[0] == 'lit':
                    # distinct literal tests: a number or a string
                    self.t(2); self.w(self.pick(["%d" % idx, "%d" % idx, '"s%d"' % idx, "%d.5" % idx]))
                else:
                    self.expr(test)
                self.w(":")
            self.t(1 if ft else 0)
            self.w(" ")
            self.t(len(body))
            for j, s in enumerate(body):
                self.stmt(s)
                if j + 1 < len(body):
                    self.sep()
            if ft:
                # trailing comment of the last statement, or leading comment of the next case
                self.w(self.pick([" /* falls through */ ", "\n// fallthrough\n", " // fall through\n"]))
            else:
                self.sep()


def print_program(prog, rng=None):
    """-> (source, program tokens (without the fix mask), p_pb)"""
    wrapper, body = prog
    pr = Printer(rng)
    if wrapper == 'getter':
        pr.w("({")
        start = pr.n
        pr.w("get a() ")
        pr.t(1, start, pr.n)
        pb = pr.n
        pr.block(body)
        pr.w("})")
    else:
        pr.w("function f() ")
        pr.t(0, 0, pr.n)
        pb = pr.n
        if wrapper == 'switch':
            sw = ('switch', [(('lit',), False, body), (('lit',), False, [('expr', ('call', T_CALL))])])
            pr.block([sw])
        else:
            pr.block(body)
    return "".join(pr.buf), " ".join(map(str, pr.toks)), pb


# ----------------------------------------------------------------------------
# Coq term of a program (for witnesses in the proof files)
# ----------------------------------------------------------------------------
def coq_term(prog):
    """Gallina term of type `program` for the printed program (offsets as the printer computes them)."""
    toks = [int(x) for x in print_program(prog)[1].split()]
    i = [0]

    def nx():
        v = toks[i[0]]; i[0] += 1
        return v

    def expr():
        t = nx()
        return ("(EIdent %d)" % nx() if t == 0 else "(ECall %d)" % nx() if t == 1 else "ELit" if t == 2 else "EThis" if t == 3
                else "(ESpread %d)" % nx() if t == 4 else "(EComputed %d)" % nx())

    def opt(f):
        return "(Some %s)" % f() if nx() else "None"

    def cond():
        t = nx()
        if t == 3:
            e = expr()
            return "(CSeq %s %s)" % (e, "true" if nx() else "false")
        return "CTrue" if t == 0 else "CFalse" if t == 1 else "CUnkTrue" if t == 4 else "(COpaque %s)" % expr()

    def num():
        return str(nx())

    def stmts():
        n = nx()
        items = [stmt() for _ in range(n)]
        out = "SNil"
        for it in reversed(items):
            out = "(SCons %s %s)" % (it, out)
        return out

    def cases():
        n = nx()
        items = []
        for _ in range(n):
            cp = nx()
            d = opt(expr)
            ft = nx()
            items.append((cp, d, ft, stmts()))
        out = "CNil"
        for cp, d, ft, b in reversed(items):
            out = "(CCons %d %s %s %s %s)" % (cp, d, "true" if ft else "false", b, out)
        return out

    def stmt():
        t, p = nx(), nx()
        if t == 0: return "(SExpr %d %s)" % (p, expr())
        if t == 1: return "(SEmpty %d)" % p
        if t == 2:
            v = nx()
            return "(SVar %d %s %s)" % (p, "true" if v else "false", opt(expr))
        if t == 3:
            n, pb = nx(), nx()
            return "(SFnDecl %d %d %d %s)" % (p, n, pb, stmts())
        if t == 4:
            pb = nx()
            return "(SArrowStmt %d %d %s)" % (p, pb, stmts())
        if t == 5: return "(SRet %d %s)" % (p, opt(expr))
        if t == 6: return "(SThrow %d %s)" % (p, expr())
        if t == 7: return "(SBrk %d %s)" % (p, opt(num))
        if t == 8: return "(SCont %d %s)" % (p, opt(num))
        if t == 9: return "(SBlock %d %s)" % (p, stmts())
        if t == 10:
            c = cond(); return "(SIf %d %s %s)" % (p, c, stmt())
        if t == 11:
            c = cond(); a = stmt(); return "(SIfElse %d %s %s %s)" % (p, c, a, stmt())
        if t == 12:
            c = cond(); return "(SWhile %d %s %s)" % (p, c, stmt())
        if t == 13:
            b = stmt(); return "(SDoWhile %d %s %s)" % (p, b, cond())
        if t == 14:
            i = opt(expr); c = opt(cond); u = opt(expr); return "(SFor %d %s %s %s %s)" % (p, i, c, u, stmt())
        if t == 15: return "(SForIn %d %s)" % (p, stmt())
        if t == 16: return "(SForOf %d %s)" % (p, stmt())
        if t == 17: return "(SSwitch %d %s)" % (p, cases())
        if t == 18:
            l = nx(); return "(SLabel %d %d %s)" % (p, l, stmt())
        if t == 19:
            bp = nx(); blk = stmts()
            h = "(Some (%d, %d))" % (nx(), nx()) if nx() else "None"
            hb = stmts()
            f = "(Some %d)" % nx() if nx() else "None"
            fb = stmts()
            return "(STry %d %d %s %s %s %s %s)" % (p, bp, blk, h, hb, f, fb)
        if t == 20:
            gp, pb = nx(), nx()
            return "(SGetterStmt %d %d %d %s)" % (p, gp, pb, stmts())
        if t == 21:
            g, fp, pb = nx(), nx(), nx()
            hb = stmts()
            return "(SForHead %d %s %d %d %s %s)" % (p, "true" if g else "false", fp, pb, hb, stmt())
        raise ValueError(t)

    g, ps, pb = nx(), nx(), nx()
    body = stmts()
    return "{| p_getter := %s; p_start := %d; p_pb := %d; p_body := %s |}" % ("true" if g else "false", ps, pb, body)


# ----------------------------------------------------------------------------
# random generator
# ----------------------------------------------------------------------------
class Ctx:
    __slots__ = ("brk", "cont", "labels", "loop_labels", "depth")

    def __init__(self, brk=False, cont=False, labels=(), loop_labels=(), depth=0):
        self.brk, self.cont, self.labels, self.loop_labels, self.depth = brk, cont, labels, loop_labels, depth


def dangling(s):
    k = s[0]
    if k == 'if':
        return True
    if k == 'ifelse':
        return dangling(s[3])
    if k in ('while', 'for'):
        return dangling(s[2])
    if k in ('forin', 'forof'):
        return dangling(s[1])
    if k == 'forhead':
        return dangling(s[3])
    if k == 'label':
        return dangling(s[2])
    return False


class Gen:
    def __init__(self, rng, max_depth=6):
        self.r = rng
        self.max_depth = max_depth
        self.budget = 0
        self.nlabel = 0
        self.fn_names = set()
        self.profile = rng.choice(["plain", "jumps", "try", "mixed", "mixed", "fn"])

    def expr(self):
        x = self.r.random()
        if x < 0.38:
            return ('call', self.r.randrange(1, 6))
        if x < 0.76:
            return ('id', self.r.randrange(1, 6))
        if x < 0.87:
            return ('lit',)
        if x < 0.92:
            return ('spread', self.r.randrange(1, 6))
        if x < 0.96:
            return ('computed', self.r.randrange(1, 6))
        return ('this',)

    def case_test(self):
        x = self.r.random()
        if x < 0.55:
            return ('lit',)
        if x < 0.75:
            return ('id', self.r.randrange(1, 6))
        if x < 0.88:
            return ('call', self.r.randrange(1, 6))
        if x < 0.94:
            return self.r.choice([('spread', self.r.randrange(1, 6)), ('computed', self.r.randrange(1, 6))])
        return ('this',)

    def cond(self):
        x = self.r.random()
        if x < 0.27:
            return ('T',)
        if x < 0.36:
            return ('F',)
        if x < 0.46:
            return ('S', self.expr(), self.r.random() < 0.75)
        if x < 0.50:
            return ('U',)
        if x < 0.78:
            return ('O', ('id', self.r.randrange(1, 6)))
        return ('O', ('call', self.r.randrange(1, 6)))

    def weights(self, ctx, in_list):
        p = self.profile
        jump = 6 if p in ("jumps", "mixed") else 3
        w = {
            'expr': 8, 'ret': 4, 'throw': 3, 'empty': 1, 'var': 2,
            'brk': jump if ctx.brk else 0, 'cont': jump if ctx.cont else 0,
            'brkl': jump if ctx.labels else 0, 'contl': jump if ctx.loop_labels else 0,
        }
        if ctx.depth < self.max_depth and self.budget > 1:
            t = 7 if p in ("try", "mixed") else 2
            w.update({'block': 4, 'if': 6, 'ifelse': 5, 'while': 4, 'dowhile': 5 if p != "plain" else 2, 'for': 4,
                      'forin': 1, 'forof': 1, 'switch': 3, 'label': jump + 1, 'try': t, 'arrow': 2 if p == "fn" else 0.3,
                      'gstmt': 2 if p == "fn" else 0.5, 'forhead': 2.5 if p == "fn" else 0.7})
            if in_list:
                w['fn'] = 3 if p == "fn" else 0.4
        return w

    def stmt(self, ctx, in_list=False, mine=()):
        self.budget -= 1
        w = self.weights(ctx, in_list)
        ks = list(w)
        k = self.r.choices(ks, [w[x] for x in ks])[0]
        r = self.r
        d = ctx.depth + 1
        sub = Ctx(ctx.brk, ctx.cont, ctx.labels, ctx.loop_labels, d)
        loop = Ctx(True, True, ctx.labels, tuple(mine) + ctx.loop_labels, d)
        if k == 'expr':
            return ('expr', self.expr())
        if k == 'empty':
            return ('empty',)
        if k == 'var':
            isv = (not in_list) or r.random() < 0.6
            init = None if r.random() < 0.5 else self.expr()
            return ('var', isv, init)
        if k == 'ret':
            return ('ret', None if r.random() < 0.3 else self.expr())
        if k == 'throw':
            return ('throw', self.expr())
        if k == 'brk':
            return ('brk', None)
        if k == 'cont':
            return ('cont', None)
        if k == 'brkl':
            return ('brk', r.choice(ctx.labels))
        if k == 'contl':
            return ('cont', r.choice(ctx.loop_labels))
        if k == 'block':
            return ('block', self.stmts(sub))
        if k == 'if':
            return ('if', self.cond(), self.stmt(sub))
        if k == 'ifelse':
            c = self.cond()
            a = self.stmt(sub)
            if dangling(a):
                a = ('block', [a])
            return ('ifelse', c, a, self.stmt(sub))
        if k == 'while':
            return ('while', self.cond(), self.stmt(loop))
        if k == 'dowhile':
            b = self.stmt(loop)
            return ('dowhile', b, self.cond())
        if k == 'for':
            c = None if r.random() < 0.5 else self.cond()
            body = self.stmt(loop)
            init = self.expr() if r.random() < 0.3 else None
            upd = self.expr() if r.random() < 0.45 else None
            return ('for', c, body, init, upd) if (init is not None or upd is not None) else ('for', c, body)
        if k in ('forin', 'forof'):
            return (k, self.stmt(loop))
        if k == 'switch':
            n = r.randrange(0, 4)
            dflt = r.randrange(0, n + 1) if r.random() < 0.5 else -1
            sw = Ctx(True, ctx.cont, ctx.labels, ctx.loop_labels, d)
            cs = []
            for i in range(n):
                body = self.stmts(sw, lo=0)
                cs.append((None if i == dflt else self.case_test(), r.random() < 0.15, body))
            return ('switch', cs)
        if k == 'label':
            self.nlabel += 1
            l = self.nlabel
            lab = Ctx(ctx.brk, ctx.cont, (l,) + ctx.labels, ctx.loop_labels, d)
            return ('label', l, self.stmt(lab, mine=(l,) + tuple(mine)))
        if k == 'try':
            blk = self.stmts(sub, lo=0)
            x = r.random()
            hb = self.stmts(sub, lo=0) if x < 0.65 else None
            fb = self.stmts(sub, lo=0) if (hb is None or x < 0.25) else None
            return ('try', blk, hb, fb)
        if k == 'gstmt':
            return ('gstmt', self.stmts(Ctx(False, False, (), (), d), lo=0))
        if k == 'forhead':
            hb = self.stmts(Ctx(False, False, (), (), d), lo=0)
            return ('forhead', r.random() < 0.6, hb, self.stmt(loop))
        if k in ('fn', 'arrow'):
            inner = Ctx(False, False, (), (), d)
            body = self.stmts(inner, lo=0)
            if k == 'fn':
                free = [n for n in range(1, 6) if n not in self.fn_names] or [max(self.fn_names | {5}) + 1]
                name = self.r.choice(free)
                self.fn_names.add(name)
                return ('fn', name, body)
            return ('arrow', body)
        raise ValueError(k)

    def stmts(self, ctx, lo=1):
        n = self.r.choice([lo, 1, 1, 2, 2, 3, 4])
        out = []
        for _ in range(n):
            if self.budget <= 0 and len(out) >= lo:
                break
            out.append(self.stmt(ctx, in_list=True))
        return out


def gen_program(rng):
    g = Gen(rng, max_depth=rng.choice([2, 3, 4, 5, 6]))
    g.budget = rng.choice([1, 2, 3, 4, 5, 6, 8, 10, 12, 16, 20, 30, 40])
    wrapper = rng.choice(['fn', 'fn', 'getter', 'switch'])
    top = Ctx(brk=(wrapper == 'switch'))
    body = []
    while g.budget > 0 and len(body) < 8:
        body.append(g.stmt(top, in_list=True))
        if rng.random() < 0.25:
            break
    return (wrapper, body)


# ----------------------------------------------------------------------------
# exhaustive enumeration (seed independent)
# ----------------------------------------------------------------------------
ENUM_ATOMS = [('expr', ('call', 1)), ('expr', ('id', 1)), ('ret', ('lit',)), ('throw', ('lit',)), ('throw', ('id', 1))]
# in the rich layers also: expressions that can throw without being a call, a `return` of one
ENUM_ATOMS_RICH = ENUM_ATOMS + [('ret', ('spread', 1))]
ENUM_CONDS_BASIC = [('T',), ('O', ('id', 2))]
ENUM_CONDS_RICH = ENUM_CONDS_BASIC + [('S', ('call', 1), True)]
# the constructs added later (getter statements, loop heads, throwing constant tests) are enumerated for programs of up
# to 4 statements; the 5-statement layer of the thorough tier keeps the basic forms (it would not fit the time budget)
ENUM_RICH = [True]


def enum_stmt(n, brk, cont, labels, loop_labels, mine=()):
    """all statements with exactly n statement nodes"""
    if n == 1:
        for a in (ENUM_ATOMS_RICH if ENUM_RICH[0] else ENUM_ATOMS):
            yield a
        if brk:
            yield ('brk', None)
        if cont:
            yield ('cont', None)
        for l in labels:
            yield ('brk', l)
        for l in loop_labels:
            yield ('cont', l)
        return
    m = n - 1
    # block / try with one list
    for l in enum_list(m, brk, cont, labels, loop_labels):
        yield ('block', l)
    ll = tuple(mine) + tuple(loop_labels)
    for b in enum_stmt(m, brk, cont, labels, loop_labels):
        yield ('if', ('O', ('id', 2)), b)
    for b in enum_stmt(m, True, True, labels, ll):
        for c in (ENUM_CONDS_RICH if ENUM_RICH[0] else ENUM_CONDS_BASIC):
            yield ('while', c, b)
            yield ('dowhile', b, c)
        yield ('dowhile', b, ('F',))
        yield ('for', None, b)
        if ENUM_RICH[0]:
            yield ('for', None, b, None, ('call', 1))     # for (;; v1()) b
    lab = len(labels) + 1
    for b in enum_stmt(m, brk, cont, (lab,) + tuple(labels), loop_labels, mine=(lab,) + tuple(mine)):
        yield ('label', lab, b)
    # function-likes in expression position: a getter statement; a loop head with a getter (body of the head: i nodes)
    for l in (enum_list(m, False, False, (), ()) if ENUM_RICH[0] else ()):
        yield ('gstmt', l)
    for i in (range(0, m) if ENUM_RICH[0] else ()):
        for hb in enum_list(i, False, False, (), ()):
            for b in enum_stmt(m - i, True, True, labels, ll):
                yield ('forhead', True, hb, b)
    # two-part constructs
    for i in range(1, m):
        for a in enum_stmt(i, brk, cont, labels, loop_labels):
            for b in enum_stmt(m - i, brk, cont, labels, loop_labels):
                yield ('ifelse', ('O', ('id', 2)), ('block', [a]) if dangling(a) else a, b)
    for i in range(0, m + 1):
        for a in enum_list(i, brk, cont, labels, loop_labels):
            for b in enum_list(m - i, brk, cont, labels, loop_labels):
                yield ('try', a, b, None)
                yield ('try', a, None, b)
    # switch with one case / two cases (second is default)
    for a in enum_list(m, True, cont, labels, loop_labels):
        yield ('switch', [(None, False, a)])
        yield ('switch', [(('call', 1), False, a)])
    for i in range(0, m + 1):
        for a in enum_list(i, True, cont, labels, loop_labels):
            for b in enum_list(m - i, True, cont, labels, loop_labels):
                yield ('switch', [(('lit',), False, a), (None, False, b)])


def enum_list(n, brk, cont, labels, loop_labels):
    """all statement lists with exactly n statement nodes in total"""
    if n == 0:
        yield []
        return
    for i in range(1, n + 1):
        for s in enum_stmt(i, brk, cont, labels, loop_labels):
            for r in enum_list(n - i, brk, cont, labels, loop_labels):
                yield [s] + r


def fixed_programs():
    """hand-written programs that are part of every run (seed independent): one trigger per kind of defect found so far,
       in the wrappers that make it visible to each of the three rules"""
    I = lambda n: ('id', n)
    C = lambda n: ('call', n)
    O = lambda n: ('O', ('id', n))
    out = []
    # the update of an endless `for` can throw: handler / code after the try / end of the getter / next case are reachable
    for upd in (C(1), ('spread', 1), ('computed', 1)):
        for test in (None, ('T',)):
            loop = ('for', test, ('if', O(2), ('ret', I(1))), None, upd)
            out.append(('fn', [('try', [loop], [('expr', I(3))], None), ('expr', I(4))]))
            out.append(('getter', [('try', [loop], [], None)]))
            out.append(('switch', [('try', [('for', test, ('if', O(2), ('cont', None)), None, upd)], [], None)]))
    # init of a `for` that can throw
    out.append(('fn', [('try', [('for', None, ('empty',), C(1), None)], [('expr', I(3))], None), ('expr', I(4))]))
    # expressions that can throw without being a call / member / assignment: array spread, computed key
    for e in (('spread', 1), ('computed', 1)):
        out.append(('fn', [('try', [('ret', e)], [], None), ('expr', I(2))]))
        out.append(('fn', [('try', [('var', False, e), ('ret', I(1))], [('expr', I(3))], None), ('expr', I(2))]))
        out.append(('getter', [('try', [('ret', e)], [], None)]))
        out.append(('getter', [('try', [('var', False, e), ('ret', I(1))], [], None)]))
        out.append(('switch', [('try', [('var', False, e), ('brk', None)], [], None)]))
        out.append(('switch', [('try', [('expr', e), ('ret', I(1))], [], None)]))
        out.append(('fn', [('switch', [(e, False, [('ret', I(1))]), (None, False, [('ret', I(2))])])]))
    # a literal / array / object literal cannot throw: the twin programs (analyzer: may throw - over-approximation)
    out.append(('getter', [('try', [('ret', ('lit',))], [], None)]))
    # earlier classes: A (do-while + continue), B (labelled and unlabelled break), D (throw of an identifier in try),
    # E (function-like in a loop head), F (constant-true test that can throw)
    out.append(('fn', [('dowhile', ('try', [('throw', ('lit',))], None, [('cont', None)]), O(2)), ('expr', I(1))]))
    out.append(('fn', [('label', 1, ('block', [('for', None, ('block', [('if', O(1), ('brk', 1)), ('if', O(2), ('brk', None))])), ('expr', C(3))]))]))
    out.append(('fn', [('try', [('throw', I(1))], [], None), ('expr', I(1))]))
    out.append(('fn', [('forhead', True, [], ('empty',))]))
    out.append(('fn', [('forhead', False, [('switch', [(('lit',), False, [('ret', ('lit',))]), (('lit',), False, [('ret', ('lit',))])])], ('empty',))]))
    for loop in (('while', ('S', C(1), True), ('block', [])), ('dowhile', ('block', []), ('S', C(1), True))):
        out.append(('fn', [('try', [loop], [('expr', I(2))], None)]))
        out.append(('getter', [('try', [loop], [], None)]))
        out.append(('switch', [('try', [loop], [], None)]))
    return out


def enum_programs(max_size):
    for n in range(1, max_size + 1):
        ENUM_RICH[0] = n <= 4
        for body in enum_list(n, False, False, (), ()):
            yield ('fn', body)
    ENUM_RICH[0] = True


# ----------------------------------------------------------------------------
# implementation / model runners
# ----------------------------------------------------------------------------
def impl_cf(srcs):
    return run_vh('cf', [{"src": s, "media": "js"} for s in srcs])


def impl_rules(srcs):
    return run_vh('lint', [{"src": s, "media": "js", "rules": RULES} for s in srcs])


def _parse_ints(line):
    if not line or not (line[0].isdigit() or line[0] == '-'):
        raise Infra("model driver: " + line[:200])
    return [int(x) for x in line.split()]


class _Rd:
    def __init__(self, xs):
        self.xs, self.i = xs, 0

    def int(self):
        v = self.xs[self.i]; self.i += 1
        return v

    def list(self, f):
        return [f() for _ in range(self.int())]


def model_analyze(tok_lines, mask=DEFAULT_MASK):
    """-> [{wf, panic, info: {offset: (unreachable, tag, ret, throw, inf)}, nu: [...], gr: [...], nf: [...]}]"""
    outs = run_model('cf', 'analyze', ["%d %s" % (mask, t) for t in tok_lines])
    res = []
    for o in outs:
        r = _Rd(_parse_ints(o))
        wf, panic = r.int(), r.int()
        info = {}
        for _ in range(r.int()):
            k = r.int()
            info[k] = (r.int(), r.int(), r.int(), r.int(), r.int())
        res.append({"wf": wf, "panic": panic, "info": info, "nu": r.list(r.int), "gr": r.list(r.int), "nf": r.list(r.int),
                    "gr_panic": r.int()})
    return res


def model_oracle(tok_lines, mask=DEFAULT_MASK):
    """-> [{wf, c10: [...], getter: 0/1, cases: [...], falls: 0/1, reach: [...]}]"""
    outs = run_model('cf', 'oracle', ["%d %s" % (mask, t) for t in tok_lines])
    res = []
    for o in outs:
        r = _Rd(_parse_ints(o))
        o = {"wf": r.int(), "c10": r.list(r.int), "getter": r.int(), "cases": r.list(r.int),
             "falls": r.int(), "reach": r.list(r.int), "getters": r.list(r.int)}
        # "getters": every getter of the program (the wrapper's one included) that violates C11; "getter": any
        o["getter"] = 1 if (o["getter"] or o["getters"]) else 0
        res.append(o)
    return res


def model_ghost(tok_lines, mask=DEFAULT_MASK):
    """proof layer 1 as a test: (states of anG and an equal, logged flags/case-stops = final map, body reason = map)"""
    outs = run_model('cf', 'ghost', ["%d %s" % (mask, t) for t in tok_lines])
    return [tuple(_parse_ints(o)) for o in outs]


def model_sem(tok_lines):
    """purely semantic facts (no analyzer): [{wf, nofn, reach: [...], falls: 0/1, fall_cases: [...]}]"""
    outs = run_model('cf', 'sem', ["0 %s" % t for t in tok_lines])
    res = []
    for o in outs:
        r = _Rd(_parse_ints(o))
        res.append({"wf": r.int(), "nofn": r.int(), "reach": r.list(r.int), "falls": r.int(), "fall_cases": r.list(r.int),
                    "fall_getters": r.list(r.int), "fnsafe": r.int()})
    return res


GETTER_START = 2     # offset of `get` in `({get a() {...}})`


def impl_violations_of(prog, lint, sem):
    """The three properties evaluated DIRECTLY on the implementation's diagnostics with the semantic facts:
       -> list of (kind, offset)."""
    if not lint or "ok" not in lint:
        return []
    out = []
    reach = set(sem["reach"])
    nu = [d["start"] for d in lint["ok"] if d["code"] == "no-unreachable"]
    out += [("c10", o) for o in sorted(set(nu)) if o in reach]
    # every getter (the wrapper's and the nested ones) whose body can fall off its end has to be reported
    gr = set(d["start"] for d in lint["ok"] if d["code"] == "getter-return")
    out += [("getter", o) for o in sem["fall_getters"] if o not in gr]
    nf = set(d["start"] for d in lint["ok"] if d["code"] == "no-fallthrough")
    out += [("cases", o) for o in sem["fall_cases"] if o not in nf]
    return out


def impl_violation_pred(kind, cls_mask=None):
    """shrinking predicate on the IMPLEMENTATION: still well formed, the implementation still violates the
       property `kind`, and (when given) the model with repairs `cls_mask` has no violation (stay in the class)"""
    def pred(progs):
        printed = [print_program(p) for p in progs]
        toks = [x[1] for x in printed]
        sems = model_sem(toks)
        lints = impl_rules([x[0] for x in printed])
        ok = [bool(sm["wf"]) and any(k == kind for k, _ in impl_violations_of(p, l, sm))
              for p, l, sm in zip(progs, lints, sems)]
        if cls_mask is not None:
            res2 = model_oracle(toks, cls_mask)
            ok = [a and not has_violation(o) for a, o in zip(ok, res2)]
        return ok
    return pred


# ----------------------------------------------------------------------------
# dependency finding G: swc's `cast_to_bool` answers Known(true) for NaN-valued arithmetic (`"a" - 1`: cast_to_number
# gives NaN and 1, "different numbers" => true) and for `!NaN` whatever `NaN` is bound to; mod.rs trusts it.
# A fixed corpus (not part of the model = implementation comparison: the model's `T` means "Known(true) and true").
# ----------------------------------------------------------------------------
DEP_CLASS_G = "dependency-swc-cast_to_bool:nan-arithmetic"
DEP_CORPUS_G = [
    ('fn', [('while', ('G', '"a" - 1'), ('block', [])), ('expr', ('call', 1))]),
    ('fn', [('dowhile', ('block', []), ('G', 'undefined - 1')), ('expr', ('call', 1))]),
    ('fn', [('for', ('G', 'NaN - NaN'), ('block', [])), ('expr', ('call', 1))]),
]
# (source, offset of a statement that is reachable: with f(1) the loop is skipped)
DEP_RAW_G = [("function f(NaN) { while (!NaN) { } v1(); }", 35)]


def dependency_findings():
    """-> [{src, offset, kind}]: C10 violations of the implementation on the corpus (semantic facts from the model's
       semantics with the NaN-valued test as the constant false)"""
    printed = [print_program(p) for p in DEP_CORPUS_G]
    sems = model_sem([x[1] for x in printed])
    lints = impl_rules([x[0] for x in printed] + [r[0] for r in DEP_RAW_G])
    items = []
    for p, pr, sm, l in zip(DEP_CORPUS_G, printed, sems, lints):
        for kind, off in impl_violations_of(p, l, sm):
            items.append({"src": pr[0], "offset": off, "kind": kind})
    for (src, off), l in zip(DEP_RAW_G, lints[len(printed):]):
        if l and "ok" in l and any(d["code"] == "no-unreachable" and d["start"] == off for d in l["ok"]):
            items.append({"src": src, "offset": off, "kind": "c10"})
    return items


def has_violation(o):
    return bool(o["c10"] or o["getter"] or o["cases"] or o.get("getters"))


# ----------------------------------------------------------------------------
# syntactic features / classification of property violations
# ----------------------------------------------------------------------------
def children(s):
    """(kind-of-slot, child statement list) pairs"""
    k = s[0]
    if k in ('fn',):
        return s[2]
    if k in ('arrow', 'block', 'gstmt'):
        return s[1]
    if k == 'forhead':
        return list(s[2]) + [s[3]]
    if k == 'if':
        return [s[2]]
    if k == 'ifelse':
        return [s[2], s[3]]
    if k in ('while', 'for'):
        return [s[2]]
    if k in ('dowhile', 'forin', 'forof'):
        return [s[1]]
    if k == 'label':
        return [s[2]]
    if k == 'switch':
        return [t for (_, _, b) in s[1] for t in b]
    if k == 'try':
        return list(s[1]) + list(s[2] or []) + list(s[3] or [])
    return []


def walk(s):
    yield s
    for c in children(s):
        yield from walk(c)


def walk_same_fn(s):
    """sub-statements not inside a nested function"""
    yield s
    if s[0] in ('fn', 'arrow', 'gstmt'):
        return
    if s[0] == 'forhead':
        yield from walk_same_fn(s[3])
        return
    for c in children(s):
        yield from walk_same_fn(c)


LOOPS = ('while', 'dowhile', 'for', 'forin', 'forof', 'forhead')


def feature_A(body):
    """a do-while whose body contains a `continue` (found_continue is set by any continue in the body)"""
    for t in body:
        for s in walk(t):
            if s[0] == 'dowhile' and any(u[0] == 'cont' for u in walk_same_fn(s[1])):
                return True
    return False


def feature_B(body):
    """a labelled break together with an unlabelled break in one function, under a loop or a switch case"""
    def fn_bodies(l):
        yield l
        for t in l:
            for s in walk(t):
                if s[0] in ('fn', 'forhead'):
                    yield s[2]
                elif s[0] in ('arrow', 'gstmt'):
                    yield s[1]
    for b in fn_bodies(body):
        ss = [s for t in b for s in walk_same_fn(t)]
        if any(s[0] == 'brk' and s[1] is not None for s in ss) and any(s[0] == 'brk' and s[1] is None for s in ss):
            return True
    return False


def feature_C(body):
    """a statement that starts with a function (declaration or arrow-expression statement) whose body can have a
       Forced end: it contains a return, a throw or a loop (its end is recorded under the statement's own key)"""
    for t in body:
        for s in walk(t):
            if s[0] in ('fn', 'arrow'):
                fb = s[2] if s[0] == 'fn' else s[1]
                if any(u[0] in ('ret', 'throw') + LOOPS for v in fb for u in walk_same_fn(v)):
                    return True
    return False


def feature_D(body):
    """a `throw` of an identifier inside a try block (same function)"""
    for t in body:
        for s in walk(t):
            if s[0] == 'try' and any(u[0] == 'throw' and u[1][0] == 'id' for v in s[1] for u in walk_same_fn(v)):
                return True
    return False


def feature_F(body):
    """a while / do-while whose test is known-true and can throw"""
    for t in body:
        for s in walk(t):
            if s[0] == 'while' and s[1][0] == 'S' and s[1][2] and s[1][1][0] == 'call':
                return True
            if s[0] == 'dowhile' and s[2][0] == 'S' and s[2][2] and s[2][1][0] == 'call':
                return True
    return False


def feature_E(body):
    """a for-in/of whose head contains a function-like"""
    return any(s[0] == 'forhead' for t in body for s in walk(t))


FEATURES = {"A": feature_A, "B": feature_B, "C": feature_C, "D": feature_D, "E": feature_E, "F": feature_F}
MASKS = {"A": 1, "B": 2, "C": 4, "D": 8, "E": 16, "F": 32}
ALL_FIXES = 63
CLASSES = "ABCDEF"


def model_body(prog):
    wrapper, body = prog
    if wrapper == 'switch':
        return [('switch', [(('lit',), False, body), (('lit',), False, [('expr', ('call', T_CALL))])])]
    return body


def classify_many(progs, base=DEFAULT_MASK):
    """For each program with a violation on the faithful model: the smallest set of classes, e.g. "A" or "A+D",
       such that (i) the syntactic feature of each class is present in the program and (ii) switching ONLY those
       repairs on in the model removes every violation of the program; None if there is no such set (an
       unexplained violation - in particular whenever a violation survives all repairs)."""
    if not progs:
        return []
    toks = [print_program(p)[1] for p in progs]
    masks = sorted((m for m in range(1, ALL_FIXES + 1) if m & base == 0), key=lambda m: (bin(m).count("1"), m))
    by_mask = {m: model_oracle(toks, base | m) for m in masks}
    out = []
    for i, p in enumerate(progs):
        body = model_body(p)
        feats = {c for c in CLASSES if FEATURES[c](body)}
        cls = None
        for m in masks:
            letters = [c for c in CLASSES if MASKS[c] & m]
            if all(c in feats for c in letters) and not has_violation(by_mask[m][i]):
                cls = "+".join(letters)
                break
        out.append(cls)
    return out


def classify_cf_violation(prog, base=DEFAULT_MASK):
    """class of the violation(s) that the model with repairs `base` (default: the current code) has on `prog`:
       "C" (or "A", "B", "D", "A+D", ... when base leaves those open) or None"""
    return classify_many([prog], base)[0]


# ----------------------------------------------------------------------------
# shrinking
# ----------------------------------------------------------------------------
def _replace_in_list(l, i, repl):
    return l[:i] + repl + l[i + 1:]


def shrink_candidates_list(l):
    """smaller variants of a statement list"""
    for i in range(len(l)):
        yield _replace_in_list(l, i, [])
    for i, s in enumerate(l):
        for v in shrink_candidates_stmt(s, in_list=True):
            yield _replace_in_list(l, i, v if isinstance(v, list) else [v])


def shrink_candidates_stmt(s, in_list=False):
    k = s[0]
    simple = ('expr', ('id', 1))
    if k not in ('expr', 'brk', 'cont', 'ret', 'throw', 'empty'):
        yield simple
    if k == 'expr' and s[1] != ('id', 1):
        yield simple
    if k in ('ret', 'throw') and s[1] not in (('lit',), None):
        yield (k, ('lit',))
    if k == 'var' and s[2] is not None:
        yield ('var', s[1], None)
    if k in ('fn', 'arrow', 'block', 'gstmt'):
        body = s[2] if k == 'fn' else s[1]
        if k == 'block' and in_list:
            yield list(body)                      # splice
        for v in shrink_candidates_list(body):
            yield (k, s[1], v) if k == 'fn' else (k, v)
    elif k == 'forhead':
        yield s[3]
        yield ('forof', s[3])
        yield ('gstmt', s[2]) if s[1] else ('arrow', s[2])
        for v in shrink_candidates_list(s[2]):
            yield ('forhead', s[1], v, s[3])
        for v in shrink_candidates_stmt(s[3]):
            if not isinstance(v, list):
                yield ('forhead', s[1], s[2], v)
    elif k == 'if':
        yield s[2]
        if s[1] != ('O', ('id', 2)):
            yield ('if', ('O', ('id', 2)), s[2])
        for v in shrink_candidates_stmt(s[2]):
            if not isinstance(v, list):
                yield ('if', s[1], v)
    elif k == 'ifelse':
        yield s[2]; yield s[3]
        yield ('if', s[1], s[2])
        if s[1] != ('O', ('id', 2)):
            yield ('ifelse', ('O', ('id', 2)), s[2], s[3])
        for v in shrink_candidates_stmt(s[2]):
            if not isinstance(v, list):
                yield ('ifelse', s[1], ('block', [v]) if dangling(v) else v, s[3])
        for v in shrink_candidates_stmt(s[3]):
            if not isinstance(v, list):
                yield ('ifelse', s[1], s[2], v)
    elif k in ('while', 'for'):
        yield s[2]
        if k == 'while' and s[1] not in (('T',), ('O', ('id', 2))):
            yield ('while', ('O', ('id', 2)), s[2])
        if k == 'for' and len(s) > 3:
            yield ('for', s[1], s[2])
            if s[3] is not None and s[4] is not None:
                yield ('for', s[1], s[2], s[3], None)
                yield ('for', s[1], s[2], None, s[4])
        if k == 'for' and s[1] is not None:
            yield ('for', None, s[2]) + tuple(s[3:])
        for v in shrink_candidates_stmt(s[2]):
            if not isinstance(v, list):
                yield (k, s[1], v) + tuple(s[3:])
    elif k == 'dowhile':
        yield s[1]
        if s[2] not in (('T',), ('O', ('id', 2))):
            yield ('dowhile', s[1], ('O', ('id', 2)))
        for v in shrink_candidates_stmt(s[1]):
            if not isinstance(v, list):
                yield ('dowhile', v, s[2])
    elif k in ('forin', 'forof'):
        yield s[1]
        for v in shrink_candidates_stmt(s[1]):
            if not isinstance(v, list):
                yield (k, v)
    elif k == 'label':
        yield s[2]
        for v in shrink_candidates_stmt(s[2]):
            if not isinstance(v, list):
                yield ('label', s[1], v)
    elif k == 'switch':
        cs = s[1]
        for i in range(len(cs)):
            yield ('switch', cs[:i] + cs[i + 1:])
            if in_list:
                yield list(cs[i][2])
        for i, (d, ft, b) in enumerate(cs):
            if ft:
                yield ('switch', cs[:i] + [(d, False, b)] + cs[i + 1:])
            if d is not None and d != ('lit',):
                yield ('switch', cs[:i] + [(('lit',), ft, b)] + cs[i + 1:])
            for v in shrink_candidates_list(b):
                yield ('switch', cs[:i] + [(d, ft, v)] + cs[i + 1:])
    elif k == 'try':
        blk, hb, fb = s[1], s[2], s[3]
        if in_list:
            yield list(blk)
            if hb is not None:
                yield list(hb)
            if fb is not None:
                yield list(fb)
        if hb is not None and fb is not None:
            yield ('try', blk, hb, None)
            yield ('try', blk, None, fb)
        for v in shrink_candidates_list(blk):
            yield ('try', v, hb, fb)
        if hb is not None:
            for v in shrink_candidates_list(hb):
                yield ('try', blk, v, fb)
        if fb is not None:
            for v in shrink_candidates_list(fb):
                yield ('try', blk, hb, v)


def prog_size(prog):
    return sum(1 for t in prog[1] for _ in walk(t))


def shrink(prog, pred_many, max_rounds=200):
    """Greedy shrinking: `pred_many(list of programs) -> list of bool` (True = still failing and well formed)."""
    cur = prog
    for _ in range(max_rounds):
        cands = []
        seen = set()
        for b in shrink_candidates_list(cur[1]):
            c = (cur[0], b)
            key = repr(c)
            if key not in seen and prog_size(c) <= prog_size(cur):
                seen.add(key)
                cands.append(c)
        if cur[0] == 'getter':
            pass
        elif cur[0] == 'switch':
            pass
        cands.sort(key=prog_size)
        if not cands:
            break
        oks = pred_many(cands)
        nxt = None
        for c, ok in zip(cands, oks):
            if ok and repr(c) != repr(cur) and (prog_size(c) < prog_size(cur) or len(repr(c)) < len(repr(cur))):
                nxt = c
                break
        if nxt is None:
            break
        cur = nxt
    return cur


def violation_pred(mask=DEFAULT_MASK, kinds=("c10", "getter", "cases"), cls_mask=None):
    """still well formed, still violating (one of `kinds`) on the model with repairs `mask`, and - when given -
       not violating any more with the repairs `cls_mask` (so that shrinking stays inside the class)"""
    def pred(progs):
        toks = [print_program(p)[1] for p in progs]
        res = model_oracle(toks, mask)
        ok = [bool(o["wf"]) and any(o[k] for k in kinds) for o in res]
        if cls_mask is not None:
            res2 = model_oracle(toks, cls_mask)
            ok = [a and not has_violation(o) for a, o in zip(ok, res2)]
        return ok
    return pred


# ----------------------------------------------------------------------------
# comparison
# ----------------------------------------------------------------------------
def constructs(prog):
    c = {}
    for t in model_body(prog):
        for s in walk(t):
            c[s[0]] = c.get(s[0], 0) + 1
    return c


def compare_programs(progs, rng, mask=DEFAULT_MASK, want_oracle=True):
    """model (with repairs `mask`) against the implementation on a list of programs"""
    printed = [print_program(p, rng) for p in progs]
    srcs = [x[0] for x in printed]
    toks = [x[1] for x in printed]
    pbs = [x[2] for x in printed]
    t0 = time.time()
    ma = model_analyze(toks, mask)
    t1 = time.time()
    icf = impl_cf(srcs)
    t2 = time.time()
    irl = impl_rules(srcs)
    t3 = time.time()
    orc = model_oracle(toks, mask) if want_oracle else None
    orc_fixed = model_oracle(toks, ALL_FIXES) if want_oracle else None
    ghost = model_ghost(toks, mask) + (model_ghost(toks, ALL_FIXES) if mask != ALL_FIXES else [])
    sems = model_sem(toks)
    impl_viol = [impl_violations_of(p, l, sm) for p, l, sm in zip(progs, irl, sems)]
    t4 = time.time()
    mism = []
    for gi, gr in enumerate(ghost):
        if gr != (1, 1, 1):
            mism.append({"kind": "ghost analyzer != map analyzer (proof layer 1)", "src": srcs[gi % len(srcs)], "result": gr})
    stats = {"not_wf": 0, "model_panic": 0, "impl_error": 0, "info_entries": 0, "diags": 0, "ghost_checks": len(ghost),
             "t_model": t1 - t0, "t_impl_cf": t2 - t1, "t_impl_rules": t3 - t2, "t_oracle": t4 - t3}
    for i, p in enumerate(progs):
        m = ma[i]
        if not m["wf"]:
            stats["not_wf"] += 1
            mism.append({"kind": "generator produced a program that is not wf", "src": srcs[i]})
            continue
        if m["panic"]:
            stats["model_panic"] += 1
            mism.append({"kind": "model panic", "src": srcs[i]})
        a, b = icf[i], irl[i]
        if b and "panic" in b and a and "cf" in a:
            # getter-return's `.meta(..).unwrap()` on a missing entry: the model predicts it (getter_return_panics)
            stats["impl_panics"] = stats.get("impl_panics", 0) + 1
            if not m["gr_panic"]:
                mism.append({"kind": "implementation panics, model does not", "src": srcs[i], "lint": b})
            continue
        if m["gr_panic"]:
            mism.append({"kind": "model predicts a getter-return panic, implementation does not panic", "src": srcs[i]})
            continue
        if not a or "cf" not in a or not b or "ok" not in b:
            stats["impl_error"] += 1
            mism.append({"kind": "implementation error", "src": srcs[i], "cf": a, "lint": b})
            continue
        impl_info = {e[0]: (int(e[1]), e[2], int(e[3]), int(e[4]), int(e[5])) for e in a["cf"] if e[0] >= pbs[i]}
        stats["info_entries"] += len(m["info"])
        if impl_info != m["info"]:
            diff = sorted(k for k in set(impl_info) | set(m["info"]) if impl_info.get(k) != m["info"].get(k))
            mism.append({"kind": "info", "src": srcs[i], "prog": p,
                         "diff": [(k, "impl", impl_info.get(k), "model", m["info"].get(k)) for k in diff]})
        for code, key in (("no-unreachable", "nu"), ("getter-return", "gr"), ("no-fallthrough", "nf")):
            got = sorted(d["start"] for d in b["ok"] if d["code"] == code)
            stats["diags"] += len(got)
            if got != m[key]:
                mism.append({"kind": code, "src": srcs[i], "prog": p, "impl": got, "model": m[key]})
        other = [d["code"] for d in b["ok"] if d["code"] not in RULES]
        if other:
            mism.append({"kind": "unexpected diagnostic", "src": srcs[i], "codes": other})
    return {"srcs": srcs, "toks": toks, "model": ma, "impl_cf": icf, "impl_rules": irl,
            "oracle": orc, "oracle_fixed": orc_fixed, "sem": sems, "impl_viol": impl_viol, "mismatches": mism, "stats": stats}


TIERS = {
    "smoke": {"random": 2000, "exhaustive": 3},
    "quick": {"random": 80000, "exhaustive": 4},
    "thorough": {"random": 1000000, "exhaustive": 5},
}


def compare_all(tier="quick", seed=1, mask=DEFAULT_MASK, chunk=20000, shrink_limit=12, vh=None):
    """Model vs implementation (info map entry by entry, the three rules' diagnostics) and the C10/C11
       property oracles, on random programs (seeded) + all programs up to a small size.
       `mask`: repairs switched on in the model (default 11 = the current code: fix commits A, B, D; 0 = the code
       before the fixes; 15 = with the candidate repair of the known finding C as well).  `vh`: path of an alternative harness binary (a build against a
       patched scratch copy of the repository); the property oracle then runs on the model with `mask`."""
    cfg = TIERS[tier]
    t_start = time.time()
    if vh:
        import lib as _lib
        _lib._built["release"] = vh
    build_harness("release")
    exe, err = build_model("cf")
    if exe is None:
        raise Infra("cf model build failed\n" + err)
    rng = random.Random(seed)
    res = {"tier": tier, "seed": seed, "mask": mask, "programs": 0, "random": 0, "exhaustive": 0,
           "sizes": {}, "constructs": {}, "wrappers": {}, "mismatches": [], "n_mismatches": 0,
           "violating_programs": 0, "violations": {"c10": 0, "c11_getter": 0, "c11_case": 0},
           "classes": {"A": 0, "B": 0, "C": 0, "D": 0, "E": 0, "F": 0, "unexplained": 0}, "unexplained": [], "examples": {},
           "unexplained_after_repair": [], "impl_level_c10": 0, "info_entries": 0, "diags": 0, "stats": {},
           "impl_violations": {"c10": [], "getter": [], "cases": []}}
    impl_items = []      # (prog, src, kind, offset, explained_by_model)

    def batches():
        ex = itertools.chain(fixed_programs(), enum_programs(cfg["exhaustive"]))
        while True:
            b = list(itertools.islice(ex, chunk))
            if not b:
                break
            yield "exhaustive", b
        left = cfg["random"]
        while left > 0:
            n = min(chunk, left)
            yield "random", [gen_program(rng) for _ in range(n)]
            left -= n

    violating = []
    for origin, progs in batches():
        r = compare_programs(progs, rng, mask)
        res["programs"] += len(progs)
        res[origin] += len(progs)
        for k, v in r["stats"].items():
            res["stats"][k] = res["stats"].get(k, 0) + v
        res["info_entries"] += r["stats"]["info_entries"]
        res["diags"] += r["stats"]["diags"]
        res["fnsafe_programs"] = res.get("fnsafe_programs", 0) + sum(1 for sm in r["sem"] if sm["fnsafe"])
        res["fnsafe_with_fn"] = res.get("fnsafe_with_fn", 0) + sum(1 for sm in r["sem"] if sm["fnsafe"] and not sm["nofn"])
        for p in progs:
            n = prog_size(p)
            b = "1-2" if n <= 2 else "3-5" if n <= 5 else "6-10" if n <= 10 else "11-20" if n <= 20 else "21-40" if n <= 40 else ">40"
            res["sizes"][b] = res["sizes"].get(b, 0) + 1
            res["wrappers"][p[0]] = res["wrappers"].get(p[0], 0) + 1
            for k, v in constructs(p).items():
                res["constructs"][k] = res["constructs"].get(k, 0) + v
        res["n_mismatches"] += len(r["mismatches"])
        res["mismatches"].extend(r["mismatches"][:20 - len(res["mismatches"])] if len(res["mismatches"]) < 20 else [])
        for i, p in enumerate(progs):
            o, of = r["oracle"][i], r["oracle_fixed"][i]
            if has_violation(of):
                res["unexplained_after_repair"].append({"src": r["srcs"][i], "oracle": {k: of[k] for k in ("c10", "getter", "cases")}})
            if has_violation(o) and r["sem"][i]["fnsafe"] and mask & 59 == 59:
                # contradicts the theorems C10/C11 *_sound_current (side condition fn_stmt_safe)
                res["unexplained"].append({"src": r["srcs"][i], "why": "violation on a program that satisfies fn_stmt_safe",
                                           "oracle": {k: o[k] for k in ("c10", "getter", "cases")}})
                res["classes"]["unexplained"] += 1
            if has_violation(o):
                res["fnsafe_false_violating"] = res.get("fnsafe_false_violating", 0) + (0 if r["sem"][i]["fnsafe"] else 1)
                res["violations"]["c10"] += len(o["c10"])
                res["violations"]["c11_getter"] += o["getter"]
                res["violations"]["c11_case"] += len(o["cases"])
                violating.append((p, r["srcs"][i], o))
            # the properties evaluated directly on the implementation's diagnostics
            model_items = set([("c10", x) for x in o["c10"]] + [("cases", x) for x in o["cases"]] +
                              [("getter", x) for x in o["getters"]])
            for kind, off in r["impl_viol"][i]:
                impl_items.append((p, r["srcs"][i], kind, off, (kind, off) in model_items))
            # implementation-level cross-check of C10: a reported statement that the semantics can enter
            b = r["impl_rules"][i]
            if b and "ok" in b:
                reach = set(o["reach"])
                res["impl_level_c10"] += sum(1 for d in b["ok"] if d["code"] == "no-unreachable" and d["start"] in reach)
        log("[cf] %s batch: %d programs, %d mismatches so far, %d violating programs" %
            (origin, len(progs), res["n_mismatches"], len(violating)))
    res["violating_programs"] = len(violating)
    # classification (on the original programs), then shrinking of a few per class
    cls = classify_many([v[0] for v in violating], mask) if violating else []
    per_class = {}
    for (p, src, o), c in zip(violating, cls):
        key = c or "unexplained"
        res["classes"][key] = res["classes"].get(key, 0) + 1
        per_class.setdefault(key, []).append((p, src, o))
        if c is None:
            res["unexplained"].append({"src": src, "oracle": {k: o[k] for k in ("c10", "getter", "cases")}})
    for key, items in per_class.items():
        items.sort(key=lambda x: prog_size(x[0]))
        ex = []
        for p, src, o in items[:shrink_limit]:
            kinds = tuple(k for k in ("c10", "getter", "cases") if o[k])
            cm = sum(MASKS[c] for c in key.split("+")) if key != "unexplained" else None
            small = shrink(p, violation_pred(mask, kinds, None if cm is None else (cm | mask)))
            ssrc, stok, _ = print_program(small)
            so = model_oracle([stok], mask)[0]
            ex.append({"src": ssrc, "class_of_minimal": classify_cf_violation(small), "size": prog_size(small),
                       "c10": so["c10"], "getter": so["getter"], "cases": so["cases"], "tokens": stok})
        # distinct minimal programs
        uniq = {}
        for e in ex:
            uniq.setdefault(e["src"], e)
        res["examples"][key] = sorted(uniq.values(), key=lambda e: e["size"])
    # violations of the IMPLEMENTATION (its diagnostics against the semantic facts): class from the model only when
    # the model (= current code) has the very same violation, otherwise "unexplained"; shrinking runs the implementation
    explained = [it for it in impl_items if it[4]]
    icls = classify_many([it[0] for it in explained], mask) if explained else []
    cls_of = {id(it): (c or "unexplained") for it, c in zip(explained, icls)}
    groups = {}
    for it in impl_items:
        c = cls_of.get(id(it), "unexplained")
        groups.setdefault((it[2], c), []).append(it)
    for (kind, c), items in sorted(groups.items()):
        items.sort(key=lambda it: prog_size(it[0]))
        for n, it in enumerate(items):
            minimal = None
            if n < shrink_limit:      # only the smallest few of each (kind, class) are shrunk
                cm = None if c == "unexplained" else (sum(MASKS[x] for x in c.split("+")) | mask)
                minimal = print_program(shrink(it[0], impl_violation_pred(kind, cm)))[0]
            res["impl_violations"][kind].append({"src": it[1], "offset": it[3], "class": c, "minimal": minimal})
    res["wall_s"] = round(time.time() - t_start, 1)
    return res


def summary(res):
    lines = []
    lines.append("C10/C11 control flow: tier=%s seed=%s mask=%s  programs=%d (random %d, exhaustive %d)  wall=%.1fs" %
                 (res["tier"], res["seed"], res["mask"], res["programs"], res["random"], res["exhaustive"], res["wall_s"]))
    lines.append("  sizes: %s" % json.dumps(res["sizes"], sort_keys=True))
    lines.append("  wrappers: %s" % json.dumps(res["wrappers"], sort_keys=True))
    lines.append("  constructs: %s" % json.dumps(res["constructs"], sort_keys=True))
    lines.append("  compared: %d info entries, %d diagnostics, %d ghost-analyzer runs;  mismatches (model != implementation, ghost != model): %d" %
                 (res["info_entries"], res["diags"], res["stats"].get("ghost_checks", 0), res["n_mismatches"]))
    for m in res["mismatches"][:5]:
        lines.append("    MISMATCH %s" % json.dumps({k: v for k, v in m.items() if k != "prog"})[:600])
    lines.append("  property violations (oracle on the model with this mask = implementation): %d programs; C10 %d, C11 getter %d, C11 case %d; implementation-level C10 cross-check %d" %
                 (res["violating_programs"], res["violations"]["c10"], res["violations"]["c11_getter"],
                  res["violations"]["c11_case"], res["impl_level_c10"]))
    iv = res.get("impl_violations", {})
    cnt = {}
    for kind, items in iv.items():
        for it in items:
            cnt[(kind, it["class"])] = cnt.get((kind, it["class"]), 0) + 1
    lines.append("  IMPLEMENTATION-level violations (diagnostics vs semantics): %s" %
                 (", ".join("%s/%s: %d" % (k, c, n) for (k, c), n in sorted(cnt.items())) or "none"))
    seen = set()
    for kind, items in sorted(iv.items()):
        for it in items:
            if it["minimal"] and (kind, it["class"], it["minimal"]) not in seen and len([x for x in seen if x[0] == kind and x[1] == it["class"]]) < 3:
                seen.add((kind, it["class"], it["minimal"]))
                lines.append("    [impl %s, class %s] minimal: %s" % (kind, it["class"], it["minimal"].replace("\n", "\\n")))
    lines.append("  side condition of the current-code theorems: %d programs satisfy fn_stmt_safe (%d of them contain function-likes); violating programs that satisfy it: 0 required, %d violating programs do not" %
                 (res.get("fnsafe_programs", 0), res.get("fnsafe_with_fn", 0), res.get("fnsafe_false_violating", 0)))
    lines.append("  classes: %s;  violations left with all repairs on in the model: %d" %
                 (json.dumps(res["classes"], sort_keys=True), len(res["unexplained_after_repair"])))
    for key, exs in sorted(res["examples"].items()):
        for e in exs[:4]:
            lines.append("    [%s] minimal (%d stmts, class of minimal %s): %s" %
                         (key, e["size"], e["class_of_minimal"], e["src"].replace("\n", "\\n")))
    for u in res["unexplained"][:5] + res["unexplained_after_repair"][:5]:
        lines.append("    UNEXPLAINED %s" % json.dumps(u)[:600])
    lines.append("  timing: %s" % json.dumps({k: round(v, 1) for k, v in res["stats"].items() if k.startswith("t_")}))
    return "\n".join(lines)


if __name__ == "__main__":
    tier = sys.argv[1] if len(sys.argv) > 1 else "quick"
    seed = int(sys.argv[2]) if len(sys.argv) > 2 else 1
    mask = int(sys.argv[3]) if len(sys.argv) > 3 else DEFAULT_MASK
    r = compare_all(tier, seed, mask, vh=os.environ.get("CF_VH"))
    print(summary(r))
    bad_impl = any(it["class"] == "unexplained" for items in r["impl_violations"].values() for it in items)
    sys.exit(1 if (r["n_mismatches"] or r["classes"]["unexplained"] or r["unexplained_after_repair"] or bad_impl) else 0)
