# Shared orchestration for the verification checks (python3, stdlib only).
import json, os, subprocess, sys, time, hashlib, re, random, shutil, tempfile
from concurrent.futures import ThreadPoolExecutor

ROOT = os.path.dirname(os.path.dirname(os.path.abspath(__file__)))
REPO = os.environ.get("VERIF_REPO", "/repo")
HARNESS = os.path.join(ROOT, "harness")
COQ = os.path.join(ROOT, "coq")
OCAML = os.path.join(ROOT, "ocaml")
WORK = os.path.join(ROOT, "work")          # scratch (git-ignored), replay files
EVID = os.path.join(ROOT, "evidence")
NCPU = min(16, os.cpu_count() or 4)

ENV = dict(os.environ)
ENV.update({"CARGO_NET_OFFLINE": "true", "RUST_BACKTRACE": "0"})


class Infra(Exception):
    """Infrastructure failure (exit 2): not a verdict about the property."""


def log(*a):
    print(*a, file=sys.stderr, flush=True)


def sh(cmd, cwd=None, timeout=3600, env=None, check=True, inp=None):
    p = subprocess.run(cmd, cwd=cwd, shell=isinstance(cmd, str), timeout=timeout,
                       env=env or ENV, input=inp, stdout=subprocess.PIPE,
                       stderr=subprocess.STDOUT, text=True)
    if check and p.returncode != 0:
        raise Infra("command failed (%s): %s\n%s" % (p.returncode, cmd, p.stdout[-4000:]))
    return p


# ----------------------------------------------------------------------------
# Rust harness
# ----------------------------------------------------------------------------
_built = {}


def build_harness(profile="release"):
    """(Re)build the harness against /repo's current working tree."""
    if profile in _built:
        return _built[profile]
    lock = os.path.join(HARNESS, "Cargo.lock")
    if not os.path.exists(lock):
        shutil.copy(os.path.join(REPO, "Cargo.lock"), lock)
    t = time.time()
    cmd = ["cargo", "build", "--offline", "--quiet"] + (["--release"] if profile == "release" else [])
    p = sh(cmd, cwd=HARNESS, timeout=1800, check=False)
    if p.returncode != 0:
        raise Infra("harness build failed (does /repo still compile with --features verif_hooks?)\n" + p.stdout[-6000:])
    exe = os.path.join(HARNESS, "target", "release" if profile == "release" else "debug", "vh")
    log("[build] harness %s %.1fs" % (profile, time.time() - t))
    # private copy: a concurrent rebuild (another check, a seeded-change confirmation) must not swap the binary
    # under a running check
    import atexit
    priv_dir = os.path.join(WORK, "bin")
    os.makedirs(priv_dir, exist_ok=True)
    priv = os.path.join(priv_dir, "vh-%s-%d" % (profile, os.getpid()))
    shutil.copy2(exe, priv)
    atexit.register(lambda: os.path.exists(priv) and os.remove(priv))
    _built[profile] = priv
    return priv


def _run_shard(exe, sub, cases, per_case_timeout, extra_args, env=None):
    """Run cases through one vh process; resume after hard crashes/timeouts."""
    results = [None] * len(cases)
    i = 0
    n_timeouts = 0
    while i < len(cases):
        if n_timeouts >= 12:
            # the build under test hangs on many inputs: enough evidence, do not spend the whole budget on it
            for j in range(i, len(cases)):
                results[j] = {"crash": "not run: too many timeouts in this batch"}
            break
        chunk = cases[i:]
        data = "".join(json.dumps(c) + "\n" for c in chunk)
        budget = 30 + per_case_timeout * len(chunk)
        wenv = dict(env or ENV)
        # the harness ends itself (exit 97) when ONE case exceeds its limit, so a hanging case costs its own limit, not the chunk's budget
        wenv.setdefault("VH_CASE_TIMEOUT_MS", str(int(max(per_case_timeout, 1.0) * 1000 * 3)))
        try:
            p = subprocess.run([exe, sub] + extra_args, input=data, stdout=subprocess.PIPE,
                               stderr=subprocess.DEVNULL, text=True, env=wenv, timeout=budget)
            out, rc, timed_out = p.stdout, p.returncode, False
        except subprocess.TimeoutExpired as e:
            out = e.stdout.decode() if isinstance(e.stdout, bytes) else (e.stdout or "")
            rc, timed_out = -9, True
        last = -1
        lines = out.split("\n")
        k = 0
        while k < len(lines):
            ln = lines[k]
            if ln.startswith("#CASE "):
                last = int(ln[6:])
                if k + 1 < len(lines) and lines[k + 1] and not lines[k + 1].startswith("#CASE "):
                    try:
                        results[i + last] = json.loads(lines[k + 1])
                    except Exception:
                        results[i + last] = {"bad_output": lines[k + 1][:200]}
                    k += 1
            k += 1
        done = sum(1 for r in results[i:] if r is not None)
        if done == len(chunk):
            break
        # the case whose marker came last without a result crashed / hung
        if last >= 0 and results[i + last] is None:
            results[i + last] = {"crash": "timeout" if (timed_out or rc == 97) else "exit %s" % rc}
            n_timeouts += 1 if (timed_out or rc == 97) else 0
            i = i + last + 1
        elif last == -1:
            results[i] = {"crash": "no output, exit %s" % rc}
            i = i + 1
        else:
            i = i + last + 1
    return results


def run_vh(sub, cases, profile="release", jobs=None, per_case_timeout=2.0, extra_args=None, stack_mb=None):
    exe = build_harness(profile)
    jobs = jobs or NCPU
    n = len(cases)
    if n == 0:
        return []
    jobs = max(1, min(jobs, (n + 49) // 50))
    shards = [list(range(j, n, jobs)) for j in range(jobs)]
    res = [None] * n
    env = None
    if stack_mb:
        # fractions of a MiB are passed on in KiB
        env = dict(ENV, VH_STACK_MB=str(stack_mb)) if float(stack_mb).is_integer() else dict(ENV, VH_STACK_KB=str(int(stack_mb * 1024)))
    with ThreadPoolExecutor(max_workers=jobs) as ex:
        futs = [ex.submit(_run_shard, exe, sub, [cases[i] for i in idx], per_case_timeout, extra_args or [], env)
                for idx in shards]
        for idx, f in zip(shards, futs):
            for i, r in zip(idx, f.result()):
                res[i] = r
    return res


def vh_registry():
    exe = build_harness("release")
    p = sh([exe, "registry"], timeout=60)
    return json.loads(p.stdout)


# ----------------------------------------------------------------------------
# Coq
# ----------------------------------------------------------------------------
FORBIDDEN = re.compile(r"\b(Admitted|admit|Axiom|Axioms|Parameter|Parameters|Conjecture|Conjectures|Hypothesis|Hypotheses|Variable|Variables)\b|Unset\s+Guard|bypass_check|Admit\s+Obligations|type-in-type|impredicative-set|Unset\s+Universe\s+Checking|Unset\s+Positivity")


def strip_comments(src):
    out, depth, i = [], 0, 0
    while i < len(src):
        if src.startswith("(*", i):
            depth += 1; i += 2
        elif src.startswith("*)", i) and depth:
            depth -= 1; i += 2
        else:
            if depth == 0:
                out.append(src[i])
            i += 1
    return "".join(out)


def coq_hygiene(files=None):
    """No Admitted/admit/Axiom/Parameter/... anywhere; Variable/Hypothesis only inside a Section."""
    bad = []
    for dp, _, fs in os.walk(COQ):
        for f in fs:
            if not f.endswith(".v"):
                continue
            path = os.path.join(dp, f)
            src = strip_comments(open(path).read())
            depth = 0
            for ln_no, ln in enumerate(src.split("\n"), 1):
                if re.match(r"\s*Section\s", ln):
                    depth += 1
                for m in FORBIDDEN.finditer(ln):
                    w = m.group(0)
                    if w.split()[0] in ("Variable", "Variables", "Hypothesis", "Hypotheses") and depth > 0:
                        continue
                    bad.append("%s:%d: %s" % (os.path.relpath(path, ROOT), ln_no, w))
                if re.match(r"\s*End\s", ln) and depth > 0:
                    depth -= 1
    for f in ("_CoqProject",):
        s = open(os.path.join(COQ, f)).read()
        if "type-in-type" in s or "impredicative-set" in s:
            bad.append("_CoqProject: forbidden flag")
    return bad


def coq_makefile():
    """_CoqProject is generated: `-Q . V` + every .v under coq/ except Extract/ (extraction scripts are run by ocaml/Makefile)."""
    files = []
    for dp, _, fs in os.walk(COQ):
        rel = os.path.relpath(dp, COQ)
        if rel.split(os.sep)[0] in ("Extract",):
            continue
        for f in fs:
            if f.endswith(".v") and not f.startswith("."):
                files.append(os.path.normpath(os.path.join(rel, f)))
    content = "-Q . V\n" + "".join(x + "\n" for x in sorted(files))
    proj = os.path.join(COQ, "_CoqProject")
    old = open(proj).read() if os.path.exists(proj) else ""
    mk = os.path.join(COQ, "Makefile")
    if old != content or not os.path.exists(mk):
        with open(proj, "w") as f:
            f.write(content)
        sh("coq_makefile -f _CoqProject -o Makefile", cwd=COQ, timeout=120)


def coq_make(targets, timeout=1500, jobs=None):
    """Full .vo build of the given .vo targets (and what they depend on).
    Returns (ok, output)."""
    coq_makefile()
    t = time.time()
    cmd = ["make", "-k", "-j%d" % (jobs or NCPU)] + list(targets)
    try:
        p = subprocess.run(cmd, cwd=COQ, stdout=subprocess.PIPE, stderr=subprocess.STDOUT,
                           text=True, timeout=timeout, env=ENV)
        ok, out = p.returncode == 0, p.stdout
    except subprocess.TimeoutExpired as e:
        ok, out = False, "TIMEOUT\n" + ((e.stdout or b"").decode() if isinstance(e.stdout, bytes) else (e.stdout or ""))
    log("[coq] make %s: %s %.1fs" % (" ".join(targets), "ok" if ok else "FAILED", time.time() - t))
    return ok, out


ALLOWED_AXIOMS = set()   # goal: every property theorem is closed under the global context


def props_assumptions(prop_file):
    """Compile Props/<file>.v (always recompiled so that Print Assumptions output is seen)
    and return (ok, [(theorem, [axioms])], output)."""
    coq_makefile()
    vo = "Props/%s.vo" % prop_file
    try:
        os.remove(os.path.join(COQ, vo))
    except FileNotFoundError:
        pass
    ok, out = coq_make([vo])
    if not ok:
        return False, [], out
    # Output format: after each `Print Assumptions t.` either "Closed under the global context"
    # or "Axioms:\n name : type ..."
    src = strip_comments(open(os.path.join(COQ, "Props", prop_file + ".v")).read())
    names = re.findall(r"Print\s+Assumptions\s+([A-Za-z0-9_'.]+)\s*\.", src)
    blocks = re.split(r"(?=Closed under the global context|Axioms:)", out)
    verdicts = []
    for b in blocks:
        if b.startswith("Closed under the global context"):
            verdicts.append([])
        elif b.startswith("Axioms:"):
            ax = re.findall(r"^([A-Za-z_][A-Za-z0-9_.']*)\s*:", b[len("Axioms:"):], flags=re.M)
            verdicts.append(ax)
    if len(verdicts) != len(names):
        return False, [], "could not match Print Assumptions output (%d theorems, %d verdicts)\n%s" % (len(names), len(verdicts), out[-3000:])
    return True, list(zip(names, verdicts)), out


def theorem_statements(prop_file):
    """The pinned statements: `Check name : stmt.` / Theorem headers of a Props file (for evidence)."""
    src = strip_comments(open(os.path.join(COQ, "Props", prop_file + ".v")).read())
    return re.findall(r"(?:Theorem|Lemma|Corollary)\s+([A-Za-z0-9_']+)", src)


# ----------------------------------------------------------------------------
# Extracted model (OCaml)
# ----------------------------------------------------------------------------
def build_model(area):
    """Extraction of area's Coq model (Extract/Extract_<area>.v) + ocamlopt of its driver -> ocaml/bin/<area>."""
    p = sh(["make", "-s", "bin/" + area], cwd=OCAML, timeout=1200, check=False)
    if p.returncode != 0:
        return None, p.stdout
    return os.path.join(OCAML, "bin", area), ""


def run_model(area, sub, lines, jobs=None, timeout=1800):
    exe = os.path.join(OCAML, "bin", area)
    if not os.path.exists(exe):
        raise Infra("model driver %s not built" % area)
    n = len(lines)
    if n == 0:
        return []
    jobs = max(1, min(jobs or NCPU, (n + 199) // 200))
    shards = [list(range(j, n, jobs)) for j in range(jobs)]

    def one(idx):
        data = "".join(lines[i] + "\n" for i in idx)
        p = subprocess.run(["bash", "-c", "ulimit -s unlimited 2>/dev/null; exec %s %s" % (exe, sub)], input=data,
                           stdout=subprocess.PIPE, stderr=subprocess.PIPE, text=True, timeout=timeout)
        out = p.stdout.split("\n")
        if out and out[-1] == "":
            out.pop()
        if p.returncode != 0 or len(out) != len(idx):
            raise Infra("model driver failed on %s/%s rc=%s lines=%d/%d: %s" % (area, sub, p.returncode, len(out), len(idx), p.stderr[-2000:]))
        return out
    res = [None] * n
    with ThreadPoolExecutor(max_workers=jobs) as ex:
        for idx, outs in zip(shards, ex.map(one, shards)):
            for i, o in zip(idx, outs):
                res[i] = o
    return res


# ----------------------------------------------------------------------------
# known findings, evidence, verdicts
# ----------------------------------------------------------------------------
def known_findings(prop):
    p = os.path.join(ROOT, "known_findings.json")
    if not os.path.exists(p):
        return []
    return [e for e in json.load(open(p)).get("findings", []) if e.get("property") == prop and e.get("status") == "known"]


def write_replay(prop, name, obj):
    d = os.path.join(WORK, "replay", prop)
    os.makedirs(d, exist_ok=True)
    path = os.path.join(d, name)
    with open(path, "w") as f:
        if isinstance(obj, str):
            f.write(obj)
        else:
            json.dump(obj, f, indent=1, ensure_ascii=False)
    return path


def write_evidence(prop, tier, seed, coverage, wall_s, violations, assumptions, level="proof"):
    os.makedirs(EVID, exist_ok=True)
    ev = {"property_id": prop, "tier": tier, "seed": int(seed), "level": level,
          "coverage": coverage, "assumptions": assumptions, "wall_s": round(wall_s, 2),
          "violations": int(violations)}
    tmp = os.path.join(EVID, prop + ".json.tmp")
    with open(tmp, "w") as f:
        json.dump(ev, f, indent=1, ensure_ascii=False)
    os.replace(tmp, os.path.join(EVID, prop + ".json"))


def splitmix(seed):
    return random.Random(seed)


def str_cps(s):
    return [ord(c) for c in s]
