#!/usr/bin/env python3
# Writes /verif/MANIFEST.json from the table below (kept in one place so that it stays valid).
import json, os, subprocess
ROOT = os.path.dirname(os.path.dirname(os.path.abspath(__file__)))
hook_commits = subprocess.run(["git", "-C", "/repo", "log", "--format=%H %s", "--grep=^verif hooks"], stdout=subprocess.PIPE, text=True).stdout.strip().split("\n")
CHECKS = json.load(open(os.path.join(ROOT, "tools", "claims.json")))
m = {
    "version": 1,
    "setup_cmd": "cd /verif && ./setup.sh",
    "hooks": {
        "guard": "cargo feature verif_hooks",
        "enable": "the harness crate /verif/harness depends on deno_lint = { path = \"/repo\", features = [\"verif_hooks\"] }; cargo build --release --offline",
        "baseline_off_cmd": "cd /repo && cargo test --workspace --no-fail-fast --offline",
        "source_commits": [c.split()[0] for c in hook_commits if c],
        "add_only": True,
    },
    "engines": [
        {"name": "coq", "path": "/verif/coq", "serves_properties": sorted(c["property_id"] for c in CHECKS["checks"]),
         "kind_free_text": "Coq 8.16.1 models + theorems (Props/Cxx.v), full .vo build, Print Assumptions parsed, coqchk in the thorough tier"},
        {"name": "vharness", "path": "/verif/harness", "serves_properties": sorted(c["property_id"] for c in CHECKS["checks"]),
         "kind_free_text": "Rust implementation runner linked against /repo (path dependency, rebuilt on every check)"},
        {"name": "extracted-models", "path": "/verif/ocaml", "serves_properties": sorted(c["property_id"] for c in CHECKS["checks"]),
         "kind_free_text": "OCaml drivers around the extracted Coq models (ExtrOcamlBasic only) for the correspondence stage"},
    ],
    "checks": [],
    "not_applicable": CHECKS.get("not_applicable", []),
    "notes": "Technique: machine-checked proof in Coq about hand-written executable models, tied to /repo by a correspondence check on every run (and by translators that regenerate tabular facts from the source). See DESIGN.md.",
}
for c in CHECKS["checks"]:
    pid = c["property_id"]
    m["checks"].append({
        "property_id": pid,
        "quick_cmd": "./check %s --tier quick" % pid,
        "thorough_cmd": "./check %s --tier thorough" % pid,
        "evidence_file": "/verif/evidence/%s.json" % pid,
        "replay_cmd_template": "./check %s --replay {path}" % pid,
        "engine": "coq",
        "level_claimed": {"category": "proof", "text": c["text"], "design_ref": "DESIGN.md §6 " + pid},
        "level_note": c["note"],
        "technique": c["technique"],
    })
json.dump(m, open(os.path.join(ROOT, "MANIFEST.json"), "w"), indent=1)
print("MANIFEST.json: %d checks, %d not applicable" % (len(m["checks"]), len(m["not_applicable"])))
