# Scenario generator + model/implementation encoders for the diagnostic pipeline
# (shared by C02-C07, C09, C16, C17).
import random, json
from lib import *

BUILTIN_RULES_USED = ["no-debugger", "eqeqeq", "no-empty", "ban-unused-ignore", "ban-unknown-rule-code"]
KNOWN_NOT_ENABLED = ["no-var", "no-explicit-any", "prefer-const"]
UNKNOWN = ["foo", "no-such-rule", "x1", "é-rule", "no_debugger", "No-Debugger", "NO-DEBUGGER", "Foo", "FOO",
           # codes that carry punctuation (they are unknown codes, not noise to be dropped)
           "no-debugger.", "(no-debugger)", "no-var;", '"no-var"', "no-debugger!", "@scope/rule", "a:b"]
EXT_CODES = ["ext/a", "ext-b", "zz"]
WS_SEPS = [" ", "\t", ",", ", ", " ,", " , ", " ", "　", ",,", "  ", ",\t"]
DEFAULT_FW = "deno-lint-ignore-file"
DEFAULT_LW = "deno-lint-ignore"
CUSTOM_WORDS = ["my-ignore", "my-ignore-file", "deno-lint-ignore-fil", "deno-lint-ignore", "deno-lint-ignore-file", "lint-off", "ig", "deno-lint-ignore-line",
                # words that mean something to a pattern language or are otherwise unusual: "all custom words"
                "lint+ignore", "$lint-ignore", "(x)", "lint.ignore", "[lint-ignore]", "a|b", "x*", "lint\\d", "^ig", "ig$", "é-ignore", "IGNORE", "no", "{2}", "a?b",
                # words whose UTF-8 length exceeds their character count by two and more
                "ígnoré", "忽略-file", "忽略下一行检查", "😀ignore"]


def near_misses(w):
    """words that a sloppy matcher would confuse with w"""
    out = [w + "x", w.upper() if w.upper() != w else w.lower(), w[:-1] if len(w) > 1 else w + w]
    for ch in ".+*?|":
        if ch in w:
            out += [w.replace(ch, "-"), w.replace(ch, "X"), w.replace(ch, "")]
    if "|" in w:
        out += w.split("|")
    if w.startswith("^") or w.startswith("$"):
        out.append(w[1:])
    if w.endswith("$"):
        out.append(w[:-1])
    if "\\d" in w:
        out.append(w.replace("\\d", "7"))
    if w.startswith("[") and w.endswith("]") and len(w) > 2:
        out += [w[1], w[1:-1]]
    if w.startswith("(") and w.endswith(")") and len(w) > 2:
        out.append(w[1:-1])
    return [x for x in dict.fromkeys(out) if x and x != w and not any(c.isspace() for c in x)]
MSG_DEBUGGER = "`debugger` statement is not allowed"


def enc_str(s):
    return "%d %s" % (len(s), " ".join(str(ord(c)) for c in s)) if s else "0"


def enc_list(items, f):
    return " ".join([str(len(items))] + [f(x) for x in items])


def enc_opt(x, f):
    return "0" if x is None else "1 " + f(x)


def enc_comment(c):
    return "%d %s %d %d" % (1 if c["line"] else 0, enc_str(c["text"]), c["start"], c["end"])


def enc_diag(d):
    rng = None if d.get("start") is None else (d["start"], d["end"])
    return "%s %s %s" % (enc_str(d["code"]), enc_opt(rng, lambda r: "%d %d" % r), enc_str(d["msg"]))


class Reader:
    def __init__(self, line):
        self.t = line.split()
        self.i = 0

    def int(self):
        v = int(self.t[self.i]); self.i += 1; return v

    def str(self):
        n = self.int()
        return "".join(chr(self.int()) for _ in range(n))

    def list(self, f):
        return [f() for _ in range(self.int())]

    def opt(self, f):
        return f() if self.int() else None


def dec_diags(line):
    r = Reader(line)

    def one():
        code = r.str()
        rng = r.opt(lambda: (r.int(), r.int()))
        msg = r.str()
        return (code, rng[0] if rng else None, rng[1] if rng else None, msg)
    return r.list(one)


# ---------------------------------------------------------------------------
class Layout:
    """Builds a source text and records what the generator knows about it."""

    def __init__(self, eol):
        self.eol = eol
        self.parts = []
        self.off = 0
        self.comments = []
        self.first_token = None
        self.debuggers = []
        self.nls = []
        self.notes = []

    def emit(self, s):
        self.parts.append(s)
        b = s.encode("utf8")
        for i, ch in enumerate(b):
            if ch == 10:
                self.nls.append(self.off + i)
        self.off += len(b)

    def token(self, s):
        if self.first_token is None:
            self.first_token = self.off
        self.emit(s)

    def debugger(self):
        if self.first_token is None:
            self.first_token = self.off
        st = self.off
        self.emit("debugger;")
        self.debuggers.append((st, self.off))

    def line_comment(self, text):
        st = self.off
        self.emit("//" + text)
        self.comments.append({"line": True, "text": text, "start": st, "end": self.off, "part": len(self.parts) - 1})

    def block_comment(self, text):
        st = self.off
        self.emit("/*" + text + "*/")
        self.comments.append({"line": False, "text": text, "start": st, "end": self.off, "part": len(self.parts) - 1})

    def newline(self):
        self.emit(self.eol)

    def src(self):
        return "".join(self.parts)


def gen_codes(rng, sc_rules, decl):
    pool = []
    pool += [c for c in sc_rules] * 3
    pool += ["no-debugger"] * 4
    pool += KNOWN_NOT_ENABLED
    pool += UNKNOWN
    pool += EXT_CODES
    pool += ["ban-unused-ignore", "ban-unknown-rule-code"]
    n = rng.choice([0, 1, 1, 1, 2, 2, 3, 4])
    codes = [rng.choice(pool) for _ in range(n)]
    if codes and rng.random() < 0.15:
        codes.append(codes[0])  # duplicate
    return codes


def directive_text(rng, word, codes):
    lead = rng.choice([" ", " ", " ", "", "\t", "  ", " "])
    s = lead + word
    if codes:
        s += rng.choice([" ", " ", "\t", "  ", "　", " ,"])
        for i, c in enumerate(codes):
            if i:
                s += rng.choice(WS_SEPS)
            s += c
        if rng.random() < 0.15:
            s += rng.choice([",", " ", ", "])
    r = rng.random()
    if r < 0.25:
        s += rng.choice([" -- reason", "-- r", " --", "  -- a -- b", " -- no-debugger", "\t--x"])
    elif r < 0.30 and codes:
        s += rng.choice([" - not a reason", " -x"])
    return s


def gen_tiny(rng):
    """A file that consists of ONE directive comment and nothing else (no blank after `//`, no line break at the end, or both),
    linted with an external linter that reports a diagnostic without a range: the smallest files a size-keyed shortcut can get wrong."""
    L = Layout("\n")
    rules = rng.sample(BUILTIN_RULES_USED, rng.choice([0, 1, 2])) + ["ban-unused-ignore", "ban-unknown-rule-code"][:rng.choice([0, 1, 2])]
    fw = rng.choice([None, None, "x", "ig"])
    lw = None
    decl = rng.sample(EXT_CODES, rng.choice([0, 1]))
    w = rng.choice([fw or DEFAULT_FW, fw or DEFAULT_FW, DEFAULT_LW])
    codes = [] if rng.random() < 0.6 else [rng.choice(rules + decl + UNKNOWN[:3] + ["no-debugger"])]
    L.line_comment(rng.choice(["", "", " "]) + w + ((" " + " ".join(codes)) if codes else ""))
    if rng.random() < 0.3:
        L.newline()
    ext_diags = [{"code": rng.choice(decl + ["no-debugger", "zz"]), "start": None, "end": None, "msg": "ext0"}]
    if rng.random() < 0.5:
        ext_diags.append({"code": rng.choice(decl + ["ext/a"]), "start": 0, "end": 0, "msg": "ext1"})
    return {"src": L.src(), "media": rng.choice(["ts", "js"]), "rules": rules, "fw": fw, "lw": lw, "ext": {"decline": False, "diags": ext_diags, "rules": decl},
            "parts": L.parts, "comments": L.comments, "first_token": L.first_token, "nls": L.nls, "debuggers": L.debuggers, "ext_diags": ext_diags, "decl": decl}


def gen_scenario(rng, force=None):
    """Returns a dict with everything needed for both sides."""
    force = force or {}
    media = rng.choice(["ts", "ts", "js", "tsx"])
    eol = rng.choice(["\n", "\n", "\r\n"])
    L = Layout(eol)
    # configuration
    nrules = rng.choice([0, 1, 2, 3, 4, 5])
    rules = rng.sample(BUILTIN_RULES_USED, nrules)
    if rng.random() < 0.5 and "no-debugger" not in rules:
        rules.append("no-debugger")
    fw = rng.choice(CUSTOM_WORDS) if rng.random() < 0.3 else None
    lw = rng.choice(CUSTOM_WORDS) if rng.random() < 0.3 else None
    fw = force.get("fw", fw); lw = force.get("lw", lw)
    words_file = [fw or DEFAULT_FW]
    words_line = [lw or DEFAULT_LW]
    allwords = list(dict.fromkeys(words_file + words_line + [DEFAULT_FW, DEFAULT_LW] + ([rng.choice(CUSTOM_WORDS)] if rng.random() < 0.3 else [])))
    if (fw or lw) and rng.random() < 0.5:
        nm = near_misses(fw or lw) + (near_misses(lw) if fw and lw else [])
        allwords = list(dict.fromkeys(allwords + rng.sample(nm, min(len(nm), 2))))
    # external linter
    ext_mode = rng.choice(["none", "none", "decline", "some", "some", "some"])
    decl = []
    if ext_mode == "some":
        decl = rng.sample(EXT_CODES, rng.choice([0, 1, 2]))
        if rng.random() < 0.1:
            decl.append(rng.choice(UNKNOWN))
        if rng.random() < 0.25:
            # an external code that collides with a built-in code (enabled or not): it counts as known AND enabled all the same
            decl.append(rng.choice(KNOWN_NOT_ENABLED + ["no-debugger", "ban-unused-ignore", "ban-unknown-rule-code", "ban-unknown-rule-code"]))
            decl = list(dict.fromkeys(decl))
    # file body
    if rng.random() < 0.15:
        L.emit("#!/usr/bin/env -S deno run"); L.newline()
    nlines = rng.choice([1, 2, 3, 4, 5, 6, 8, 10, 14])
    # leading part: bias towards a file directive at the top
    r = rng.random()
    if r < 0.35:
        pre = rng.choice([0, 0, 0, 1, 2])
        for _ in range(pre):
            k = rng.random()
            if k < 0.4:
                L.line_comment(rng.choice([" copyright é漢", " @jsx h", " hello", ""]))
            elif k < 0.7:
                L.block_comment(rng.choice([" block ", "* jsdoc ", " " + (fw or DEFAULT_FW) + " "]))
            L.newline()
        if rng.random() < 0.15:
            # an earlier header comment whose first word merely BEGINS with the file word (an older spelling, a longer word)
            L.line_comment(directive_text(rng, words_file[0] + rng.choice(["-file", "x", "-line", "2", "-next-line"]), gen_codes(rng, rules, decl)))
            L.newline()
        w = rng.choice(words_file * 4 + allwords)
        codes = gen_codes(rng, rules, decl) if rng.random() < 0.75 else []
        L.line_comment(directive_text(rng, w, codes))
        L.newline()
        if rng.random() < 0.15:
            w = rng.choice(words_file)
            L.line_comment(directive_text(rng, w, gen_codes(rng, rules, decl) if rng.random() < 0.5 else []))
            L.newline()
    if rng.random() < 0.2:
        # an import/export declaration as the first item (module item that is not a statement)
        L.token(rng.choice(['import "m";', 'import * as ns from "m"; ns;', 'export {};', 'export default 1;'] + ([
                            # decorators in front of `export`: the item's range starts at `export`, its comments sit in front of `@`
                            '@dec export class K0 {}', '@dec @dec2() export default class {}', '@dec class K1 {}'] * 2 if media != "js" else [])))
        L.newline()
        if rng.random() < 0.4:
            w = rng.choice(words_file)
            L.line_comment(directive_text(rng, w, gen_codes(rng, rules, decl) if rng.random() < 0.5 else []))
            L.newline()
    for _ in range(nlines):
        k = rng.random()
        if k < 0.22:
            L.debugger()
            if rng.random() < 0.2:
                L.emit(" "); L.debugger()
        elif k < 0.30:
            L.token("x;")
        elif k < 0.36:
            pass  # blank
        elif k < 0.70:
            # line directive (or near miss), possibly in trailing position
            w = rng.choice(words_line * 5 + allwords + ["not-" + DEFAULT_LW, DEFAULT_LW + "x"])
            if rng.random() < 0.2:
                if rng.random() < 0.5:
                    L.debugger()
                else:
                    L.token("x;")
                L.emit(" ")
            L.line_comment(directive_text(rng, w, gen_codes(rng, rules, decl)))
        elif k < 0.76:
            w = rng.choice(allwords)
            L.block_comment(directive_text(rng, w, gen_codes(rng, rules, decl)))
        elif k < 0.82:
            w = rng.choice(allwords)
            q = rng.choice(['"', "'", "`"])
            L.token(q + "// " + w + " no-debugger" + q + ";")
        elif k < 0.86:
            L.line_comment(rng.choice([" plain", "", " é", " " + DEFAULT_LW[:-1]]))
        elif k < 0.90:
            L.emit(rng.choice(["  ", "\t"])); L.debugger()
        else:
            L.token("if (x) { "); L.debugger(); L.emit(" }")
        L.newline()
    if rng.random() < 0.3:
        L.debugger()  # last line without newline
    src = L.src()
    srcb = src.encode("utf8")
    # char boundaries for random external ranges
    bounds = [0]
    o = 0
    for ch in src:
        o += len(ch.encode("utf8")); bounds.append(o)
    ext = None
    ext_diags = []
    if ext_mode == "decline":
        ext = {"decline": True}
    elif ext_mode == "some":
        nd = rng.choice([0, 1, 2, 3, 5])
        code_pool = decl * 3 + EXT_CODES + ["no-debugger", "no-var", "ban-unused-ignore", "foo"]
        for i in range(nd):
            code = rng.choice(code_pool)
            if rng.random() < 0.12:
                ext_diags.append({"code": code, "start": None, "end": None, "msg": "ext%d" % i})
            else:
                if L.debuggers and rng.random() < 0.4:
                    a = rng.choice(L.debuggers)[0]
                else:
                    a = rng.choice(bounds)
                b = rng.choice([x for x in bounds if x >= a][:12])
                ext_diags.append({"code": code, "start": a, "end": b, "msg": "ext%d" % i})
        ext = {"decline": False, "diags": ext_diags, "rules": decl}
    sc = {"src": src, "media": media, "rules": rules, "fw": fw, "lw": lw, "ext": ext,
          "parts": L.parts, "comments": L.comments, "first_token": L.first_token, "nls": L.nls, "debuggers": L.debuggers,
          "ext_diags": ext_diags if ext_mode == "some" else None, "decl": decl if ext_mode == "some" else None}
    return sc


def impl_case(sc, **over):
    c = {"src": sc["src"], "media": sc["media"], "rules": sc["rules"], "fw": sc["fw"], "lw": sc["lw"], "ext": sc["ext"]}
    if sc.get("all_codes") is not None:
        c["all_codes"] = sc["all_codes"]
    c.update(over)
    return c


def run_order(rules):
    acc = ("ban-unused-ignore", "ban-unknown-rule-code")
    return sorted(dict.fromkeys(rules), key=lambda r: (1 if r in acc else 0, r))


def model_line(sc, builtin_codes, oracle=0):
    ft = sc["first_token"]
    leading = [c for c in sc["comments"] if ft is None or c["start"] < ft]
    rule_diags = []
    for r in run_order(sc["rules"]):
        if r == "no-debugger":
            for (a, e) in sc["debuggers"]:
                rule_diags.append({"code": "no-debugger", "start": a, "end": e, "msg": MSG_DEBUGGER})
    all_codes = sc.get("all_codes")
    if all_codes is None:
        all_codes = builtin_codes
    ext = None
    if sc["ext_diags"] is not None:
        ext = (sc["ext_diags"], sc["decl"])
    parts = [
        enc_opt(sc["fw"], enc_str), enc_opt(sc["lw"], enc_str),
        enc_list(sc["rules"], enc_str), enc_list(all_codes, enc_str),
        enc_list(leading, enc_comment), enc_list(sc["comments"], enc_comment),
        enc_list(sc["nls"], str), enc_list(rule_diags, enc_diag),
        ("0" if sc["ext"] is None else "1" if ext is None else "2 " + enc_list(ext[0], enc_diag) + " " + enc_list(ext[1], enc_str)),
        str(oracle)]
    return " ".join(parts)


def impl_tuples(res):
    if "ok" not in res:
        return None
    return [(d["code"], d["start"], d["end"], d["msg"]) for d in res["ok"]]
