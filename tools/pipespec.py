# Property-level oracle for the directive properties (C05, C06, C07, C16, C17), evaluated on
# the IMPLEMENTATION's outputs only.  It is written from the text of the properties, not from
# the Coq model:  O   = lint(file),   O0 = lint(file with every directive word overwritten in
# place by an equal-length non-word)  (the "neutralised" file: same offsets, no directives).
from pipe import DEFAULT_FW, DEFAULT_LW

WS = set([9, 10, 11, 12, 13, 32, 0x85, 0xA0, 0x1680] + list(range(0x2000, 0x200B)) + [0x2028, 0x2029, 0x202F, 0x205F, 0x3000])
ACC_UNUSED = "ban-unused-ignore"
ACC_UNKNOWN = "ban-unknown-rule-code"


def isws(c):
    return ord(c) in WS


def words(s):
    out, cur = [], ""
    for c in s:
        if isws(c):
            if cur:
                out.append(cur); cur = ""
        else:
            cur += c
    if cur:
        out.append(cur)
    return out


def trim(s):
    i, j = 0, len(s)
    while i < j and isws(s[i]):
        i += 1
    while j > i and isws(s[j - 1]):
        j -= 1
    return s[i:j]


def directive_codes(word, comment):
    """None if the comment is not a directive with that word; else the distinct codes it names
    (codes separated by white space and/or commas; everything from the first `--` on is a reason)."""
    if not comment["line"]:
        return None
    t = trim(comment["text"])
    w = words(t)
    if not w or w[0] != word:
        return None
    rest = t[len(word):]
    k = rest.find("--")
    if k >= 0:
        rest = rest[:k]
    codes = []
    cur = ""
    for c in rest + " ":
        if isws(c) or c == ",":
            if cur and cur not in codes:
                codes.append(cur)
            cur = ""
        else:
            cur += c
    return codes


def neutralised(sc):
    """The same file with every directive word (configured file/line word) overwritten by q's."""
    fw = sc["fw"] or DEFAULT_FW
    lw = sc["lw"] or DEFAULT_LW
    parts = list(sc["parts"])
    for c in sc["comments"]:
        if not c["line"]:
            continue
        t = trim(c["text"])
        w = words(t)
        if w and w[0] in (fw, lw):
            txt = parts[c["part"]]
            i = txt.index(w[0])
            parts[c["part"]] = txt[:i] + "q" * len(w[0].encode("utf8")) + txt[i + len(w[0]):]
    return "".join(parts)


def is_acc(d):
    return (d[0] == ACC_UNUSED and d[3].startswith("Ignore for code \"")) or \
           (d[0] == ACC_UNKNOWN and d[3].startswith("Unknown rule for code \""))


def line_of(nls, pos):
    return sum(1 for o in nls if o < pos)


def evaluate(sc, O, O0, builtin_codes):
    """Returns a list of (clause, detail) failures.  O, O0: lists of (code, start, end, msg)."""
    fails = []
    fw = sc["fw"] or DEFAULT_FW
    lw = sc["lw"] or DEFAULT_LW
    nls = sc["nls"]
    ft = sc["first_token"]
    leading = [c for c in sc["comments"] if ft is None or c["start"] < ft]
    fdir = None
    for c in leading:
        codes = directive_codes(fw, c)
        if codes is not None:
            fdir = (c, codes)
            break
    # C05 (literal reading): ANY bare file directive among the leading comments should silence the file; the code
    # only looks at the first file directive (a unit test pins "first wins" for two coded ones)
    if fdir is not None and fdir[1] and O:
        for c in leading:
            if c is not fdir[0] and directive_codes(fw, c) == []:
                fails.append(("C05.bare-directive-after-coded-one", "a bare file directive follows a coded one; the file is not silenced"))
                break
    # C05: a bare leading file directive silences everything
    if fdir is not None and not fdir[1]:
        if O:
            fails.append(("C05.silence", "bare file directive but %d diagnostics" % len(O)))
        return fails
    ldirs = {}
    for c in sc["comments"]:
        codes = directive_codes(lw, c)
        if codes is not None:
            ldirs[line_of(nls, c["start"])] = (c, codes)
    # ordering (C03/C16): by start (range-less first), then code
    keys = [((-1 if d[1] is None else d[1]), d[0]) for d in O]
    if keys != sorted(keys):
        fails.append(("C03.order", "output not sorted by (start, code)"))
    # C05 ("and only then"): without a bare leading file directive the file must not be silenced wholesale
    if O0 and not O and not (fdir is not None):
        pass  # decided below (everything could legitimately be suppressed by line directives)
    # C06: survivors = exactly the un-suppressed raw diagnostics, unchanged and in order
    used = set()

    def suppressor(d):
        if fdir is not None and d[0] in fdir[1]:
            return ("F", d[0])
        if d[1] is None:
            return None
        l = line_of(nls, d[1])
        if l > 0 and (l - 1) in ldirs and d[0] in ldirs[l - 1][1]:
            return (l - 1, d[0])
        return None
    expected_surv = []
    for d in O0:
        k = suppressor(d)
        if k is None:
            expected_surv.append(d)
        else:
            used.add(k)
    # survivors in O: everything that is not an accounting report located on a directive
    dir_ranges = set()
    if fdir is not None:
        dir_ranges.add((fdir[0]["start"], fdir[0]["end"]))
    for c, _ in ldirs.values():
        dir_ranges.add((c["start"], c["end"]))
    acc_O = [d for d in O if is_acc(d) and (d[1], d[2]) in dir_ranges]
    surv_O = [d for d in O if not (is_acc(d) and (d[1], d[2]) in dir_ranges)]
    if not O and (expected_surv or False):
        fails.append(("C05.silenced-without-bare-directive", "no bare leading file directive, %d diagnostics expected to survive, but the output is empty" % len(expected_surv)))
    if sorted(map(repr, surv_O)) != sorted(map(repr, expected_surv)):
        missing = [d for d in expected_surv if d not in surv_O]
        extra = [d for d in surv_O if d not in expected_surv]
        fails.append(("C06.exact", "removed-but-not-named or kept-but-named: missing=%s extra=%s" % (missing[:3], extra[:3])))
    elif surv_O != expected_surv:
        # same multiset: the relative order of diagnostics with equal (start, code) must be preserved
        fails.append(("C06.moved", "survivors reordered"))
    # C07: accounting
    decl = sc["decl"] or []
    known = set(builtin_codes if sc.get("all_codes") is None else sc["all_codes"]) | set(decl)
    enabled = set(sc["rules"]) | set(decl)
    check_unknown = ACC_UNKNOWN in sc["rules"]
    dirs = []
    if fdir is not None:
        dirs.append(("F", fdir[0], fdir[1]))
    for l, (c, codes) in ldirs.items():
        dirs.append((l, c, codes))
    any_unknown = any(c not in known for (_, _, codes) in dirs for c in codes)
    file_sw_unknown = fdir is not None and ACC_UNKNOWN in fdir[1]
    file_sw_unused = fdir is not None and ACC_UNUSED in fdir[1]
    if any_unknown and file_sw_unknown:
        used.add(("F", ACC_UNKNOWN))       # the switch did suppress unknown-code reports
    expected_acc = []
    for (k, c, codes) in dirs:
        for code in codes:
            if code not in known:
                if check_unknown and not file_sw_unknown:
                    expected_acc.append((ACC_UNKNOWN, c["start"], c["end"], 'Unknown rule for code "%s"' % code))
            if (k, code) not in used and code in enabled and not file_sw_unused:
                expected_acc.append((ACC_UNUSED, c["start"], c["end"], 'Ignore for code "%s" was not used.' % code))
    if sorted(map(repr, acc_O)) != sorted(map(repr, expected_acc)):
        missing = [d for d in expected_acc if d not in acc_O]
        extra = [d for d in acc_O if d not in expected_acc]
        dup = [d for d in set(acc_O) if acc_O.count(d) > 1]
        fails.append(("C07.accounting", "missing=%s extra=%s duplicated=%s" % (missing[:3], extra[:3], dup[:3])))
    return fails
