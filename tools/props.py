# Per-property checks.  Each function drives the three stages described in DESIGN.md §1:
# proof stage (Coq), correspondence stage (model vs implementation), violation search.
import os, json, time, hashlib
import lib
from lib import log

TRUSTED_BASE = [
    "Coq 8.16.1 kernel (coqc; vm_compute used only inside reflection proofs over finite generated tables); no native_compute",
    "axioms: none expected (Print Assumptions of every property theorem must say 'Closed under the global context')",
    "extraction: ExtrOcamlBasic only (Extract Inductive bool/option/unit/list/prod/sumbool/sumor; inlined andb/orb/negb/fst/snd); N/Z/positive/nat kept as extracted datatypes; OCaml 4.13 + the drivers under /verif/ocaml (correspondence stage only)",
    "the Rust harness /verif/harness (implementation runner), python orchestration and generators under /verif/tools, translators under /verif/translate",
    "cargo/rustc building /repo with --features verif_hooks",
]


class Ctx:
    def __init__(self, prop, tier, seed, replay=None):
        self.prop, self.tier, self.seed, self.replay = prop, tier, seed, replay
        import shutil
        shutil.rmtree(os.path.join(lib.WORK, "replay", prop), ignore_errors=True)
        self.obligations = []      # (name, ok, detail)
        self.corr = []             # dicts
        self.violations = []       # dicts: cls, text, replay_obj
        self.notes = []
        self.assumptions = []
        self.samples = []
        self.distribution = {}
        self.extra = {}
        self.checker_cmds = []

    # ---------------- proof stage ----------------
    def proof_stage(self, prop_file=None, extra_targets=()):
        prop_file = prop_file or self.prop
        bad = lib.coq_hygiene()
        self.obligation("hygiene: no Admitted/admit/Axiom/Parameter/Conjecture/guard switches in /verif/coq", not bad, "; ".join(bad[:10]))
        if extra_targets:
            ok, out = lib.coq_make(list(extra_targets))
            self.obligation("coq build: " + " ".join(extra_targets), ok, out[-1500:] if not ok else "")
        ok, thms, out = lib.props_assumptions(prop_file)
        self.checker_cmds.append("cd /verif/coq && coq_makefile -f _CoqProject -o Makefile && make Props/%s.vo  (coqc 8.16.1, full .vo build)" % prop_file)
        if not ok:
            names = lib.theorem_statements(prop_file)
            for n in names or ["Props/%s.v" % prop_file]:
                self.obligation("theorem " + n, False, out[-1500:])
            return False
        for name, axioms in thms:
            extra = [a for a in axioms if a not in lib.ALLOWED_AXIOMS]
            self.obligation("theorem %s (Print Assumptions: %s)" % (name, "closed" if not axioms else ",".join(axioms)),
                            not extra, "unexpected axioms: " + ",".join(extra) if extra else "")
        if self.tier == "thorough":
            self.coqchk(prop_file)
        return all(o[1] for o in self.obligations)

    def coqchk(self, prop_file):
        t = time.time()
        p = lib.sh("timeout 1500 coqchk -silent -o -Q . V V.Props.%s" % prop_file, cwd=lib.COQ, timeout=1600, check=False)
        out = p.stdout
        ok = p.returncode == 0
        ax = ""
        if "* Axioms:" in out:
            ax = out.split("* Axioms:")[1].split("*")[0].strip()
        self.obligation("coqchk -o V.Props.%s (axioms: %s)" % (prop_file, ax or "?"), ok and ax.startswith("<none>"), out[-800:])
        self.checker_cmds.append("coqchk -silent -o -Q . V V.Props.%s" % prop_file)
        log("[coqchk] %.1fs" % (time.time() - t))

    def obligation(self, name, ok, detail=""):
        self.obligations.append((name, bool(ok), detail))
        if not ok:
            log("[obligation FAILED] %s\n%s" % (name, detail[-1200:]))

    # ---------------- correspondence ----------------
    def correspondence(self, name, evaluations, nontrivial, mismatches, rule, samples=None, distribution=None):
        self.corr.append({"name": name, "evaluations": evaluations, "nontrivial": nontrivial,
                          "mismatches": mismatches, "rule": rule})
        if samples:
            self.samples.extend(samples[:3])
        if distribution:
            self.distribution[name] = distribution
        if mismatches:
            log("[correspondence %s] %d mismatches, first: %s" % (name, len(mismatches), json.dumps(mismatches[0], ensure_ascii=False)[:1500]))

    # ---------------- property-level failures ----------------
    def violation(self, cls, text, replay_obj):
        self.violations.append({"cls": cls, "text": text, "replay": replay_obj})

    # ---------------- verdict ----------------
    def finish(self, wall):
        prop = self.prop
        known = lib.known_findings(prop)
        known_cls = {k["match"]["class"]: k for k in known}
        unknown, seen_known = [], {}
        for v in self.violations:
            if v["cls"] in known_cls:
                seen_known.setdefault(v["cls"], v)
            else:
                unknown.append(v)
        for cls, v in seen_known.items():
            kp = lib.write_replay(prop, "known-%s.json" % hashlib.sha1(cls.encode()).hexdigest()[:10],
                                  {"property": prop, "class": cls, "known_finding": known_cls[cls]["text"], "what": v["text"], "input": v["replay"]})
            print("KNOWN-FINDING: property=%s %s [%s] e.g. %s (replay=%s)" % (prop, known_cls[cls]["text"], cls, v["text"][:200], kp))
        broken_obl = [o for o in self.obligations if not o[1]]
        broken_corr = [c for c in self.corr if c["mismatches"]]
        rc = 0
        nviol = len(unknown)
        if unknown:
            # distinct classes, first of each
            done = set()
            for v in unknown:
                if v["cls"] in done:
                    continue
                done.add(v["cls"])
                path = lib.write_replay(prop, "violation-%s.json" % hashlib.sha1(v["cls"].encode()).hexdigest()[:10],
                                        {"property": prop, "class": v["cls"], "what": v["text"], "input": v["replay"],
                                         "broken_obligations": [o[0] for o in broken_obl],
                                         "broken_correspondence": [c["name"] for c in broken_corr]})
                print("VIOLATION property=%s replay=%s" % (prop, path))
            rc = 1
        elif broken_obl or broken_corr:
            obj = {"property": prop, "no_failing_input_found": True,
                   "broken_obligations": [{"name": o[0], "detail": o[2][-3000:]} for o in broken_obl],
                   "broken_correspondence": [{"name": c["name"], "first_mismatches": c["mismatches"][:5]} for c in broken_corr],
                   "note": "a theorem or the model/implementation correspondence no longer checks; the property-level search over the mismatching inputs, their variants and the generated inputs found no input on which the property itself fails"}
            path = lib.write_replay(prop, "unproved.json", obj)
            print("VIOLATION property=%s replay=%s no-failing-input-found" % (prop, path))
            rc = 1
            nviol = 1
        evaluations = sum(c["evaluations"] for c in self.corr)
        nontrivial = sum(c["nontrivial"] for c in self.corr)
        cov = {
            "obligations": len(self.obligations),
            "discharged": sum(1 for o in self.obligations if o[1]),
            "obligation_list": [{"name": o[0], "ok": o[1]} for o in self.obligations],
            "checker_cmd": " ; ".join(dict.fromkeys(self.checker_cmds)) or "n/a",
            "trusted_base": TRUSTED_BASE + self.assumptions,
            "evaluations": evaluations,
            "distinct_nontrivial": nontrivial,
            "traces_validated_against_impl": evaluations,
            "rule": " | ".join("%s: %s" % (c["name"], c["rule"]) for c in self.corr),
            "correspondence": [{"name": c["name"], "evaluations": c["evaluations"], "distinct_nontrivial": c["nontrivial"], "mismatches": len(c["mismatches"])} for c in self.corr],
            "samples": self.samples[:8] or [o[0] for o in self.obligations[:5]],
            "input_distribution": self.distribution,
            "known_findings_seen": sorted(seen_known.keys()),
            "property_level_failures": len(self.violations),
        }
        cov.update(self.extra)
        lib.write_evidence(prop, self.tier, self.seed, cov, wall, nviol, self.notes)
        log("[%s] %s obligations %d/%d, %d evaluations, %d property-level failures (%d known classes), %.1fs" % (
            prop, "OK" if rc == 0 else "VIOLATION", cov["discharged"], cov["obligations"], evaluations, len(self.violations), len(seen_known), wall))
        return rc


REGISTRY = {}
REPLAYERS = {}


def replay(prop, path):
    """./check Cxx --replay FILE: re-run the recorded input(s) on the current implementation and show what it does now.
    Exit 1 if the property-specific re-evaluation still fails (or, generically, if the recorded case still produces the recorded output)."""
    obj = json.load(open(path))
    print("replay of %s: class=%s" % (path, obj.get("class")))
    print("what: %s" % obj.get("what"))
    if prop in REPLAYERS:
        return REPLAYERS[prop](obj)
    cases = []

    def walk(x, name=""):
        if isinstance(x, dict):
            if "src" in x and isinstance(x["src"], str) and ("rules" in x or "media" in x):
                cases.append((name, x))
            else:
                for k, v in x.items():
                    walk(v, name + "/" + k)
        elif isinstance(x, list):
            for i, v in enumerate(x[:20]):
                walk(v, name + "/%d" % i)
    walk(obj.get("input"))
    if not cases:
        print("no re-runnable case recorded in this replay file (see its fields for the manual replay command)")
        print(json.dumps(obj, indent=1, ensure_ascii=False)[:3000])
        return 0
    res = lib.run_vh("lint", [dict(c, rules=c.get("rules", "all"), media=c.get("media", "ts")) for _, c in cases])
    for (name, c), r in zip(cases, res):
        print("--- %s\n%s\n=> %s" % (name, json.dumps(c, ensure_ascii=False)[:1500], json.dumps(r, ensure_ascii=False)[:3000]))
    return 1 if obj.get("class") else 0


def register(pid):
    def deco(f):
        REGISTRY[pid] = f
        return f
    return deco


import props_pipeline  # noqa: E402,F401  (registers C02..C07, C09, C16, C17)
for _m in ("props_select", "props_regex", "props_cf", "props_misc", "props_dlint", "props_c08", "props_c13", "props_c14", "props_c18", "props_c20"):
    try:
        __import__(_m)
    except ImportError as e:
        if _m not in str(e):
            raise
    except Exception as e:   # a module under construction must not take the other checks down
        log("[props] module %s failed to import: %r" % (_m, e))
