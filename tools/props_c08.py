# C08 -- syntactic rules report every occurrence exactly once, at any nesting.
#
# Stages: (a) translator translate/gen_visit_table.py -> coq/Gen/VisitTable.v (obligation), (b) proof stage
# (Traverse/TableFacts.vo, Props/C08.v), (c) the nesting differential on the implementation:
#   (rule, offending construct, neutral twin)  x  one-hole contexts composed to depth 1..4
# with the prediction of the model (Traverse/VisitTraverse.v: embedding_composed / handler_embedding): a complete
# traversal + contexts that are neutral for the rule  ==>  context[construct] yields exactly the construct's own
# diagnostics (same number, same code, ranges shifted by the offset of the hole) and context[twin] yields none.
import collections, json, os, random, re, sys
import lib
from lib import log
from props import register
sys.path.insert(0, os.path.join(lib.ROOT, "translate"))
import gen_visit_table
import gen_ancestor_walks
import corpus as corpus_mod

# --------------------------------------------------------------------------------------------------------------
# (rule, kind, construct, neutral twin[, media])      kind: "E" expression (always plugged as "(E)"), "S" statement
# Constructs are the rules' own test programs (src/rules/<rule>.rs, `#[cfg(test)]`), reduced to the offending
# piece; `from_tests` in the evidence counts the constructs that occur literally in the repo's test strings.
# Identifiers are chosen so that no context binds or mentions them.
# --------------------------------------------------------------------------------------------------------------
PAIRS = [
    ("eqeqeq", "E", "a == b", "a === b"),
    ("prefer-primordials", "E", "parseInt('1')", "q9('1')"),
    ("prefer-primordials", "E", "new Map()", "new q9()"),
    ("no-compare-neg-zero", "E", "x === -0", "x === 0"),
    ("no-cond-assign", "S", "if (x = 0) { }", "if (x === 0) { }"),
    ("no-sparse-arrays", "S", "const sparseArray = [1,,3];", "const sparseArray1 = [1,null,3];"),
    ("no-self-compare", "E", "x === x", "x === y"),
    ("no-unsafe-negation", "E", "!key in object", "!(key in object)"),
    ("use-isnan", "E", "42 === NaN", "isNaN(42)"),
    ("no-extra-boolean-cast", "E", "!!!foo", "!!foo"),     # the twin `!!foo` is silent on its own and reveals the boolean contexts (if/while/?:/!) in which the rule is context dependent by specification
    ("valid-typeof", "E", 'typeof foo === "strnig"', 'typeof foo === "string"'),
    ("no-invalid-regexp", "E", "new RegExp(')')", "new RegExp('.')"),
    ("no-invalid-regexp", "E", "RegExp('[')", "RegExp('.')"),
    ("no-invalid-regexp", "E", "RegExp('.', 'z')", "RegExp('.', 'g')"),
    ("no-invalid-regexp", "E", r"/(?<a>a)\k</", r"/(?<a>a)\k<a>/"),
    ("no-empty-character-class", "E", "/^abc[]/", "/^abc[a]/"),
    ("no-control-regex", "E", r"/\x1f/", r"/\x20/"),
    ("no-regex-spaces", "E", "/foo  bar/", "/foo {2}bar/"),
    ("no-dupe-keys", "S", 'var x = { "z": 1, z: 2 };', "var x = { '': 1, bar: 2 };"),
    ("no-array-constructor", "E", "new Array(0, 1, 2)", "new Array(500)"),
    ("no-new-symbol", "E", "new Symbol()", "Symbol()"),
    ("no-obj-calls", "E", "Math()", "Math.abs(1)"),
    ("no-prototype-builtins", "S", "foo.hasOwnProperty('bar');", "Object.prototype.hasOwnProperty.call(foo, 'bar');"),
    ("no-async-promise-executor", "E", "new Promise(async (resolve, reject) => {})", "new Promise((resolve, reject) => {})"),
    ("no-eval", "S", "eval('123');", "foo.eval('bar');"),
    ("no-explicit-any", "S", "const a: any = {};", "const a: unknown = {};"),
    ("no-explicit-any", "E", "foo as any", "foo as unknown"),
    ("no-non-null-assertion", "S", "x!.y;", "x.y;"),
    ("no-extra-non-null-assertion", "S", "function foo(bar: undefined | string) { return bar!!; }", "function foo(bar: undefined | string) { return bar!; }"),
    ("no-non-null-asserted-optional-chain", "E", "foo?.bar!", "foo?.bar"),
    ("no-this-alias", "S", "const self = this;", "const self = that;"),
    ("no-throw-literal", "S", "throw 'kumiko';", "throw e;"),
    ("no-delete-var", "E", "delete someVar", "delete someVar.prop"),
    ("no-debugger", "S", "debugger;", ";"),
    ("no-var", "S", "var foo = 0;", "let foo = 0;"),
    ("no-with", "S", "with (someVar) { console.log('asdf'); }", "{ console.log('asdf'); }", "js"),
    ("no-empty", "S", "if (foo) { }", "if (foo) { bar }"),
    ("no-empty-pattern", "S", "const {} = foo;", "const {a1} = foo;"),
    ("no-empty-pattern", "S", "function foo({}) {}", "function foo({a}) {}"),
    ("no-case-declarations", "S", "switch (foo) { case 1: let x1 = 1; break; }", "switch (foo) { case 1: { let x1 = 1; break; } }"),
    ("no-duplicate-case", "S", "switch (a) { case a: case a: }", "switch(a) { case toString: break; }"),
    ("no-dupe-else-if", "S", "if (a) {} else if (a) {}", "if (a) {} else if (b) {}"),
    # TypeScript-only syntax INSIDE the compared expressions (type nodes must be normalised like everything else)
    ("no-dupe-else-if", "S", "if (a as T) {} else if (a as T) {}", "if (a as T) {} else if (b as T) {}", "ts"),
    ("no-dupe-else-if", "S", "if (f<T>(a)) {} else if (f<T>(a)) {}", "if (f<T>(a)) {} else if (f<U>(a)) {}", "ts"),
    ("no-duplicate-case", "S", "switch (x) { case (y as T): break; case (y as T): break; }", "switch (x) { case (y as T): break; case (z as T): break; }", "ts"),
    ("no-duplicate-case", "S", "switch (x) { case ((p: number) => p): break; case ((p: number) => p): break; }", "switch (x) { case ((p: number) => p): break; case ((q: number) => 1): break; }", "ts"),
    ("no-self-compare", "E", "(x as T) === (x as T)", "(x as T) === (y as T)", "ts"),
    ("no-dupe-keys", "E", "{ a: 1 as T, a: 2 as T }", "{ a: 1 as T, b: 2 as T }", "ts"),
    ("no-dupe-args", "E", "function (a, b, a) {}", "function (a, b, c) {}"),
    ("no-dupe-class-members", "E", "class { foo() {} foo() {} }", "class { foo() {} bar() {} }"),
    ("no-constant-condition", "S", "if(true);", "if(a);"),
    ("no-constant-condition", "E", "true ? 1 : 2", "bar ? 1 : 2"),
    ("no-self-assign", "E", "a = a", "a = b"),
    ("no-unsafe-finally", "E", "function () { try { return 1; } finally { return 3; } }", "function () { try { return 1; } finally { foo; } }"),
    ("no-setter-return", "E", "{ set a(val) { return 1; } }", "{ set foo(val) { return; } }"),
    ("getter-return", "E", "{ get a() {} }", "{ get a() { return 1; } }"),
    ("getter-return", "S", "class Foo { get bar() {} }", "class Foo { get bar() { return 1; } }"),
    ("require-yield", "E", "function* () { foo(); }", "function* () { yield 1; }"),
    ("for-direction", "S", "for(let i = 0; i < 2; i--) {}", "for(let i = 0; i < 2; i++) {}"),
    ("guard-for-in", "S", "for (const key in obj) { foo(key); }", "for (const key in obj) { if (Object.hasOwn(obj, key)) { foo(key); } }"),
    ("no-inferrable-types", "S", "const a2: number = 5;", "const a2 = 5;"),
    ("no-inferrable-types", "E", "(a2: number = 5) => {}", "(a2 = 5) => {}"),
    ("single-var-declarator", "S", 'let a2 = "a", b2 = "b", c2 = "c";', 'let a2 = "a";'),
    ("default-param-last", "S", "function f(a = 2, b) {}", "function f(a, b = 5) {}"),
    ("no-useless-rename", "S", "const { foo: foo } = obj;", "const { foo: bar } = obj;"),
    ("no-octal", "E", "07", "7", "js"),
    ("no-misused-new", "S", "interface I1 { constructor(): void; }", "interface I1 { construct(): void; }"),
    ("no-empty-enum", "S", "enum Foo {}", "enum Foo { ONE = 'ONE', TWO = 'TWO' }"),
    ("no-empty-interface", "S", "interface Foo {}", "interface Foo { a: string }"),
    ("prefer-as-const", "E", '"bar" as "bar"', '"bar" as const'),
    ("no-unused-labels", "S", "LABEL: for (let i = 0; i < 5; i++) { a(); b(); }", "LABEL: for (let i = 0; i < 5; i++) { a(); break LABEL; }"),
    ("no-boolean-literal-for-arguments", "E", "test(true,true)", "runCMDCommand(command, executionMode)"),
    ("constructor-super", "S", "class A extends B { constructor() { } }", "class A extends B { constructor() { super(); } }"),
    ("no-this-before-super", "E", "class extends B1 { constructor() { this.a = 0; super(); } }", "class extends B1 { constructor() { super(); this.a = 0; } }"),
    ("no-class-assign", "S", "{ class A4 {} A4 = 0; }", "{ class A4 {} B4 = 0; }"),
    ("no-const-assign", "S", "{ const x = 0; x = 1; }", "{ const x = 0; y = 1; }"),
    ("no-ex-assign", "S", "try {} catch (e) { e = 1; }", "try {} catch (e) { f = 1; }"),
    ("no-func-assign", "S", "function foo() { foo = bar; }", "function foo() { var foo = bar; }"),
    ("no-shadow-restricted-names", "E", "function (NaN) {}", "function (nan) {}"),
    ("ban-types", "S", "let a: String;", "let a: string;"),
    ("no-redeclare", "E", "function () { var r8 = 1; var r8 = 2; }", "function () { var r8 = 1; var s8 = 2; }"),
    ("no-fallthrough", "S", "switch(foo) { case 0: a(); default: b() }", "switch(foo) { case 0: a(); break; case 1: b(); }"),
    ("no-global-assign", "S", "Array = 1;", "Arrayy = 1;"),
    ("no-import-assertions", "S", "import('./foo.js', { assert: { bar: 'bar' } });", "import('./foo.js', { with: { bar: 'bar' } });"),
    ("jsx-boolean-value", "E", "<Foo foo={true} />", "<Foo foo />", "tsx"),
    ("jsx-no-duplicate-props", "E", "<div a a />", "<div a b />", "tsx"),
    ("jsx-no-children-prop", "E", '<div children="foo" />', '<div kids="foo" />', "tsx"),
    ("jsx-void-dom-elements-no-children", "E", "<br>foo</br>", "<br />", "tsx"),
    ("react-no-danger", "E", "<div dangerouslySetInnerHTML={{}} />", "<div html={{}} />", "tsx"),
    ("jsx-no-useless-fragment", "E", "<><div /></>", "<><div /><div /></>", "tsx"),
    ("jsx-props-no-spread-multi", "E", "<div {...foo} {...foo} />", "<div {...foo} {...bar} />", "tsx"),
    ("jsx-button-has-type", "E", "<button />", '<button type="button" />', "tsx"),
    ("jsx-key", "E", '[<div key="foo" />, <div />]', '[<div key="1"/>, <div key="2" />]', "tsx"),
]

# --------------------------------------------------------------------------------------------------------------
# One-hole contexts.  (kind, hole, result, prefix, suffix, spine, flags)
#   hole/result: "E" or "S".  An "E" result is turned into a program statement by the implicit outermost
#   context  "" ... ";" .  spine: the swc node types between the context's root and its hole, as `visit_*` method
#   names (used to attribute a hidden report to an override of the generated table).
#   flags: "top" = only as outermost context (module level syntax), "tsx" = JSX syntax (media tsx),
#          "ts" = TypeScript-only syntax.
# --------------------------------------------------------------------------------------------------------------
CONTEXTS = [
    # expression in expression
    ("call-argument", "E", "E", "f(0, ", ")", ["visit_call_expr", "visit_expr_or_spread"], ""),
    # the value of a `get:` property of a property descriptor, behind something that is not directly a function
    ("descriptor-get-call-argument", "E", "E", "Object.defineProperty(o, 'k', { get: memo(", ") })", ["visit_call_expr", "visit_expr_or_spread", "visit_object_lit", "visit_prop", "visit_key_value_prop"], ""),
    ("descriptor-get-conditional", "E", "E", "Object.defineProperty(o, 'k', { get: c ? ", " : null })", ["visit_call_expr", "visit_expr_or_spread", "visit_object_lit", "visit_prop", "visit_key_value_prop", "visit_cond_expr"], ""),
    ("descriptor-get-paren-function-body", "S", "E", "Reflect.defineProperty(o, 'k', { get: (function () { ", " return 1; }) })", ["visit_call_expr", "visit_expr_or_spread", "visit_object_lit", "visit_prop", "visit_key_value_prop", "visit_paren_expr", "visit_fn_expr", "visit_function", "visit_block_stmt"], ""),
    ("descriptor-map-get-call-argument", "E", "E", "Object.defineProperties(o, { k: { get: wrap(", ") } })", ["visit_call_expr", "visit_expr_or_spread", "visit_object_lit", "visit_prop", "visit_key_value_prop"], ""),
    # heads of loops / catch clauses / assignment patterns, and further expression positions (added after a panic was found in a for-of head)
    ("for-of-head-array-default", "E", "S", "for (const [d%d = ", "] of it) { g(); }", ["visit_for_of_stmt", "visit_for_head", "visit_var_decl", "visit_var_declarator", "visit_pat", "visit_array_pat", "visit_assign_pat"], ""),
    ("for-of-head-object-default", "E", "S", "for (const { d%d = ", " } of it) { g(); }", ["visit_for_of_stmt", "visit_for_head", "visit_var_decl", "visit_var_declarator", "visit_pat", "visit_object_pat", "visit_object_pat_prop", "visit_assign_pat_prop"], ""),
    ("for-in-head-array-default", "E", "S", "for (const [d%d = ", "] in o) { if (h()) { g(); } }", ["visit_for_in_stmt", "visit_for_head", "visit_var_decl", "visit_var_declarator", "visit_pat", "visit_array_pat", "visit_assign_pat"], ""),
    ("for-of-head-member-computed", "E", "S", "for (o[", "] of it) { g(); }", ["visit_for_of_stmt", "visit_for_head", "visit_pat", "visit_expr", "visit_member_expr", "visit_member_prop", "visit_computed_prop_name"], ""),
    ("for-await-of-head-default", "E", "E", "(async () => { for await (const [d%d = ", "] of it) { g(); } })", ["visit_paren_expr", "visit_arrow_expr", "visit_block_stmt_or_expr", "visit_block_stmt", "visit_stmt", "visit_for_of_stmt", "visit_for_head", "visit_var_decl", "visit_var_declarator", "visit_pat", "visit_array_pat", "visit_assign_pat"], ""),
    ("catch-param-default", "E", "S", "try { g(); } catch ({ d%d = ", " }) { g(); }", ["visit_try_stmt", "visit_catch_clause", "visit_pat", "visit_object_pat", "visit_object_pat_prop", "visit_assign_pat_prop"], ""),
    ("assignment-pattern-array-default", "E", "E", "([t%d = ", "] = arr)", ["visit_paren_expr", "visit_assign_expr", "visit_assign_target", "visit_assign_target_pat", "visit_array_pat", "visit_pat", "visit_assign_pat"], ""),
    ("assignment-pattern-object-default", "E", "E", "({ t%d = ", " } = obj)", ["visit_paren_expr", "visit_assign_expr", "visit_assign_target", "visit_assign_target_pat", "visit_object_pat", "visit_object_pat_prop", "visit_assign_pat_prop"], ""),
    ("assignment-pattern-computed-key", "E", "E", "({ [", "]: t%d } = obj)", ["visit_paren_expr", "visit_assign_expr", "visit_assign_target", "visit_assign_target_pat", "visit_object_pat", "visit_object_pat_prop", "visit_key_value_pat_prop", "visit_prop_name", "visit_computed_prop_name"], ""),
    ("var-destructuring-default", "E", "S", "const [v%d = ", "] = arr;", ["visit_var_decl", "visit_var_declarator", "visit_pat", "visit_array_pat", "visit_assign_pat"], ""),
    ("class-method-default-parameter", "E", "E", "(class { m(p = ", ") {} })", ["visit_paren_expr", "visit_class_expr", "visit_class", "visit_class_member", "visit_class_method", "visit_function", "visit_param", "visit_pat", "visit_assign_pat"], ""),
    ("constructor-default-parameter", "E", "E", "(class { constructor(p = ", ") {} })", ["visit_paren_expr", "visit_class_expr", "visit_class", "visit_class_member", "visit_constructor", "visit_param_or_ts_param_prop", "visit_param", "visit_pat", "visit_assign_pat"], ""),
    ("setter-default-parameter", "E", "E", "({ set s(v = ", ") {} })", ["visit_paren_expr", "visit_object_lit", "visit_prop", "visit_setter_prop", "visit_pat", "visit_assign_pat"], ""),
    ("object-method-default-parameter", "E", "E", "({ m(p = ", ") {} })", ["visit_paren_expr", "visit_object_lit", "visit_prop", "visit_method_prop", "visit_function", "visit_param", "visit_pat", "visit_assign_pat"], ""),
    ("super-call-argument", "E", "E", "(class extends B { constructor() { super(", "); } })", ["visit_paren_expr", "visit_class_expr", "visit_class", "visit_class_member", "visit_constructor", "visit_block_stmt", "visit_stmt", "visit_expr_stmt", "visit_call_expr", "visit_expr_or_spread"], ""),
    ("dynamic-import-argument", "E", "E", "import(", ")", ["visit_call_expr", "visit_expr_or_spread"], ""),
    ("tagged-template-tag", "E", "E", "", "`x`", ["visit_tagged_tpl"], ""),
    ("optional-member-computed", "E", "E", "o?.[", "]", ["visit_opt_chain_expr", "visit_opt_chain_base", "visit_member_expr", "visit_member_prop", "visit_computed_prop_name"], ""),
    ("in-right", "E", "E", "('k' in ", ")", ["visit_paren_expr", "visit_bin_expr"], ""),
    ("delete-member-object", "E", "E", "delete ", ".m", ["visit_unary_expr", "visit_member_expr"], ""),
    ("yield-delegate", "E", "E", "(function* () { yield* ", "; })", ["visit_paren_expr", "visit_fn_expr", "visit_function", "visit_block_stmt", "visit_stmt", "visit_expr_stmt", "visit_yield_expr"], ""),
    ("ts-enum-initialiser", "E", "S", "enum EN%d { A = ", " }", ["visit_decl", "visit_ts_enum_decl", "visit_ts_enum_member"], "ts"),
    ("class-decorator-argument", "E", "S", "@dec(", ") class DC%d {}", ["visit_decl", "visit_class_decl", "visit_class", "visit_decorator", "visit_call_expr", "visit_expr_or_spread"], "ts"),
    ("for-init-let", "E", "S", "for (let i%d = ", "; h(); ) { g(); }", ["visit_for_stmt", "visit_var_decl_or_expr", "visit_var_decl", "visit_var_declarator"], ""),
    ("call-argument-after-non-ascii", "E", "E", 'f("日本é", ', ")", ["visit_call_expr", "visit_expr_or_spread"], ""),
    ("new-argument", "E", "E", "new F(", ")", ["visit_new_expr", "visit_expr_or_spread"], ""),
    ("optional-call-argument", "E", "E", "f?.(", ")", ["visit_opt_chain_expr", "visit_opt_call", "visit_expr_or_spread"], ""),
    ("callee", "E", "E", "", "(1)", ["visit_call_expr", "visit_callee"], ""),
    ("spread-argument", "E", "E", "f(...", ")", ["visit_call_expr", "visit_expr_or_spread"], ""),
    ("array-element", "E", "E", "[1, ", ", 2]", ["visit_array_lit", "visit_expr_or_spread"], ""),
    ("array-spread", "E", "E", "[...", "]", ["visit_array_lit", "visit_expr_or_spread"], ""),
    ("object-value", "E", "E", "({ k: ", " })", ["visit_paren_expr", "visit_object_lit", "visit_prop", "visit_key_value_prop"], ""),
    ("object-spread", "E", "E", "({ ...", " })", ["visit_paren_expr", "visit_object_lit", "visit_spread_element"], ""),
    ("object-computed-key", "E", "E", "({ [", "]: 1 })", ["visit_paren_expr", "visit_object_lit", "visit_prop", "visit_key_value_prop", "visit_prop_name", "visit_computed_prop_name"], ""),
    ("conditional-test", "E", "E", "(", " ? 1 : 2)", ["visit_paren_expr", "visit_cond_expr"], ""),
    ("conditional-branch", "E", "E", "(c ? 1 : ", ")", ["visit_paren_expr", "visit_cond_expr"], ""),
    ("logical-and", "E", "E", "(p && ", ")", ["visit_paren_expr", "visit_bin_expr"], ""),
    ("logical-or-left", "E", "E", "(", " || q)", ["visit_paren_expr", "visit_bin_expr"], ""),
    ("nullish", "E", "E", "(p ?? ", ")", ["visit_paren_expr", "visit_bin_expr"], ""),
    ("sequence", "E", "E", "(0, ", ")", ["visit_paren_expr", "visit_seq_expr"], ""),
    ("paren", "E", "E", "(", ")", ["visit_paren_expr"], ""),
    ("unary-void", "E", "E", "void ", "", ["visit_unary_expr"], ""),
    ("template-substitution", "E", "E", "`a${", "}b`", ["visit_tpl"], ""),
    ("tagged-template-substitution", "E", "E", "tag`a${", "}b`", ["visit_tagged_tpl", "visit_tpl"], ""),
    ("assignment-right", "E", "E", "(t = ", ")", ["visit_paren_expr", "visit_assign_expr"], ""),
    ("member-object", "E", "E", "", ".m", ["visit_member_expr"], ""),
    ("member-computed", "E", "E", "o[", "]", ["visit_member_expr", "visit_member_prop", "visit_computed_prop_name"], ""),
    ("arrow-expression-body", "E", "E", "(() => ", ")", ["visit_paren_expr", "visit_arrow_expr", "visit_block_stmt_or_expr"], ""),
    ("async-arrow-await", "E", "E", "(async () => await ", ")", ["visit_paren_expr", "visit_arrow_expr", "visit_block_stmt_or_expr", "visit_await_expr"], ""),
    ("generator-yield", "E", "E", "(function* () { yield ", "; })", ["visit_paren_expr", "visit_fn_expr", "visit_function", "visit_block_stmt", "visit_stmt", "visit_expr_stmt", "visit_yield_expr"], ""),
    ("arrow-default-parameter", "E", "E", "((p = ", ") => 0)", ["visit_paren_expr", "visit_arrow_expr", "visit_pat", "visit_assign_pat"], ""),
    ("function-default-parameter", "E", "E", "(function (p = ", ") {})", ["visit_paren_expr", "visit_fn_expr", "visit_function", "visit_param", "visit_pat", "visit_assign_pat"], ""),
    ("object-destructuring-default", "E", "E", "(({ d = ", " }) => 0)", ["visit_paren_expr", "visit_arrow_expr", "visit_pat", "visit_object_pat", "visit_object_pat_prop", "visit_assign_pat_prop"], ""),
    ("object-destructuring-keyed-default", "E", "E", "(({ k: d = ", " }) => 0)", ["visit_paren_expr", "visit_arrow_expr", "visit_pat", "visit_object_pat", "visit_object_pat_prop", "visit_key_value_pat_prop", "visit_assign_pat"], ""),
    ("array-destructuring-default", "E", "E", "(([d = ", "]) => 0)", ["visit_paren_expr", "visit_arrow_expr", "visit_pat", "visit_array_pat", "visit_assign_pat"], ""),
    ("class-field-value", "E", "E", "(class { f = ", "; })", ["visit_paren_expr", "visit_class_expr", "visit_class", "visit_class_member", "visit_class_prop"], ""),
    ("class-readonly-field-value", "E", "E", "(class { readonly f = ", "; })", ["visit_paren_expr", "visit_class_expr", "visit_class", "visit_class_member", "visit_class_prop"], "ts"),
    ("class-private-field-value", "E", "E", "(class { #f = ", "; })", ["visit_paren_expr", "visit_class_expr", "visit_class", "visit_class_member", "visit_private_prop"], ""),
    ("class-readonly-private-field-value", "E", "E", "(class { readonly #f = ", "; })", ["visit_paren_expr", "visit_class_expr", "visit_class", "visit_class_member", "visit_private_prop"], "ts"),
    ("class-static-field-value", "E", "E", "(class { static f = ", "; })", ["visit_paren_expr", "visit_class_expr", "visit_class", "visit_class_member", "visit_class_prop"], ""),
    ("class-computed-method-key", "E", "E", "(class { [", "]() {} })", ["visit_paren_expr", "visit_class_expr", "visit_class", "visit_class_member", "visit_class_method", "visit_prop_name", "visit_computed_prop_name"], ""),
    ("class-extends", "E", "E", "(class extends (", ") {})", ["visit_paren_expr", "visit_class_expr", "visit_class"], ""),
    ("ts-as", "E", "E", "(", " as unknown)", ["visit_paren_expr", "visit_ts_as_expr"], "ts"),
    ("ts-satisfies", "E", "E", "(", " satisfies unknown)", ["visit_paren_expr", "visit_ts_satisfies_expr"], "ts"),
    ("jsx-attribute-expression", "E", "E", "<A b={", "} />", ["visit_jsx_element", "visit_jsx_opening_element", "visit_jsx_attr_or_spread", "visit_jsx_attr", "visit_jsx_attr_value", "visit_jsx_expr_container", "visit_jsx_expr"], "tsx"),
    ("jsx-child-expression", "E", "E", "<A>{", "}</A>", ["visit_jsx_element", "visit_jsx_element_child", "visit_jsx_expr_container", "visit_jsx_expr"], "tsx"),
    ("jsx-spread-attribute", "E", "E", "<A {...", "} />", ["visit_jsx_element", "visit_jsx_opening_element", "visit_jsx_attr_or_spread", "visit_spread_element"], "tsx"),
    # expression in statement
    ("var-initialiser", "E", "S", "var v%d = ", ";", ["visit_stmt", "visit_decl", "visit_var_decl", "visit_var_declarator"], ""),
    ("const-initialiser", "E", "S", "const k%d = ", ";", ["visit_stmt", "visit_decl", "visit_var_decl", "visit_var_declarator"], ""),
    ("if-test", "E", "S", "if (", ") { g(); }", ["visit_stmt", "visit_if_stmt"], ""),
    ("while-test", "E", "S", "while (", ") { g(); }", ["visit_stmt", "visit_while_stmt"], ""),
    ("do-while-test", "E", "S", "do { g(); } while (", ");", ["visit_stmt", "visit_do_while_stmt"], ""),
    ("for-init", "E", "S", "for (", "; h(); ) { g(); }", ["visit_stmt", "visit_for_stmt", "visit_var_decl_or_expr"], ""),
    ("for-update", "E", "S", "for (; h(); ", ") { g(); }", ["visit_stmt", "visit_for_stmt"], ""),
    ("for-of-iterable", "E", "S", "for (const q%d of ", ") { g(); }", ["visit_stmt", "visit_for_of_stmt"], ""),
    ("for-in-object", "E", "S", "for (const q%d in ", ") { if (h()) { g(); } }", ["visit_stmt", "visit_for_in_stmt"], ""),
    ("switch-discriminant", "E", "S", "switch (", ") { default: g(); }", ["visit_stmt", "visit_switch_stmt"], ""),
    ("switch-case-test", "E", "S", "switch (w) { case ", ": g(); }", ["visit_stmt", "visit_switch_stmt", "visit_switch_cases", "visit_switch_case"], ""),
    ("export-default", "E", "S", "export default ", ";", ["visit_module_item", "visit_module_decl", "visit_export_default_expr"], "top"),
    ("export-const-initialiser", "E", "S", "export const x%d = ", ";", ["visit_module_item", "visit_module_decl", "visit_export_decl", "visit_decl", "visit_var_decl", "visit_var_declarator"], "top"),
    # expression in a function-level statement, giving an expression
    ("return-argument", "E", "E", "(function () { return ", "; })", ["visit_paren_expr", "visit_fn_expr", "visit_function", "visit_block_stmt", "visit_stmt", "visit_return_stmt"], ""),
    ("getter-return-argument", "E", "E", "({ get g() { return ", "; } })", ["visit_paren_expr", "visit_object_lit", "visit_prop", "visit_getter_prop", "visit_block_stmt", "visit_stmt", "visit_return_stmt"], ""),
    ("throw-argument", "E", "E", "(function () { throw ", "; })", ["visit_paren_expr", "visit_fn_expr", "visit_function", "visit_block_stmt", "visit_stmt", "visit_throw_stmt"], ""),
    # statement in statement
    ("block", "S", "S", "{ ", " }", ["visit_stmt", "visit_block_stmt"], ""),
    ("if-consequent", "S", "S", "if (c) { ", " }", ["visit_stmt", "visit_if_stmt", "visit_block_stmt"], ""),
    ("if-alternate", "S", "S", "if (c) { g(); } else { ", " }", ["visit_stmt", "visit_if_stmt", "visit_block_stmt"], ""),
    ("for-body", "S", "S", "for (; h(); ) { ", " }", ["visit_stmt", "visit_for_stmt", "visit_block_stmt"], ""),
    ("for-of-body", "S", "S", "for (const q%d of it) { ", " }", ["visit_stmt", "visit_for_of_stmt", "visit_block_stmt"], ""),
    ("while-body", "S", "S", "while (h()) { ", " }", ["visit_stmt", "visit_while_stmt", "visit_block_stmt"], ""),
    ("do-while-body", "S", "S", "do { ", " } while (h());", ["visit_stmt", "visit_do_while_stmt", "visit_block_stmt"], ""),
    ("labelled-block", "S", "S", "lbl%d: { ", " break lbl%d; }", ["visit_stmt", "visit_labeled_stmt", "visit_block_stmt"], ""),
    ("try-block", "S", "S", "try { ", " } catch { g(); }", ["visit_stmt", "visit_try_stmt", "visit_block_stmt"], ""),
    ("catch-block", "S", "S", "try { g(); } catch { ", " }", ["visit_stmt", "visit_try_stmt", "visit_catch_clause", "visit_block_stmt"], ""),
    ("finally-block", "S", "S", "try { g(); } finally { ", " }", ["visit_stmt", "visit_try_stmt", "visit_block_stmt"], ""),
    ("switch-case-body", "S", "S", "switch (w) { case 0: { ", " } }", ["visit_stmt", "visit_switch_stmt", "visit_switch_cases", "visit_switch_case", "visit_block_stmt"], ""),
    ("switch-default-unbraced", "S", "S", "switch (w) { default: ", " }", ["visit_stmt", "visit_switch_stmt", "visit_switch_cases", "visit_switch_case"], ""),
    ("function-declaration-body", "S", "S", "function fd%d() { ", " }", ["visit_stmt", "visit_decl", "visit_fn_decl", "visit_function", "visit_block_stmt"], ""),
    ("class-declaration-method-body", "S", "S", "class CM%d { m() { ", " } }", ["visit_stmt", "visit_decl", "visit_class_decl", "visit_class", "visit_class_member", "visit_class_method", "visit_function", "visit_block_stmt"], ""),
    ("class-declaration-static-block", "S", "S", "class CS%d { static { ", " } }", ["visit_stmt", "visit_decl", "visit_class_decl", "visit_class", "visit_class_member", "visit_static_block", "visit_block_stmt"], ""),
    ("class-declaration-constructor-body", "S", "S", "class CC%d { constructor() { ", " } }", ["visit_stmt", "visit_decl", "visit_class_decl", "visit_class", "visit_class_member", "visit_constructor", "visit_block_stmt"], ""),
    ("namespace-body", "S", "S", "namespace NS%d { ", " }", ["visit_module_item", "visit_stmt", "visit_decl", "visit_ts_module_decl", "visit_ts_namespace_body", "visit_ts_module_block"], "top ts"),
    ("export-function-body", "S", "S", "export function ef%d() { ", " }", ["visit_module_item", "visit_module_decl", "visit_export_decl", "visit_decl", "visit_fn_decl", "visit_function", "visit_block_stmt"], "top"),
    # statement in expression
    ("function-expression-body", "S", "E", "(function () { ", " })", ["visit_paren_expr", "visit_fn_expr", "visit_function", "visit_block_stmt"], ""),
    ("arrow-block-body", "S", "E", "(() => { ", " })", ["visit_paren_expr", "visit_arrow_expr", "visit_block_stmt_or_expr", "visit_block_stmt"], ""),
    ("async-arrow-block-body", "S", "E", "(async () => { await g(); ", " })", ["visit_paren_expr", "visit_arrow_expr", "visit_block_stmt_or_expr", "visit_block_stmt"], ""),
    ("async-function-body", "S", "E", "(async function () { await g(); ", " })", ["visit_paren_expr", "visit_fn_expr", "visit_function", "visit_block_stmt"], ""),
    ("generator-function-body", "S", "E", "(function* () { yield 1; ", " })", ["visit_paren_expr", "visit_fn_expr", "visit_function", "visit_block_stmt"], ""),
    ("iife-body", "S", "E", "(function () { ", " })()", ["visit_call_expr", "visit_callee", "visit_paren_expr", "visit_fn_expr", "visit_function", "visit_block_stmt"], ""),
    ("object-method-body", "S", "E", "({ m() { ", " } })", ["visit_paren_expr", "visit_object_lit", "visit_prop", "visit_method_prop", "visit_function", "visit_block_stmt"], ""),
    ("object-method-body-returning", "S", "E", "({ m() { ", " return 1; } })", ["visit_paren_expr", "visit_object_lit", "visit_prop", "visit_method_prop", "visit_function", "visit_block_stmt"], ""),
    ("object-getter-body", "S", "E", "({ get g() { ", " return 1; } })", ["visit_paren_expr", "visit_object_lit", "visit_prop", "visit_getter_prop", "visit_block_stmt"], ""),
    ("getter-body-after-return", "S", "E", "({ get g() { if (c) { return 0; } ", " return 1; } })", ["visit_paren_expr", "visit_object_lit", "visit_prop", "visit_getter_prop", "visit_block_stmt"], ""),
    ("object-setter-body", "S", "E", "({ set s(v) { ", " } })", ["visit_paren_expr", "visit_object_lit", "visit_prop", "visit_setter_prop", "visit_block_stmt"], ""),
    ("class-expression-method-body", "S", "E", "(class { m() { ", " } })", ["visit_paren_expr", "visit_class_expr", "visit_class", "visit_class_member", "visit_class_method", "visit_function", "visit_block_stmt"], ""),
    ("class-expression-private-method-body", "S", "E", "(class { #m() { ", " } })", ["visit_paren_expr", "visit_class_expr", "visit_class", "visit_class_member", "visit_private_method", "visit_function", "visit_block_stmt"], ""),
    ("class-expression-getter-body", "S", "E", "(class { get g() { ", " return 1; } })", ["visit_paren_expr", "visit_class_expr", "visit_class", "visit_class_member", "visit_class_method", "visit_function", "visit_block_stmt"], ""),
    ("class-expression-static-block", "S", "E", "(class { static { ", " } })", ["visit_paren_expr", "visit_class_expr", "visit_class", "visit_class_member", "visit_static_block", "visit_block_stmt"], ""),
]
CTX = {c[0]: c for c in CONTEXTS}

# Rule-specific behaviour that is part of the rule's specification, not a traversal defect:
# (rule, innermost context kind) -> why context[construct] is expected to be silent.
BY_DESIGN_HIDDEN = {
    ("no-var", "namespace-body"): "no_var.rs: a `var` whose parent is a TsModuleBlock is accepted on purpose (declare global / namespace augmentation)",
}

# A context that reports for the rule ON ITS OWN TEXT (filled with the silent twin, or with the atom `z0` / `;`) is not
# neutral for that rule; by the model it is excluded for that rule.  So that a rule which starts to "create" reports
# is not silently excluded, every such (rule, context) must be listed here with the reason why it is the rule's
# specification; anything else is a failure of class C08.created:<rule>:<context>.
EXPECTED_NON_NEUTRAL = {
    ("no-extra-boolean-cast", "conditional-test"): "`!!x` is redundant exactly in boolean contexts: the test of ?:, if, while, do-while (rule specification; the twin `!!foo` probes it)",
    ("no-extra-boolean-cast", "if-test"): "boolean context (specification)",
    ("no-extra-boolean-cast", "while-test"): "boolean context (specification)",
    ("no-extra-boolean-cast", "do-while-test"): "boolean context (specification)",
    ("no-var", "var-initialiser"): "the context is itself a `var` declaration",
    ("prefer-primordials", "descriptor-get-call-argument"): "the context itself calls a method of the global Object / Reflect",
    ("prefer-primordials", "descriptor-get-conditional"): "the context itself calls a method of the global Object / Reflect",
    ("prefer-primordials", "descriptor-get-paren-function-body"): "the context itself calls a method of the global Object / Reflect",
    ("prefer-primordials", "descriptor-map-get-call-argument"): "the context itself calls a method of the global Object / Reflect",
    ("prefer-primordials", "array-destructuring-default"): "prefer-primordials targets the syntax of the context itself (iteration protocol / spread / `in`)",
    ("prefer-primordials", "array-spread"): "prefer-primordials targets the syntax of the context itself (iteration protocol / spread / `in`)",
    ("prefer-primordials", "assignment-pattern-array-default"): "prefer-primordials targets the syntax of the context itself (iteration protocol / spread / `in`)",
    ("prefer-primordials", "for-await-of-head-default"): "prefer-primordials targets the syntax of the context itself (iteration protocol / spread / `in`)",
    ("prefer-primordials", "for-in-head-array-default"): "prefer-primordials targets the syntax of the context itself (iteration protocol / spread / `in`)",
    ("prefer-primordials", "for-of-body"): "prefer-primordials targets the syntax of the context itself (iteration protocol / spread / `in`)",
    ("prefer-primordials", "for-of-head-array-default"): "prefer-primordials targets the syntax of the context itself (iteration protocol / spread / `in`)",
    ("prefer-primordials", "for-of-head-member-computed"): "prefer-primordials targets the syntax of the context itself (iteration protocol / spread / `in`)",
    ("prefer-primordials", "for-of-head-object-default"): "prefer-primordials targets the syntax of the context itself (iteration protocol / spread / `in`)",
    ("prefer-primordials", "for-of-iterable"): "prefer-primordials targets the syntax of the context itself (iteration protocol / spread / `in`)",
    ("prefer-primordials", "in-right"): "prefer-primordials targets the syntax of the context itself (iteration protocol / spread / `in`)",
    ("prefer-primordials", "spread-argument"): "prefer-primordials targets the syntax of the context itself (iteration protocol / spread / `in`)",
    ("prefer-primordials", "var-destructuring-default"): "prefer-primordials targets the syntax of the context itself (iteration protocol / spread / `in`)",
    ("prefer-primordials", "yield-delegate"): "prefer-primordials targets the syntax of the context itself (iteration protocol / spread / `in`)",
    ("no-constant-condition", "conditional-test"): "a conditional whose branches are both constant, or a function/class/object literal, is a constant condition in a test position (specification)",
    ("no-constant-condition", "if-test"): "same: constant expression in the test of an if",
}
# Interactions of two contexts (outer, inner; None = any): the outer context reacts to the inner context's own text.
EXPECTED_INTERACTIONS = [
    ("no-constant-condition", "if-test", None, "a function / class / object / array / template literal in a test position is constant (specification)"),
    ("no-constant-condition", "conditional-test", None, "same"),
    ("no-case-declarations", "switch-default-unbraced", None, "the inner context is a lexical declaration (const/class/function) placed directly in a case clause"),
    ("jsx-key", "array-element", None, "the inner context is a JSX element without key inside an array literal"),
    ("jsx-key", "array-spread", None, "same"),
    ("no-cond-assign", None, "assignment-right", "the inner context is an assignment, placed in a test position"),
    ("no-cond-assign", None, "assignment-pattern-array-default", "same"),
    ("no-cond-assign", None, "assignment-pattern-object-default", "same"),
    ("no-cond-assign", None, "assignment-pattern-computed-key", "same"),
    ("no-unused-labels", None, None, "label contexts"),
    ("prefer-primordials", "member-object", "array-element", "a member access on an array literal (specification of the rule)"),
    ("prefer-primordials", "delete-member-object", "array-element", "same"),
]

# Failure classes that still exist on the (repaired) tree.  They are registered in /verif/known_findings.json by the main
# engineer; this dict only documents them (the check relies on known_findings.json alone, nothing is registered here).
# Cause: dependency deno_ast 0.46 scopes.rs -- the scope analysis is a Visit whose visit_param does not recurse, so
# bindings declared inside a function in a parameter default of a `function` are unknown to every rule that consults
# the scope.  (The defects of /repo found in round 1 -- missing recursion in nine overrides, the getter-return state
# leak and panic, the parent-chain boundaries of no-setter-return / no-unsafe-finally -- were repaired by fix: commits.)
PROPOSED_KNOWN = {
    "C08.hidden:no-class-assign:scope-analysis.visit_param": "deno_ast scope analysis (scopes.rs visit_param) does not descend into parameter defaults of `function`s: no-class-assign misses `function (p = () => { class A {} A = 0; }) {}`",
    "C08.hidden:no-const-assign:scope-analysis.visit_param": "deno_ast scope analysis (scopes.rs visit_param) does not descend into parameter defaults of `function`s: no-const-assign misses `function (p = () => { const c = 0; c = 1; }) {}`",
    "C08.hidden:no-ex-assign:scope-analysis.visit_param": "deno_ast scope analysis (scopes.rs visit_param) does not descend into parameter defaults of `function`s: no-ex-assign misses a catch parameter assignment there",
    "C08.hidden:no-func-assign:scope-analysis.visit_param": "deno_ast scope analysis (scopes.rs visit_param) does not descend into parameter defaults of `function`s: no-func-assign misses `function (p = () => { function f() {} f = 0; }) {}`",
}


# --------------------------------------------------------------------------------------------------------------
# engine
# --------------------------------------------------------------------------------------------------------------
def pair_media(p):
    return p[4] if len(p) > 4 else "ts"


def ctx_ok_for_media(c, media):
    fl = c[6].split()
    if media in ("js", "jsx") and ("ts" in fl):
        return False
    return True


def filler_for(kind, text, hole):
    if kind == "E":
        return "(" + text + ")" if hole == "E" else "(" + text + ");"
    assert hole == "S"
    return text


def assemble(chain, filler):
    """chain: context kinds, outermost first. -> (src, byte offset of the filler, uses_jsx)"""
    pre, suf, jsx = "", "", False
    for i, k in enumerate(chain):
        c = CTX[k]
        pre += c[3].replace("%d", str(i))
        suf = c[4].replace("%d", str(i)) + suf
        jsx = jsx or "tsx" in c[6].split()
    if chain and CTX[chain[0]][2] == "E":
        suf += ";"
    return pre + filler + suf, len(pre.encode("utf8")), jsx


def media_for(p, jsx):
    m = pair_media(p)
    if jsx:
        return {"ts": "tsx", "js": "jsx"}.get(m, m)
    return m


def chain_well_typed(chain, kind):
    for a, b in zip(chain, chain[1:]):
        if CTX[a][1] != CTX[b][2]:
            return False
    for i, k in enumerate(chain):
        if "top" in CTX[k][6].split() and i != 0:
            return False
    return kind == "E" or CTX[chain[-1]][1] == "S"


def random_chain(rng, allowed, kind, depth):
    """innermost first, then outwards; None if stuck."""
    inner = [k for k in allowed if (kind == "E" or CTX[k][1] == "S") and (depth == 1 or "top" not in CTX[k][6].split())]
    if not inner:
        return None
    chain = [rng.choice(inner)]
    while len(chain) < depth:
        need = CTX[chain[0]][2]
        outermost = len(chain) == depth - 1
        cand = [k for k in allowed if CTX[k][1] == need and (outermost or "top" not in CTX[k][6].split())]
        if not cand:
            return None
        chain.insert(0, rng.choice(cand))
    return chain


def rule_diags(res, rule):
    if res is None or "ok" not in res:
        return None
    return sorted((d["code"], d["start"], d["end"], d["msg"], d.get("hint") or "") for d in res["ok"] if d["code"] == rule)


def shifted(base, off):
    return sorted((c, s + off, e + off, m, h) for c, s, e, m, h in base)


def compare(expected, got):
    """-> None | 'hidden' | 'duplicated' | 'moved'"""
    if got == expected:
        return None
    if len(got) < len(expected):
        return "hidden"
    if len(got) > len(expected):
        return "duplicated"
    return "moved"


def non_recursing_by_rule(table):
    """rule -> {visit method on a spine: label in the class}: the rule's own non-recursing overrides, and those of the
    whole-program analyses (control flow, scope) the rule consults."""
    d = collections.defaultdict(dict)
    for r in table["visit_table"]:
        if r["cls"] == "none" and r["rule"] not in table["analysis_consumers"]:
            d[r["rule"]][r["method"]] = r["method"]
    for a, rules in table["analysis_consumers"].items():
        for r in table["visit_table"]:
            if r["rule"] == a and r["cls"] == "none":
                for rule in rules:
                    d[rule].setdefault(r["method"], a + "." + r["method"])
    # overrides of the analyses that recurse into SOME children only (class "unknown" of the table): second choice
    for a, rules in table["analysis_consumers"].items():
        for r in table["visit_table"]:
            if r["rule"] == a and r["cls"] == "unknown":
                for rule in rules:
                    d[rule].setdefault("?" + r["method"], a + "." + r["method"])
    return d


def attribute(rule, chain, single_status, nonrec):
    """class suffix for a hidden report: the override of the generated table that sits on the spine of the first
    context of the chain which hides the construct on its own; else the context kind."""
    nr = nonrec.get(rule, {})
    culprits = [k for k in chain if single_status.get(k) == "hidden"] or [k for k in chain if set(CTX[k][5]) & set(nr)] or [k for k in chain if set("?" + m for m in CTX[k][5]) & set(nr)]
    for k in culprits:
        for m in CTX[k][5]:
            if m in nr:
                return nr[m], k
    for k in culprits:
        for m in reversed(CTX[k][5]):       # innermost partially recursing override first
            if "?" + m in nr:
                return nr["?" + m], k
    if culprits:
        return "under-" + culprits[0], culprits[0]
    return "under-" + chain[-1], chain[-1]


def run_lint(cases):
    return lib.run_vh("lint", cases)


ATOM = {"E": "z0", "S": ";"}
CTX["@expression-statement"] = ("@expression-statement", "E", "S", "", ";", ["visit_stmt", "visit_expr_stmt"], "")


def interaction_expected(rule, a, b):
    return any(r == rule and (x is None or x == a) and (y is None or y == b) for r, x, y, _ in EXPECTED_INTERACTIONS)


def _group_interactions(inter):
    g = collections.defaultdict(list)
    for rule, a, b in sorted(inter):
        g["%s: %s[...]" % (rule, a)].append(b)
    return {k: (v if len(v) <= 6 else "%d inner contexts, e.g. %s" % (len(v), ", ".join(v[:4]))) for k, v in g.items()}


def interaction_sweep(rules):
    """Context-only programs: every context alone and every ordered pair outer[inner] (bridged by an expression statement or
    an arrow body where the hole types differ), filled with a neutral atom, linted with all context-free rules at once.
    -> own: ctx -> rules reporting on the context alone;  inter: (rule, outer, inner) -> program, for reports that neither
    context produces alone."""
    kinds = [c[0] for c in CONTEXTS]

    def prog(chain):
        if any("top" in CTX[k][6].split() for k in chain[1:]):
            return None
        src, _, _ = assemble(chain, ATOM[CTX[chain[-1]][1]])
        return {"src": src, "media": "tsx", "rules": rules}
    res = run_lint([prog([k]) for k in kinds])
    own, unparsable = collections.defaultdict(set), 0
    for k, r in zip(kinds, res):
        for d in (r or {}).get("ok", []):
            own[k].add(d["code"])
    cases, meta = [], []
    for a in kinds:
        for b in kinds:
            A, B = CTX[a], CTX[b]
            chain = [a, b] if A[1] == B[2] else ([a, "@expression-statement", b] if A[1] == "S" else [a, "arrow-block-body", b])
            c = prog(chain)
            if c:
                cases.append(c)
                meta.append((a, b, chain))
    res = run_lint(cases)
    inter = {}
    for (a, b, chain), c, r in zip(meta, cases, res):
        if "ok" not in (r or {}):
            unparsable += 1
            continue
        for code in sorted({d["code"] for d in r["ok"]}):
            if code in own[a] or code in own[b] or ("arrow-block-body" in chain[1:-1] and code in own["arrow-block-body"]):
                continue
            inter[(code, a, b)] = c["src"]
    return own, inter, len(cases) + len(kinds), unparsable


def explore(ctx, table, tier, seed):
    rng = random.Random(seed + 8)
    nonrec = non_recursing_by_rule(table)
    test_strings = collections.defaultdict(str)
    for sn in corpus_mod.corpus(lib.REPO):
        test_strings[sn["rule_file"]] += "\n" + sn["src"]
    from_tests = sum(1 for p in PAIRS if any(v in test_strings.get(p[0].replace("-", "_"), "") for v in (p[2], p[2].rstrip(";"), "(" + p[2] + ")")))
    # ---- baselines
    base_cases = []
    for p in PAIRS:
        for text in (p[2], p[3]):
            base_cases.append({"src": filler_for(p[1], text, "S"), "media": media_for(p, False), "rules": [p[0]]})
        # tsx media for the pairs that may meet a JSX context
        for text in (p[2], p[3]):
            base_cases.append({"src": filler_for(p[1], text, "S"), "media": media_for(p, True), "rules": [p[0]]})
    bres = run_lint(base_cases)
    base, bad_pairs = {}, []
    for i, p in enumerate(PAIRS):
        d_c, d_t, d_cx, d_tx = (rule_diags(bres[4 * i + j], p[0]) for j in range(4))
        if not d_c or d_t is None or d_t or d_cx != d_c or d_tx:
            bad_pairs.append({"pair": p, "construct": bres[4 * i], "twin": bres[4 * i + 1], "construct_jsx_media": bres[4 * i + 2]})
            continue
        base[i] = d_c
    # ---- depth 1: every context, construct and twin -> per pair status of every context.  A statement construct meets an
    # expression hole through an adapter (a statement-in-expression context that is itself neutral for the pair).
    def depth1_cases(todo):
        cases, meta = [], []
        for i, k, chain in todo:
            p = PAIRS[i]
            for which, text in (("construct", p[2]), ("twin", p[3])):
                src, off, jsx = assemble(chain, filler_for(p[1], text, CTX[chain[-1]][1]))
                cases.append({"src": src, "media": media_for(p, jsx), "rules": [p[0]]})
                meta.append((i, k, which, off, chain))
        return cases, meta
    todo = [(i, c[0], [c[0]]) for i, p in enumerate(PAIRS) if i in base for c in CONTEXTS
            if ctx_ok_for_media(c, pair_media(p)) and chain_well_typed([c[0]], p[1])]
    cases, meta = depth1_cases(todo)
    res = run_lint(cases)
    single = collections.defaultdict(dict)     # pair index -> ctx kind -> status
    tmp = collections.OrderedDict()
    for (i, k, which, off, chain), c, r in zip(meta, cases, res):
        tmp.setdefault((i, k), {"chain": chain})[which] = (c, r, off)
    findings = []      # (cls, text, replay)
    stats = collections.Counter()
    excl = {"non_neutral": collections.defaultdict(list), "unparsable": collections.defaultdict(list), "by_design": collections.defaultdict(list)}

    def judge(i, chain, cc, cr, tc, tr, off, single_status, hint=None):
        p = PAIRS[i]
        rule = p[0]
        dt, dc = rule_diags(tr, rule), rule_diags(cr, rule)
        if dt is None or dc is None:
            bad = tr if dt is None else cr
            if "parse_error" in (bad or {}):
                return "unparsable"
            # a panic / crash of the rule under this nesting: nothing is reported at all
            where = (bad or {}).get("at") or (bad or {}).get("crash") or "?"
            prog = tc if dt is None else cc
            findings.append(("C08.panic:%s:%s" % (rule, re.sub(r"^/repo/", "", str(where))), "panic at %s: %s" % (where, prog["src"]),
                             {"program": prog["src"], "media": prog["media"], "rules": prog["rules"], "rule": rule, "contexts_outermost_first": chain, "result": bad}))
            return "panic"
        if dt:
            if len(chain) == 1 or hint is not None:
                k = hint or chain[0]
                if (rule, k) not in EXPECTED_NON_NEUTRAL:
                    findings.append(("C08.created:%s:%s" % (rule, k), "created: %s -> %s" % (tc["src"], [(c, s, e) for c, s, e, _, _ in dt]),
                                     {"program": tc["src"], "media": tc["media"], "rules": tc["rules"], "rule": rule, "contexts_outermost_first": chain, "got": dt,
                                      "note": "the silent twin is reported when embedded; the (rule, context) pair is not listed in EXPECTED_NON_NEUTRAL"}))
                    return "created"
            return "non-neutral"
        verdict = compare(shifted(base[i], off), dc)
        if verdict is None:
            return "ok"
        if verdict == "hidden" and (rule, chain[-1]) in BY_DESIGN_HIDDEN:
            return "by-design"
        if verdict == "hidden":
            what, culprit = attribute(rule, chain, single_status, nonrec)
        else:
            # the first context of the chain that shows the same deviation on its own, else the innermost one
            culprit = hint or next((k for k in chain if single_status.get(k) == verdict), chain[-1])
            what = "under-" + culprit
        cls = "C08.%s:%s:%s" % (verdict, rule, what)
        findings.append((cls, "%s: %s | expected %s got %s" % (verdict, cc["src"], [(c, s, e) for c, s, e, _, _ in shifted(base[i], off)], [(c, s, e) for c, s, e, _, _ in dc]),
                         {"program": cc["src"], "media": cc["media"], "rules": cc["rules"], "rule": rule, "construct": p[2], "construct_alone": filler_for(p[1], p[2], "S"),
                          "contexts_outermost_first": chain, "culprit_context": culprit, "hole_offset": off,
                          "expected": shifted(base[i], off), "got": dc, "twin_program": tc["src"], "twin_got": dt}))
        return verdict

    def judge_singles(tmp):
        for (i, k), d in tmp.items():
            cc, cr, off = d["construct"]
            tc, tr, _ = d["twin"]
            st = judge(i, d["chain"], cc, cr, tc, tr, off, {k: "hidden"}, hint=k)
            single[i][k] = st
            stats["depth1:" + st] += 1
            for key, name in (("non-neutral", "non_neutral"), ("created", "non_neutral"), ("unparsable", "unparsable"), ("by-design", "by_design")):
                if st == key:
                    excl[name][PAIRS[i][0]].append(k)
    judge_singles(tmp)
    todo = []
    for i, p in enumerate(PAIRS):
        if i not in base or p[1] != "S":
            continue
        adapter = next((a for a in ("arrow-block-body", "function-expression-body", "class-expression-static-block") if single[i].get(a) == "ok"), None)
        if adapter is None:
            continue
        for c in CONTEXTS:
            if c[1] == "E" and ctx_ok_for_media(c, pair_media(p)) and chain_well_typed([c[0], adapter], p[1]):
                todo.append((i, c[0], [c[0], adapter]))
    cases, meta = depth1_cases(todo)
    res = run_lint(cases)
    tmp = collections.OrderedDict()
    for (i, k, which, off, chain), c, r in zip(meta, cases, res):
        tmp.setdefault((i, k), {"chain": chain})[which] = (c, r, off)
    judge_singles(tmp)
    # ---- context-only interaction sweep (deterministic): which outer context reacts to which inner context, for which rule
    own, inter, n_sweep, n_sweep_unparsable = interaction_sweep(sorted({p[0] for p in PAIRS}))
    for k, rs in sorted(own.items()):
        for rule in sorted(rs):
            if (rule, k) not in EXPECTED_NON_NEUTRAL:
                src = assemble([k], ATOM[CTX[k][1]])[0]
                findings.append(("C08.created:%s:%s" % (rule, k), "created: the context alone reports: %s" % src,
                                 {"program": src, "media": "tsx", "rules": [rule], "rule": rule, "contexts_outermost_first": [k]}))
    for (rule, a, b), src in sorted(inter.items()):
        if not interaction_expected(rule, a, b):
            findings.append(("C08.created:%s:%s/%s" % (rule, a, b), "created: neither context reports alone, their composition does: %s" % src,
                             {"program": src, "media": "tsx", "rules": [rule], "rule": rule, "contexts_outermost_first": [a, b]}))
    # ---- depth 2..4: chains over the contexts that are individually neutral (and parse) for the pair
    n_random = 2000 if tier == "quick" else 12000
    cases, meta = [], []
    dist = collections.Counter()
    for i, p in enumerate(PAIRS):
        if i not in base:
            continue
        allowed = [k for k, st in single[i].items() if st in ("ok", "hidden", "duplicated", "moved", "by-design", "panic")]
        chains = set()
        if tier == "thorough":
            for a in allowed:
                for b in allowed:
                    if chain_well_typed([a, b], p[1]):
                        chains.add((a, b))
            # depth <= 4 exhaustive over the contexts whose spine meets an override of the rule under test
            ov = {r["method"] for r in table["visit_table"] if r["rule"] == p[0]}
            core = [k for k in allowed if set(CTX[k][5]) & ov][:7]
            import itertools
            for d in (3, 4):
                for ch in itertools.product(core, repeat=d):
                    if chain_well_typed(list(ch), p[1]):
                        chains.add(ch)
        tries = 0
        want = len(chains) + n_random
        while len(chains) < want and tries < 20 * n_random:
            tries += 1
            depth = rng.choice((2, 2, 3, 3, 4, 4, 4))
            ch = random_chain(rng, allowed, p[1], depth)
            if ch is not None:
                chains.add(tuple(ch))
        for ch in sorted(chains):
            dist["depth %d" % len(ch)] += 1
            for which, text in (("construct", p[2]), ("twin", p[3])):
                src, off, jsx = assemble(list(ch), filler_for(p[1], text, CTX[ch[-1]][1]))
                cases.append({"src": src, "media": media_for(p, jsx), "rules": [p[0]]})
                meta.append((i, ch, which, off))
    res = run_lint(cases)
    composed_non_neutral, unexplained_created = [], []
    k = 0
    while k < len(cases):
        (i, ch, _, off) = meta[k]
        st = judge(i, list(ch), cases[k], res[k], cases[k + 1], res[k + 1], off, single[i])
        stats["deep:" + st] += 1
        if st == "non-neutral":
            rule = PAIRS[i][0]
            explained = any((rule, ch[x], ch[y]) in inter for x in range(len(ch)) for y in range(x + 1, len(ch))) or any(rule in own.get(c, ()) for c in ch)
            stats["deep:non-neutral:" + ("explained-by-pairwise-interaction" if explained else "unexplained")] += 1
            if not explained:
                unexplained_created.append((i, ch, cases[k + 1], res[k + 1]))
            if len(composed_non_neutral) < 2000:
                composed_non_neutral.append((rule, ch, cases[k + 1]["src"]))
        elif st == "by-design":
            excl["by_design"][PAIRS[i][0]].append("/".join(ch))
        k += 2
    # a composed context that reports on the twin although no pair of its contexts interacts: shrink the chain greedily
    for i, ch, tc, tr in unexplained_created[:60]:
        p = PAIRS[i]
        cur = list(ch)
        progress = True
        while progress and len(cur) > 1:
            progress = False
            for x in range(len(cur)):
                cand = cur[:x] + cur[x + 1:]
                if not cand or not chain_well_typed(cand, p[1]):
                    continue
                src, _, jsx = assemble(cand, filler_for(p[1], p[3], CTX[cand[-1]][1]))
                rr = run_lint([{"src": src, "media": media_for(p, jsx), "rules": [p[0]]}])[0]
                if rule_diags(rr, p[0]):
                    cur, progress = cand, True
                    break
        if len(cur) == 1 and (p[0], cur[0]) in EXPECTED_NON_NEUTRAL:
            continue
        src, _, jsx = assemble(cur, filler_for(p[1], p[3], CTX[cur[-1]][1]))
        findings.append(("C08.created:%s:%s" % (p[0], "/".join([cur[0], cur[-1]] if len(cur) > 1 else cur)), "created: twin reported under %s: %s" % (cur, src),
                         {"program": src, "media": media_for(p, jsx), "rules": [p[0]], "rule": p[0], "contexts_outermost_first": cur, "original_chain": list(ch)}))
    all_programs = [c for c in cases[::2]]
    stats["sweep:context-only programs"] = n_sweep
    stats["sweep:unparsable"] = n_sweep_unparsable
    return dict(own={k: sorted(v) for k, v in own.items()}, interactions=_group_interactions(inter), base=base, bad_pairs=bad_pairs, single=single, findings=findings, stats=stats, excl=excl, dist=dist,
                composed_non_neutral=composed_non_neutral, from_tests=from_tests, programs=all_programs, nonrec=nonrec)


def coq_context_free_rules():
    """the rule codes of `context_free_rules` in coq/Traverse/TableFacts.v"""
    src = lib.strip_comments(open(os.path.join(lib.COQ, "Traverse", "TableFacts.v")).read())
    m = re.search(r"Definition\s+context_free_rules\s*:\s*list str\s*:=\s*codes\s*\[(.*?)\]\s*\.", src, flags=re.S)
    return sorted(re.findall(r'"([^"]+)"', m.group(1))) if m else None


def function_kind_family(ctx, prefix="C08", only_rules=None):
    """(g) function kinds -- "nested functions of every kind": every function-like wrapper with the same async/generator flags must
    give the verdict of the plain function expression, as boundary and as container.  only_rules: restrict to these rule codes
    (C10 / C11 run it for the rules that read the control-flow analysis)."""
    # ---------------------------------------------------------------- (g) function kinds: "nested functions of every kind"
    # every function-like wrapper with the same async/generator flags must give the verdict of the plain function expression
    FK = []   # (name, pre, suf, async, generator)
    for a in (False, True):
        for g in (False, True):
            A, G = ("async " if a else ""), ("*" if g else "")
            FK += [("fn-decl", "%sfunction%s w() { " % (A, G), " }", a, g),
                   ("fn-expr", "(%sfunction%s () { " % (A, G), " });", a, g),
                   ("class-method", "class K { %s%sm() { " % (A, G), " } }", a, g),
                   ("static-method", "class K { static %s%sm() { " % (A, G), " } }", a, g),
                   ("private-method", "class K { %s%s#m() { " % (A, G), " } }", a, g),
                   ("class-expr-method", "x = class { %s%sm() { " % (A, G), " } };", a, g),
                   ("object-method", "x = { %s%sm() { " % (A, G), " } };", a, g),
                   ("object-computed-method", "x = { %s%s[k]() { " % (A, G), " } };", a, g),
                   ("object-fn-prop", "x = { m: %sfunction%s () { " % (A, G), " } };", a, g),
                   ("export-default-fn", "export default %sfunction%s () { " % (A, G), " }", a, g)]
            if not g:
                FK += [("arrow", "(%s() => { " % A, " });", a, g),
                       ("object-arrow-prop", "x = { m: %s() => { " % A, " } };", a, g),
                       ("class-field-arrow", "class K { f = %s() => { " % A, " }; }", a, g)]
    FK += [("getter", "x = { get g() { ", " } };", False, False), ("setter", "x = { set s(v) { ", " } };", False, False),
           ("class-getter", "class K { get g() { ", " } }", False, False), ("class-setter", "class K { set s(v) { ", " } }", False, False),
           ("constructor", "class K { constructor() { ", " } }", False, False)]
    # (rule, outer pre, outer suf, inner statement, needs async, needs generator, wrappers excluded by the rule's own specification)
    FKT = [("no-top-level-await", "", "", "await x;", True, None, ()),
           ("no-top-level-await", "", "", "for await (const a of b) {}", True, None, ()),
           ("no-await-in-sync-fn", "", "", "await x;", True, None, ()),
           ("no-await-in-sync-fn", "async function o() { ", " }", "await x;", False, False, ()),
           ("no-sync-fn-in-async-fn", "", "", "Deno.readTextFileSync(\"a\");", None, None, ()),
           ("no-await-in-loop", "async function o() { for (;;) { ", " } }", "await x;", True, None, ()),
           ("no-await-in-loop", "", "", "for (;;) { await x; }", True, None, ()),
           ("no-unsafe-finally", "function o() { try {} finally { ", " } }", "return 1;", None, None, ()),
           ("no-unsafe-finally", "", "", "try {} finally { return 1; }", None, None, ()),
           ("no-setter-return", "x = { set s(v) { ", " } };", "return 1;", None, None, ("setter", "class-setter")),
           ("getter-return", "x = { get g() { ", " } };", "return 1;", None, None, ()),
           ("getter-return", "", "", "x = { get g() { h(); } };", None, None, ("getter", "class-getter")),   # the wrapper getter has no return either
           ("getter-return", "x = { get g() { ", " return 1; } };", "return;", None, None, ("getter", "class-getter")),
           ("no-this-before-super", "class A extends B { constructor() { ", " super(); } }", "this.x;", None, None, ()),
           ("constructor-super", "class A extends B { constructor() { ", " } }", "super();", None, None, "all-but-none"),
           ("require-yield", "function* o() { ", " }", "yield 1;", None, True, ()),
           ("require-await", "async function o() { ", " }", "await x;", True, None, ()),
           ("no-unreachable", "function o() { return 1; ", " }", "h();", None, None, ("fn-decl",)),   # the rule never reports a function DECLARATION (hoisted): specification
           ("no-unreachable", "", "", "return 1; h();", None, None, ()),
           ("no-unreachable", "function o() { ", " h(); }", "return 1;", None, None, ()),
           ("no-unreachable", "function o() { ", " h(); }", "throw e;", None, None, ()),
           ("no-unreachable", "function o() { for (;;) { ", " } h(); }", "return 1;", None, None, ()),
           ("getter-return", "x = { get g() { ", " } };", "throw e;", None, None, ()),
           ("no-fallthrough", "switch (a) { case 1: ", " case 2: break; }", "throw e;", None, None, ()),
           ("no-fallthrough", "switch (a) { case 1: ", " case 2: break; }", "return 1;", None, None, ()),
           ("no-inner-declarations", "", "", "if (c) { function inner() {} }", None, None, ()),
           ("no-inner-declarations", "if (c) { ", " }", "function inner() {}", None, None, ("fn-decl",)),   # the wrapper declaration is itself inner there
           ("no-arguments", "", "", "arguments;", None, None, ()) if False else None,
           ("no-invalid-regexp", "", "", "new RegExp('[');", None, None, ()),
           ("no-empty", "", "", "if (a) {}", None, None, ()),
           ("no-var", "", "", "var v = 1;", None, None, ()),
           ("prefer-const", "", "", "let pc = 1; h(pc);", None, None, ())]
    FKT = [t for t in FKT if t and t[6] != "all-but-none" and (only_rules is None or t[0] in only_rules)]
    gcases, gmeta = [], []
    for ti, (rule, opre, osuf, inner, na, ng, excl) in enumerate(FKT):
        for (wname, wpre, wsuf, wa, wg) in FK:
            if (na is not None and wa != na) or (ng is not None and wg != ng) or wname in excl:
                continue
            src = opre + wpre + inner + wsuf + osuf
            gcases.append({"src": src, "media": "ts", "rules": [rule]})
            gmeta.append((ti, wname, wa, wg, len(opre.encode()), len(wpre.encode()), len(inner.encode()), len(wsuf.encode()), src))
    gres = run_lint(gcases)
    def _norm(d, o, lw, li, ls):
        def pos(q):
            if q < o: return ("o", q)
            if q < o + lw: return ("w", 0)
            if q <= o + lw + li: return ("i", q - o - lw)
            if q <= o + lw + li + ls: return ("w", 1)
            return ("a", q - (o + lw + li + ls))
        return sorted((c, pos(s0), pos(e0), m) for c, s0, e0, m, h in d)
    base = {}
    for (ti, wname, wa, wg, o, lw, li, ls, src), r0 in zip(gmeta, gres):
        if wname == "fn-expr":
            d = rule_diags(r0, FKT[ti][0])
            if d is not None:
                base[ti, wa, wg] = _norm(d, o, lw, li, ls)
    n_g = n_g_ok = 0
    for (ti, wname, wa, wg, o, lw, li, ls, src), r0 in zip(gmeta, gres):
        d = rule_diags(r0, FKT[ti][0])
        if d is None or (ti, wa, wg) not in base:
            continue
        n_g += 1
        got, want = _norm(d, o, lw, li, ls), base[ti, wa, wg]
        if got == want:
            n_g_ok += 1
        else:
            verdict = "hidden" if len(got) < len(want) else "created" if len(got) > len(want) else "moved"
            ctx.violation("%s.%s:%s:function-kind:%s" % (prefix, verdict, FKT[ti][0], wname),
                          "the verdict inside a %s differs from the verdict inside a function expression with the same async/generator flags: %s" % (wname, src),
                          {"program": src, "rule": FKT[ti][0], "expected_normalised": want, "got_normalised": got})
    ctx.correspondence("function kinds: %d function-like wrappers (declarations, expressions, arrows, class/object/private/static/computed methods, accessors, constructors, "
                       "field arrows, export default; async and generator variants) give the verdict of the plain function expression, as boundary and as container" % len(FK),
                       n_g, n_g_ok, [], "non-trivial := confirmed prediction; positions normalised relative to outer text / wrapper / inner statement")


@register("C08")
def c08(ctx):
    ctx.assumptions += [
        "C08 is PARTIAL: 'the verdict of the rule depends only on the local piece of syntax' (equivariant / neutral in Traverse/VisitTraverse.v) is an assumption about each rule listed in context_free_rules; what is proved is the traversal mechanism (swc Visit with overrides; the generic Handler driver with the stop flag) and, per run, the generated-table obligations that instantiate its hypotheses",
        "swc's generated default `visit_*` methods visit every child in order, `node.children()` of deno_ast::view yields every child, and `noop_visit_type!()` only disables pure type syntax (modelled, not verified; no hole of the nesting differential is inside a type)",
        "the translator translate/gen_visit_table.py is a token-level scanner: unconditional `<param>.visit_children_with(self)` at the top level of the body with no earlier return/? => recurses; no visit call at all => does not; everything else is unknown and fails the obligation unless it is in the commented, body-hash-pinned allow-list of the translator (entries justified by reading the code)",
        "ancestor walks (Traverse/AncestorWalk.v): a path is the list of the KINDS of the ancestors; the translator translate/gen_ancestor_walks.py is a token-level scanner -- a function is an ancestor walk iff its own text contains `.parent()`/`.ancestors()`, its boundary set is the set of function-like view kinds its body mentions (read once per walk, pinned by sha1: every such mention is an unconditional stop; ClassProp/PrivateProp of no-this-before-super stop iff the start is in the initializer); which constructs a rule must stop at (categories async / function-root / this / return) is a judgement recorded in the translator and, independently, in category_constructs; computed keys and parameter defaults are not separate constructs (a parameter default meets the chain without its BlockStmt)",
        "the order in which one rule pushes its diagnostics (pre- vs post-order) is not modelled: the pipeline sorts by position afterwards (C02/C03)",
        "HandlerTraverse: the number and order of handler calls is not observable through the public API; validated are the model's observable consequences (no `assert!(!stop_traverse)` panic on any generated program with all rules on one shared Context; Handler based rules report nested constructs exactly once at shifted positions) and, textually on every run, the shape of Traverse::traverse / TraverseFlow and the absence of stop_traverse in any on_exit_node",
    ]
    # ---------------------------------------------------------------- (a) translator
    try:
        table = gen_visit_table.generate()
        ctx.obligation("translator: coq/Gen/VisitTable.v regenerated from src/rules/*.rs (+ control_flow/mod.rs, deno_ast scopes.rs, handler.rs, context.rs): "
                       "%d overridden visit methods in %d visitors, %d Handler impls" % (
                           len(table["visit_table"]), len({(r["rule"], r["visitor"]) for r in table["visit_table"]}), len(table["handler_table"])),
                       len(table["visit_table"]) > 50 and len(table["handler_table"]) > 50 and len(table["analyses_found"]) == 2,
                       "suspiciously small table or a dependency analysis source not found: %s" % table["analyses_found"])
    except Exception as e:   # noqa
        ctx.obligation("translator: coq/Gen/VisitTable.v regenerated from src/rules/*.rs", False, repr(e))
        return
    # ancestor walks (`.parent()` loops that look for a function boundary): coq/Gen/AncestorWalks.v, obligations in Traverse/AncestorWalk.v
    try:
        aw = gen_ancestor_walks.generate()
        aw_problems = gen_ancestor_walks.problems(aw)
        fb = [r for r in aw["walks"] if r["cls"] == "function-boundary"]
        ctx.obligation("translator: coq/Gen/AncestorWalks.v regenerated from src/**/*.rs (+ dprint-swc-ext view/generated.rs): %d ancestor walks in %d rules, "
                       "%d of them function-boundary walks, every walk classified and its text unchanged since it was read, every function-boundary "
                       "walk meets the chain of each required construct" % (len(aw["walks"]), len({r["rule"] for r in aw["walks"]}), len(fb)),
                       not aw_problems and len(fb) >= 7, "\n".join(aw_problems) or "suspiciously few function-boundary walks: %d" % len(fb))
        for r in fb:
            for g in r["stale_gaps"]:
                ctx.notes.append("ancestor walk %s %s now stops at `%s` (known gap %s is stale): remove it from CLASSIFIED of translate/gen_ancestor_walks.py "
                                 "and from known_gaps of coq/Traverse/AncestorWalk.v" % (r["rule"], r["fn"], g, r["gaps"][g]))
    except Exception as e:   # noqa
        ctx.obligation("translator: coq/Gen/AncestorWalks.v regenerated from src/**/*.rs", False, repr(e))
    claimed = coq_context_free_rules()
    tested = sorted({p[0] for p in PAIRS})
    ctx.obligation("context_free_rules of Traverse/TableFacts.v == rules exercised by the nesting differential (%d rules, %d constructs)" % (len(tested), len(PAIRS)),
                   claimed == tested, "only in Coq: %s; only in the differential: %s" % (sorted(set(claimed or []) - set(tested)), sorted(set(tested) - set(claimed or []))))
    # ---------------------------------------------------------------- (b) proofs
    ctx.proof_stage("C08", ["Traverse/VisitTraverse.vo", "Traverse/HandlerTraverse.vo", "Traverse/TableFacts.vo", "Traverse/AncestorWalk.vo"])
    cf = set(tested)
    unknown_cf = [(r["rule"], r["visitor"], r["method"], r["reason"]) for r in table["visit_table"] if r["rule"] in cf and r["cls"] == "unknown"]
    nonrec_cf = sorted({(r["rule"], r["method"]) for r in table["visit_table"] if r["rule"] in cf and r["cls"] == "none"})
    for rule, method in nonrec_cf:
        ctx.notes.append("non-recursing override of a context-free rule in the generated table (breaks C08_context_free_rules_recurse): %s %s" % (rule, method))
    # ---------------------------------------------------------------- (c) nesting differential
    r = explore(ctx, table, ctx.tier, ctx.seed)
    for bp in r["bad_pairs"]:
        ctx.obligation("baseline: construct of %s reports and its twin is silent" % bp["pair"][0], False, json.dumps(bp)[:1500])
        # ... and it is a property-level failure with a concrete program: the catalogue's construct, not nested at all, is not reported (or its twin is)
        pr = bp["pair"]
        cons_rep = [d for d in (bp.get("construct") or {}).get("ok", []) if d.get("code") == pr[0]]
        twin_rep = [d for d in (bp.get("twin") or {}).get("ok", []) if d.get("code") == pr[0]]
        if "ok" in (bp.get("construct") or {}) and not cons_rep:
            src0 = filler_for(pr[1], pr[2], "S")
            ctx.violation("C08.hidden:%s:not-nested" % pr[0], "the catalogue's offending construct is not reported even at the top level: %s" % src0, {"program": src0, "rule": pr[0], "media": pair_media(pr)})
        if twin_rep:
            src0 = filler_for(pr[1], pr[3], "S")
            ctx.violation("C08.created:%s:not-nested" % pr[0], "the catalogue's neutral twin is reported at the top level: %s" % src0, {"program": src0, "rule": pr[0], "media": pair_media(pr), "got": twin_rep})
    stats = r["stats"]
    n_eval = sum(v for k, v in stats.items())
    n_ok = stats["depth1:ok"] + stats["deep:ok"] + stats["sweep:context-only programs"] - stats["sweep:unparsable"]
    by_cls = collections.OrderedDict()
    for cls, text, replay in r["findings"]:
        by_cls.setdefault(cls, []).append((text, replay))
    for cls, items in by_cls.items():
        # the smallest program of the class as the replay
        text, replay = min(items, key=lambda x: len(x[1]["program"]))
        ctx.violation(cls, "%s  (%d programs of this class)" % (text, len(items)), replay)
    # a hidden report in a rule whose visitor the table calls complete, or no failure for a known non-recursing override,
    # is a disagreement between the generated table and the implementation
    observed = {tuple(c.split(":")[1:3]) for c in by_cls if c.startswith("C08.hidden:")}
    unexplained = sorted(c for c in by_cls if c.startswith("C08.hidden:") and ":under-" in c)
    unobserved = [k for k in nonrec_cf if k not in observed]
    ctx.correspondence("generated visit table vs implementation: hidden reports <-> non-recursing overrides", len(nonrec_cf) + len(by_cls), len(observed),
                       [{"unexplained_hidden_class": c, "example": by_cls[c][0][0]} for c in unexplained],
                       "every `hidden` failure is attributed to a non-recursing override (of the rule or of an analysis it consults) that lies on the spine of a context "
                       "which hides the construct on its own; unattributable ones are mismatches.  Non-recursing overrides never observed to hide anything: %s" % unobserved)
    if unobserved:
        ctx.notes.append("non-recursing overrides of context-free rules for which the differential has no hiding context yet: %s" % unobserved)
    ctx.correspondence("nesting differential: context[construct] == shift(construct alone), context[twin] silent", n_eval, n_ok, [],
                       "%d (rule, construct, twin) triples of %d rules (%d constructs literally from the repo's tests) x %d one-hole contexts, all at depth 1 + "
                       "random well-typed chains of depth 2-4 over the contexts that are individually neutral for the pair%s; exact comparison of "
                       "(code, start, end, message, hint) after shifting by the byte offset of the hole; non-trivial := prediction confirmed on a program that embeds a reporting construct" % (
                           len(PAIRS), len(tested), r["from_tests"], len(CONTEXTS), " + all depth-2 chains + depth<=4 exhaustive over override-related contexts" if ctx.tier == "thorough" else ""),
                       samples=[{"program": f[2]["program"], "class": f[0]} for f in r["findings"][:2]],
                       distribution=dict(r["dist"], **{k: v for k, v in stats.items()}))
    # ---------------------------------------------------------------- (d) very deep nesting ("to any depth")
    deep_ctx = ["call-argument", "array-element", "object-value", "conditional-branch", "logical-and"]
    deep_ctx = [k for k in deep_ctx if k in CTX]
    dcases, dmeta = [], []
    drng = random.Random(ctx.seed + 808)
    dpairs = [p for p in PAIRS if p[1] == "E"]
    for p in (drng.sample(dpairs, min(len(dpairs), 14)) if ctx.tier == "quick" else dpairs):
        for depth in (8, 24, 48, 96, 160):
            k = drng.choice(deep_ctx)
            chain = [k] * depth
            for which, text in (("construct", p[2]), ("twin", p[3])):
                src, off, jsx = assemble(chain, filler_for("E", text, "E"))
                dcases.append({"src": src, "media": media_for(p, jsx), "rules": [p[0]]})
                dmeta.append((p, depth, k, which, off))
        # the construct alone, as the baseline
        src, off, jsx = assemble([], filler_for("E", p[2], "S"))
        dcases.append({"src": src, "media": media_for(p, False), "rules": [p[0]]})
        dmeta.append((p, 0, None, "alone", off))
    dres = run_lint(dcases)
    base = {}
    for (p, depth, k, which, off), r0 in zip(dmeta, dres):
        if which == "alone":
            base[p] = (rule_diags(r0, p[0]), off)
    ndeep_ok = 0
    for (p, depth, k, which, off), r0 in zip(dmeta, dres):
        if which == "alone" or base.get(p, (None, 0))[0] is None:
            continue
        got = rule_diags(r0, p[0])
        if got is None:
            continue   # too deep for the parser: not this property's business (C01 covers crashes)
        b, boff = base[p]
        want = shifted(b, off - boff) if which == "construct" else []
        # the alone-program wraps the expression as a statement `(expr);`, the nested one as `(expr)`: same offsets inside
        if got == want:
            ndeep_ok += 1
        else:
            ctx.violation("C08.%s:%s:deep-nesting" % ("hidden" if which == "construct" and len(got) < len(want) else "created" if len(got) > len(want) else "moved", p[0]),
                          "%s nested %d times in %s: expected %d diagnostics at shifted positions, got %s" % (which, depth, k, len(want), got[:3]),
                          {"program": dcases[dmeta.index((p, depth, k, which, off))]["src"][:4000], "rule": p[0], "depth": depth, "context": k})
    ctx.correspondence("very deep nesting: the same context repeated 8..160 times around construct and twin", len(dcases), ndeep_ok, [],
                       "expression constructs of a sample of rules inside %s repeated 8/24/48/96/160 times; exact positions; non-trivial := confirmed prediction" % deep_ctx)
    # ---------------------------------------------------------------- (e) same-operator chains and inside-out embeddings
    import re as _re
    ecases, emeta = [], []
    for p in PAIRS:
        if p[1] != "E":
            continue
        m = _re.match(r"^(.+?) (==|===|!=|in|<|>=|&&|\|\|) (.+)$", p[2])
        if not m or "(" in p[2] or "/" in p[2]:
            continue
        op = m.group(2)
        for src in ("%s %s c;" % (p[2], op), "f(%s %s c %s d);" % (p[2], op, op), "x = `${%s %s c}`;" % (p[2], op)):
            off = src.index(p[2])
            ecases.append({"src": src, "media": media_for(p, False), "rules": [p[0]]})
            emeta.append(("chain", p, off, src))
        ecases.append({"src": p[2] + ";", "media": media_for(p, False), "rules": [p[0]]})
        emeta.append(("alone", p, 0, p[2] + ";"))
    # the offending STATEMENT lives inside an enclosing construct; neutral statement wrappers around it must not hide it
    INSIDE = [("no-unsafe-finally", "function io() { try { g(); } finally { ", " } }", "return 1;", "h();"),
              ("no-unsafe-finally", "function io() { try { g(); } finally { ", " } }", "throw e;", "h();"),
              ("no-setter-return", "({ set s(v) { ", " } });", "return 1;", "return;"),
              ("no-await-in-loop", "async function io() { for (;;) { ", " } }", "await x;", "x;"),
              ("no-inner-declarations", "function io() { if (c) { ", " } }", "function inner() {}", "h();")]
    WRAP = ["block", "if-consequent", "if-alternate", "labelled-block", "try-block", "catch-block", "finally-block", "switch-case-body"]
    WRAP = [w for w in WRAP if w in CTX]
    for (rule, pre, suf, stmt, twin) in INSIDE:
        for chain in [[]] + [[w] for w in WRAP] + [[a, b] for a in WRAP for b in WRAP if a != b][:: 3]:
            if rule == "no-inner-declarations" and chain:
                continue   # a wrapper changes what "inner" means for this rule: only the plain form is a regression probe
            for which, text in (("stmt", stmt), ("twin", twin)):
                inner, off, _ = assemble(chain, text)
                src = pre + inner + suf
                ecases.append({"src": src, "media": "ts", "rules": [rule]})
                emeta.append(("inside", (rule, which, tuple(chain)), len(pre.encode("utf8")) + off, src))
    # the offending EXPRESSION inside its enclosing construct, wrapped in every context that is not a function boundary
    INSIDE_E = [("no-await-in-loop", "async function io() { for (;;) { ", " } }", "await x", "x"),
                ("no-await-in-loop", "async function io() { while (h()) { ", " } }", "await x", "x"),
                ("no-await-in-loop", "async function io() { for (const q of it) { ", " } }", "await x", "x"),
                ("no-top-level-await", "", "", "await x", "x"),
                ("no-sync-fn-in-async-fn", "async function io() { ", " }", "Deno.readSync(1)", "Deno.read(1)"),
                ("no-await-in-sync-fn", "function io() { ", " }", "await x", "x"),
                ("no-this-before-super", "class A extends B { constructor() { ", " super(); } }", "this.x", "x"),
                ("no-this-before-super", "class A extends B { constructor() { ", " super(); } }", "super.m()", "x")]
    FN_WORDS = ("=>", "function", "class", "get ", "set ", "m(", "s(v", "constructor(", "static", "<A", "export", "@dec")
    NONFN = [k for k, c in CTX.items() if not any(w in c[3] + c[4] for w in FN_WORDS) and "top" not in c[6].split() and "tsx" not in c[6].split()]
    nf_e = [k for k in NONFN if CTX[k][1] == "E"]
    for (rule, pre, suf, ex, twin) in INSIDE_E:
        chains = [[k] for k in nf_e]
        rng_e = random.Random(ctx.seed * 7 + len(rule))
        for _ in range(40 if ctx.tier == "quick" else 400):
            ch = random_chain(rng_e, NONFN, "E", rng_e.choice([2, 3]))
            if ch:
                chains.append(ch)
        for chain in chains:
            if not chain_well_typed(chain, "E"):
                continue
            for which, text in (("stmt", ex), ("twin", twin)):
                inner, off, _ = assemble(chain, "(" + text + ")")
                src = pre + inner + suf
                ecases.append({"src": src, "media": "ts", "rules": [rule]})
                emeta.append(("inside", (rule, which, ("expr",) + tuple(chain)), len(pre.encode("utf8")) + off + 1, src))
    # re-entrancy: a clean instance of the SAME kind of construct sits inside a member of the offending construct and the
    # offending construct continues after it; expected = diagnostics without the nested instance, shifted behind the hole
    REENTRANT = [
        ("no-duplicate-case", "switch (a) { case 1: ", "switch (b) { case 2: break; case 3: break; }", " break; case 2: break; case 1: break; }"),
        ("no-duplicate-case", "switch (a) { case 1: ", "(() => { switch (b) { case 2: break; } })();", " break; case 2: break; case 1: break; }"),
        ("no-duplicate-case", "switch (a) { case 1: ", "switch (b) { case 2: break; case 3: break; }", " break; case 2: break; case 4: break; }"),
        ("no-fallthrough", "switch (a) { case 1: ", "switch (b) { case 2: break; }", " g(); case 2: break; }"),
        ("no-fallthrough", "switch (a) { case 1: ", "switch (b) { case 2: g(); break; case 3: break; }", " break; case 2: break; }"),
        ("no-case-declarations", "switch (a) { case 1: ", "switch (b) { case 2: { let y; } break; }", " let x; break; }"),
        ("no-dupe-else-if", "if (a) { ", "if (b) {} else if (c) {}", " } else if (b) {} else if (a) {}"),
        ("no-dupe-else-if", "if (a) { ", "if (b) {} else if (c) {}", " } else if (b) {} else if (c) {}"),
        ("no-dupe-keys", "x = { a: ", "{ b: 1, c: 2 }", ", b: 2, a: 3 };"),
        ("no-dupe-keys", "x = { a: ", "{ b: 1, c: 2 }", ", b: 2, c: 3 };"),
        ("no-dupe-class-members", "class A { foo() { ", "class B { bar() {} baz() {} }", " } bar() {} foo() {} }"),
        ("no-dupe-class-members", "class A { foo() { ", "class B { bar() {} baz() {} }", " } bar() {} baz() {} }"),
        ("no-dupe-args", "function f(a, b = ", "function (b, c) {}", ", a) {}"),
        ("constructor-super", "class A extends B { constructor() { ", "class C extends D { constructor() { super(); } }", " } }"),
        ("constructor-super", "class A extends B { constructor() { ", "class C { constructor() { } }", " super(); } }"),
        ("getter-return", "x = { get a() { ", "({ get b() { return 1; } });", " } };"),
        ("require-yield", "function* g() { k(); ", "function* h() { yield 1; }", " }"),
        ("require-yield", "function* g() { yield 0; ", "function* h() { yield 1; }", " }"),
        ("require-yield", "function* g() { yield 0; ", "(function* () { yield 1; });", " }"),
        ("no-this-before-super", "class A extends B { constructor() { ", "class C extends D { constructor() { super(); this.a; } }", " this.b; super(); } }"),
        ("no-unsafe-finally", "function f() { try {} finally { ", "try {} finally { g(); }", " return 1; } }"),
        ("no-this-before-super", "class A extends B { constructor() { ", "class C { x = this.y; }", " super(); } }"),
        ("no-this-before-super", "class A extends B { constructor() { ", "class C { #x = this.y; }", " super(); } }"),
        ("no-this-before-super", "class A extends B { constructor() { ", "class C { accessor x = this.y; }", " super(); } }"),
        ("no-this-before-super", "class A extends B { constructor() { ", "class C { static { this.y; } }", " super(); } }"),
        ("no-this-before-super", "class A extends B { constructor() { ", "class C { constructor() { this.y; } }", " super(); } }"),
        ("no-this-before-super", "class A extends B { constructor() { ", "class C { m() { this.y; } get g() { return this.y; } set s(v) { this.y = v; } }", " super(); } }"),
        ("no-this-before-super", "class A extends B { constructor() { ", "const o = { get a() { return this.y; }, set a(v) { this.y = v; }, m() { this.y; } };", " super(); } }"),
        ("no-this-before-super", "class A extends B { constructor() { ", "class C extends D { constructor() { super(); } }", " this.b; super(); } }"),
        ("no-this-before-super", "class A extends B { constructor() { ", "const o = { m() { super.m(); } };", " this.b; super(); } }"),
        ("no-inner-declarations", "function f() { if (a) { ", "(function () { function ok() {} });", " function bad() {} } }"),
        ("no-cond-assign", "if (a = ", "(b ? c : d)", ") {}"),
        ("no-unreachable", "function f() { return 1; ", "function g() { return 2; }", " h(); }"),
        ("no-empty", "if (a) { ", "", " } else { if (b) {} }"),
        # the same NAME used by the nested instance behind a function boundary (state keyed by name)
        ("no-unused-labels", "A: { ", "(function () { A: for (;;) { break A; } })();", " }"),
        ("no-unused-labels", "A: { ", "x = () => { A: for (;;) { break A; } };", " }"),
        ("no-unused-labels", "A: for (;;) { ", "class K { m() { A: for (;;) { break A; } } }", " }"),
        ("no-unused-labels", "A: for (;;) { ", "x = { get g() { A: for (;;) { continue A; } } };", " break A; }"),
        ("no-redeclare", "var a = 1; ", "function f() { var a = 2; }", " var a = 3;"),
        ("no-redeclare", "var a = 1; ", "x = (a) => { var b; };", " var a = 3;"),
        ("no-dupe-keys", "x = { a: ", "function () { return { a: 1, b: 2 }; }", ", b: 2, a: 3 };"),
        ("no-dupe-class-members", "class A { foo() { ", "return class { foo() {} bar() {} };", " } bar() {} foo() {} }"),
        ("no-dupe-args", "function f(a, b = ", "(a, b) => 0", ", a) {}"),
        ("no-func-assign", "function q() {} ", "function r(q) { q = 1; }", " q = 2;"),
        ("no-class-assign", "class Q {} ", "function r(Q) { Q = 1; }", " Q = 2;"),
        ("no-const-assign", "const c = 1; ", "function r(c) { c = 1; }", " c = 2;"),
        ("no-ex-assign", "try {} catch (e) { ", "(function (e) { e = 1; })();", " e = 2; }"),
    ]
    for (rule, pre, hole, suf) in REENTRANT:
        for which, text in (("with", hole), ("without", "")):
            src = pre + text + suf
            ecases.append({"src": src, "media": "ts", "rules": [rule]})
            emeta.append(("reent", (rule, pre, hole, suf, which), len(pre.encode("utf8")), src))
    eres = run_lint(ecases)
    reent = {}
    for (kind, key, off, src), r0 in zip(emeta, eres):
        if kind == "reent":
            reent[key] = (rule_diags(r0, key[0]), src)
    for (rule, pre, hole, suf) in REENTRANT:
        (dw, srcw), (do, _) = reent[(rule, pre, hole, suf, "with")], reent[(rule, pre, hole, suf, "without")]
        if dw is None or do is None:
            continue
        po, hl = len(pre.encode("utf8")), len(hole.encode("utf8"))
        want = sorted((c, s0 + (hl if s0 >= po else 0), e0 + (hl if e0 > po or (e0 == po and s0 >= po) else 0), m, h) for c, s0, e0, m, h in do)
        if dw != want:
            verdict = compare(want, dw) or "moved"
            ctx.violation("C08.%s:%s:re-entrant" % (verdict if verdict in ("hidden", "duplicated") else "created", rule),
                          "a clean nested instance of the same construct inside a member changes what is reported for the enclosing one: %s" % srcw,
                          {"program": srcw, "rule": rule, "expected": want, "got": dw})
    alone_d = {}
    for (kind, key, off, src), r0 in zip(emeta, eres):
        if kind == "alone":
            alone_d[key] = rule_diags(r0, key[0])
    n_e_ok = 0
    plain = {}
    for (kind, key, off, src), r0 in zip(emeta, eres):
        if kind == "inside" and key[2] == () and key[1] == "stmt":
            plain[key[0], src] = rule_diags(r0, key[0])
    for (kind, key, off, src), r0 in zip(emeta, eres):
        if kind == "chain":
            base = alone_d.get(key)
            got = rule_diags(r0, key[0])
            if base is None or got is None:
                continue
            want = shifted(base, off)
            if all(w in got for w in want):
                n_e_ok += 1
            else:
                ctx.violation("C08.hidden:%s:same-operator-chain" % key[0], "the construct as left operand of the same operator is not reported at its own location: %s" % src,
                              {"program": src, "rule": key[0], "expected_included": want, "got": got})
        elif kind == "inside":
            rule, which, chain = key
            got = rule_diags(r0, rule)
            if got is None:
                continue
            if which == "stmt":
                hit = [g for g in got if g[1] <= off < max(g[2], g[1] + 1) or g[1] == off]
                if hit:
                    n_e_ok += 1
                else:
                    ctx.violation("C08.hidden:%s:inside-out:%s" % (rule, "/".join(chain) or "plain"),
                                  "the offending statement wrapped in neutral statement contexts inside its enclosing construct is not reported: %s" % src,
                                  {"program": src, "rule": rule, "offset": off, "got": got})
            else:
                if got:
                    ctx.violation("C08.created:%s:inside-out:%s" % (rule, "/".join(chain) or "plain"), "the neutral twin is reported: %s" % src, {"program": src, "rule": rule, "got": got})
                else:
                    n_e_ok += 1
    function_kind_family(ctx)
    # ---------------------------------------------------------------- (i) fixed verdicts for rules whose offence IS a context (no sweep possible)
    FIXED = [("no-inner-declarations", "function o1(cb = () => {}) { if (c) { function inner() {} } }", 1), ("no-inner-declarations", "function o2(cb = () => {}) { function inner() {} var v; }", 0),
             ("no-inner-declarations", "function o3(cb = function () {}) { if (c) { var v3; } }", 1), ("no-inner-declarations", "function o4(cb = function () { var w; }) { var v4; function inner() {} }", 0),
             ("no-inner-declarations", "class K8 { [(() => 1)()]() { function inner() {} var v; } }", 0), ("no-inner-declarations", "class K9 { [(() => 1)()]() { if (c) { function inner() {} } } }", 1),
             ("no-inner-declarations", "x = { get [(() => 'k')()]() { function inner() {} return 1; } };", 0), ("no-inner-declarations", "x = { set [(() => 'k')()](v) { if (v) { var q; } } };", 1),
             ("no-inner-declarations", "const a1 = (p = () => { function deep() {} }) => { function inner() {} };", 0), ("no-inner-declarations", "function o5(p = class { static { function s() {} } }) { function inner() {} }", 1),   # `s`: a static block is not a function root for this rule
             ("no-inner-declarations", "function o6({ k = () => {} }, [l = function () {}]) { function inner() {} if (c) { function bad() {} } }", 1),
             ("no-inner-declarations", "class D1 { @dec(() => {}) m() { function inner() {} } }", 0)]
    fres = run_lint([{"src": src, "media": "ts", "rules": [rule]} for rule, src, n in FIXED])
    n_f = n_f_ok = 0
    for (rule, src, n), r0 in zip(FIXED, fres):
        d = rule_diags(r0, rule)
        if d is None:
            continue
        n_f += 1
        if len(d) == n:
            n_f_ok += 1
        else:
            ctx.violation("C08.%s:%s:fixed-verdict" % ("created" if len(d) > n else "hidden", rule), "%d diagnostic(s), %d expected: %s" % (len(d), n, src), {"program": src, "rule": rule, "got": d, "expected_count": n})
    ctx.correspondence("fixed verdicts: function-like expressions in parameter defaults / computed keys / decorators of the function whose body is judged", n_f, n_f_ok, [], "count per program")
    # ---------------------------------------------------------------- (h) function forms: the offending FUNCTION in every form
    FORMS = [("fn-decl", "%sfunction%s w(%s) { %s }"), ("fn-expr", "x = %sfunction%s (%s) { %s };"), ("arrow", "x = %s(%s) => { %s };"),
             ("class-method", "class K { %s%sm(%s) { %s } }"), ("static-method", "class K { static %s%sm(%s) { %s } }"), ("private-method", "class K { %s%s#m(%s) { %s } }"),
             ("class-expr-method", "x = class { %s%sm(%s) { %s } };"), ("object-method", "x = { %s%sm(%s) { %s } };"), ("object-computed-method", "x = { %s%s[k](%s) { %s } };"),
             ("object-fn-prop", "x = { m: %sfunction%s (%s) { %s } };"), ("export-default-fn", "export default %sfunction%s (%s) { %s }"),
             ("class-field-arrow", "class K { f = %s(%s) => { %s }; }"), ("export-fn", "export %sfunction%s w(%s) { %s }"), ("iife", "(%sfunction%s (%s) { %s })();"),
             ("constructor", "class K { constructor(%s) { %s } }"), ("object-setter", "x = { set s(%s) { %s } };"), ("class-setter", "class K { set s(%s) { %s } }"),
             ("object-getter", "x = { get g() { %s } };")]
    # (rule, async prefix, generator star, parameters, body)
    FORMT = [("require-await", "async ", "", "", "g();"), ("require-yield", "", "*", "", "g();"), ("no-dupe-args", "", "", "a, a", "g();"),
             ("default-param-last", "", "", "a = 1, b", "g();"), ("no-empty", "", "", "", "if (a) {}"), ("no-inner-declarations", "", "", "", "if (a) { var v; }"),
             ("no-async-promise-executor", "", "", "", "new Promise(async () => {});"), ("no-unreachable", "", "", "", "return; g();"),
             ("no-self-assign", "", "", "a", "a = a;"), ("no-func-assign", "", "", "", "function q() {} q = 1;"), ("no-ex-assign", "", "", "", "try {} catch (e) { e = 1; }"),
             ("no-const-assign", "", "", "", "const c = 1; c = 2;"), ("no-cond-assign", "", "", "a", "if (a = 1) {}"), ("no-debugger", "", "", "", "debugger;"),
             ("no-fallthrough", "", "", "a", "switch (a) { case 1: g(); case 2: break; }"), ("no-unsafe-finally", "", "", "", "try {} finally { return 1; }"),
             ("no-redeclare", "", "", "", "var r = 1; var r = 2;"), ("no-shadow-restricted-names", "", "", "undefined", "g();"), ("no-var", "", "", "", "var z = 1;"),
             ("prefer-const", "", "", "", "let pc = 1; g(pc);"), ("no-delete-var", "", "", "a", "delete a;"), ("no-unused-labels", "", "", "", "lbl: for (;;) {}")]
    hcases, hmeta = [], []
    for (rule, a, g, params, body) in FORMT:
        for (name, tpl) in FORMS:
            if name in ("constructor", "object-setter", "class-setter", "object-getter"):
                if a or g:
                    continue
                if name == "object-getter":
                    if params:
                        continue
                    src = tpl % body
                else:
                    if name != "constructor" and (not params or "," in params):
                        prm = "v" if not params else None
                    else:
                        prm = params
                    if prm is None:
                        continue
                    src = tpl % (prm, body)
            elif "=>" in tpl:
                if g:
                    continue
                src = tpl % (a, params, body)
            else:
                src = tpl % (a, g, params, body)
            hcases.append({"src": src, "media": "ts", "rules": [rule]})
            hmeta.append((rule, name, src))
    hres = run_lint(hcases)
    hbase = {}
    for (rule, name, src), r0 in zip(hmeta, hres):
        if name == "fn-expr":
            d = rule_diags(r0, rule)
            hbase[rule] = None if d is None else len(d)
    n_h = n_h_ok = 0
    for (rule, name, src), r0 in zip(hmeta, hres):
        d = rule_diags(r0, rule)
        if d is None or hbase.get(rule) is None:
            continue
        n_h += 1
        if len(d) == hbase[rule]:
            n_h_ok += 1
        else:
            ctx.violation("C08.%s:%s:function-form:%s" % ("hidden" if len(d) < hbase[rule] else "created", rule, name),
                          "%d diagnostic(s) for the %s form, %d for the function expression form: %s" % (len(d), name, hbase[rule], src),
                          {"program": src, "rule": rule, "got": d, "expected_count": hbase[rule]})
    ctx.correspondence("function forms: an offending parameter list / body gets the same number of diagnostics in each of %d function-like forms" % len(FORMS),
                       n_h, n_h_ok, [], "non-trivial := confirmed prediction (count equal to the function expression form)")
    # ---------------------------------------------------------------- (f) siblings: state carried from one construct to the next
    scases, smeta = [], []
    def _wrapS(x, i):
        pre = "function s%d() { " % i
        return pre + x + " }", len(pre)
    for pi, p in enumerate(PAIRS):
        rule, kind, cons, twin = p[0], p[1], p[2], p[3]
        media = media_for(p, False)
        for tag, x in (("C", cons), ("T", twin)):
            scases.append({"src": filler_for(kind, x, "S") if kind == "E" else x, "media": media, "rules": [rule]})
            smeta.append((pi, "alone", tag, None))
        for combo in ("TC", "CT", "CC", "TCT", "CTC"):
            parts, offs, src = [], [], ""
            for i, ch in enumerate(combo):
                x = cons if ch == "C" else twin
                if kind == "E":
                    piece, o = "(" + x + ");", 0
                else:
                    piece, o = _wrapS(x, i)
                offs.append(len(src.encode("utf8")) + o)
                src += piece + "\n"
            scases.append({"src": src, "media": media, "rules": [rule]})
            smeta.append((pi, "combo", combo, offs))
        if kind == "S":
            for i, (tag, x) in enumerate((("C", cons), ("T", twin))):
                w, o = _wrapS(x, 0)
                scases.append({"src": w, "media": media, "rules": [rule]})
                smeta.append((pi, "wrapped", tag, o))
    sres = run_lint(scases)
    alone, wrapped_ok = {}, {}
    for (pi, what, tag, o), r0 in zip(smeta, sres):
        if what == "alone":
            alone[pi, tag] = rule_diags(r0, PAIRS[pi][0])
    for (pi, what, tag, o), r0 in zip(smeta, sres):
        if what == "wrapped":
            d = rule_diags(r0, PAIRS[pi][0])
            wrapped_ok[pi, tag] = d is not None and alone.get((pi, tag)) is not None and d == shifted(alone[pi, tag], o)
    n_s, n_s_ok = 0, 0
    for (pi, what, combo, offs), r0 in zip(smeta, sres):
        if what != "combo":
            continue
        p = PAIRS[pi]
        if alone.get((pi, "C")) is None or alone.get((pi, "T")) is None:
            continue
        if p[1] == "S" and not (wrapped_ok.get((pi, "C")) and wrapped_ok.get((pi, "T"))):
            continue     # the construct is not context free under a function body already (judged by the depth-1 family)
        got = rule_diags(r0, p[0])
        if got is None:
            continue
        want = sorted(sum((shifted(alone[pi, ch], o) for ch, o in zip(combo, offs)), []))
        n_s += 1
        if got == want:
            n_s_ok += 1
        else:
            verdict = compare(want, got) or "moved"
            ctx.violation("C08.%s:%s:siblings" % (verdict if verdict in ("hidden", "duplicated") else "created", p[0]),
                          "diagnostics of a sequence of independent constructs differ from the union of their own diagnostics: %s" % scases[smeta.index((pi, what, combo, offs))]["src"],
                          {"program": scases[smeta.index((pi, what, combo, offs))]["src"], "rule": p[0], "expected": want, "got": got})
    ctx.correspondence("siblings: sequences construct/twin (TC, CT, CC, TCT, CTC), each in its own function scope or expression statement, report the union of their own diagnostics",
                       n_s, n_s_ok, [], "non-trivial := confirmed prediction")
    ctx.correspondence("same-operator chains (construct as unparenthesised left operand) and inside-out embeddings (offending statement wrapped inside its enclosing construct)",
                       len(ecases), n_e_ok, [], "non-trivial := confirmed prediction")
    ctx.extra["c08"] = {
        "outcomes": dict(stats),
        "excluded_non_neutral_depth1": {k: sorted(set(v)) for k, v in r["excl"]["non_neutral"].items()},
        "excluded_unparsable_depth1": {k: sorted(set(v)) for k, v in r["excl"]["unparsable"].items()},
        "excluded_by_design": {k: sorted(set(v))[:20] for k, v in r["excl"]["by_design"].items()},
        "by_design_rules": {"%s under %s" % k: v for k, v in BY_DESIGN_HIDDEN.items()},
        "excluded_non_neutral_composed": {"count": stats["deep:non-neutral"], "by_rule": dict(collections.Counter(x[0] for x in r["composed_non_neutral"])),
                                          "examples": [{"rule": a, "contexts": list(b), "twin_program": c} for a, b, c in r["composed_non_neutral"][:12]]},
        "failure_classes": {c: len(v) for c, v in by_cls.items()},
        "context_interactions_found": r["interactions"],
        "contexts_reporting_alone": r["own"],
        "expected_non_neutral": {"%s under %s" % k: v for k, v in EXPECTED_NON_NEUTRAL.items()},
        "expected_interactions": [list(x) for x in EXPECTED_INTERACTIONS],
        "non_recursing_overrides_of_context_free_rules": nonrec_cf,
        "unknown_overrides_of_context_free_rules": unknown_cf,
        "stoppers": [(h["rule"], h["handler"], h["stops"]) for h in table["handler_table"] if h["stops"]],
        "known_classes_documented": PROPOSED_KNOWN,
    }
    # ---------------------------------------------------------------- HandlerTraverse: observable consequences
    rng = random.Random(ctx.seed + 88)
    progs = r["programs"]
    sample = rng.sample(progs, min(len(progs), 4000 if ctx.tier == "quick" else 40000))
    flag_cases = [{"src": c["src"], "media": c["media"], "rules": "all"} for c in sample]
    flag_cases += [{"src": c["src"], "media": c["media"], "rules": ["camelcase", "require-await", "no-this-before-super"]} for c in sample[:2000]]
    fres = run_lint(flag_cases)
    asserts = [(c, x) for c, x in zip(flag_cases, fres) if "panic" in (x or {}) and ("stop_traverse" in str(x.get("panic")) or "context.rs" in str(x.get("at")))]
    other_panics = collections.Counter(str(x.get("at")) for x in fres if "panic" in (x or {}))
    for c, x in asserts[:3]:
        ctx.violation("C08.traverse-flag-assert", "assert_traverse_init fired: %s" % c["src"][:200], {"case": c, "result": x})
    ctx.correspondence("HandlerTraverse flag invariant: no TraverseFlow assertion on nested programs (all rules on one Context; the stopping / re-entering rules alone)",
                       len(flag_cases), sum(1 for x in fres if "ok" in (x or {})), [],
                       "observable consequence of traverse_flag_invariant + handlers_respect_flag_protocol; the call sequence itself is not observable. Other panics seen (C01's business): %s" % dict(other_panics))
